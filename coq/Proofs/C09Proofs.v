(* Proofs for C09: the model of BranchCascade (Model/Cascade.v) against the specification written from
   the statement (Spec/C09Spec.v), for every number of branches and tags and every discovery order. *)
From Coq Require Import List String Ascii Bool ZArith NArith Lia Permutation Sorted.
Require Import BertE.Generated.Facts_C09 BertE.Model.Cascade BertE.Spec.C09Spec.
Import ListNotations.
Open Scope string_scope.
Open Scope list_scope.
Open Scope Z_scope.

(* ======================================================================================== *)
(* 0. Insertion sort with a total, transitive, antisymmetric boolean order: the result only   *)
(*    depends on the set of elements.                                                         *)
(* ======================================================================================== *)

Section Sorting.
  Variable A : Type.
  Variable le : A -> A -> bool.
  Hypothesis le_total : forall a b, le a b = true \/ le b a = true.
  Hypothesis le_trans : forall a b c, le a b = true -> le b c = true -> le a c = true.
  Hypothesis le_antisym : forall a b, le a b = true -> le b a = true -> a = b.

  Fixpoint ins (x : A) (l : list A) : list A :=
    match l with
    | [] => [x]
    | h :: t => if le x h then x :: l else h :: ins x t
    end.
  Definition isort (l : list A) : list A := fold_right ins [] l.

  Definition leP (a b : A) : Prop := le a b = true.

  Lemma c09_ins_perm x l : Permutation (ins x l) (x :: l).
  Proof.
    induction l as [|h t IH]; cbn [ins]; [reflexivity|].
    destruct (le x h); [reflexivity|].
    rewrite IH. apply perm_swap.
  Qed.

  Lemma c09_isort_perm l : Permutation (isort l) l.
  Proof.
    induction l as [|h t IH]; cbn [isort fold_right]; [reflexivity|].
    fold (isort t). rewrite c09_ins_perm. constructor. exact IH.
  Qed.

  Lemma c09_ins_sorted x l : StronglySorted leP l -> StronglySorted leP (ins x l).
  Proof.
    induction l as [|h t IH]; intro S; cbn [ins].
    - constructor; constructor.
    - inversion S as [|? ? St Hh]; subst.
      destruct (le x h) eqn:E.
      + constructor; [exact S|]. constructor; [exact E|].
        rewrite Forall_forall in *. intros y Hy. apply le_trans with h; [exact E | apply Hh; exact Hy].
      + constructor; [apply IH; exact St|].
        assert (Hhx : le h x = true) by (destruct (le_total x h) as [C|C]; [congruence | exact C]).
        rewrite Forall_forall in *. intros y Hy.
        apply (Permutation_in _ (c09_ins_perm x t)) in Hy. destruct Hy as [<-|Hy]; [exact Hhx | apply Hh; exact Hy].
  Qed.

  Lemma c09_isort_sorted l : StronglySorted leP (isort l).
  Proof.
    induction l as [|h t IH]; cbn [isort fold_right]; [constructor|].
    apply c09_ins_sorted. exact IH.
  Qed.

  Lemma c09_sorted_perm_eq l1 : forall l2,
    StronglySorted leP l1 -> StronglySorted leP l2 -> Permutation l1 l2 -> l1 = l2.
  Proof.
    induction l1 as [|a t1 IH]; intros l2 S1 S2 P.
    - apply Permutation_nil in P. subst; reflexivity.
    - destruct l2 as [|b t2]; [apply Permutation_sym, Permutation_nil in P; discriminate P|].
      inversion S1 as [|? ? St1 Ha]; subst. inversion S2 as [|? ? St2 Hb]; subst.
      assert (a = b) as ->.
      { rewrite Forall_forall in Ha, Hb.
        assert (In a (b :: t2)) as Hab by (apply (Permutation_in _ P); left; reflexivity).
        assert (In b (a :: t1)) as Hba by (apply (Permutation_in _ (Permutation_sym P)); left; reflexivity).
        destruct Hab as [->|Hab]; [reflexivity|]. destruct Hba as [->|Hba]; [reflexivity|].
        apply le_antisym; [apply Ha; exact Hba | apply Hb; exact Hab]. }
      f_equal. apply IH; [exact St1 | exact St2 | apply Permutation_cons_inv with b; exact P].
  Qed.

  Lemma c09_isort_perm_eq l1 l2 : Permutation l1 l2 -> isort l1 = isort l2.
  Proof.
    intro P. apply c09_sorted_perm_eq; try apply c09_isort_sorted.
    rewrite !c09_isort_perm. exact P.
  Qed.

  Lemma c09_isort_id l : StronglySorted leP l -> isort l = l.
  Proof.
    intro S. apply c09_sorted_perm_eq; [apply c09_isort_sorted | exact S | apply c09_isort_perm].
  Qed.

  Lemma c09_filter_sorted (f : A -> bool) l : StronglySorted leP l -> StronglySorted leP (filter f l).
  Proof.
    induction 1 as [|a t St IH Ha]; cbn [filter]; [constructor|].
    destruct (f a); [|exact IH]. constructor; [exact IH|].
    rewrite Forall_forall in *. intros y Hy. apply filter_In in Hy as [Hy _]. apply Ha; exact Hy.
  Qed.
End Sorting.

Lemma c09_perm_filter {A} (f : A -> bool) (l1 l2 : list A) :
  Permutation l1 l2 -> Permutation (filter f l1) (filter f l2).
Proof.
  induction 1 as [|x l l' P IH|x y l|l l' l'' P1 IH1 P2 IH2]; cbn [filter].
  - constructor.
  - destruct (f x); [constructor|]; exact IH.
  - destruct (f x), (f y); try reflexivity. apply perm_swap.
  - rewrite IH1. exact IH2.
Qed.

Lemma c09_isort_filter {A} (le : A -> A -> bool) (f : A -> bool) l :
  (forall a b, le a b = true \/ le b a = true) ->
  (forall a b c, le a b = true -> le b c = true -> le a c = true) ->
  (forall a b, le a b = true -> le b a = true -> a = b) ->
  isort A le (filter f l) = filter f (isort A le l).
Proof.
  intros T R S. apply c09_sorted_perm_eq with (le := le); try assumption.
  - apply c09_isort_sorted; assumption.
  - apply c09_filter_sorted, c09_isort_sorted; assumption.
  - rewrite c09_isort_perm. apply c09_perm_filter. symmetry. apply c09_isort_perm.
Qed.

(* ======================================================================================== *)
(* 1. The two orders: code points on names, (x, y) on release lines                           *)
(* ======================================================================================== *)

Lemma c09_ascii_compare_trans a b c o :
  Ascii.compare a b = o -> Ascii.compare b c = o -> Ascii.compare a c = o.
Proof.
  unfold Ascii.compare. destruct o; rewrite ?N.compare_eq_iff, ?N.compare_lt_iff, ?N.compare_gt_iff; intros; lia.
Qed.

Lemma c09_ascii_compare_eq a b : Ascii.compare a b = Eq -> a = b.
Proof.
  unfold Ascii.compare. rewrite N.compare_eq_iff. intro H.
  rewrite <- (ascii_N_embedding a), <- (ascii_N_embedding b), H. reflexivity.
Qed.

Lemma c09_ascii_compare_refl a : Ascii.compare a a = Eq.
Proof. unfold Ascii.compare. apply N.compare_refl. Qed.

Lemma c09_string_compare_refl s : String.compare s s = Eq.
Proof. induction s as [|a s IH]; cbn; [reflexivity|]. rewrite c09_ascii_compare_refl. exact IH. Qed.

Lemma c09_string_compare_lt_trans a : forall b c,
  String.compare a b = Lt -> String.compare b c = Lt -> String.compare a c = Lt.
Proof.
  induction a as [|x a IH]; intros [|y b] [|z c]; cbn; try congruence.
  destruct (Ascii.compare x y) eqn:Exy; try discriminate;
  destruct (Ascii.compare y z) eqn:Eyz; try discriminate; intros H1 H2.
  - apply c09_ascii_compare_eq in Exy, Eyz. subst. rewrite c09_ascii_compare_refl. eapply IH; eassumption.
  - apply c09_ascii_compare_eq in Exy. subst. rewrite Eyz. reflexivity.
  - apply c09_ascii_compare_eq in Eyz. subst. rewrite Exy. reflexivity.
  - rewrite (c09_ascii_compare_trans _ _ _ _ Exy Eyz). reflexivity.
Qed.

Lemma c09_str_leb_total a b : String.leb a b = true \/ String.leb b a = true.
Proof.
  unfold String.leb. rewrite (String.compare_antisym b a).
  destruct (String.compare a b); cbn; auto.
Qed.

Lemma c09_str_leb_trans a b c : String.leb a b = true -> String.leb b c = true -> String.leb a c = true.
Proof.
  unfold String.leb.
  destruct (String.compare a b) eqn:Eab; try discriminate;
  destruct (String.compare b c) eqn:Ebc; try discriminate; intros _ _.
  - apply String.compare_eq_iff in Eab, Ebc. subst. rewrite c09_string_compare_refl. reflexivity.
  - apply String.compare_eq_iff in Eab. subst. rewrite Ebc. reflexivity.
  - apply String.compare_eq_iff in Ebc. subst. rewrite Eab. reflexivity.
  - rewrite (c09_string_compare_lt_trans _ _ _ Eab Ebc). reflexivity.
Qed.

Lemma c09_str_leb_antisym a b : String.leb a b = true -> String.leb b a = true -> a = b.
Proof.
  unfold String.leb. rewrite (String.compare_antisym b a).
  destruct (String.compare a b) eqn:E; cbn; try discriminate; intros _ _.
  apply String.compare_eq_iff in E. exact E.
Qed.

Lemma c09_insert_name_ins s l : insert_name s l = ins string String.leb s l.
Proof. induction l as [|h t IH]; cbn; [reflexivity|]. rewrite IH. reflexivity. Qed.

Lemma c09_sort_names_isort l : sort_names l = isort string String.leb l.
Proof.
  induction l as [|h t IH]; cbn; [reflexivity|]. unfold sort_names in IH. rewrite IH.
  apply c09_insert_name_ins.
Qed.

Lemma c09_sort_names_perm l1 l2 : Permutation l1 l2 -> sort_names l1 = sort_names l2.
Proof.
  intro P. rewrite !c09_sort_names_isort.
  apply c09_isort_perm_eq;
    [exact c09_str_leb_total | exact c09_str_leb_trans | exact c09_str_leb_antisym | exact P].
Qed.

(* --- release lines *)

Definition llt (a b : key) : Prop := line_lt a b = true.

Lemma c09_line_lt_irrefl a : line_lt a a = false.
Proof. destruct a as [x [y|]]; cbn; rewrite !Z.ltb_irrefl, ?andb_false_r; reflexivity. Qed.

Lemma c09_line_lt_trans a b c : line_lt a b = true -> line_lt b c = true -> line_lt a c = true.
Proof.
  destruct a as [x1 [y1|]], b as [x2 [y2|]], c as [x3 [y3|]]; cbn;
  rewrite !orb_true_iff, !andb_true_iff, ?Z.ltb_lt, ?Z.eqb_eq; intros [H1|[H1 H1']] [H2|[H2 H2']];
  try discriminate; try (left; lia); try (right; split; [lia | first [reflexivity | lia]]).
Qed.

Lemma c09_line_total a b : line_lt a b = true \/ a = b \/ line_lt b a = true.
Proof.
  destruct a as [x1 [y1|]], b as [x2 [y2|]]; cbn;
  rewrite !orb_true_iff, !andb_true_iff, ?Z.ltb_lt, ?Z.eqb_eq.
  - destruct (Z.lt_trichotomy x1 x2) as [H|[H|H]]; [left; left; exact H | | right; right; left; exact H].
    destruct (Z.lt_trichotomy y1 y2) as [G|[G|G]];
    [left; right; split; assumption | right; left; congruence | right; right; right; split; [symmetry|]; assumption].
  - destruct (Z.lt_trichotomy x1 x2) as [H|[H|H]]; [left; left; exact H | left; right; split; [exact H | reflexivity] |
                                                     right; right; left; exact H].
  - destruct (Z.lt_trichotomy x1 x2) as [H|[H|H]]; [left; left; exact H |
      right; right; right; split; [symmetry; exact H | reflexivity] | right; right; left; exact H].
  - destruct (Z.lt_trichotomy x1 x2) as [H|[H|H]]; [left; left; exact H | right; left; congruence |
                                                     right; right; left; exact H].
Qed.

Lemma c09_line_lt_asym a b : line_lt a b = true -> line_lt b a = false.
Proof.
  intro H. destruct (line_lt b a) eqn:E; [|reflexivity].
  pose proof (c09_line_lt_trans _ _ _ H E) as C. rewrite c09_line_lt_irrefl in C. discriminate C.
Qed.

Lemma c09_line_le_total a b : line_le a b = true \/ line_le b a = true.
Proof.
  unfold line_le. destruct (c09_line_total a b) as [H|[->|H]].
  - left. rewrite (c09_line_lt_asym _ _ H). reflexivity.
  - left. rewrite c09_line_lt_irrefl. reflexivity.
  - right. rewrite (c09_line_lt_asym _ _ H). reflexivity.
Qed.

Lemma c09_line_le_iff a b : line_le a b = true <-> line_lt a b = true \/ a = b.
Proof.
  unfold line_le. split.
  - intro H. apply negb_true_iff in H. destruct (c09_line_total a b) as [G|[G|G]]; auto. congruence.
  - intros [H| ->]; [rewrite (c09_line_lt_asym _ _ H) | rewrite c09_line_lt_irrefl]; reflexivity.
Qed.

Lemma c09_line_le_trans a b c : line_le a b = true -> line_le b c = true -> line_le a c = true.
Proof.
  rewrite !c09_line_le_iff. intros [H1| ->] [H2| ->]; auto. left. eapply c09_line_lt_trans; eassumption.
Qed.

Lemma c09_line_le_antisym a b : line_le a b = true -> line_le b a = true -> a = b.
Proof.
  rewrite !c09_line_le_iff. intros [H1| ->] [H2|H2]; auto.
  pose proof (c09_line_lt_trans _ _ _ H1 H2) as C. rewrite c09_line_lt_irrefl in C. discriminate C.
Qed.

Lemma c09_insert_line_ins k l : insert_line k l = ins key line_le k l.
Proof. induction l as [|h t IH]; cbn; [reflexivity|]. rewrite IH. reflexivity. Qed.

Lemma c09_sort_lines_isort l : sort_lines l = isort key line_le l.
Proof.
  induction l as [|h t IH]; cbn; [reflexivity|]. unfold sort_lines in IH. rewrite IH.
  apply c09_insert_line_ins.
Qed.

(* compare_branches has the sign of the (x, y) order: the code sorts release lines as the statement says *)
Lemma c09_compare_branches_lt a b : (compare_branches a b <? 0) = line_lt a b.
Proof.
  destruct a as [x1 [y1|]], b as [x2 [y2|]]; cbn [compare_branches line_lt];
  destruct (Z.eqb_spec x1 x2) as [->|N]; rewrite ?Z.ltb_irrefl; cbn [orb andb];
  try (destruct (Z.ltb_spec x1 x2); destruct (Z.ltb_spec (x1 - x2) 0); try lia; reflexivity);
  try reflexivity.
  destruct (Z.ltb_spec y1 y2); destruct (Z.ltb_spec (y1 - y2) 0); try lia; reflexivity.
Qed.

Lemma c09_optZ_eqb_eq a b : optZ_eqb a b = true <-> a = b.
Proof.
  destruct a, b; cbn; try (split; [discriminate | discriminate || congruence]); try tauto.
  rewrite Z.eqb_eq. split; congruence.
Qed.

Lemma c09_key_eqb_eq a b : key_eqb a b = true <-> a = b.
Proof.
  destruct a as [x1 y1], b as [x2 y2]. unfold key_eqb. cbn [fst snd].
  rewrite andb_true_iff, Z.eqb_eq, c09_optZ_eqb_eq. split; [intros [-> ->]; reflexivity | intro H; inversion H; auto].
Qed.

Lemma c09_key_eqb_refl a : key_eqb a a = true.
Proof. apply c09_key_eqb_eq. reflexivity. Qed.

Lemma c09_key_eqb_neq a b : a <> b -> key_eqb a b = false.
Proof. intro N. destruct (key_eqb a b) eqn:E; [apply c09_key_eqb_eq in E; contradiction | reflexivity]. Qed.

Lemma c09_key_eq_dec (a b : key) : {a = b} + {a <> b}.
Proof. destruct (key_eqb a b) eqn:E; [left; apply c09_key_eqb_eq; exact E | right; intro H; apply c09_key_eqb_eq in H; congruence]. Qed.

(* ======================================================================================== *)
(* 2. The cascade as a sorted association list; what add_branch builds                        *)
(* ======================================================================================== *)

Definition keys (c : cascade) : list key := map fst c.
Definition ksorted (c : cascade) : Prop := StronglySorted llt (keys c).

Lemma c09_llt_sorted_nodup l : StronglySorted llt l -> NoDup l.
Proof.
  induction 1 as [|a t St IH Ha]; constructor; [|exact IH].
  intro Hin. rewrite Forall_forall in Ha. specialize (Ha a Hin). unfold llt in Ha.
  rewrite c09_line_lt_irrefl in Ha. discriminate Ha.
Qed.

Lemma c09_llt_sorted_le l : StronglySorted llt l -> StronglySorted (leP key line_le) l.
Proof.
  induction 1 as [|a t St IH Ha]; constructor; [exact IH|].
  rewrite Forall_forall in *. intros y Hy. unfold leP. apply c09_line_le_iff. left. apply Ha; exact Hy.
Qed.

Lemma c09_lookup_some_in k c s : lookup k c = Some s -> In (k, s) c.
Proof.
  induction c as [|[k' s'] t IH]; cbn [lookup]; [discriminate|].
  destruct (key_eqb k k') eqn:E.
  - intro H. injection H as <-. apply c09_key_eqb_eq in E. subst. left; reflexivity.
  - intro H. right. apply IH; exact H.
Qed.

Lemma c09_lookup_none k c : lookup k c = None -> ~ In k (keys c).
Proof.
  induction c as [|[k' s'] t IH]; cbn [lookup keys map fst]; [intros _ []|].
  destruct (key_eqb k k') eqn:E; [discriminate|].
  intros H [G|G]; [subst; rewrite c09_key_eqb_refl in E; discriminate E | exact (IH H G)].
Qed.

Lemma c09_lookup_in k s c : NoDup (keys c) -> In (k, s) c -> lookup k c = Some s.
Proof.
  induction c as [|[k' s'] t IH]; cbn [lookup keys map fst]; [intros _ []|].
  intros ND [G|G].
  - injection G as -> ->. rewrite c09_key_eqb_refl. reflexivity.
  - inversion ND as [|? ? Hn ND']; subst.
    destruct (key_eqb k k') eqn:E.
    + apply c09_key_eqb_eq in E. subst. exfalso. apply Hn. apply (in_map fst) in G. exact G.
    + apply IH; assumption.
Qed.

Lemma c09_in_keys k s (c : cascade) : In (k, s) c -> In k (keys c).
Proof. intro H. apply (in_map fst) in H. exact H. Qed.

Lemma c09_keys_in k (c : cascade) : In k (keys c) -> exists s, In (k, s) c.
Proof. intro H. apply in_map_iff in H as [[k' s] [E H]]. cbn in E. subst. exists s; exact H. Qed.

Lemma c09_unique_slot k s1 s2 c : NoDup (keys c) -> In (k, s1) c -> In (k, s2) c -> s1 = s2.
Proof.
  intros ND H1 H2. pose proof (c09_lookup_in _ _ _ ND H1) as L1. pose proof (c09_lookup_in _ _ _ ND H2) as L2.
  congruence.
Qed.

Lemma c09_keys_set_slot k f c : keys (set_slot k f c) = keys c.
Proof.
  unfold keys, set_slot. rewrite map_map. apply map_ext. intros [k' s]. cbn [fst]. destruct (key_eqb k k'); reflexivity.
Qed.

Lemma c09_in_set_slot k f c k' s' :
  In (k', s') (set_slot k f c) <-> exists s, In (k', s) c /\ s' = (if key_eqb k k' then f s else s).
Proof.
  unfold set_slot. rewrite in_map_iff. split.
  - intros [[k0 s0] [E H]]. cbn [fst snd] in E. destruct (key_eqb k k0) eqn:K; injection E as <- <-;
      exists s0; rewrite K; auto.
  - intros [s [H ->]]. exists (k', s). cbn [fst snd]. split; [destruct (key_eqb k k'); reflexivity | exact H].
Qed.

Lemma c09_in_insert_sorted k s c e : In e (insert_sorted k s c) <-> e = (k, s) \/ In e c.
Proof.
  induction c as [|[k' s'] t IH]; cbn [insert_sorted].
  - cbn. intuition congruence.
  - destruct (compare_branches k k' <? 0); cbn [In]; [intuition congruence|]. rewrite IH. intuition congruence.
Qed.

Lemma c09_insert_sorted_sorted k s c : ksorted c -> ~ In k (keys c) -> ksorted (insert_sorted k s c).
Proof.
  unfold ksorted. induction c as [|[k' s'] t IH]; cbn [insert_sorted keys map fst]; intros S Hn.
  - constructor; constructor.
  - inversion S as [|? ? St Hk']; subst. rewrite c09_compare_branches_lt.
    destruct (line_lt k k') eqn:E; cbn [keys map fst].
    + constructor; [exact S|]. constructor; [exact E|].
      rewrite Forall_forall in *. intros y Hy. eapply c09_line_lt_trans; [exact E | apply Hk'; exact Hy].
    + assert (Hlt : line_lt k' k = true).
      { destruct (c09_line_total k k') as [G|[G|G]]; [congruence | subst; exfalso; apply Hn; left; reflexivity | exact G]. }
      constructor; [apply IH; [exact St | intro G; apply Hn; right; exact G]|].
      rewrite Forall_forall in *. intros y Hy. apply c09_keys_in in Hy as [sy Hy].
      apply c09_in_insert_sorted in Hy as [Hy|Hy]; [injection Hy as -> _; exact Hlt|].
      apply Hk'. eapply c09_in_keys; exact Hy.
Qed.

(* --- the shape of a cascade built from the set [p] of branches for destination [dst] *)

Definition kept (dst : option branch) (b : branch) : Prop := hotfix_discarded b dst = false.

Definition holds (s : slot) (b : branch) : Prop :=
  match class_of b with
  | CDev => exists a, s_dev s = Some (b, a)
  | CStab => s_stab s = Some b
  | CHotfix => exists r, s_hf s = Some (b, r)
  end.

Record Shape (p : list branch) (dst : option branch) (c : cascade) : Prop := mkShape {
  sh_sorted : ksorted c;
  sh_complete : forall b, In b p -> kept dst b -> exists s, In (key_of b, s) c /\ holds s b;
  sh_dev : forall k s b a, In (k, s) c -> s_dev s = Some (b, a) ->
                           In b p /\ key_of b = k /\ class_of b = CDev;
  sh_stab : forall k s b, In (k, s) c -> s_stab s = Some b ->
                          In b p /\ key_of b = k /\ class_of b = CStab;
  sh_hf : forall k s b r, In (k, s) c -> s_hf s = Some (b, r) ->
                          In b p /\ key_of b = k /\ class_of b = CHotfix /\ kept dst b;
  sh_nonempty : forall k s, In (k, s) c ->
                            occupied CDev s || occupied CStab s || occupied CHotfix s = true }.

Definition Fresh (c : cascade) : Prop :=
  forall k s, In (k, s) c ->
    (forall b a, s_dev s = Some (b, a) -> a = dev_default) /\
    (forall b r, s_hf s = Some (b, r) -> r = default_hfrev).

Lemma c09_shape_ext p p' dst c : (forall b, In b p <-> In b p') -> Shape p dst c -> Shape p' dst c.
Proof.
  intros E [S C D T H N]. constructor; try assumption.
  - intros b Hb. apply C. apply E; exact Hb.
  - intros k s b a Hs Hd. destruct (D k s b a Hs Hd) as (I & R). split; [apply E; exact I | exact R].
  - intros k s b Hs Hd. destruct (T k s b Hs Hd) as (I & R). split; [apply E; exact I | exact R].
  - intros k s b r Hs Hd. destruct (H k s b r Hs Hd) as (I & R). split; [apply E; exact I | exact R].
Qed.

Lemma c09_shape_nil dst : Shape [] dst [] /\ Fresh [].
Proof.
  split; [constructor; try (intros; contradiction) | intros k s []].
  constructor.
Qed.

Lemma c09_shape_nodup p dst c : Shape p dst c -> NoDup (keys c).
Proof. intros [S _ _ _ _ _]. apply c09_llt_sorted_nodup. exact S. Qed.

Lemma c09_kept_hotfix d x y z : kept (Some d) (Hotfix x y z) -> d = Hotfix x y z.
Proof.
  unfold kept, hotfix_discarded. destruct d as [| |dx dy dz]; try discriminate.
  rewrite !orb_false_iff, !negb_false_iff, !Z.eqb_eq. intros [[-> ->] ->]. reflexivity.
Qed.

Lemma c09_same_key_class b b' dst :
  kept dst b -> kept dst b' -> key_of b = key_of b' -> class_of b = class_of b' -> b <> b' ->
  exists x y z z', b = Stab x y z /\ b' = Stab x y z' /\ z <> z'.
Proof.
  intros K K' E C N. destruct b as [x y|x y z|x y z], b' as [x' y'|x' y' z'|x' y' z']; try discriminate C;
  cbn in E; injection E as -> E.
  - subst. contradiction.
  - subst. exists x', y', z, z'. repeat split. congruence.
  - destruct dst as [d|]; [|discriminate K]. apply c09_kept_hotfix in K, K'. congruence.
Qed.

(* [put b] writes the field of the class of b and nothing else *)
Lemma c09_put_spec b s :
  holds (put b s) b /\
  (forall b', class_of b' <> class_of b -> holds s b' -> holds (put b s) b') /\
  (forall b0 a, s_dev (put b s) = Some (b0, a) ->
      (class_of b = CDev /\ b0 = b /\ a = dev_default) \/ (class_of b <> CDev /\ s_dev s = Some (b0, a))) /\
  (forall b0, s_stab (put b s) = Some b0 ->
      (class_of b = CStab /\ b0 = b) \/ (class_of b <> CStab /\ s_stab s = Some b0)) /\
  (forall b0 r, s_hf (put b s) = Some (b0, r) ->
      (class_of b = CHotfix /\ b0 = b /\ r = default_hfrev) \/ (class_of b <> CHotfix /\ s_hf s = Some (b0, r))) /\
  occupied (class_of b) (put b s) = true.
Proof.
  unfold holds, put. destruct b as [x y|x y z|x y z]; cbn [class_of s_dev s_stab s_hf occupied];
  (split; [eauto|]); (split; [intros [| |] N; cbn [class_of]; try tauto; contradiction N; reflexivity|]);
  repeat split; intros; try (left; repeat split; congruence); try (right; split; [discriminate | assumption]).
Qed.

Lemma c09_occupied_holds s b : holds s b -> occupied (class_of b) s = true.
Proof.
  unfold holds, occupied. destruct (class_of b); [intros [a ->] | intros -> | intros [r ->]]; reflexivity.
Qed.

Lemma c09_add_branch_ok p dst c b c' :
  Shape p dst c -> Fresh c -> add_branch b dst c = Ok c' -> Shape (b :: p) dst c' /\ Fresh c'.
Proof.
  intros Sh Fr. unfold add_branch.
  assert (Hcbd : can_be_destination (class_of b) = true) by (destruct b; reflexivity).
  rewrite Hcbd. cbn [negb].
  destruct (hotfix_discarded b dst) eqn:Hd.
  { intro H. injection H as <-. split; [|exact Fr]. destruct Sh as [S C D T H N]. constructor; try assumption.
    - intros b0 [<-|Hb0] K; [unfold kept in K; congruence | apply C; assumption].
    - intros k s b0 a Hs Hdv. destruct (D k s b0 a Hs Hdv) as (I & R). split; [right; exact I | exact R].
    - intros k s b0 Hs Hdv. destruct (T k s b0 Hs Hdv) as (I & R). split; [right; exact I | exact R].
    - intros k s b0 r Hs Hdv. destruct (H k s b0 r Hs Hdv) as (I & R). split; [right; exact I | exact R]. }
  set (k := key_of b).
  set (c1 := match lookup k c with Some _ => c | None => insert_sorted k empty_slot c end).
  assert (S1 : ksorted c1).
  { subst c1. destruct (lookup k c) eqn:L; [apply Sh|].
    apply c09_insert_sorted_sorted; [apply Sh | apply c09_lookup_none; exact L]. }
  assert (In1 : forall e, In e c1 -> In e c \/ e = (k, empty_slot)).
  { subst c1. intros e He. destruct (lookup k c); [left; exact He|].
    apply c09_in_insert_sorted in He as [He|He]; auto. }
  assert (In1' : forall e, In e c -> In e c1).
  { subst c1. intros e He. destruct (lookup k c); [exact He|]. apply c09_in_insert_sorted. right; exact He. }
  pose proof (c09_llt_sorted_nodup _ S1) as ND1.
  destruct (lookup k c1) as [s|] eqn:L1; [|discriminate].
  destruct (occupied (class_of b) s) eqn:Oc; [discriminate|].
  intro H. injection H as <-.
  pose proof (c09_lookup_some_in _ _ _ L1) as Hs1.
  destruct (c09_put_spec b) with (s := s) as (PH & PO & PD & PS & PF & PC).
  split.
  - constructor.
    + unfold ksorted. rewrite c09_keys_set_slot. exact S1.
    + intros b0 [<-|Hb0] K.
      * exists (put b s). split; [|exact PH]. apply c09_in_set_slot. exists s. split; [exact Hs1|].
        fold k. rewrite c09_key_eqb_refl. reflexivity.
      * destruct (sh_complete _ _ _ Sh b0 Hb0 K) as (s0 & Hs0 & Hh0).
        destruct (key_eqb k (key_of b0)) eqn:E.
        -- apply c09_key_eqb_eq in E. exists (put b s0). split.
           ++ apply c09_in_set_slot. exists s0. split; [apply In1'; exact Hs0|]. rewrite E, c09_key_eqb_refl. reflexivity.
           ++ assert (s0 = s) as -> by (apply (c09_unique_slot k s0 s c1 ND1); [apply In1'; rewrite E; exact Hs0 | exact Hs1]).
              destruct (c09_put_spec b s) as (_ & PO' & _). apply PO'; [|exact Hh0].
              intro Ec. apply c09_occupied_holds in Hh0. rewrite Ec in Hh0. congruence.
        -- exists s0. split; [|exact Hh0]. apply c09_in_set_slot. exists s0. split; [apply In1'; exact Hs0|].
           rewrite E. reflexivity.
    + intros k' s' b0 a Hs' Hdv. apply c09_in_set_slot in Hs' as (s0 & Hs0 & ->).
      destruct (key_eqb k k') eqn:E.
      * apply c09_key_eqb_eq in E. subst k'.
        assert (s0 = s) as -> by (eapply c09_unique_slot; [exact ND1 | exact Hs0 | exact Hs1]).
        destruct (PD _ _ Hdv) as [(Cb & -> & _)|(_ & Hdv')]; [split; [left; reflexivity | split; [reflexivity | exact Cb]]|].
        destruct (In1 _ Hs1) as [Hc|Hc]; [|injection Hc as ->; discriminate Hdv'].
        destruct (sh_dev _ _ _ Sh _ _ _ _ Hc Hdv') as (I & R). split; [right; exact I | exact R].
      * destruct (In1 _ Hs0) as [Hc|Hc]; [|injection Hc as <- _; rewrite c09_key_eqb_refl in E; discriminate E].
        destruct (sh_dev _ _ _ Sh _ _ _ _ Hc Hdv) as (I & R). split; [right; exact I | exact R].
    + intros k' s' b0 Hs' Hdv. apply c09_in_set_slot in Hs' as (s0 & Hs0 & ->).
      destruct (key_eqb k k') eqn:E.
      * apply c09_key_eqb_eq in E. subst k'.
        assert (s0 = s) as -> by (eapply c09_unique_slot; [exact ND1 | exact Hs0 | exact Hs1]).
        destruct (PS _ Hdv) as [(Cb & ->)|(_ & Hdv')]; [split; [left; reflexivity | split; [reflexivity | exact Cb]]|].
        destruct (In1 _ Hs1) as [Hc|Hc]; [|injection Hc as ->; discriminate Hdv'].
        destruct (sh_stab _ _ _ Sh _ _ _ Hc Hdv') as (I & R). split; [right; exact I | exact R].
      * destruct (In1 _ Hs0) as [Hc|Hc]; [|injection Hc as <- _; rewrite c09_key_eqb_refl in E; discriminate E].
        destruct (sh_stab _ _ _ Sh _ _ _ Hc Hdv) as (I & R). split; [right; exact I | exact R].
    + intros k' s' b0 r Hs' Hdv. apply c09_in_set_slot in Hs' as (s0 & Hs0 & ->).
      destruct (key_eqb k k') eqn:E.
      * apply c09_key_eqb_eq in E. subst k'.
        assert (s0 = s) as -> by (eapply c09_unique_slot; [exact ND1 | exact Hs0 | exact Hs1]).
        destruct (PF _ _ Hdv) as [(Cb & -> & _)|(_ & Hdv')];
          [split; [left; reflexivity | split; [reflexivity | split; [exact Cb | exact Hd]]]|].
        destruct (In1 _ Hs1) as [Hc|Hc]; [|injection Hc as ->; discriminate Hdv'].
        destruct (sh_hf _ _ _ Sh _ _ _ _ Hc Hdv') as (I & R). split; [right; exact I | exact R].
      * destruct (In1 _ Hs0) as [Hc|Hc]; [|injection Hc as <- _; rewrite c09_key_eqb_refl in E; discriminate E].
        destruct (sh_hf _ _ _ Sh _ _ _ _ Hc Hdv) as (I & R). split; [right; exact I | exact R].
    + intros k' s' Hs'. apply c09_in_set_slot in Hs' as (s0 & Hs0 & ->).
      destruct (key_eqb k k') eqn:E.
      * destruct (class_of b) eqn:Cb; unfold put; rewrite Cb; cbn; rewrite ?orb_true_r; reflexivity.
      * destruct (In1 _ Hs0) as [Hc|Hc]; [|injection Hc as <- _; rewrite c09_key_eqb_refl in E; discriminate E].
        eapply sh_nonempty; eassumption.
  - intros k' s' Hs'. apply c09_in_set_slot in Hs' as (s0 & Hs0 & ->).
    assert (Fr0 : (forall b1 a, s_dev s0 = Some (b1, a) -> a = dev_default) /\
                  (forall b1 r, s_hf s0 = Some (b1, r) -> r = default_hfrev)).
    { destruct (In1 _ Hs0) as [Hc|Hc]; [exact (Fr _ _ Hc)|]. injection Hc as _ ->. split; intros; discriminate. }
    destruct (key_eqb k k'); [|exact Fr0]. destruct Fr0 as [F1 F2].
    destruct (c09_put_spec b s0) as (_ & _ & PD0 & _ & PF0 & _). split.
    + intros b1 a Hb1. destruct (PD0 _ _ Hb1) as [(_ & _ & ->)|(_ & G)]; [reflexivity | eapply F1; exact G].
    + intros b1 r Hb1. destruct (PF0 _ _ Hb1) as [(_ & _ & ->)|(_ & G)]; [reflexivity | eapply F2; exact G].
Qed.

Definition clash (p : list branch) (dst : option branch) (b : branch) : Prop :=
  exists b', In b' p /\ kept dst b' /\ kept dst b /\ key_of b' = key_of b /\ class_of b' = class_of b.

Lemma c09_add_branch_err p dst c b e :
  Shape p dst c -> add_branch b dst c = Err e -> e = UnsupportedMultipleStabBranches /\ clash p dst b.
Proof.
  intros Sh. unfold add_branch.
  assert (Hcbd : can_be_destination (class_of b) = true) by (destruct b; reflexivity).
  rewrite Hcbd. cbn [negb].
  destruct (hotfix_discarded b dst) eqn:Hd; [discriminate|].
  set (k := key_of b).
  destruct (lookup k c) as [s0|] eqn:L.
  - rewrite L. destruct (occupied (class_of b) s0) eqn:Oc; [|discriminate].
    intro H. injection H as <-. split; [reflexivity|].
    apply c09_lookup_some_in in L. unfold occupied in Oc. unfold clash.
    destruct (class_of b) eqn:Cb.
    + destruct (s_dev s0) as [[b' a]|] eqn:F; [|discriminate].
      destruct (sh_dev _ _ _ Sh _ _ _ _ L F) as (I & Kk & Cc). exists b'. repeat split; try assumption.
      destruct b'; try discriminate Cc. reflexivity.
    + destruct (s_stab s0) as [b'|] eqn:F; [|discriminate].
      destruct (sh_stab _ _ _ Sh _ _ _ L F) as (I & Kk & Cc). exists b'. repeat split; try assumption.
      destruct b'; try discriminate Cc. reflexivity.
    + destruct (s_hf s0) as [[b' r]|] eqn:F; [|discriminate].
      destruct (sh_hf _ _ _ Sh _ _ _ _ L F) as (I & Kk & Cc & Kp). exists b'. repeat split; assumption.
  - assert (L1 : lookup k (insert_sorted k empty_slot c) = Some empty_slot).
    { apply c09_lookup_in.
      - apply c09_llt_sorted_nodup. apply c09_insert_sorted_sorted; [apply Sh | apply c09_lookup_none; exact L].
      - apply c09_in_insert_sorted. left; reflexivity. }
    rewrite L1. destruct (class_of b); cbn; discriminate.
Qed.

Lemma c09_add_all_ok order : forall p dst c c',
  Shape p dst c -> Fresh c -> add_all order dst c = Ok c' -> Shape (order ++ p) dst c' /\ Fresh c'.
Proof.
  induction order as [|b t IH]; intros p dst c c' Sh Fr; cbn [add_all app].
  - intro H. injection H as <-. split; assumption.
  - destruct (add_branch b dst c) as [c1|e] eqn:A; cbn [bind]; [|discriminate].
    intro H. destruct (c09_add_branch_ok _ _ _ _ _ Sh Fr A) as [Sh1 Fr1].
    destruct (IH _ _ _ _ Sh1 Fr1 H) as [Sh2 Fr2]. split; [|exact Fr2].
    eapply c09_shape_ext; [|exact Sh2]. intro x. rewrite !in_app_iff. cbn [In]. rewrite in_app_iff. tauto.
Qed.

Lemma c09_add_all_err order : forall p dst c e,
  Shape p dst c -> Fresh c -> NoDup order -> (forall b, In b order -> ~ In b p) ->
  add_all order dst c = Err e ->
  e = UnsupportedMultipleStabBranches /\
  exists b b', In b (order ++ p) /\ In b' (order ++ p) /\ b <> b' /\ kept dst b /\ kept dst b' /\
               key_of b = key_of b' /\ class_of b = class_of b'.
Proof.
  induction order as [|b t IH]; intros p dst c e Sh Fr ND Dj; cbn [add_all app]; [discriminate|].
  inversion ND as [|? ? Hnb NDt]; subst.
  destruct (add_branch b dst c) as [c1|e1] eqn:A; cbn [bind].
  - intro H. destruct (c09_add_branch_ok _ _ _ _ _ Sh Fr A) as [Sh1 Fr1].
    assert (Dj1 : forall x, In x t -> ~ In x (b :: p)).
    { intros x Hx [<-|Hp]; [contradiction | apply (Dj x); [right; exact Hx | exact Hp]]. }
    destruct (IH _ _ _ e Sh1 Fr1 NDt Dj1 H) as (-> & b1 & b2 & I1 & I2 & R).
    split; [reflexivity|]. exists b1, b2.
    assert (M : forall x, In x (t ++ b :: p) -> In x (b :: t ++ p))
      by (intro x; rewrite !in_app_iff; cbn [In]; rewrite in_app_iff; tauto).
    split; [apply M; exact I1|]. split; [apply M; exact I2 | exact R].
  - intro H. injection H as <-. destruct (c09_add_branch_err _ _ _ _ _ Sh A) as (-> & b' & I & K' & K & Ek & Ec).
    split; [reflexivity|]. exists b, b'. split; [left; reflexivity|]. split; [right; apply in_app_iff; right; exact I|].
    split; [intros <-; apply (Dj b); [left; reflexivity | exact I]|]. repeat split; auto.
Qed.

Lemma c09_two_stabs_iff bs :
  two_stabs bs = true <-> exists x y z1 z2, In (Stab x y z1) bs /\ In (Stab x y z2) bs /\ z1 <> z2.
Proof.
  unfold two_stabs. rewrite existsb_exists. split.
  - intros (a & Ha & H). apply existsb_exists in H as (b & Hb & H).
    destruct a as [| x1 y1 z1 |], b as [| x2 y2 z2 |]; try discriminate H.
    apply andb_true_iff in H as [H Hz]. apply andb_true_iff in H as [Hx Hy].
    apply Z.eqb_eq in Hx, Hy. subst. apply negb_true_iff, Z.eqb_neq in Hz.
    exists x2, y2, z1, z2. auto.
  - intros (x & y & z1 & z2 & H1 & H2 & N). exists (Stab x y z1). split; [exact H1|].
    apply existsb_exists. exists (Stab x y z2). split; [exact H2|].
    rewrite !Z.eqb_refl. cbn. apply negb_true_iff, Z.eqb_neq. exact N.
Qed.

Lemma c09_two_stabs_perm l1 l2 : Permutation l1 l2 -> two_stabs l1 = two_stabs l2.
Proof.
  intro P. apply eq_true_iff_eq. rewrite !c09_two_stabs_iff.
  split; intros (x & y & z1 & z2 & H1 & H2 & N); exists x, y, z1, z2; repeat split; try exact N;
  first [apply (Permutation_in _ P) | apply (Permutation_in _ (Permutation_sym P))]; assumption.
Qed.

(* a shaped cascade has room for one stabilization per line *)
Lemma c09_shape_no_two_stabs p dst c : Shape p dst c -> two_stabs p = false.
Proof.
  intro Sh. apply not_true_is_false. intro T. apply c09_two_stabs_iff in T as (x & y & z1 & z2 & H1 & H2 & N).
  destruct (sh_complete _ _ _ Sh _ H1) as (s1 & I1 & Hd1); [reflexivity|].
  destruct (sh_complete _ _ _ Sh _ H2) as (s2 & I2 & Hd2); [reflexivity|].
  cbn in I1, I2. assert (s1 = s2) as -> by (eapply c09_unique_slot; [eapply c09_shape_nodup; exact Sh | exact I1 | exact I2]).
  unfold holds in Hd1, Hd2. cbn in Hd1, Hd2. congruence.
Qed.

(* what add_branch over a discovery order returns *)
Lemma c09_add_all_result order dst :
  NoDup order ->
  (two_stabs order = true /\ add_all order dst [] = Err UnsupportedMultipleStabBranches) \/
  (two_stabs order = false /\ exists c, add_all order dst [] = Ok c /\ Shape order dst c /\ Fresh c).
Proof.
  intro ND. destruct (c09_shape_nil dst) as [Sh0 Fr0].
  destruct (add_all order dst []) as [c|e] eqn:A.
  - right. destruct (c09_add_all_ok _ _ _ _ _ Sh0 Fr0 A) as [Sh Fr]. rewrite app_nil_r in Sh.
    split; [eapply c09_shape_no_two_stabs; exact Sh|]. exists c. auto.
  - left. assert (Dj0 : forall b, In b order -> ~ In b (@nil branch)) by (intros ? _ []).
    destruct (c09_add_all_err _ _ _ _ e Sh0 Fr0 ND Dj0 A) as (-> & b & b' & I & I' & N & K & K' & Ek & Ec).
    rewrite app_nil_r in I, I'. split; [|reflexivity].
    destruct (c09_same_key_class _ _ _ K K' Ek Ec N) as (x & y & z & z' & -> & -> & Nz).
    apply c09_two_stabs_iff. exists x, y, z, z'. auto.
Qed.

(* --- a shaped, fresh cascade is determined by the set of branches *)

Lemma c09_shape_key_iff p dst c k : Shape p dst c ->
  (In k (keys c) <-> exists b, In b p /\ kept dst b /\ key_of b = k).
Proof.
  intro Sh. split.
  - intro H. apply c09_keys_in in H as [s Hs]. pose proof (sh_nonempty _ _ _ Sh _ _ Hs) as N.
    unfold occupied in N.
    destruct (s_dev s) as [[b a]|] eqn:F1.
    { destruct (sh_dev _ _ _ Sh _ _ _ _ Hs F1) as (I & Kk & Cc). exists b. repeat split; try assumption.
      destruct b; try discriminate Cc. reflexivity. }
    destruct (s_stab s) as [b|] eqn:F2.
    { destruct (sh_stab _ _ _ Sh _ _ _ Hs F2) as (I & Kk & Cc). exists b. repeat split; try assumption.
      destruct b; try discriminate Cc. reflexivity. }
    destruct (s_hf s) as [[b r]|] eqn:F3; [|discriminate N].
    destruct (sh_hf _ _ _ Sh _ _ _ _ Hs F3) as (I & Kk & Cc & Kp). exists b. auto.
  - intros (b & I & K & <-). destruct (sh_complete _ _ _ Sh _ I K) as (s & Hs & _). eapply c09_in_keys; exact Hs.
Qed.

Lemma c09_slot_eq s1 s2 : s_dev s1 = s_dev s2 -> s_stab s1 = s_stab s2 -> s_hf s1 = s_hf s2 -> s1 = s2.
Proof. destruct s1, s2; cbn; intros -> -> ->; reflexivity. Qed.

Lemma c09_shape_slot_le p dst c1 c2 k s1 s2 :
  Shape p dst c1 -> Shape p dst c2 -> Fresh c1 -> Fresh c2 -> In (k, s1) c1 -> In (k, s2) c2 ->
  (forall x, s_dev s1 = Some x -> s_dev s2 = Some x) /\
  (forall x, s_stab s1 = Some x -> s_stab s2 = Some x) /\
  (forall x, s_hf s1 = Some x -> s_hf s2 = Some x).
Proof.
  intros Sh1 Sh2 Fr1 Fr2 H1 H2. pose proof (c09_shape_nodup _ _ _ Sh2) as ND2.
  destruct (Fr1 _ _ H1) as [Fd1 Fh1]. destruct (Fr2 _ _ H2) as [Fd2 Fh2]. repeat split.
  - intros [b a] F. destruct (sh_dev _ _ _ Sh1 _ _ _ _ H1 F) as (I & Kk & Cc).
    destruct (sh_complete _ _ _ Sh2 b I) as (s' & Hs' & Hh); [destruct b; try discriminate Cc; reflexivity|].
    rewrite Kk in Hs'. assert (s' = s2) as -> by (eapply c09_unique_slot; eassumption).
    unfold holds in Hh. rewrite Cc in Hh. destruct Hh as [a' Hh]. rewrite Hh.
    rewrite (Fd1 _ _ F), (Fd2 _ _ Hh). reflexivity.
  - intros b F. destruct (sh_stab _ _ _ Sh1 _ _ _ H1 F) as (I & Kk & Cc).
    destruct (sh_complete _ _ _ Sh2 b I) as (s' & Hs' & Hh); [destruct b; try discriminate Cc; reflexivity|].
    rewrite Kk in Hs'. assert (s' = s2) as -> by (eapply c09_unique_slot; eassumption).
    unfold holds in Hh. rewrite Cc in Hh. exact Hh.
  - intros [b r] F. destruct (sh_hf _ _ _ Sh1 _ _ _ _ H1 F) as (I & Kk & Cc & Kp).
    destruct (sh_complete _ _ _ Sh2 b I Kp) as (s' & Hs' & Hh).
    rewrite Kk in Hs'. assert (s' = s2) as -> by (eapply c09_unique_slot; eassumption).
    unfold holds in Hh. rewrite Cc in Hh. destruct Hh as [r' Hh]. rewrite Hh.
    rewrite (Fh1 _ _ F), (Fh2 _ _ Hh). reflexivity.
Qed.

Lemma c09_opt_le_eq {A} (o1 o2 : option A) :
  (forall x, o1 = Some x -> o2 = Some x) -> (forall x, o2 = Some x -> o1 = Some x) -> o1 = o2.
Proof.
  intros H1 H2. destruct o1 as [x|]; [symmetry; apply H1; reflexivity|].
  destruct o2 as [y|]; [apply H2; reflexivity | reflexivity].
Qed.

Lemma c09_assoc_eq (c1 : cascade) : forall c2,
  keys c1 = keys c2 -> (forall k s1 s2, In (k, s1) c1 -> In (k, s2) c2 -> s1 = s2) -> c1 = c2.
Proof.
  induction c1 as [|[k s] t IH]; intros [|[k' s'] t'] Hk Hs; try discriminate Hk; [reflexivity|].
  cbn in Hk. injection Hk as <- Hk.
  rewrite (Hs k s s'); [|left; reflexivity|left; reflexivity]. f_equal.
  apply IH; [exact Hk|]. intros k0 s1 s2 H1 H2. apply (Hs k0); right; assumption.
Qed.

Lemma c09_shape_unique p dst c1 c2 :
  Shape p dst c1 -> Shape p dst c2 -> Fresh c1 -> Fresh c2 -> c1 = c2.
Proof.
  intros Sh1 Sh2 Fr1 Fr2. apply c09_assoc_eq.
  - apply c09_sorted_perm_eq with (le := line_le).
    + exact c09_line_le_antisym.
    + apply c09_llt_sorted_le, Sh1.
    + apply c09_llt_sorted_le, Sh2.
    + apply NoDup_Permutation; [eapply c09_shape_nodup; exact Sh1 | eapply c09_shape_nodup; exact Sh2|].
      intro k. rewrite (c09_shape_key_iff _ _ _ k Sh1), (c09_shape_key_iff _ _ _ k Sh2). tauto.
  - intros k s1 s2 H1 H2.
    destruct (c09_shape_slot_le _ _ _ _ _ _ _ Sh1 Sh2 Fr1 Fr2 H1 H2) as (A1 & A2 & A3).
    destruct (c09_shape_slot_le _ _ _ _ _ _ _ Sh2 Sh1 Fr2 Fr1 H2 H1) as (B1 & B2 & B3).
    apply c09_slot_eq; apply c09_opt_le_eq; assumption.
Qed.

(* add_branch over two discovery orders of the same set gives the same cascade or the same error *)
Lemma c09_add_all_perm o1 o2 dst : Permutation o1 o2 -> NoDup o1 -> add_all o1 dst [] = add_all o2 dst [].
Proof.
  intros P ND1. assert (ND2 : NoDup o2) by (eapply Permutation_NoDup; eassumption).
  destruct (c09_add_all_result o1 dst ND1) as [[T1 ->]|(T1 & c1 & -> & Sh1 & Fr1)];
  destruct (c09_add_all_result o2 dst ND2) as [[T2 ->]|(T2 & c2 & -> & Sh2 & Fr2)];
  rewrite (c09_two_stabs_perm _ _ P) in T1; try congruence.
  f_equal. apply (c09_shape_unique o2 dst); try assumption.
  eapply c09_shape_ext; [|exact Sh1]. intro b. split; [apply Permutation_in; exact P | apply Permutation_in; symmetry; exact P].
Qed.

(* ======================================================================================== *)
(* 3. update_versions and _update_major_versions in closed form                               *)
(* ======================================================================================== *)

Definition somes {A} (l : list (option A)) : list A :=
  flat_map (fun o => match o with Some a => [a] | None => [] end) l.

Lemma c09_release_tags_somes tags : release_tags tags = somes (map parse_tag tags).
Proof. unfold release_tags, somes. induction tags as [|t r IH]; cbn; [reflexivity|]. rewrite IH. reflexivity. Qed.

(* does tag t make update_versions raise DeprecatedStabilizationBranch? (reads branch names only) *)
Definition dep_slot (micro : Z) (s : slot) : bool :=
  match s_hf s, s_stab s with
  | Some (hb, _), Some sb => micro_of sb =? micro_of hb
  | _, _ => false
  end
  || match s_stab s with Some sb => micro_of sb <=? micro | None => false end.
Definition dep_at (t : ptag) (c : cascade) : bool :=
  let '(x, y, z, _) := t in
  match lookup (x, Some y) c with Some s => dep_slot z s | None => false end.

(* what tag t does to the slot stored under key k *)
Definition hf_step (z hfrev : Z) (s : slot) : slot :=
  match s_hf s with
  | Some (hb, rev) => if micro_of hb =? z then set_hfrev (Z.max (hfrev + 1) rev) s else s
  | None => s
  end.
Definition micro_step (z : Z) : slot -> slot :=
  upd_dev (fun a => mkDA (Z.max z (da_micro a)) (da_latest_minor a) (da_has_stab a) (da_stab_micro a)).
Definition lminor_step (y : Z) : slot -> slot :=
  upd_dev (fun a => mkDA (da_micro a) (Z.max y (da_latest_minor a)) (da_has_stab a) (da_stab_micro a)).
Definition tag_slot (t : ptag) (k : key) (s : slot) : slot :=
  let '(x, y, z, h) := t in
  let hfrev := match h with Some n => n | None => tag_default_hfrev end in
  if key_eqb (x, Some y) k then micro_step z (hf_step z hfrev s)
  else if key_eqb (x, None) k then lminor_step y s else s.

Definition map_slots (g : key -> slot -> slot) (c : cascade) : cascade :=
  map (fun e => (fst e, g (fst e) (snd e))) c.

Lemma c09_keys_map_slots g c : keys (map_slots g c) = keys c.
Proof. unfold keys, map_slots. rewrite map_map. reflexivity. Qed.

Lemma c09_in_map_slots g c k s' : In (k, s') (map_slots g c) <-> exists s, In (k, s) c /\ s' = g k s.
Proof.
  unfold map_slots. rewrite in_map_iff. split.
  - intros [[k0 s0] [E H]]. cbn in E. injection E as <- <-. exists s0. auto.
  - intros [s [H ->]]. exists (k, s). auto.
Qed.

Lemma c09_set_slot_map_slots k f c :
  set_slot k f c = map_slots (fun k' s => if key_eqb k k' then f s else s) c.
Proof.
  unfold set_slot, map_slots. apply map_ext. intros [k' s]. cbn [fst snd]. destruct (key_eqb k k'); reflexivity.
Qed.

Lemma c09_map_slots_map_slots g h c :
  map_slots g (map_slots h c) = map_slots (fun k s => g k (h k s)) c.
Proof. unfold map_slots. rewrite map_map. reflexivity. Qed.

Lemma c09_map_slots_ext_in g h c :
  (forall k s, In (k, s) c -> g k s = h k s) -> map_slots g c = map_slots h c.
Proof.
  intro H. unfold map_slots. apply map_ext_in. intros [k s] Hin. cbn [fst snd]. rewrite (H k s Hin). reflexivity.
Qed.

Lemma c09_map_slots_id_in g c : (forall k s, In (k, s) c -> g k s = s) -> map_slots g c = c.
Proof.
  intro H. unfold map_slots. rewrite <- (map_id c) at 2. apply map_ext_in. intros [k s] Hin. cbn [fst snd].
  rewrite (H k s Hin). reflexivity.
Qed.

Lemma c09_K1_neq_K2 (x y : Z) : key_eqb (x, Some y) (x, None) = false.
Proof. unfold key_eqb. cbn. apply andb_false_r. Qed.

Lemma c09_upd_dev_none f s : s_dev s = None -> upd_dev f s = s.
Proof. unfold upd_dev. intros ->. reflexivity. Qed.

Lemma c09_update_versions_closed t c :
  NoDup (keys c) ->
  update_versions t c =
  if dep_at t c then Err DeprecatedStabilizationBranch else Ok (map_slots (tag_slot t) c).
Proof.
  intro ND. destruct t as [[[x y] z] h]. unfold update_versions, dep_at.
  set (hfrev := match h with Some n => n | None => tag_default_hfrev end).
  set (K1 := (x, Some y)). set (K2 := (x, None)).
  assert (U1 : forall k s s0, lookup K1 c = Some s0 -> In (k, s) c -> key_eqb K1 k = true -> s = s0).
  { intros k s s0 L Hin E. apply c09_key_eqb_eq in E. subst k. apply c09_lookup_some_in in L.
    eapply c09_unique_slot; eassumption. }
  assert (U2 : forall k s s0, lookup K2 c = Some s0 -> In (k, s) c -> key_eqb K2 k = true -> s = s0).
  { intros k s s0 L Hin E. apply c09_key_eqb_eq in E. subst k. apply c09_lookup_some_in in L.
    eapply c09_unique_slot; eassumption. }
  assert (N1 : forall k s, lookup K1 c = None -> In (k, s) c -> key_eqb K1 k = false).
  { intros k s L Hin. apply c09_lookup_none in L. apply c09_key_eqb_neq. intros <-. apply L. eapply c09_in_keys; exact Hin. }
  assert (N2 : forall k s, lookup K2 c = None -> In (k, s) c -> key_eqb K2 k = false).
  { intros k s L Hin. apply c09_lookup_none in L. apply c09_key_eqb_neq. intros <-. apply L. eapply c09_in_keys; exact Hin. }
  assert (X12 : forall k, key_eqb K1 k = true -> key_eqb K2 k = false).
  { intros k E. apply c09_key_eqb_eq in E. subst k. apply c09_key_eqb_neq. discriminate. }
  destruct (lookup K1 c) as [s0|] eqn:L1.
  - (* the line of the tag is in the cascade *)
    assert (G : match lookup K2 c with
                | Some _ | None =>
                  (if dep_slot z s0 then Err DeprecatedStabilizationBranch else Ok (map_slots (tag_slot (x, y, z, h)) c))
                end = (if dep_slot z s0 then Err DeprecatedStabilizationBranch else Ok (map_slots (tag_slot (x, y, z, h)) c)))
      by (destruct (lookup K2 c); reflexivity).
    rewrite <- G. clear G.
    destruct (lookup K2 c) as [m0|] eqn:L2; cbn [obind]; unfold dep_slot;
    destruct (s_hf s0) as [[hb rev]|] eqn:Fh; destruct (s_stab s0) as [sb|] eqn:Fs; cbn [orb];
    try (destruct (micro_of sb =? micro_of hb) eqn:Em; cbn [orb]; [reflexivity|]);
    try (destruct (micro_of sb <=? z) eqn:El; [reflexivity|]);
    f_equal; rewrite ?c09_set_slot_map_slots;
    try (destruct (micro_of hb =? z) eqn:Ez); destruct (s_dev s0) as [[db da]|] eqn:Fd;
    try (destruct (s_dev m0) as [[mb ma]|] eqn:Fm);
    rewrite ?c09_set_slot_map_slots, ?c09_map_slots_map_slots;
    try (symmetry; apply c09_map_slots_id_in); try apply c09_map_slots_ext_in;
    intros k s Hin; unfold tag_slot; fold K1 K2 hfrev;
    (destruct (key_eqb K1 k) eqn:E1;
     [ rewrite ?(X12 k E1); pose proof (U1 k s s0 eq_refl Hin E1); subst s
     | destruct (key_eqb K2 k) eqn:E2;
       [ first [ pose proof (U2 k s m0 eq_refl Hin E2); subst s
               | rewrite (N2 k s eq_refl Hin) in E2; discriminate E2 ]
       | reflexivity ] ]);
    unfold hf_step, micro_step, lminor_step, upd_dev, set_hfrev;
    rewrite ?Fh, ?Fd, ?Fm, ?Ez; cbn [s_dev s_hf s_stab]; rewrite ?Fd, ?Fh, ?Fm; try reflexivity.
  - (* only development/x can be concerned *)
    destruct (lookup K2 c) as [m0|] eqn:L2; cbn [obind].
    + f_equal. destruct (s_dev m0) as [[mb ma]|] eqn:Fm;
      rewrite ?c09_set_slot_map_slots;
      try (symmetry; apply c09_map_slots_id_in); try apply c09_map_slots_ext_in;
      intros k s Hin; unfold tag_slot; fold K1 K2 hfrev; rewrite (N1 k s eq_refl Hin);
      (destruct (key_eqb K2 k) eqn:E2; [pose proof (U2 k s m0 eq_refl Hin E2); subst s | reflexivity]);
      unfold lminor_step, upd_dev; rewrite ?Fm; reflexivity.
    + f_equal. symmetry. apply c09_map_slots_id_in. intros k s Hin. unfold tag_slot.
      fold K1 K2. rewrite (N1 k s eq_refl Hin), (N2 k s eq_refl Hin). reflexivity.
Qed.

Lemma c09_lookup_map_slots g c k : lookup k (map_slots g c) = option_map (g k) (lookup k c).
Proof.
  induction c as [|[k' s] t IH]; cbn [map_slots map lookup fst snd option_map]; [reflexivity|].
  destruct (key_eqb k k') eqn:E; [|exact IH]. apply c09_key_eqb_eq in E. subst. reflexivity.
Qed.

(* the steps of update_versions never touch which branch sits where *)
Definition same_desc (s s' : slot) : Prop :=
  s_stab s' = s_stab s /\ option_map fst (s_hf s') = option_map fst (s_hf s) /\
  option_map fst (s_dev s') = option_map fst (s_dev s).

Lemma c09_same_desc_refl s : same_desc s s.
Proof. repeat split. Qed.

Lemma c09_same_desc_trans s1 s2 s3 : same_desc s1 s2 -> same_desc s2 s3 -> same_desc s1 s3.
Proof. intros (A & B & C) (A' & B' & C'). repeat split; congruence. Qed.

Lemma c09_upd_dev_desc f s : same_desc s (upd_dev f s).
Proof. unfold upd_dev. destruct (s_dev s) as [[db a]|] eqn:F; repeat split; cbn; rewrite ?F; reflexivity. Qed.

Lemma c09_hf_step_desc z r s : same_desc s (hf_step z r s).
Proof.
  unfold hf_step, set_hfrev. destruct (s_hf s) as [[hb rev]|] eqn:F; [|apply c09_same_desc_refl].
  destruct (micro_of hb =? z); [|apply c09_same_desc_refl]. repeat split; cbn; rewrite ?F; reflexivity.
Qed.

Lemma c09_tag_slot_desc t k s : same_desc s (tag_slot t k s).
Proof.
  destruct t as [[[x y] z] h]. unfold tag_slot.
  destruct (key_eqb (x, Some y) k).
  - eapply c09_same_desc_trans; [apply c09_hf_step_desc | apply c09_upd_dev_desc].
  - destruct (key_eqb (x, None) k); [apply c09_upd_dev_desc | apply c09_same_desc_refl].
Qed.

Lemma c09_dep_slot_desc z s s' : same_desc s s' -> dep_slot z s' = dep_slot z s.
Proof.
  intros (A & B & _). unfold dep_slot. rewrite A.
  destruct (s_hf s) as [[hb r]|], (s_hf s') as [[hb' r']|]; cbn in B; try discriminate B; [|reflexivity].
  injection B as ->. reflexivity.
Qed.

Lemma c09_dep_at_map_slots t g c : (forall k s, same_desc s (g k s)) -> dep_at t (map_slots g c) = dep_at t c.
Proof.
  intro H. destruct t as [[[x y] z] h]. unfold dep_at. rewrite c09_lookup_map_slots.
  destruct (lookup (x, Some y) c) as [s|]; cbn [option_map]; [|reflexivity]. apply c09_dep_slot_desc, H.
Qed.

Definition tags_slot (ts : list ptag) (k : key) (s : slot) : slot := fold_left (fun s t => tag_slot t k s) ts s.

Lemma c09_tags_slot_desc ts k : forall s, same_desc s (tags_slot ts k s).
Proof.
  unfold tags_slot. induction ts as [|t r IH]; intro s; cbn [fold_left]; [apply c09_same_desc_refl|].
  eapply c09_same_desc_trans; [apply c09_tag_slot_desc | apply IH].
Qed.

Lemma c09_existsb_ext {A} (f g : A -> bool) l : (forall a, f a = g a) -> existsb f l = existsb g l.
Proof. intro H. induction l as [|a t IH]; cbn; [reflexivity|]. rewrite H, IH. reflexivity. Qed.

Lemma c09_update_all_closed ts : forall c,
  NoDup (keys c) ->
  update_all ts c =
  if existsb (fun t => dep_at t c) (somes ts) then Err DeprecatedStabilizationBranch
  else Ok (map_slots (tags_slot (somes ts)) c).
Proof.
  induction ts as [|[t|] r IH]; intros c ND; cbn [update_all somes flat_map app existsb].
  - f_equal. symmetry. apply c09_map_slots_id_in. reflexivity.
  - rewrite (c09_update_versions_closed t c ND). fold (somes r).
    destruct (dep_at t c); cbn [orb bind]; [reflexivity|].
    rewrite IH by (rewrite c09_keys_map_slots; exact ND).
    rewrite (c09_existsb_ext (fun t0 => dep_at t0 (map_slots (tag_slot t) c)) (fun t0 => dep_at t0 c))
      by (intro t0; apply c09_dep_at_map_slots; intros; apply c09_tag_slot_desc).
    destruct (existsb (fun t0 => dep_at t0 c) (somes r)); [reflexivity|].
    rewrite c09_map_slots_map_slots. reflexivity.
  - fold (somes r). apply IH; exact ND.
Qed.

(* --- _update_major_versions *)

Definition minors_of (ks : list key) (x : Z) : list Z :=
  flat_map (fun k' => if fst k' =? x then match snd k' with Some m => [m] | None => [] end else []) ks.

Definition major_slot (ks : list key) (k : key) (s : slot) : slot :=
  match snd k with
  | Some _ => s
  | None =>
      match s_dev s with
      | Some (db, a) =>
          mkSlot (Some (db, mkDA (da_micro a) (max_list (da_latest_minor a) (minors_of ks (major_of db)))
                                 (da_has_stab a) (da_stab_micro a))) (s_stab s) (s_hf s)
      | None => s
      end
  end.

Definition major_step (ks : list key) (e : key * slot) : result (key * slot) :=
  let '(k, s) := e in
  match snd k with
  | Some _ => Ok e
  | None =>
      match s_dev s with
      | None => Err AttributeError
      | Some (db, a) =>
          let minors := flat_map (fun k' => if fst k' =? major_of db
                                            then match snd k' with Some m => [m] | None => [] end
                                            else []) ks in
          Ok (k, mkSlot (Some (db, mkDA (da_micro a) (max_list (da_latest_minor a) minors)
                                        (da_has_stab a) (da_stab_micro a))) (s_stab s) (s_hf s))
      end
  end.

Lemma c09_update_major_fold ks (l : cascade) :
  (forall k s, In (k, s) l -> snd k = None -> s_dev s <> None) ->
  fold_right (fun e acc => bind (major_step ks e) (fun e' => bind acc (fun l => Ok (e' :: l)))) (Ok []) l
  = Ok (map_slots (major_slot ks) l).
Proof.
  intro H. induction l as [|[k s] t IH]; cbn [fold_right map_slots map fst snd]; [reflexivity|].
  rewrite IH by (intros k0 s0 Hin; apply H; right; exact Hin). fold (map_slots (major_slot ks) t).
  unfold major_step. destruct k as [x [y|]]; cbn [snd bind]; [reflexivity|].
  destruct (s_dev s) as [[db a]|] eqn:F; [cbn [bind]; unfold major_slot at 2, minors_of; cbn [snd]; rewrite F; reflexivity|].
  exfalso. apply (H (x, None) s); [left; reflexivity | reflexivity | exact F].
Qed.

Lemma c09_update_major_closed c :
  (forall k s, In (k, s) c -> snd k = None -> s_dev s <> None) ->
  update_major_versions c = Ok (map_slots (major_slot (keys c)) c).
Proof. intro H. rewrite <- (c09_update_major_fold (keys c) c H). reflexivity. Qed.

Lemma c09_major_slot_desc ks k s : same_desc s (major_slot ks k s).
Proof.
  unfold major_slot. destruct (snd k); [apply c09_same_desc_refl|].
  destruct (s_dev s) as [[db a]|] eqn:F; [|apply c09_same_desc_refl]. repeat split; cbn; rewrite ?F; reflexivity.
Qed.

(* --- the attribute values after all tags and _update_major_versions *)

Lemma c09_max_list_acc z d l : max_list (Z.max z d) l = Z.max z (max_list d l).
Proof. unfold max_list. induction l as [|a t IH]; cbn [fold_right]; [reflexivity|]. rewrite IH. lia. Qed.

Lemma c09_next_after_acc n d l : next_after (Z.max (n + 1) d) l = Z.max (n + 1) (next_after d l).
Proof. unfold next_after. induction l as [|a t IH]; cbn [fold_right]; [reflexivity|]. rewrite IH. lia. Qed.

Lemma c09_next_after_max_list d l : next_after d l = max_list (d - 1) l + 1.
Proof. unfold next_after, max_list. induction l as [|a t IH]; cbn [fold_right]; [lia|]. rewrite IH. lia. Qed.

Lemma c09_max_list_app d l1 l2 : max_list d (l1 ++ l2) = max_list (max_list d l2) l1.
Proof. unfold max_list. apply fold_right_app. Qed.

Lemma c09_max_list_bounds d l : d <= max_list d l /\ forall z, In z l -> z <= max_list d l.
Proof.
  unfold max_list. induction l as [|a t [IH1 IH2]]; cbn [fold_right]; [split; [lia | intros ? []]|].
  split; [lia|]. intros z [<-|Hz]; [lia | specialize (IH2 z Hz); lia].
Qed.

Lemma c09_max_list_incl d l1 l2 : incl l1 l2 -> max_list d l1 <= max_list d l2.
Proof.
  induction l1 as [|a t IH]; intro H.
  - apply (proj1 (c09_max_list_bounds d l2)).
  - change (Z.max a (max_list d t) <= max_list d l2). apply Z.max_lub.
    + apply (proj2 (c09_max_list_bounds d l2)). apply H. left; reflexivity.
    + apply IH. intros z Hz. apply H. right; exact Hz.
Qed.

Lemma c09_max_list_same d l1 l2 : incl l1 l2 -> incl l2 l1 -> max_list d l1 = max_list d l2.
Proof. intros H1 H2. apply Z.le_antisymm; apply c09_max_list_incl; assumption. Qed.

Definition rel_patches (ts : list ptag) (k : key) : list Z :=
  match snd k with Some y => released_patches ts (fst k) y | None => [] end.
Definition rel_minors (ts : list ptag) (k : key) : list Z :=
  match snd k with None => released_minors ts (fst k) | Some _ => [] end.
Definition rel_hf (ts : list ptag) (k : key) (hb : branch) : list Z :=
  match snd k with Some y => released_hfrevs ts (fst k) y (micro_of hb) | None => [] end.

Lemma c09_key_eqb_some_false x y kx ky : key_eqb (x, Some y) (kx, Some ky) = false -> (x =? kx) && (y =? ky) = false.
Proof. unfold key_eqb. cbn. auto. Qed.

Lemma c09_key_eqb_none_false x kx : key_eqb (x, None) (kx, None) = false -> (x =? kx) = false.
Proof. unfold key_eqb. cbn. rewrite andb_true_r. auto. Qed.

Lemma c09_tags_slot_dev ts k : forall s db a,
  s_dev s = Some (db, a) ->
  s_dev (tags_slot ts k s) =
  Some (db, mkDA (max_list (da_micro a) (rel_patches ts k)) (max_list (da_latest_minor a) (rel_minors ts k))
                 (da_has_stab a) (da_stab_micro a)).
Proof.
  unfold tags_slot. induction ts as [|t r IH]; intros s db a F; cbn [fold_left].
  - unfold rel_patches, rel_minors. destruct (snd k); cbn; rewrite F; destruct a; reflexivity.
  - destruct t as [[[x y] z] h]. unfold tag_slot at 2.
    destruct (key_eqb (x, Some y) k) eqn:E1.
    + apply c09_key_eqb_eq in E1. subst k.
      assert (F1 : s_dev (micro_step z (hf_step z match h with Some n => n | None => tag_default_hfrev end s)) =
                   Some (db, mkDA (Z.max z (da_micro a)) (da_latest_minor a) (da_has_stab a) (da_stab_micro a))).
      { unfold micro_step, upd_dev. destruct (c09_hf_step_desc z match h with Some n => n | None => tag_default_hfrev end s) as (_ & _ & D).
        rewrite F in D. cbn in D.
        destruct (s_dev (hf_step z match h with Some n => n | None => tag_default_hfrev end s)) as [[db' a']|] eqn:F'; [|discriminate D].
        unfold hf_step, set_hfrev in F'. destruct (s_hf s) as [[hb rev]|]; [destruct (micro_of hb =? z)|]; cbn in F';
        rewrite F in F'; injection F' as <- <-; reflexivity. }
      rewrite (IH _ _ _ F1). unfold rel_patches, rel_minors, released_patches. cbn [snd fst flat_map da_micro da_latest_minor da_has_stab da_stab_micro].
      rewrite !Z.eqb_refl. cbn [andb app]. rewrite c09_max_list_acc. reflexivity.
    + destruct (key_eqb (x, None) k) eqn:E2.
      * apply c09_key_eqb_eq in E2. subst k.
        assert (F1 : s_dev (lminor_step y s) = Some (db, mkDA (da_micro a) (Z.max y (da_latest_minor a)) (da_has_stab a) (da_stab_micro a)))
          by (unfold lminor_step, upd_dev; rewrite F; reflexivity).
        rewrite (IH _ _ _ F1). unfold rel_patches, rel_minors, released_minors. cbn [snd fst flat_map da_micro da_latest_minor da_has_stab da_stab_micro].
        rewrite !Z.eqb_refl. cbn [app]. rewrite c09_max_list_acc. reflexivity.
      * rewrite (IH _ _ _ F). unfold rel_patches, rel_minors, released_patches, released_minors.
        destruct k as [kx [ky|]]; cbn [snd fst flat_map].
        -- rewrite (c09_key_eqb_some_false _ _ _ _ E1). reflexivity.
        -- rewrite (c09_key_eqb_none_false _ _ E2). reflexivity.
Qed.

Lemma c09_tags_slot_hf ts k : forall s hb r,
  s_hf s = Some (hb, r) -> s_hf (tags_slot ts k s) = Some (hb, next_after r (rel_hf ts k hb)).
Proof.
  unfold tags_slot. induction ts as [|t rest IH]; intros s hb r F; cbn [fold_left].
  - unfold rel_hf. destruct (snd k); cbn; exact F.
  - destruct t as [[[x y] z] h]. unfold tag_slot at 2.
    set (hfrev := match h with Some n => n | None => tag_default_hfrev end).
    assert (Hh : hfrev = match h with Some n => n | None => 0 end) by (subst hfrev; destruct h; reflexivity).
    destruct (key_eqb (x, Some y) k) eqn:E1.
    + apply c09_key_eqb_eq in E1. subst k.
      assert (F1 : s_hf (micro_step z (hf_step z hfrev s)) =
                   Some (hb, if micro_of hb =? z then Z.max (hfrev + 1) r else r)).
      { destruct (c09_upd_dev_desc (fun a => mkDA (Z.max z (da_micro a)) (da_latest_minor a) (da_has_stab a) (da_stab_micro a))
                                   (hf_step z hfrev s)) as (_ & _ & _).
        assert (G : s_hf (micro_step z (hf_step z hfrev s)) = s_hf (hf_step z hfrev s)).
        { unfold micro_step, upd_dev. destruct (s_dev (hf_step z hfrev s)) as [[? ?]|]; reflexivity. }
        rewrite G. unfold hf_step, set_hfrev. rewrite F. destruct (micro_of hb =? z); [reflexivity | exact F]. }
      rewrite (IH _ _ _ F1). unfold rel_hf, released_hfrevs. cbn [snd fst flat_map]. rewrite !Z.eqb_refl. cbn [andb].
      rewrite (Z.eqb_sym z (micro_of hb)). destruct (micro_of hb =? z); cbn [app]; [|reflexivity].
      rewrite c09_next_after_acc, <- Hh. reflexivity.
    + assert (F1 : s_hf (if key_eqb (x, None) k then lminor_step y s else s) = Some (hb, r)).
      { destruct (key_eqb (x, None) k); [|exact F]. unfold lminor_step, upd_dev. destruct (s_dev s) as [[? ?]|]; exact F. }
      rewrite (IH _ _ _ F1). unfold rel_hf, released_hfrevs. destruct k as [kx [ky|]]; cbn [snd fst flat_map]; [|reflexivity].
      rewrite (c09_key_eqb_some_false _ _ _ _ E1). reflexivity.
Qed.

Definition final_slot (ts : list ptag) (ks : list key) (k : key) (s : slot) : slot :=
  major_slot ks k (tags_slot ts k s).

Lemma c09_final_slot_desc ts ks k s : same_desc s (final_slot ts ks k s).
Proof. eapply c09_same_desc_trans; [apply c09_tags_slot_desc | apply c09_major_slot_desc]. Qed.

Definition micro_final (ts : list ptag) (k : key) : Z := max_list default_micro (rel_patches ts k).
Definition lminor_final (ts : list ptag) (ks : list key) (k : key) (db : branch) : Z :=
  match snd k with
  | None => max_list (max_list default_latest_minor (rel_minors ts k)) (minors_of ks (major_of db))
  | Some _ => default_latest_minor
  end.

Lemma c09_final_slot_dev ts ks k s db :
  s_dev s = Some (db, dev_default) ->
  s_dev (final_slot ts ks k s) =
  Some (db, mkDA (micro_final ts k) (lminor_final ts ks k db) default_has_stabilization default_stabilization_micro).
Proof.
  intro F. unfold final_slot, major_slot. pose proof (c09_tags_slot_dev ts k _ _ _ F) as G.
  unfold micro_final, lminor_final, dev_default in *. cbn [da_micro da_latest_minor da_has_stab da_stab_micro] in G.
  unfold rel_minors in *. destruct (snd k) eqn:Ek; rewrite G; reflexivity.
Qed.

Lemma c09_final_slot_hf ts ks k s hb :
  s_hf s = Some (hb, default_hfrev) ->
  s_hf (final_slot ts ks k s) = Some (hb, next_after default_hfrev (rel_hf ts k hb)).
Proof.
  intro F. unfold final_slot, major_slot. pose proof (c09_tags_slot_hf ts k _ _ _ F) as G.
  destruct (snd k); [exact G|]. destruct (s_dev (tags_slot ts k s)) as [[? ?]|]; exact G.
Qed.

(* ======================================================================================== *)
(* 4. finalize: the loop in closed form                                                       *)
(* ======================================================================================== *)

Definition dev_b (s : slot) : list branch := match s_dev s with Some (db, _) => [db] | None => [] end.
Definition stab_b (s : slot) : list branch := match s_stab s with Some sb => [sb] | None => [] end.
Definition hf_b (s : slot) : list branch := match s_hf s with Some (hb, _) => [hb] | None => [] end.

(* the development branch object after "dev_branch.has_stabilization = True" *)
Definition mark_dev (s : slot) : option (branch * devattrs) :=
  match s_dev s with
  | Some (db, a) => Some (db, match s_stab s with
                              | Some sb => mkDA (da_micro a) (da_latest_minor a) true (Some (micro_of sb))
                              | None => a
                              end)
  | None => None
  end.

Lemma c09_prefix_hotfix dst :
  String.prefix "hotfix/" (name_of dst) = match dst with Hotfix _ _ _ => true | _ => false end.
Proof.
  destruct dst as [x [y|]|x y z|x y z]; try reflexivity.
  unfold name_of. generalize (dec x ++ "." ++ dec y ++ "." ++ dec z)%string. intro r. destruct r; reflexivity.
Qed.

(* a slot below the destination: everything in it is ignored, the slot is deleted *)
Lemma c09_step_removed dst k s db a :
  s_dev s = Some (db, a) -> s_hf s = None -> branch_eq dst db = false ->
  (forall sb, s_stab s = Some sb -> branch_eq dst sb = false) ->
  fin_step dst false false false k s = Ok (mkStep (map name_of (db :: stab_b s)) [] [] false false true).
Proof.
  intros Fd Fh M1 M2. unfold fin_step, stab_b. rewrite Fd, Fh.
  destruct (s_stab s) as [sb|] eqn:Fs; cbn [orb negb]; rewrite M1; [rewrite (M2 sb eq_refl)|]; reflexivity.
Qed.

(* a slot at (development destination) or above the destination: the development branch is a target,
   the stabilization branch is ignored *)
Lemma c09_step_kept dst k s db a f :
  s_dev s = Some (db, a) -> s_hf s = None -> f || branch_eq dst db = true ->
  fin_step dst false f f k s =
  Ok (mkStep (map name_of (stab_b s)) [db] [(k, mkSlot (mark_dev s) None None)] true true true).
Proof.
  intros Fd Fh M. unfold fin_step, stab_b, mark_dev. rewrite Fd, Fh.
  destruct (s_stab s) as [sb|] eqn:Fs; cbn [orb negb]; rewrite M; cbn [orb negb app]; reflexivity.
Qed.

(* the slot of a stabilization destination: both branches of the slot are targets *)
Lemma c09_step_stab_dst dst k s db a sb :
  s_dev s = Some (db, a) -> s_hf s = None -> branch_eq dst db = false ->
  s_stab s = Some sb -> branch_eq dst sb = true ->
  fin_step dst false false false k s =
  Ok (mkStep [] [sb; db] [(k, mkSlot (mark_dev s) (Some sb) None)] true true true).
Proof.
  intros Fd Fh M1 Fs M2. unfold fin_step, mark_dev. rewrite Fd, Fh, Fs. cbn [orb negb]. rewrite M1, M2. reflexivity.
Qed.

Definition good_slot (s : slot) : Prop := s_dev s <> None /\ s_hf s = None.

Lemma c09_loop_kept dst : forall l last,
  (forall k s, In (k, s) l -> good_slot s) ->
  fin_loop dst false true true last l =
  Ok (mkFin (map name_of (flat_map (fun e => stab_b (snd e)) l)) (flat_map (fun e => dev_b (snd e)) l)
            (map (fun e => (fst e, mkSlot (mark_dev (snd e)) None None)) l),
      match l with [] => last | _ => true end).
Proof.
  induction l as [|[k s] t IH]; intros last G; [reflexivity|].
  destruct (G k s (or_introl eq_refl)) as [Gd Gh]. destruct (s_dev s) as [[db a]|] eqn:Fd; [|contradiction].
  cbn [fin_loop]. rewrite (c09_step_kept dst k s db a true Fd Gh eq_refl).
  cbn [st_ignored st_dst st_rem st_ign st_inc st_last].
  rewrite IH by (intros k0 s0 Hin; apply (G k0 s0); right; exact Hin).
  cbn [fin_cons bind f_ignored f_dst f_rem flat_map map fst snd]. unfold dev_b at 2. rewrite Fd.
  rewrite map_app. destruct t; reflexivity.
Qed.

Lemma c09_loop_removed dst : forall l last tail r,
  (forall k s, In (k, s) l -> good_slot s /\
      (forall db a, s_dev s = Some (db, a) -> branch_eq dst db = false) /\
      (forall sb, s_stab s = Some sb -> branch_eq dst sb = false)) ->
  (forall last', fin_loop dst false false false last' tail = Ok r) ->
  tail <> [] ->
  fin_loop dst false false false last (l ++ tail) =
  Ok (mkFin (map name_of (flat_map (fun e => dev_b (snd e) ++ stab_b (snd e)) l) ++ f_ignored (fst r))
            (f_dst (fst r)) (f_rem (fst r)), snd r).
Proof.
  induction l as [|[k s] t IH]; intros last tail r G T NE.
  - cbn [app flat_map map]. rewrite T. destruct r as [[ig ds rm] la]. reflexivity.
  - destruct (G k s (or_introl eq_refl)) as ([Gd Gh] & M1 & M2).
    destruct (s_dev s) as [[db a]|] eqn:Fd; [|contradiction].
    cbn [app fin_loop]. rewrite (c09_step_removed dst k s db a Fd Gh (M1 db a eq_refl) M2).
    cbn [st_ignored st_dst st_rem st_ign st_inc st_last].
    rewrite (IH true tail r) by (try assumption; intros k0 s0 Hin; apply (G k0 s0); right; exact Hin).
    cbn [fin_cons bind f_ignored f_dst f_rem flat_map map fst snd]. unfold dev_b at 2. rewrite Fd.
    rewrite !map_app. cbn [map app]. rewrite <- !app_assoc. reflexivity.
Qed.

(* hotfix destination: every development and stabilization branch is ignored, the destination's slot
   stays with the hotfix branch alone *)
Definition hf_ok (dst : branch) (s : slot) : Prop :=
  (s_dev s <> None \/ (s_stab s = None /\ s_hf s <> None)) /\
  (forall hb r, s_hf s = Some (hb, r) -> hb = dst).

Lemma c09_step_hf dst k s : hf_ok dst s -> (exists x y z, dst = Hotfix x y z) ->
  exists f l,
  fin_step dst true false false k s =
  Ok (mkStep (map name_of (stab_b s ++ dev_b s)) (hf_b s)
             (match s_hf s with Some _ => [(k, mkSlot None None (s_hf s))] | None => [] end) f f l).
Proof.
  intros [O1 O2] (x & y & z & ->). unfold fin_step, stab_b, dev_b, hf_b.
  destruct (s_dev s) as [[db a]|] eqn:Fd.
  - assert (M1 : branch_eq (Hotfix x y z) db = false) by reflexivity.
    destruct (s_stab s) as [sb|] eqn:Fs; destruct (s_hf s) as [[hb r]|] eqn:Fh;
      try rewrite (O2 hb r eq_refl); rewrite ?String.eqb_refl; cbn [orb negb app map]; exists false, true; reflexivity.
  - destruct O1 as [O1|[O1 O3]]; [contradiction|]. rewrite O1.
    destruct (s_hf s) as [[hb r]|] eqn:Fh; [|contradiction]. rewrite (O2 hb r eq_refl), String.eqb_refl.
    cbn [orb negb app map]. exists false, false. reflexivity.
Qed.

Lemma c09_loop_hf dst : forall l last,
  (exists x y z, dst = Hotfix x y z) ->
  (forall k s, In (k, s) l -> hf_ok dst s) ->
  exists last',
  fin_loop dst true false false last l =
  Ok (mkFin (map name_of (flat_map (fun e => stab_b (snd e) ++ dev_b (snd e)) l))
            (flat_map (fun e => hf_b (snd e)) l)
            (flat_map (fun e => match s_hf (snd e) with
                                | Some _ => [(fst e, mkSlot None None (s_hf (snd e)))]
                                | None => []
                                end) l), last').
Proof.
  induction l as [|[k s] t IH]; intros last D G; [exists last; reflexivity|].
  destruct (c09_step_hf dst k s (G k s (or_introl eq_refl)) D) as (f & la & St).
  cbn [fin_loop]. rewrite St. cbn [st_ignored st_dst st_rem st_ign st_inc st_last].
  assert (f = false) as ->.
  { destruct D as (x & y & z & ->). unfold fin_step in St.
    destruct (s_dev s) as [[db a]|], (s_stab s) as [sb|], (s_hf s) as [[hb r]|]; cbn in St;
    try discriminate St;
    repeat match type of St with context [if ?c then _ else _] => destruct c end;
    try discriminate St; injection St; intros; congruence. }
  destruct (IH la D) as [last' E]; [intros k0 s0 Hin; apply (G k0 s0); right; exact Hin|].
  rewrite E. exists last'. cbn [fin_cons bind f_ignored f_dst f_rem flat_map map fst snd].
  rewrite !map_app. reflexivity.
Qed.

(* a stabilization branch without its development branch makes finalize raise DevBranchDoesNotExist,
   whatever else sits in the slot (since f5b7e55 also next to a hotfix destination) *)
Lemma c09_loop_err dst dst_hf : forall l ign inc last,
  (exists k s, In (k, s) l /\ s_dev s = None /\ s_stab s <> None) ->
  (forall k s, In (k, s) l -> s_dev s = None -> snd k <> None) ->
  fin_loop dst dst_hf ign inc last l = Err DevBranchDoesNotExist.
Proof.
  induction l as [|[k s] t IH]; intros ign inc last (k0 & s0 & Hin & B) NK; [destruct Hin|].
  cbn [fin_loop].
  destruct (fin_step dst dst_hf ign inc k s) as [o|e] eqn:St.
  - rewrite IH; [reflexivity| |intros; eapply NK; [right|..]; eassumption].
    destruct Hin as [Hin|Hin]; [|exists k0, s0; auto].
    injection Hin as <- <-. destruct B as [B1 B2]. unfold fin_step in St. rewrite B1 in St.
    destruct (s_stab s) as [sb|]; [|contradiction]. destruct (s_hf s) as [[hb r]|]; discriminate St.
  - assert (Em : missing_dev_error k = DevBranchDoesNotExist -> e = missing_dev_error k -> e = DevBranchDoesNotExist)
      by congruence.
    unfold fin_step in St.
    destruct (s_dev s) as [[db a]|] eqn:Fd.
    + destruct (s_hf s) as [[hb r]|], (s_stab s) as [sb|]; cbn in St;
      repeat match type of St with context [if ?c then _ else _] => destruct c end; discriminate St.
    + assert (Ek : missing_dev_error k = DevBranchDoesNotExist).
      { unfold missing_dev_error. destruct (snd k) eqn:Ek; [reflexivity|]. exfalso.
        apply (NK k s); auto. left; reflexivity. }
      destruct (s_hf s) as [[hb r]|] eqn:Fh; destruct (s_stab s) as [sb|] eqn:Fs; cbn in St;
      repeat match type of St with context [if ?c then _ else _] => destruct c end;
      try discriminate St; injection St as <-; rewrite Ek; reflexivity.
Qed.

(* ======================================================================================== *)
(* 5. From the cascade back to the set of branches                                            *)
(* ======================================================================================== *)

Lemma c09_branch_eqb_eq a b : branch_eqb a b = true <-> a = b.
Proof.
  destruct a as [x1 y1|x1 y1 z1|x1 y1 z1], b as [x2 y2|x2 y2 z2|x2 y2 z2]; cbn [branch_eqb];
  try (split; [discriminate | discriminate]);
  rewrite ?andb_true_iff, ?Z.eqb_eq, ?c09_optZ_eqb_eq; split; try (intros [[-> ->] ->]; reflexivity);
  try (intros [-> ->]; reflexivity); intro H; injection H; auto.
Qed.

Lemma c09_branch_eqb_refl a : branch_eqb a a = true.
Proof. apply c09_branch_eqb_eq. reflexivity. Qed.

Lemma c09_mem_in b l : mem b l = true <-> In b l.
Proof.
  unfold mem. rewrite existsb_exists. split.
  - intros (x & Hx & E). apply c09_branch_eqb_eq in E. subst. exact Hx.
  - intro H. exists b. split; [exact H | apply c09_branch_eqb_refl].
Qed.

Lemma c09_mem_false b l : ~ In b l -> mem b l = false.
Proof. intro H. destruct (mem b l) eqn:E; [apply c09_mem_in in E; contradiction | reflexivity]. Qed.

Lemma c09_dev_of_key b : class_of b = CDev -> b = dev_of_line (key_of b).
Proof. destruct b; try discriminate. reflexivity. Qed.

Lemma c09_in_dev_lines k bs : In k (dev_lines bs) <-> In (dev_of_line k) bs.
Proof.
  unfold dev_lines. rewrite in_flat_map. destruct k as [x y]. unfold dev_of_line. cbn [fst snd]. split.
  - intros (b & Hb & Hk). destruct b; cbn in Hk; try contradiction. destruct Hk as [E|[]]. injection E as -> ->. exact Hb.
  - intro H. exists (Dev x y). split; [exact H | left; reflexivity].
Qed.

Lemma c09_nodup_dev_lines bs : NoDup bs -> NoDup (dev_lines bs).
Proof.
  unfold dev_lines. induction 1 as [|b t Hn ND IH]; cbn [flat_map]; [constructor|].
  destruct b as [x y| |]; cbn [app]; try exact IH. constructor; [|exact IH].
  intro H. apply Hn. apply (c09_in_dev_lines (x, y)) in H. exact H.
Qed.

Lemma c09_sorted_app_inv (l1 : list key) k0 l2 :
  StronglySorted llt (l1 ++ k0 :: l2) -> Forall (fun k => llt k k0) l1 /\ Forall (llt k0) l2 /\
  StronglySorted llt l1 /\ StronglySorted llt l2.
Proof.
  induction l1 as [|a t IH]; cbn [app]; intro S.
  - inversion S; subst. repeat split; [constructor | assumption | constructor | assumption].
  - inversion S as [|? ? St Ha]; subst. destruct (IH St) as (F1 & F2 & S1 & S2). repeat split; try assumption.
    + constructor; [|exact F1]. rewrite Forall_forall in Ha. apply Ha. apply in_app_iff. right. left. reflexivity.
    + constructor; [exact S1|]. rewrite Forall_forall in *. intros y Hy. apply Ha. apply in_app_iff. left. exact Hy.
Qed.

(* filtering the lines from k0 on out of a sorted list of lines *)
Lemma c09_filter_from (l1 : list key) k0 l2 (f : key -> bool) :
  StronglySorted llt (l1 ++ k0 :: l2) ->
  (forall k, In k l1 -> f k = false) -> (forall k, In k l2 -> f k = true) ->
  filter f (l1 ++ k0 :: l2) = (if f k0 then [k0] else []) ++ l2.
Proof.
  intros _ H1 H2. rewrite filter_app. cbn [filter].
  assert (E1 : filter f l1 = []).
  { induction l1 as [|a t IH]; cbn; [reflexivity|]. rewrite (H1 a (or_introl eq_refl)). apply IH. intros; apply H1; right; assumption. }
  assert (E2 : filter f l2 = l2).
  { induction l2 as [|a t IH]; cbn; [reflexivity|]. rewrite (H2 a (or_introl eq_refl)). f_equal. apply IH. intros; apply H2; right; assumption. }
  rewrite E1, E2. destruct (f k0); reflexivity.
Qed.

Definition has_dev (s : slot) : bool := match s_dev s with Some _ => true | None => false end.
Definition dev_slots (c : cascade) : cascade := filter (fun e => has_dev (snd e)) c.

Lemma c09_sorted_filter_keys (f : key * slot -> bool) (c : cascade) :
  StronglySorted llt (keys c) -> StronglySorted llt (keys (filter f c)).
Proof.
  unfold keys. induction c as [|e t IH]; cbn [map filter]; intro S; [constructor|].
  inversion S as [|? ? St He]; subst. destruct (f e); cbn [map]; [|apply IH; exact St].
  constructor; [apply IH; exact St|]. rewrite Forall_forall in *. intros y Hy.
  apply He. apply in_map_iff in Hy as (e' & <- & He'). apply filter_In in He' as [He' _]. apply in_map. exact He'.
Qed.

Lemma c09_shape_dev_slot p dst c k s db a :
  Shape p dst c -> In (k, s) c -> s_dev s = Some (db, a) -> db = dev_of_line k /\ In (dev_of_line k) p.
Proof.
  intros Sh Hin F. destruct (sh_dev _ _ _ Sh _ _ _ _ Hin F) as (I & Kk & Cc).
  pose proof (c09_dev_of_key db Cc) as E. rewrite Kk in E. subst db. split; [reflexivity | exact I].
Qed.

Lemma c09_shape_has_dev p dst c k : Shape p dst c ->
  In (dev_of_line k) p -> exists s, In (k, s) c /\ has_dev s = true.
Proof.
  intros Sh I. destruct (sh_complete _ _ _ Sh _ I eq_refl) as (s & Hs & Hh).
  destruct k as [x y]. cbn in Hs. exists s. split; [exact Hs|].
  unfold holds in Hh. cbn in Hh. destruct Hh as [a Hh]. unfold has_dev. rewrite Hh. reflexivity.
Qed.

(* the slots that hold a development branch are the release lines of the set, in the order of the statement *)
Lemma c09_dev_slots_lines p dst c : Shape p dst c -> NoDup p -> keys (dev_slots c) = sort_lines (dev_lines p).
Proof.
  intros Sh ND. rewrite c09_sort_lines_isort. symmetry.
  pose proof (c09_sorted_filter_keys (fun e => has_dev (snd e)) c (sh_sorted _ _ _ Sh)) as S.
  apply c09_sorted_perm_eq with (le := line_le).
  - exact c09_line_le_antisym.
  - apply c09_isort_sorted; [exact c09_line_le_total | exact c09_line_le_trans].
  - apply c09_llt_sorted_le. exact S.
  - rewrite c09_isort_perm. apply NoDup_Permutation.
    + apply c09_nodup_dev_lines; exact ND.
    + apply c09_llt_sorted_nodup; exact S.
    + intro k. rewrite c09_in_dev_lines. unfold dev_slots, keys. rewrite in_map_iff. split.
      * intro I. destruct (c09_shape_has_dev _ _ _ k Sh I) as (s & Hs & Hd).
        exists (k, s). split; [reflexivity|]. apply filter_In. split; [exact Hs | exact Hd].
      * intros ([k' s] & <- & He). apply filter_In in He as [He Hd]. cbn [fst snd] in *.
        unfold has_dev in Hd. destruct (s_dev s) as [[db a]|] eqn:F; [|discriminate Hd].
        apply (c09_shape_dev_slot _ _ _ _ _ _ _ Sh He F).
Qed.

(* --- all the branch objects of a cascade *)

Definition slot_bs (s : slot) : list branch := dev_b s ++ stab_b s ++ hf_b s.
Definition all_b (c : cascade) : list branch := flat_map (fun e => slot_bs (snd e)) c.

Lemma c09_in_slot_bs p dst c k s b : Shape p dst c -> In (k, s) c -> In b (slot_bs s) ->
  In b p /\ key_of b = k /\ kept dst b /\ holds s b.
Proof.
  intros Sh Hin. unfold slot_bs, dev_b, stab_b, hf_b, holds. rewrite !in_app_iff.
  intros [H|[H|H]].
  - destruct (s_dev s) as [[db a]|] eqn:F; [|destruct H]. destruct H as [<-|[]].
    destruct (sh_dev _ _ _ Sh _ _ _ _ Hin F) as (I & Kk & Cc). rewrite Cc. repeat split; eauto.
    destruct db; try discriminate Cc; reflexivity.
  - destruct (s_stab s) as [sb|] eqn:F; [|destruct H]. destruct H as [<-|[]].
    destruct (sh_stab _ _ _ Sh _ _ _ Hin F) as (I & Kk & Cc). rewrite Cc. repeat split; eauto.
    destruct sb; try discriminate Cc; reflexivity.
  - destruct (s_hf s) as [[hb r]|] eqn:F; [|destruct H]. destruct H as [<-|[]].
    destruct (sh_hf _ _ _ Sh _ _ _ _ Hin F) as (I & Kk & Cc & Kp). rewrite Cc. repeat split; eauto.
Qed.

Lemma c09_holds_in_slot_bs s b : holds s b -> In b (slot_bs s).
Proof.
  unfold holds, slot_bs, dev_b, stab_b, hf_b. rewrite !in_app_iff.
  destruct (class_of b); [intros [a ->]; left | intros ->; right; left | intros [r ->]; right; right]; left; reflexivity.
Qed.

Lemma c09_nodup_app {A} (l1 l2 : list A) :
  NoDup l1 -> NoDup l2 -> (forall x, In x l1 -> ~ In x l2) -> NoDup (l1 ++ l2).
Proof.
  induction 1 as [|a t Hn ND IH]; intros N2 D; cbn [app]; [exact N2|].
  constructor.
  - rewrite in_app_iff. intros [H|H]; [contradiction | apply (D a); [left; reflexivity | exact H]].
  - apply IH; [exact N2 | intros x Hx; apply D; right; exact Hx].
Qed.

Lemma c09_nodup_slot_bs p dst c k s : Shape p dst c -> In (k, s) c -> NoDup (slot_bs s).
Proof.
  intros Sh Hin. unfold slot_bs, dev_b, stab_b, hf_b.
  destruct (s_dev s) as [[db a]|] eqn:Fd; destruct (s_stab s) as [sb|] eqn:Fs; destruct (s_hf s) as [[hb r]|] eqn:Fh;
  cbn [app]; repeat constructor; cbn [In];
  try (destruct (sh_dev _ _ _ Sh _ _ _ _ Hin Fd) as (_ & _ & C1));
  try (destruct (sh_stab _ _ _ Sh _ _ _ Hin Fs) as (_ & _ & C2));
  try (destruct (sh_hf _ _ _ Sh _ _ _ _ Hin Fh) as (_ & _ & C3 & _));
  intuition (subst; congruence).
Qed.

Lemma c09_nodup_all_b p dst c : Shape p dst c -> NoDup (all_b c).
Proof.
  intro Sh. pose proof (c09_shape_nodup _ _ _ Sh) as ND.
  assert (G : forall l, (forall e, In e l -> In e c) -> NoDup (keys l) -> NoDup (all_b l)).
  { induction l as [|[k s] t IH]; intros Sub NDl; cbn [all_b flat_map]; [constructor|].
    cbn [keys map fst] in NDl. inversion NDl as [|? ? Hn NDt]; subst. cbn [snd].
    apply c09_nodup_app.
    - eapply c09_nodup_slot_bs; [exact Sh | apply Sub; left; reflexivity].
    - apply IH; [intros e He; apply Sub; right; exact He | exact NDt].
    - intros b Hb Hb'. apply in_flat_map in Hb' as ([k' s'] & He' & Hb'). cbn [snd] in Hb'.
      destruct (c09_in_slot_bs _ _ _ _ _ _ Sh (Sub _ (or_introl eq_refl)) Hb) as (_ & K1 & _).
      destruct (c09_in_slot_bs _ _ _ _ _ _ Sh (Sub _ (or_intror He')) Hb') as (_ & K2 & _).
      apply Hn. rewrite <- K1, K2. eapply c09_in_keys; exact He'. }
  apply G; [auto | exact ND].
Qed.

Definition keptb (dst : option branch) (b : branch) : bool := negb (hotfix_discarded b dst).

Lemma c09_all_b_perm p dst c : Shape p dst c -> NoDup p -> Permutation (all_b c) (filter (keptb dst) p).
Proof.
  intros Sh ND. apply NoDup_Permutation.
  - eapply c09_nodup_all_b; exact Sh.
  - apply NoDup_filter; exact ND.
  - intro b. rewrite filter_In. unfold all_b. rewrite in_flat_map. unfold keptb. rewrite negb_true_iff. split.
    + intros ([k s] & He & Hb). cbn [snd] in Hb. destruct (c09_in_slot_bs _ _ _ _ _ _ Sh He Hb) as (I & _ & K & _). auto.
    + intros [I K]. destruct (sh_complete _ _ _ Sh _ I K) as (s & Hs & Hh). exists (key_of b, s).
      split; [exact Hs | apply c09_holds_in_slot_bs; exact Hh].
Qed.

(* --- merge paths *)

Definition devs (l : cascade) : list branch := flat_map (fun e => dev_b (snd e)) l.

Fixpoint new_paths (l : cascade) : list (list branch) :=
  match l with
  | [] => []
  | (k, s) :: t =>
      match s_dev s with
      | Some _ => map (fun b => b :: devs ((k, s) :: t)) (hf_b s ++ stab_b s) ++ new_paths t
      | None => new_paths t
      end
  end.

Lemma c09_merge_loop : forall l ret,
  merge_paths_loop l ret = map (fun p => p ++ devs l) ret ++ new_paths l.
Proof.
  induction l as [|[k s] t IH]; intro ret; cbn [merge_paths_loop new_paths].
  - unfold devs. cbn. rewrite app_nil_r. rewrite <- (map_id ret) at 1. apply map_ext. intro p. rewrite app_nil_r. reflexivity.
  - unfold devs at 1 2. cbn [flat_map snd]. fold (devs t). unfold dev_b at 1 2. unfold hf_b, stab_b.
    destruct (s_dev s) as [[db a]|] eqn:Fd.
    + rewrite IH. destruct (s_hf s) as [[hb r]|]; destruct (s_stab s) as [sb|]; cbn [app map];
      rewrite ?map_app, ?map_map; cbn [map app]; rewrite <- ?app_assoc; cbn [app];
      repeat (f_equal; try (apply map_ext; intro p; rewrite <- app_assoc; reflexivity)).
    + rewrite IH. reflexivity.
Qed.

Lemma c09_get_merge_paths c : get_merge_paths c = devs c :: new_paths c.
Proof. unfold get_merge_paths. rewrite c09_merge_loop. reflexivity. Qed.

Lemma c09_devs_dev_slots c : devs (dev_slots c) = devs c /\ new_paths (dev_slots c) = new_paths c.
Proof.
  unfold dev_slots, devs. induction c as [|[k s] t [IH1 IH2]]; [split; reflexivity|].
  cbn [filter]. destruct (has_dev (snd (k, s))) eqn:Hd; cbn [snd] in Hd; unfold has_dev in Hd;
  destruct (s_dev s) as [[db a]|] eqn:F; try discriminate Hd.
  - cbn [flat_map snd new_paths]. rewrite F. unfold devs. cbn [flat_map snd]. rewrite IH1, IH2. split; reflexivity.
  - cbn [flat_map snd new_paths]. rewrite F. unfold dev_b at 2. rewrite F. split; [exact IH1 | exact IH2].
Qed.

Lemma c09_devs_lines p dst c (l : cascade) :
  Shape p dst c -> (forall e, In e l -> In e c /\ has_dev (snd e) = true) -> devs l = map dev_of_line (keys l).
Proof.
  intros Sh. unfold devs, keys. induction l as [|[k s] t IH]; intro H; [reflexivity|].
  cbn [flat_map map fst snd]. rewrite IH by (intros e He; apply H; right; exact He).
  destruct (H (k, s) (or_introl eq_refl)) as [Hin Hd]. cbn [snd] in Hd. unfold has_dev in Hd. unfold dev_b.
  destruct (s_dev s) as [[db a]|] eqn:F; [|discriminate Hd].
  destruct (c09_shape_dev_slot _ _ _ _ _ _ _ Sh Hin F) as [-> _]. reflexivity.
Qed.

Lemma c09_in_stab_micros bs x y z : In z (stab_micros bs x y) <-> In (Stab x y z) bs.
Proof.
  unfold stab_micros. rewrite in_flat_map. split.
  - intros (b & Hb & Hz). destruct b as [| x' y' z' |]; try destruct Hz.
    destruct ((x' =? x) && (y' =? y)) eqn:E; [|destruct Hz]. destruct Hz as [<-|[]].
    apply andb_true_iff in E as [E1 E2]. apply Z.eqb_eq in E1, E2. subst. exact Hb.
  - intro H. exists (Stab x y z). split; [exact H|]. rewrite !Z.eqb_refl. left; reflexivity.
Qed.

Lemma c09_nodup_stab_micros bs x y : NoDup bs -> NoDup (stab_micros bs x y).
Proof.
  unfold stab_micros. induction 1 as [|b t Hn ND IH]; cbn [flat_map]; [constructor|].
  destruct b as [| x' y' z' |]; cbn [app]; try exact IH.
  destruct ((x' =? x) && (y' =? y)) eqn:E; cbn [app]; [|exact IH].
  apply andb_true_iff in E as [E1 E2]. apply Z.eqb_eq in E1, E2. subst.
  constructor; [|exact IH]. intro H. apply Hn. apply (c09_in_stab_micros t x y z'). exact H.
Qed.

Lemma c09_singleton {A} (l : list A) z : NoDup l -> In z l -> (forall z', In z' l -> z' = z) -> l = [z].
Proof.
  intros ND I U. destruct l as [|a t]; [destruct I|]. rewrite (U a (or_introl eq_refl)) in *.
  destruct t as [|b t]; [reflexivity|]. exfalso. inversion ND as [|? ? Hn _]; subst. apply Hn.
  rewrite (U b (or_intror (or_introl eq_refl))). left; reflexivity.
Qed.

Lemma c09_stab_micros_slot p dst c x y s :
  Shape p dst c -> NoDup p -> In ((x, Some y), s) c ->
  stab_micros p x y = map micro_of (stab_b s) /\ stab_b s = map (fun z => Stab x y z) (stab_micros p x y).
Proof.
  intros Sh ND Hin. pose proof (c09_shape_nodup _ _ _ Sh) as NDk.
  assert (Held : forall z, In (Stab x y z) p -> s_stab s = Some (Stab x y z)).
  { intros z I. destruct (sh_complete _ _ _ Sh _ I eq_refl) as (s' & Hs' & Hh). cbn in Hs'.
    rewrite (c09_unique_slot _ _ _ _ NDk Hin Hs'). exact Hh. }
  unfold stab_b. destruct (s_stab s) as [sb|] eqn:F.
  - destruct (sh_stab _ _ _ Sh _ _ _ Hin F) as (I & Kk & Cc).
    destruct sb as [| x' y' z |]; try discriminate Cc. cbn in Kk. injection Kk as -> ->.
    assert (E : stab_micros p x y = [z]).
    { apply c09_singleton; [apply c09_nodup_stab_micros; exact ND | apply c09_in_stab_micros; exact I|].
      intros z' Hz'. apply c09_in_stab_micros in Hz'. specialize (Held z' Hz'). congruence. }
    rewrite E. split; reflexivity.
  - assert (E : stab_micros p x y = []).
    { destruct (stab_micros p x y) as [|z t] eqn:E; [reflexivity|].
      assert (I : In z (stab_micros p x y)) by (rewrite E; left; reflexivity).
      apply c09_in_stab_micros in I. specialize (Held z I). congruence. }
    rewrite E. split; reflexivity.
Qed.

Lemma c09_keys_app (l1 l2 : cascade) : keys (l1 ++ l2) = keys l1 ++ keys l2.
Proof. unfold keys. apply map_app. Qed.

(* the paths of the code are the paths of the specification *)
Lemma c09_merge_paths_spec bs dst c :
  Shape bs (Some dst) c -> NoDup bs -> In dst bs -> get_merge_paths c = merge_paths bs dst.
Proof.
  intros Sh ND Idst. rewrite c09_get_merge_paths. unfold merge_paths.
  destruct (c09_devs_dev_slots c) as [<- <-].
  pose proof (c09_dev_slots_lines _ _ _ Sh ND) as Hl. rewrite <- Hl.
  assert (Sub : forall e, In e (dev_slots c) -> In e c /\ has_dev (snd e) = true)
    by (intros e He; apply filter_In in He; exact He).
  pose proof (c09_shape_nodup _ _ _ Sh) as NDk.
  f_equal; [apply (c09_devs_lines _ _ _ _ Sh Sub)|].
  assert (Sorted : StronglySorted llt (keys (dev_slots c))) by (apply c09_sorted_filter_keys, Sh).
  assert (G : forall suf pre, dev_slots c = pre ++ suf ->
            new_paths suf =
            flat_map (fun k => match snd k with
                               | None => []
                               | Some y =>
                                   match dst with
                                   | Hotfix x' y' _ =>
                                       if (x' =? fst k) && (y' =? y)
                                       then [dst :: map dev_of_line (filter (line_le k) (keys (dev_slots c)))] else []
                                   | _ => []
                                   end ++
                                   map (fun z => Stab (fst k) y z :: map dev_of_line (filter (line_le k) (keys (dev_slots c))))
                                       (stab_micros bs (fst k) y)
                               end) (keys suf)).
  { induction suf as [|[k s] t IH]; intros pre E; [reflexivity|].
    cbn [new_paths keys map fst flat_map]. fold (keys t).
    rewrite <- (IH (pre ++ [(k, s)])) by (rewrite <- app_assoc; exact E).
    assert (He : In (k, s) (dev_slots c)) by (rewrite E; apply in_app_iff; right; left; reflexivity).
    destruct (Sub _ He) as [Hin Hd]. cbn [snd] in Hd. unfold has_dev in Hd.
    destruct (s_dev s) as [[db a]|] eqn:Fd; [|discriminate Hd]. f_equal.
    assert (From : filter (line_le k) (keys (dev_slots c)) = keys ((k, s) :: t)).
    { rewrite E, c09_keys_app. cbn [keys map fst]. fold (keys t).
      rewrite E, c09_keys_app in Sorted. cbn [keys map fst] in Sorted. fold (keys t) in Sorted.
      destruct (c09_sorted_app_inv _ _ _ Sorted) as (F1 & F2 & _ & _). rewrite Forall_forall in F1, F2.
      rewrite (c09_filter_from _ _ _ (line_le k) Sorted).
      - unfold line_le. rewrite c09_line_lt_irrefl. reflexivity.
      - intros k' Hk'. unfold line_le. rewrite (F1 k' Hk'). reflexivity.
      - intros k' Hk'. apply c09_line_le_iff. left. apply F2. exact Hk'. }
    rewrite From.
    assert (Dv : devs ((k, s) :: t) = map dev_of_line (keys ((k, s) :: t))).
    { apply (c09_devs_lines _ _ _ _ Sh). intros e He'. apply Sub. rewrite E. apply in_app_iff. right. exact He'. }
    rewrite Dv. destruct k as [x [y|]]; cbn [snd fst].
    - rewrite map_app. f_equal.
      + unfold hf_b. destruct (s_hf s) as [[hb r]|] eqn:Fh.
        * destruct (sh_hf _ _ _ Sh _ _ _ _ Hin Fh) as (_ & Kk & Cc & Kp).
          destruct hb as [| |hx hy hz]; try discriminate Cc. apply c09_kept_hotfix in Kp. subst dst.
          cbn in Kk. injection Kk as -> ->. rewrite !Z.eqb_refl. reflexivity.
        * destruct dst as [| |dx dy dz]; try reflexivity.
          destruct ((dx =? x) && (dy =? y)) eqn:Ed; [|reflexivity]. exfalso.
          apply andb_true_iff in Ed as [E1 E2]. apply Z.eqb_eq in E1, E2. subst dx dy.
          destruct (sh_complete _ _ _ Sh _ Idst) as (s' & Hs' & Hh).
          { unfold kept. cbn. rewrite !Z.eqb_refl. reflexivity. }
          cbn in Hs'. rewrite (c09_unique_slot _ _ _ _ NDk Hs' Hin) in Hh. unfold holds in Hh. cbn in Hh.
          destruct Hh as [r Hh]. congruence.
      + destruct (c09_stab_micros_slot _ _ _ _ _ _ Sh ND Hin) as [_ ->]. rewrite map_map. reflexivity.
    - assert (Eh : hf_b s = []).
      { unfold hf_b. destruct (s_hf s) as [[hb r]|] eqn:Fh; [|reflexivity].
        destruct (sh_hf _ _ _ Sh _ _ _ _ Hin Fh) as (_ & Kk & Cc & _). destruct hb; try discriminate Cc. discriminate Kk. }
      assert (Es : stab_b s = []).
      { unfold stab_b. destruct (s_stab s) as [sb|] eqn:Fs; [|reflexivity].
        destruct (sh_stab _ _ _ Sh _ _ _ Hin Fs) as (_ & Kk & Cc). destruct sb; try discriminate Cc. discriminate Kk. }
      rewrite Eh, Es. reflexivity. }
  apply (G (dev_slots c) []). reflexivity.
Qed.

(* ======================================================================================== *)
(* 6. The pipeline add_branch* ; update_versions* ; _update_major_versions                    *)
(* ======================================================================================== *)

Lemma c09_shape_map_slots p dst c g :
  (forall k s, same_desc s (g k s)) -> Shape p dst c -> Shape p dst (map_slots g c).
Proof.
  intros D Sh. constructor.
  - unfold ksorted. rewrite c09_keys_map_slots. apply Sh.
  - intros b I K. destruct (sh_complete _ _ _ Sh _ I K) as (s & Hs & Hh). exists (g (key_of b) s). split.
    + apply c09_in_map_slots. exists s. auto.
    + destruct (D (key_of b) s) as (A & B & C). unfold holds in *. destruct (class_of b).
      * destruct Hh as [a Hh]. rewrite Hh in C. cbn in C.
        destruct (s_dev (g (key_of b) s)) as [[b' a']|]; [|discriminate C]. injection C as ->. eauto.
      * congruence.
      * destruct Hh as [r Hh]. rewrite Hh in B. cbn in B.
        destruct (s_hf (g (key_of b) s)) as [[b' r']|]; [|discriminate B]. injection B as ->. eauto.
  - intros k s' b a Hin F. apply c09_in_map_slots in Hin as (s & Hin & ->). destruct (D k s) as (_ & _ & C).
    rewrite F in C. cbn in C. destruct (s_dev s) as [[b0 a0]|] eqn:F0; [|discriminate C]. injection C as <-.
    eapply sh_dev; eassumption.
  - intros k s' b Hin F. apply c09_in_map_slots in Hin as (s & Hin & ->). destruct (D k s) as (A & _ & _).
    rewrite F in A. eapply sh_stab; [exact Sh | exact Hin | symmetry; exact A].
  - intros k s' b r Hin F. apply c09_in_map_slots in Hin as (s & Hin & ->). destruct (D k s) as (_ & B & _).
    rewrite F in B. cbn in B. destruct (s_hf s) as [[b0 r0]|] eqn:F0; [|discriminate B]. injection B as <-.
    eapply sh_hf; eassumption.
  - intros k s' Hin. apply c09_in_map_slots in Hin as (s & Hin & ->). destruct (D k s) as (A & B & C).
    pose proof (sh_nonempty _ _ _ Sh _ _ Hin) as N. unfold occupied in *. rewrite A.
    destruct (s_dev s), (s_dev (g k s)); try discriminate C;
    destruct (s_hf s), (s_hf (g k s)); try discriminate B; exact N.
Qed.

(* the attribute values finalize reads *)
Definition Attrs (ts : list ptag) (ks : list key) (c : cascade) : Prop :=
  forall k s, In (k, s) c ->
    (forall db a, s_dev s = Some (db, a) ->
        a = mkDA (micro_final ts k) (lminor_final ts ks k db) default_has_stabilization default_stabilization_micro) /\
    (forall hb r, s_hf s = Some (hb, r) -> r = next_after default_hfrev (rel_hf ts k hb)).

Lemma c09_attrs_final ts ks c0 : Fresh c0 -> Attrs ts ks (map_slots (final_slot ts ks) c0).
Proof.
  intros Fr k s' Hin. apply c09_in_map_slots in Hin as (s & Hin & ->). destruct (Fr _ _ Hin) as [F1 F2].
  destruct (c09_final_slot_desc ts ks k s) as (_ & B & C). split.
  - intros db a F. rewrite F in C. cbn in C. destruct (s_dev s) as [[db0 a0]|] eqn:F0; [|discriminate C].
    injection C as <-. rewrite (F1 _ _ eq_refl) in F0. rewrite (c09_final_slot_dev _ _ _ _ _ F0) in F. congruence.
  - intros hb r F. rewrite F in B. cbn in B. destruct (s_hf s) as [[hb0 r0]|] eqn:F0; [|discriminate B].
    injection B as <-. rewrite (F2 _ _ eq_refl) in F0. rewrite (c09_final_slot_hf _ _ _ _ _ F0) in F. congruence.
Qed.

Lemma c09_shape_major_has_dev p dst c k s :
  Shape p dst c -> In (k, s) c -> snd k = None -> s_dev s <> None.
Proof.
  intros Sh Hin Ek F. pose proof (sh_nonempty _ _ _ Sh _ _ Hin) as N. unfold occupied in N. rewrite F in N.
  destruct (s_stab s) as [sb|] eqn:Fs.
  { destruct (sh_stab _ _ _ Sh _ _ _ Hin Fs) as (_ & Kk & Cc). destruct sb; try discriminate Cc. subst k. discriminate Ek. }
  destruct (s_hf s) as [[hb r]|] eqn:Fh; [|discriminate N].
  destruct (sh_hf _ _ _ Sh _ _ _ _ Hin Fh) as (_ & Kk & Cc & _). destruct hb; try discriminate Cc. subst k. discriminate Ek.
Qed.

Lemma c09_pipeline order bs tags dst :
  Permutation order bs -> NoDup bs ->
  (two_stabs bs = true /\ build order tags dst = Err UnsupportedMultipleStabBranches) \/
  (two_stabs bs = false /\ exists c0, Shape bs (Some dst) c0 /\ Fresh c0 /\
     build order tags dst =
     if existsb (fun t => dep_at t c0) (release_tags tags) then Err DeprecatedStabilizationBranch
     else finalize (map_slots (final_slot (release_tags tags) (keys c0)) c0) dst).
Proof.
  intros P ND. assert (NDo : NoDup order) by (eapply Permutation_NoDup; [symmetry|]; eassumption).
  unfold build, build_parsed. rewrite c09_release_tags_somes.
  destruct (c09_add_all_result order (Some dst) NDo) as [[T ->]|(T & c0 & -> & Sh & Fr)];
  rewrite (c09_two_stabs_perm _ _ P) in T.
  - left. split; [exact T | reflexivity].
  - right. split; [exact T|]. exists c0.
    assert (Shb : Shape bs (Some dst) c0).
    { eapply c09_shape_ext; [|exact Sh]. intro b. split; [apply Permutation_in; exact P | apply Permutation_in; symmetry; exact P]. }
    split; [exact Shb|]. split; [exact Fr|]. cbn [bind].
    rewrite (c09_update_all_closed _ c0 (c09_shape_nodup _ _ _ Shb)).
    destruct (existsb (fun t => dep_at t c0) (somes (map parse_tag tags))); [reflexivity|]. cbn [bind].
    rewrite c09_update_major_closed.
    + cbn [bind]. rewrite c09_keys_map_slots, c09_map_slots_map_slots. reflexivity.
    + intros k s Hin. eapply c09_shape_major_has_dev; [|exact Hin].
      apply c09_shape_map_slots; [intros; apply c09_tags_slot_desc | exact Shb].
Qed.

(* --- DeprecatedStabilizationBranch is raised exactly for the cascades the statement calls deprecated *)

Lemma c09_in_released_patches ts x y z : In z (released_patches ts x y) <-> exists h, In (x, y, z, h) ts.
Proof.
  unfold released_patches. rewrite in_flat_map. split.
  - intros ([[[x' y'] z'] h] & Ht & Hz). destruct ((x' =? x) && (y' =? y)) eqn:E; [|destruct Hz].
    destruct Hz as [<-|[]]. apply andb_true_iff in E as [E1 E2]. apply Z.eqb_eq in E1, E2. subst. eauto.
  - intros [h Ht]. exists (x, y, z, h). split; [exact Ht|]. rewrite !Z.eqb_refl. left; reflexivity.
Qed.

Lemma c09_dep_spec bs dst c ts :
  Shape bs (Some dst) c -> In dst bs ->
  existsb (fun t => dep_at t c) ts = released_stab bs ts dst.
Proof.
  intros Sh Idst. pose proof (c09_shape_nodup _ _ _ Sh) as NDk. apply eq_true_iff_eq.
  unfold released_stab. rewrite !existsb_exists. split.
  - intros ([[[x y] z'] h] & Ht & D). unfold dep_at in D.
    destruct (lookup (x, Some y) c) as [s|] eqn:L; [|discriminate D]. apply c09_lookup_some_in in L.
    unfold dep_slot in D. destruct (s_stab s) as [sb|] eqn:Fs; [|destruct (s_hf s) as [[? ?]|]; discriminate D].
    destruct (sh_stab _ _ _ Sh _ _ _ L Fs) as (I & Kk & Cc).
    destruct sb as [| sx sy z |]; try discriminate Cc. cbn in Kk. injection Kk as -> ->.
    exists (Stab x y z). split; [exact I|]. apply orb_true_iff in D as [D|D]; apply orb_true_iff.
    + right. destruct (s_hf s) as [[hb r]|] eqn:Fh; [|discriminate D].
      destruct (sh_hf _ _ _ Sh _ _ _ _ L Fh) as (_ & Kk & Cc' & Kp).
      destruct hb as [| |hx hy hz]; try discriminate Cc'. apply c09_kept_hotfix in Kp. cbn in Kk. injection Kk as -> ->.
      cbn [micro_of] in D. apply Z.eqb_eq in D. subst hz dst. rewrite c09_branch_eqb_refl. cbn [andb].
      assert (Hz : In z' (released_patches ts x y)) by (apply c09_in_released_patches; eauto).
      destruct (released_patches ts x y); [destruct Hz | reflexivity].
    + left. apply existsb_exists. exists z'. split; [apply c09_in_released_patches; eauto | exact D].
  - intros (b & Ib & D). destruct b as [| x y z |]; try discriminate D.
    destruct (sh_complete _ _ _ Sh _ Ib eq_refl) as (s & Hs & Hh). unfold key_of in Hs. cbn in Hs. unfold holds in Hh. cbn in Hh.
    apply orb_true_iff in D as [D|D].
    + apply existsb_exists in D as (z' & Hz' & Le). apply c09_in_released_patches in Hz' as [h Ht].
      exists (x, y, z', h). split; [exact Ht|]. unfold dep_at. rewrite (c09_lookup_in _ _ _ NDk Hs).
      unfold dep_slot. rewrite Hh. cbn [micro_of]. rewrite Le. apply orb_true_r.
    + apply andb_true_iff in D as [E NE]. apply c09_branch_eqb_eq in E. subst dst.
      destruct (released_patches ts x y) as [|z' r] eqn:R; [discriminate NE|].
      assert (Hz' : In z' (released_patches ts x y)) by (rewrite R; left; reflexivity).
      apply c09_in_released_patches in Hz' as [h Ht].
      exists (x, y, z', h). split; [exact Ht|]. unfold dep_at. rewrite (c09_lookup_in _ _ _ NDk Hs).
      destruct (sh_complete _ _ _ Sh _ Idst) as (s' & Hs' & Hh').
      { unfold kept. cbn. rewrite !Z.eqb_refl. reflexivity. }
      cbn in Hs'. rewrite (c09_unique_slot _ _ _ _ NDk Hs' Hs) in Hh'. unfold holds in Hh'. cbn in Hh'.
      destruct Hh' as [r' Hh']. unfold dep_slot. rewrite Hh, Hh'. cbn [micro_of]. rewrite Z.eqb_refl. reflexivity.
Qed.

Lemma c09_released_stab_false bs ts dst x y z :
  released_stab bs ts dst = false -> In (Stab x y z) bs -> forall z', In z' (released_patches ts x y) -> z' < z.
Proof.
  intros R I z' Hz'. destruct (Z.lt_ge_cases z' z) as [L|G]; [exact L|]. exfalso.
  assert (T : released_stab bs ts dst = true); [|congruence].
  unfold released_stab. apply existsb_exists. exists (Stab x y z). split; [exact I|].
  apply orb_true_iff. left. apply existsb_exists. exists z'. split; [exact Hz' | apply Z.leb_le; exact G].
Qed.

(* ======================================================================================== *)
(* 7. finalize against the specification                                                      *)
(* ======================================================================================== *)

Lemma c09_orphan_slot bs dst c :
  Shape bs dst c -> orphan_stab bs = true -> exists k s, In (k, s) c /\ s_dev s = None /\ s_stab s <> None.
Proof.
  intros Sh O. unfold orphan_stab in O. apply existsb_exists in O as (b & Ib & O).
  destruct b as [| x y z |]; try discriminate O. apply negb_true_iff in O.
  destruct (sh_complete _ _ _ Sh _ Ib eq_refl) as (s & Hs & Hh). exists (key_of (Stab x y z)), s.
  split; [exact Hs|]. unfold holds in Hh. cbn in Hh. split; [|congruence].
  destruct (s_dev s) as [[db a]|] eqn:F; [|reflexivity]. exfalso.
  destruct (c09_shape_dev_slot _ _ _ _ _ _ _ Sh Hs F) as [_ I]. cbn in I.
  apply c09_mem_in in I. unfold dev_of_line in I. cbn in I. congruence.
Qed.

Lemma c09_no_orphan_dev bs dst c k s :
  Shape bs dst c -> orphan_stab bs = false -> In (k, s) c -> s_stab s <> None -> s_dev s <> None.
Proof.
  intros Sh O Hin Fs Fd. pose proof (c09_shape_nodup _ _ _ Sh) as NDk.
  destruct (s_stab s) as [sb|] eqn:F; [|contradiction]. clear Fs.
  destruct (sh_stab _ _ _ Sh _ _ _ Hin F) as (I & Kk & Cc). destruct sb as [| x y z |]; try discriminate Cc.
  assert (M : mem (Dev x (Some y)) bs = true).
  { destruct (mem (Dev x (Some y)) bs) eqn:M; [reflexivity|]. exfalso.
    assert (T : orphan_stab bs = true); [|congruence]. unfold orphan_stab. apply existsb_exists.
    exists (Stab x y z). split; [exact I|]. rewrite M. reflexivity. }
  apply c09_mem_in in M. destruct (sh_complete _ _ _ Sh _ M eq_refl) as (s' & Hs' & Hh).
  cbn in Kk. subst k. unfold key_of in Hs'. cbn in Hs'.
  rewrite (c09_unique_slot _ _ _ _ NDk Hs' Hin) in Hh. unfold holds in Hh. cbn in Hh. destruct Hh as [a Hh]. congruence.
Qed.

Lemma c09_nonhf_no_hf bs dst c k s :
  is_hotfix dst = false -> Shape bs (Some dst) c -> In (k, s) c -> s_hf s = None.
Proof.
  intros H Sh Hin. destruct (s_hf s) as [[hb r]|] eqn:F; [|reflexivity]. exfalso.
  destruct (sh_hf _ _ _ Sh _ _ _ _ Hin F) as (_ & _ & Cc & Kp). destruct hb; try discriminate Cc.
  apply c09_kept_hotfix in Kp. subst dst. discriminate H.
Qed.

Lemma c09_dst_hf_flag dst : String.prefix "hotfix/" (name_of dst) = is_hotfix dst.
Proof. rewrite c09_prefix_hotfix. destruct dst; reflexivity. Qed.

Lemma c09_slot_without_dev_minor bs dst c k s :
  Shape bs dst c -> In (k, s) c -> s_dev s = None -> snd k <> None.
Proof. intros Sh Hin F E. exact (c09_shape_major_has_dev _ _ _ _ _ Sh Hin E F). Qed.

Lemma c09_finalize_orphan bs dst c :
  Shape bs (Some dst) c -> orphan_stab bs = true -> finalize c dst = Err DevBranchDoesNotExist.
Proof.
  intros Sh O. unfold finalize. rewrite c09_loop_err; [reflexivity | |].
  - exact (c09_orphan_slot _ _ _ Sh O).
  - intros k s Hin Fd. eapply c09_slot_without_dev_minor; eassumption.
Qed.

(* --- version arithmetic *)

Lemma c09_max_list_lt d l z : d < z -> (forall z', In z' l -> z' < z) -> max_list d l < z.
Proof.
  intros Hd H. unfold max_list. induction l as [|a t IH]; cbn [fold_right]; [exact Hd|].
  apply Z.max_lub_lt; [apply H; left; reflexivity | apply IH; intros; apply H; right; assumption].
Qed.

Lemma c09_in_minors_of ks x m : In m (minors_of ks x) <-> In (x, Some m) ks.
Proof.
  unfold minors_of. rewrite in_flat_map. split.
  - intros ([kx [ky|]] & Hk & Hm); cbn [fst snd] in Hm; destruct (kx =? x) eqn:E; try destruct Hm.
    + subst. apply Z.eqb_eq in E. subst. exact Hk.
    + contradiction.
  - intro H. exists (x, Some m). split; [exact H|]. cbn. rewrite Z.eqb_refl. left; reflexivity.
Qed.

Lemma c09_default_values :
  default_micro = -1 /\ default_latest_minor = -1 /\ default_hfrev = -1 /\ default_has_stabilization = false.
Proof. repeat split. Qed.

(* the fix version the code derives for a development branch that is a target and whose stabilization
   branch (if any) is not: the next unreleased patch, one more when the stabilization holds exactly that one *)
Lemma c09_slot_version bs ts dst c k s :
  Shape bs (Some dst) c -> Attrs ts (keys c) c -> NoDup bs -> In (k, s) c ->
  s_dev s <> None -> s_hf s = None ->
  (forall k', In k' (keys c) <-> In k' (dev_lines bs)) ->
  (forall x y z, dst = Stab x y z -> k <> (x, Some y)) ->
  slot_versions false k (mkSlot (mark_dev s) None None) = Ok (target_version bs ts dst (dev_of_line k)).
Proof.
  intros Sh At ND Hin Fd Fh KS NotStab.
  destruct (s_dev s) as [[db a]|] eqn:F; [|contradiction]. clear Fd.
  destruct (c09_shape_dev_slot _ _ _ _ _ _ _ Sh Hin F) as [-> Idb].
  destruct (At _ _ Hin) as [A1 _]. rewrite (A1 _ _ F) in F. clear A1.
  destruct c09_default_values as (Dm & Dl & _ & Dh).
  destruct k as [x [y|]]; unfold dev_of_line in *; cbn [fst snd] in *; unfold slot_versions, mark_dev; rewrite F;
  cbn [s_hf s_stab s_dev minor_of bind app].
  - (* development/x.y *)
    assert (TV : target_version bs ts dst (Dev x (Some y)) = [[x; y; next_patch bs ts x y]]).
    { cbn [target_version]. destruct dst as [| x' y' z' |]; try reflexivity.
      destruct ((x' =? x) && (y' =? y)) eqn:E; [|reflexivity]. exfalso.
      apply andb_true_iff in E as [E1 E2]. apply Z.eqb_eq in E1, E2. subst. apply (NotStab x y z'); reflexivity. }
    rewrite TV. unfold next_patch.
    destruct (c09_stab_micros_slot _ _ _ _ _ _ Sh ND Hin) as [SM _]. rewrite SM. unfold stab_b.
    unfold micro_final, rel_patches. cbn [fst snd]. rewrite c09_next_after_max_list, Dm.
    change (0 - 1) with (-1).
    destruct (s_stab s) as [sb|] eqn:Fs; cbn [map existsb da_has_stab da_micro da_stab_micro orb andb].
    + rewrite (Z.eqb_sym (micro_of sb)). rewrite orb_false_r. reflexivity.
    + rewrite Dh. reflexivity.
  - (* development/x *)
    assert (Fs : s_stab s = None).
    { destruct (s_stab s) as [sb|] eqn:Fs; [|reflexivity]. exfalso.
      destruct (sh_stab _ _ _ Sh _ _ _ Hin Fs) as (_ & Kk & Cc). destruct sb; try discriminate Cc. discriminate Kk. }
    rewrite Fs. cbn [target_version da_latest_minor da_micro].
    assert (E1 : micro_final ts (x, None) + 1 = 0) by (unfold micro_final, rel_patches; cbn [snd]; rewrite Dm; reflexivity).
    rewrite E1. do 4 f_equal.
    unfold lminor_final, rel_minors, next_minor. cbn [snd fst major_of da_latest_minor da_micro].
    rewrite c09_next_after_max_list, c09_max_list_app, Dl. change (0 - 1) with (-1). f_equal.
    apply c09_max_list_same; intros m Hm.
    + apply c09_in_minors_of in Hm. apply KS in Hm. apply (c09_in_minors_of (dev_lines bs) x m). exact Hm.
    + apply (c09_in_minors_of (dev_lines bs) x m) in Hm. apply KS in Hm. apply c09_in_minors_of. exact Hm.
Qed.

(* --- the loop from the destination's slot on *)

Definition kept_slot (e : key * slot) : key * slot := (fst e, mkSlot (mark_dev (snd e)) None None).

Lemma c09_tail_dev dst k0 s0 l2 a :
  s_dev s0 = Some (dst, a) -> s_hf s0 = None -> branch_eq dst dst = true ->
  (forall k s, In (k, s) l2 -> good_slot s) ->
  forall last, fin_loop dst false false false last ((k0, s0) :: l2) =
  Ok (mkFin (map name_of (flat_map (fun e => stab_b (snd e)) ((k0, s0) :: l2)))
            (flat_map (fun e => dev_b (snd e)) ((k0, s0) :: l2)) (map kept_slot ((k0, s0) :: l2)), true).
Proof.
  intros Fd Fh M G last. cbn [fin_loop].
  rewrite (c09_step_kept dst k0 s0 dst a false Fd Fh M). cbn [st_ignored st_dst st_rem st_ign st_inc st_last].
  rewrite (c09_loop_kept dst l2 true G). cbn [fin_cons bind f_ignored f_dst f_rem flat_map map snd fst].
  unfold dev_b at 2. rewrite Fd. rewrite map_app. unfold kept_slot at 2. cbn [fst snd]. destruct l2; reflexivity.
Qed.

Lemma c09_tail_stab dst k0 s0 l2 db a :
  s_dev s0 = Some (db, a) -> s_hf s0 = None -> branch_eq dst db = false ->
  s_stab s0 = Some dst -> branch_eq dst dst = true ->
  (forall k s, In (k, s) l2 -> good_slot s) ->
  forall last, fin_loop dst false false false last ((k0, s0) :: l2) =
  Ok (mkFin (map name_of (flat_map (fun e => stab_b (snd e)) l2))
            (dst :: db :: flat_map (fun e => dev_b (snd e)) l2)
            ((k0, mkSlot (mark_dev s0) (Some dst) None) :: map kept_slot l2), true).
Proof.
  intros Fd Fh M1 Fs M2 G last. cbn [fin_loop].
  rewrite (c09_step_stab_dst dst k0 s0 db a dst Fd Fh M1 Fs M2). cbn [st_ignored st_dst st_rem st_ign st_inc st_last].
  rewrite (c09_loop_kept dst l2 true G). cbn [fin_cons bind f_ignored f_dst f_rem app]. destruct l2; reflexivity.
Qed.

Lemma c09_flat_map_map {A B C} (f : B -> list C) (g : A -> B) l : flat_map f (map g l) = flat_map (fun x => f (g x)) l.
Proof. induction l as [|a t IH]; cbn; [reflexivity|]. rewrite IH. reflexivity. Qed.

(* the targets of the statement, read off the sorted keys of the cascade *)
Lemma c09_targets_split bs dst K1 k0 K2 :
  sort_lines (dev_lines bs) = K1 ++ k0 :: K2 -> StronglySorted llt (K1 ++ k0 :: K2) ->
  key_of dst = k0 -> is_hotfix dst = false ->
  targets bs dst = dst :: map dev_of_line ((if branch_eqb (dev_of_line k0) dst then [] else [k0]) ++ K2).
Proof.
  intros E S Kd H. unfold targets. rewrite H. f_equal. f_equal.
  rewrite c09_sort_lines_isort, c09_isort_filter;
    [|exact c09_line_le_total | exact c09_line_le_trans | exact c09_line_le_antisym].
  rewrite <- c09_sort_lines_isort, E, Kd.
  destruct (c09_sorted_app_inv _ _ _ S) as (F1 & F2 & _ & _). rewrite Forall_forall in F1, F2.
  rewrite (c09_filter_from _ _ _ _ S).
  - unfold line_le at 1. rewrite c09_line_lt_irrefl. cbn [negb andb]. destruct (branch_eqb (dev_of_line k0) dst); reflexivity.
  - intros k Hk. unfold line_le. rewrite (F1 k Hk). reflexivity.
  - intros k Hk. apply andb_true_iff. split; [apply c09_line_le_iff; left; apply F2; exact Hk|].
    apply negb_true_iff. apply not_true_is_false. intro B. apply c09_branch_eqb_eq in B.
    assert (Ek : k = k0) by (rewrite <- Kd, <- B; destruct k; reflexivity).
    subst k. specialize (F2 k0 Hk). unfold llt in F2. rewrite c09_line_lt_irrefl in F2. discriminate F2.
Qed.

Lemma c09_versions_kept bs ts dst (l : cascade) :
  (forall k s, In (k, s) l ->
     slot_versions false k (mkSlot (mark_dev s) None None) = Ok (target_version bs ts dst (dev_of_line k))) ->
  set_target_versions false (map kept_slot l) =
  Ok (flat_map (fun e => target_version bs ts dst (dev_of_line (fst e))) l).
Proof.
  induction l as [|[k s] t IH]; intro H; [reflexivity|].
  cbn [map kept_slot set_target_versions fst snd flat_map]. rewrite (H k s (or_introl eq_refl)). cbn [bind].
  fold kept_slot. rewrite IH by (intros k0 s0 Hin; apply H; right; exact Hin). reflexivity.
Qed.

Lemma c09_branch_eq_key a b : branch_eq a b = true -> key_of a = key_of b.
Proof.
  destruct a as [x1 y1|x1 y1 z1|x1 y1 z1], b as [x2 y2|x2 y2 z2|x2 y2 z2]; cbn [branch_eq]; try discriminate;
  rewrite ?andb_true_iff, ?Z.eqb_eq, ?c09_optZ_eqb_eq.
  - intros [-> ->]. reflexivity.
  - intros [[-> ->] _]. reflexivity.
Qed.

Lemma c09_branch_eq_refl_dev_stab a : is_hotfix a = false -> branch_eq a a = true.
Proof.
  destruct a as [x [y|]|x y z|x y z]; cbn; intro H; try discriminate H; rewrite ?Z.eqb_refl; reflexivity.
Qed.

(* --- ignored branches *)

Definition nt (T : list branch) (b : branch) : bool := negb (mem b T).

Lemma c09_filter_all_b f (g : key * slot -> list branch) (l : cascade) :
  (forall e, In e l -> filter f (slot_bs (snd e)) = g e) -> filter f (all_b l) = flat_map g l.
Proof.
  unfold all_b. induction l as [|e t IH]; intro H; [reflexivity|].
  cbn [flat_map]. rewrite filter_app, (H e (or_introl eq_refl)), IH; [reflexivity|].
  intros e' He'. apply H. right; exact He'.
Qed.

Lemma c09_filter_filter {A} (f g : A -> bool) l : filter f (filter g l) = filter (fun x => g x && f x) l.
Proof.
  induction l as [|a t IH]; cbn [filter]; [reflexivity|].
  destruct (g a); cbn [filter andb]; [destruct (f a); rewrite IH; reflexivity | exact IH].
Qed.

Lemma c09_filter_all {A} (f : A -> bool) l : (forall a, In a l -> f a = true) -> filter f l = l.
Proof.
  induction l as [|a t IH]; intro H; cbn [filter]; [reflexivity|].
  rewrite (H a (or_introl eq_refl)). f_equal. apply IH. intros; apply H; right; assumption.
Qed.

Lemma c09_filter_none {A} (f : A -> bool) l : (forall a, In a l -> f a = false) -> filter f l = [].
Proof.
  induction l as [|a t IH]; intro H; cbn [filter]; [reflexivity|].
  rewrite (H a (or_introl eq_refl)). apply IH. intros; apply H; right; assumption.
Qed.

Lemma c09_ignored_spec bs dst c IG :
  Shape bs (Some dst) c -> NoDup bs -> In dst (targets bs dst) ->
  Permutation IG (filter (nt (targets bs dst)) (all_b c)) ->
  sort_names (map name_of IG) = ignored bs dst.
Proof.
  intros Sh ND Idst P. unfold ignored. apply c09_sort_names_perm, Permutation_map.
  rewrite P. rewrite (c09_perm_filter _ _ _ (c09_all_b_perm _ _ _ Sh ND)), c09_filter_filter.
  erewrite filter_ext_in; [reflexivity|]. intros b Ib. cbn beta. unfold nt, keptb.
  destruct b as [x y|x y z|x y z]; try reflexivity. cbn [is_hotfix negb andb].
  destruct (hotfix_discarded (Hotfix x y z) (Some dst)) eqn:K; [reflexivity|].
  apply c09_kept_hotfix in K. subst dst. cbn [negb andb]. apply negb_false_iff. apply c09_mem_in. exact Idst.
Qed.

(* --- a development or stabilization destination *)

Lemma c09_finalize_nonhf bs ts dst c :
  Shape bs (Some dst) c -> Attrs ts (keys c) c -> NoDup bs -> In dst bs -> is_hotfix dst = false ->
  orphan_stab bs = false ->
  observe (finalize c dst) =
  Ok (mkSpec (targets bs dst) (ignored bs dst) (flat_map (target_version bs ts dst) (targets bs dst))
             (merge_paths bs dst)).
Proof.
  intros Sh At ND Idst Hh O.
  pose proof (c09_shape_nodup _ _ _ Sh) as NDk.
  assert (Hf : forall k s, In (k, s) c -> s_hf s = None) by (intros; eapply c09_nonhf_no_hf; eassumption).
  assert (G : forall k s, In (k, s) c -> good_slot s).
  { intros k s Hin. split; [|eapply Hf; exact Hin]. intro Fd.
    pose proof (sh_nonempty _ _ _ Sh _ _ Hin) as N. unfold occupied in N. rewrite Fd, (Hf _ _ Hin) in N.
    destruct (s_stab s) eqn:Fs; [|discriminate N].
    apply (c09_no_orphan_dev _ _ _ _ _ Sh O Hin); [rewrite Fs; discriminate | exact Fd]. }
  assert (DS : dev_slots c = c).
  { unfold dev_slots. apply c09_filter_all. intros [k s] Hin. cbn [snd]. destruct (G k s Hin) as [Gd _].
    unfold has_dev. destruct (s_dev s); [reflexivity | contradiction]. }
  assert (KL : keys c = sort_lines (dev_lines bs)) by (rewrite <- DS at 1; eapply c09_dev_slots_lines; eassumption).
  assert (KS : forall k', In k' (keys c) <-> In k' (dev_lines bs)).
  { intro k'. rewrite KL, c09_sort_lines_isort. split; apply Permutation_in; [|symmetry]; apply c09_isort_perm. }
  assert (Kd : kept (Some dst) dst) by (destruct dst; try discriminate Hh; reflexivity).
  destruct (sh_complete _ _ _ Sh dst Idst Kd) as (s0 & Hs0 & Hh0).
  set (k0 := key_of dst) in *.
  destruct (in_split _ _ Hs0) as (l1 & l2 & Ec).
  assert (Ek : keys c = keys l1 ++ k0 :: keys l2) by (rewrite Ec, c09_keys_app; reflexivity).
  assert (S : StronglySorted llt (keys l1 ++ k0 :: keys l2)) by (rewrite <- Ek; apply Sh).
  destruct (c09_sorted_app_inv _ _ _ S) as (F1 & F2 & _ & _). rewrite Forall_forall in F1, F2.
  assert (Inl1 : forall k s, In (k, s) l1 -> In (k, s) c /\ k <> k0).
  { intros k s Hin. split; [rewrite Ec; apply in_app_iff; left; exact Hin|].
    intros ->. specialize (F1 k0 (c09_in_keys _ _ _ Hin)). unfold llt in F1. rewrite c09_line_lt_irrefl in F1. discriminate F1. }
  assert (Inl2 : forall k s, In (k, s) l2 -> In (k, s) c /\ k <> k0 /\ line_lt k0 k = true).
  { intros k s Hin. split; [rewrite Ec; apply in_app_iff; right; right; exact Hin|].
    pose proof (F2 k (c09_in_keys _ _ _ Hin)) as L. split; [|exact L].
    intros ->. unfold llt in L. rewrite c09_line_lt_irrefl in L. discriminate L. }
  assert (G2 : forall k s, In (k, s) l2 -> good_slot s) by (intros k s Hin; apply (G k s), Inl2, Hin).
  assert (NM : forall k s, In (k, s) l1 -> good_slot s /\
      (forall db a, s_dev s = Some (db, a) -> branch_eq dst db = false) /\
      (forall sb, s_stab s = Some sb -> branch_eq dst sb = false)).
  { intros k s Hin. destruct (Inl1 k s Hin) as [Hc Nk]. split; [apply (G k s Hc)|]. split.
    - intros db a Fd. apply not_true_is_false. intro B. apply c09_branch_eq_key in B.
      destruct (sh_dev _ _ _ Sh _ _ _ _ Hc Fd) as (_ & Kk & _). apply Nk. rewrite <- Kk, <- B. reflexivity.
    - intros sb Fs. apply not_true_is_false. intro B. apply c09_branch_eq_key in B.
      destruct (sh_stab _ _ _ Sh _ _ _ Hc Fs) as (_ & Kk & _). apply Nk. rewrite <- Kk, <- B. reflexivity. }
  destruct (G k0 s0 Hs0) as [Gd0 Gh0].
  destruct (s_dev s0) as [[db0 a0]|] eqn:Fd0; [|contradiction]. clear Gd0.
  destruct (c09_shape_dev_slot _ _ _ _ _ _ _ Sh Hs0 Fd0) as [-> Idb0].
  pose proof (c09_branch_eq_refl_dev_stab dst Hh) as Mdd.
  assert (SubT : forall e, In e ((k0, s0) :: l2) -> In e c /\ has_dev (snd e) = true).
  { intros e He. assert (Hc : In e c) by (rewrite Ec; apply in_app_iff; right; exact He).
    split; [exact Hc|]. destruct e as [k s]. destruct (G k s Hc) as [Gd _]. cbn [snd]. unfold has_dev.
    destruct (s_dev s); [reflexivity | contradiction]. }
  assert (Sub2 : forall e, In e l2 -> In e c /\ has_dev (snd e) = true) by (intros e He; apply SubT; right; exact He).
  assert (Paths : get_merge_paths c = merge_paths bs dst) by (eapply c09_merge_paths_spec; eassumption).
  assert (TS : targets bs dst =
               dst :: map dev_of_line ((if branch_eqb (dev_of_line k0) dst then [] else [k0]) ++ keys l2))
    by (apply (c09_targets_split bs dst (keys l1) k0 (keys l2)); [rewrite <- KL; exact Ek | exact S | reflexivity | exact Hh]).
  (* the fix version of every slot above the destination *)
  assert (SV : forall k s, In (k, s) l2 ->
     slot_versions false k (mkSlot (mark_dev s) None None) = Ok (target_version bs ts dst (dev_of_line k))).
  { intros k s Hin. destruct (Inl2 k s Hin) as (Hc & Nk & Lk). destruct (G k s Hc) as [Gd Gh].
    apply (c09_slot_version bs ts dst c k s Sh At ND Hc Gd Gh KS).
    intros x y z -> E. apply Nk. rewrite E. reflexivity. }
  unfold finalize. rewrite c09_dst_hf_flag, Hh, Paths, Ec.
  assert (Disj : forall k, In k (keys l1) -> ~ In k (k0 :: keys l2)).
  { intros k H1 [<-|H2].
    - specialize (F1 k0 H1). unfold llt in F1. rewrite c09_line_lt_irrefl in F1. discriminate F1.
    - pose proof (c09_line_lt_trans _ _ _ (F1 k H1) (F2 k H2)) as C. rewrite c09_line_lt_irrefl in C. discriminate C. }
  (* slots below the destination: every branch is ignored *)
  assert (IG1 : forall T, (forall t, In t T -> In (key_of t) (k0 :: keys l2)) ->
            forall e, In e l1 -> filter (nt T) (slot_bs (snd e)) = dev_b (snd e) ++ stab_b (snd e)).
  { intros T HT [k s] Hin. cbn [snd]. destruct (Inl1 k s Hin) as [Hc _].
    unfold slot_bs at 1. assert (Eh : hf_b s = []) by (unfold hf_b; rewrite (Hf k s Hc); reflexivity).
    rewrite Eh, app_nil_r. apply c09_filter_all. intros b Hb. unfold nt. apply negb_true_iff, c09_mem_false.
    intro Hbt. apply (Disj k (c09_in_keys _ _ _ Hin)).
    assert (Hb' : In b (slot_bs s)) by (unfold slot_bs; rewrite Eh, app_nil_r; exact Hb).
    destruct (c09_in_slot_bs _ _ _ _ _ _ Sh Hc Hb') as (_ & Kb & _). rewrite <- Kb. apply HT. exact Hbt. }
  (* slots from the destination on: the development branch is a target, the stabilization is not *)
  assert (IG2 : forall T, (forall b, In b T -> b = dst \/ class_of b = CDev) ->
            forall e, In e c -> In (dev_of_line (fst e)) T ->
            (forall sb, s_stab (snd e) = Some sb -> sb <> dst) ->
            filter (nt T) (slot_bs (snd e)) = stab_b (snd e)).
  { intros T HT [k s] Hc HdT Hsb. cbn [fst snd] in *. unfold slot_bs, hf_b, dev_b. rewrite (Hf k s Hc), app_nil_r.
    destruct (G k s Hc) as [Gd _]. destruct (s_dev s) as [[db a]|] eqn:Fd; [|contradiction].
    destruct (c09_shape_dev_slot _ _ _ _ _ _ _ Sh Hc Fd) as [-> _]. cbn [app filter].
    unfold nt at 1. apply c09_mem_in in HdT. rewrite HdT. cbn [negb].
    apply c09_filter_all. intros b Hb. unfold stab_b in Hb. destruct (s_stab s) as [sb|] eqn:Fs; [|destruct Hb].
    destruct Hb as [<-|[]]. unfold nt. apply negb_true_iff, c09_mem_false. intro Hbt.
    destruct (sh_stab _ _ _ Sh _ _ _ Hc Fs) as (_ & _ & Cc).
    destruct (HT _ Hbt) as [E|E]; [exact (Hsb sb eq_refl E) | congruence]. }
  destruct dst as [x0 y0|x0 y0 z0|]; [| |discriminate Hh].
  - (* development destination *)
    assert (Ed : dev_of_line k0 = Dev x0 y0) by reflexivity. rewrite Ed in *.
    rewrite (c09_loop_removed (Dev x0 y0) l1 false ((k0, s0) :: l2) _ NM
               (c09_tail_dev _ k0 s0 l2 a0 Fd0 Gh0 Mdd G2)) by discriminate.
    cbn [fst snd f_ignored f_dst f_rem bind negb andb].
    rewrite (c09_versions_kept bs ts (Dev x0 y0) ((k0, s0) :: l2)).
    2:{ intros k s [E|Hin]; [injection E as <- <-|apply SV; exact Hin].
        apply (c09_slot_version bs ts (Dev x0 y0) c k0 s0 Sh At ND Hs0); try assumption; [congruence | discriminate]. }
    cbn [bind observe o_dst o_ignored o_versions o_paths]. f_equal.
    rewrite c09_branch_eqb_refl in TS. cbn [app] in TS.
    assert (Edst : flat_map (fun e => dev_b (snd e)) ((k0, s0) :: l2) = targets bs (Dev x0 y0)).
    { rewrite TS. change (flat_map (fun e => dev_b (snd e)) ((k0, s0) :: l2)) with (devs ((k0, s0) :: l2)).
      rewrite (c09_devs_lines _ _ _ _ Sh SubT). reflexivity. }
    rewrite Edst. f_equal.
    + rewrite <- map_app. apply (c09_ignored_spec _ _ c); try assumption; [rewrite TS; left; reflexivity|].
      rewrite Ec. unfold all_b. rewrite flat_map_app, filter_app.
      apply Permutation_app; apply Permutation_refl'; symmetry.
      * apply (c09_filter_all_b _ (fun e => dev_b (snd e) ++ stab_b (snd e))). apply IG1.
        rewrite TS. intros t [<-|Ht]; [left; reflexivity|]. right.
        apply in_map_iff in Ht as (k' & <- & Hk'). destruct k'; exact Hk'.
      * apply (c09_filter_all_b _ (fun e => stab_b (snd e))). intros e He. apply IG2.
        -- rewrite TS. intros b [<-|Hb]; [left; reflexivity|]. right. apply in_map_iff in Hb as (k' & <- & _). reflexivity.
        -- rewrite Ec. apply in_app_iff. right. exact He.
        -- rewrite TS. destruct He as [<-|He]; [left; reflexivity|]. right. apply in_map. destruct e as [k s].
           eapply c09_in_keys; exact He.
        -- intros sb Fs ->. destruct e as [k s]. cbn [snd] in Fs.
           assert (Hc : In (k, s) c) by (rewrite Ec; apply in_app_iff; right; exact He).
           destruct (sh_stab _ _ _ Sh _ _ _ Hc Fs) as (_ & _ & Cc). discriminate Cc.
    + rewrite TS. cbn [flat_map fst]. f_equal. unfold keys. rewrite !c09_flat_map_map. reflexivity.
  - (* stabilization destination *)
    unfold holds in Hh0. cbn in Hh0.
    assert (Ed : dev_of_line k0 = Dev x0 (Some y0)) by reflexivity. rewrite Ed in *.
    rewrite (c09_loop_removed (Stab x0 y0 z0) l1 false ((k0, s0) :: l2) _ NM
               (c09_tail_stab (Stab x0 y0 z0) k0 s0 l2 _ a0 Fd0 Gh0 eq_refl Hh0 Mdd G2)) by discriminate.
    cbn [fst snd f_ignored f_dst f_rem bind negb andb set_target_versions].
    assert (V0 : slot_versions false k0 (mkSlot (mark_dev s0) (Some (Stab x0 y0 z0)) None) = Ok [[x0; y0; z0]]) by reflexivity.
    rewrite V0. cbn [bind]. rewrite (c09_versions_kept bs ts (Stab x0 y0 z0) l2 SV).
    cbn [bind observe o_dst o_ignored o_versions o_paths app]. f_equal.
    cbn [branch_eqb app] in TS.
    assert (Edst : Stab x0 y0 z0 :: Dev x0 (Some y0) :: flat_map (fun e => dev_b (snd e)) l2 = targets bs (Stab x0 y0 z0)).
    { rewrite TS. change (flat_map (fun e => dev_b (snd e)) l2) with (devs l2).
      rewrite (c09_devs_lines _ _ _ _ Sh Sub2). reflexivity. }
    rewrite Edst. f_equal.
    + rewrite <- map_app. apply (c09_ignored_spec _ _ c); try assumption; [rewrite TS; left; reflexivity|].
      rewrite Ec. unfold all_b. rewrite flat_map_app, filter_app. cbn [flat_map]. rewrite filter_app.
      apply Permutation_app; apply Permutation_refl'; symmetry.
      * apply (c09_filter_all_b _ (fun e => dev_b (snd e) ++ stab_b (snd e))). apply IG1.
        rewrite TS. intros t [<-|[<-|Ht]]; [left; reflexivity | left; reflexivity|]. right.
        apply in_map_iff in Ht as (k' & <- & Hk'). destruct k'; exact Hk'.
      * assert (E0 : filter (nt (targets bs (Stab x0 y0 z0))) (slot_bs (snd (k0, s0))) = []).
        { apply c09_filter_none. intros b Hb. unfold nt. apply negb_false_iff, c09_mem_in. rewrite TS.
          cbn [snd] in Hb. unfold slot_bs, dev_b, stab_b, hf_b in Hb. rewrite Fd0, Hh0, Gh0 in Hb.
          destruct Hb as [<-|[<-|[]]]; [right; left; reflexivity | left; reflexivity]. }
        rewrite E0. cbn [app].
        apply (c09_filter_all_b _ (fun e => stab_b (snd e))). intros e He. apply IG2.
        -- rewrite TS. intros b [<-|[<-|Hb]]; [left; reflexivity | right; reflexivity|]. right.
           apply in_map_iff in Hb as (k' & <- & _). reflexivity.
        -- rewrite Ec. apply in_app_iff. right. right. exact He.
        -- rewrite TS. right. right. apply in_map. destruct e as [k s]. eapply c09_in_keys; exact He.
        -- intros sb Fs ->. destruct e as [k s]. cbn [snd] in Fs. destruct (Inl2 k s He) as (Hc & Nk & _).
           destruct (sh_stab _ _ _ Sh _ _ _ Hc Fs) as (_ & Kk & _). apply Nk. rewrite <- Kk. reflexivity.
    + rewrite TS. cbn [flat_map map]. rewrite Ed. cbn [target_version]. rewrite !Z.eqb_refl. cbn [andb app]. f_equal.
      unfold keys. rewrite !c09_flat_map_map. reflexivity.
Qed.

(* --- a hotfix destination *)

Lemma c09_flat_map_nil {A B} (f : A -> list B) l : (forall a, In a l -> f a = []) -> flat_map f l = [].
Proof.
  induction l as [|a t IH]; intro H; cbn [flat_map]; [reflexivity|].
  rewrite (H a (or_introl eq_refl)), IH; [reflexivity|]. intros; apply H; right; assumption.
Qed.

Lemma c09_perm_flat_map {A B} (f g : A -> list B) l :
  (forall a, Permutation (f a) (g a)) -> Permutation (flat_map f l) (flat_map g l).
Proof. intro H. induction l as [|a t IH]; cbn [flat_map]; [constructor|]. apply Permutation_app; [apply H | exact IH]. Qed.

Lemma c09_finalize_hf bs ts dst c :
  Shape bs (Some dst) c -> Attrs ts (keys c) c -> NoDup bs -> In dst bs -> is_hotfix dst = true ->
  orphan_stab bs = false ->
  observe (finalize c dst) =
  Ok (mkSpec (targets bs dst) (ignored bs dst) (flat_map (target_version bs ts dst) (targets bs dst))
             (merge_paths bs dst)).
Proof.
  intros Sh At ND Idst Hh O.
  pose proof (c09_shape_nodup _ _ _ Sh) as NDk.
  destruct dst as [| |x0 y0 z0]; try discriminate Hh. set (dst := Hotfix x0 y0 z0) in *.
  assert (HB : forall k s hb r, In (k, s) c -> s_hf s = Some (hb, r) -> hb = dst /\ k = key_of dst).
  { intros k s hb r Hin F. destruct (sh_hf _ _ _ Sh _ _ _ _ Hin F) as (_ & Kk & Cc & Kp).
    destruct hb; try discriminate Cc. apply c09_kept_hotfix in Kp. subst dst. rewrite <- Kp in *. auto. }
  assert (OK : forall k s, In (k, s) c -> hf_ok dst s).
  { intros k s Hin. split.
    - destruct (s_dev s) eqn:Fd; [left; discriminate|]. right.
      destruct (s_stab s) eqn:Fs.
      + exfalso. apply (c09_no_orphan_dev _ _ _ _ _ Sh O Hin); [rewrite Fs; discriminate | exact Fd].
      + split; [reflexivity|]. pose proof (sh_nonempty _ _ _ Sh _ _ Hin) as N. unfold occupied in N.
        rewrite Fd, Fs in N. destruct (s_hf s); [discriminate | discriminate N].
    - intros hb r F. apply (HB k s hb r Hin F). }
  assert (Kd : kept (Some dst) dst) by (unfold kept, dst; cbn; rewrite !Z.eqb_refl; reflexivity).
  destruct (sh_complete _ _ _ Sh dst Idst Kd) as (s0 & Hs0 & Hh0).
  set (k0 := key_of dst) in *. unfold holds in Hh0. cbn in Hh0. destruct Hh0 as [r0 Fh0].
  destruct (in_split _ _ Hs0) as (l1 & l2 & Ec).
  assert (NDk' : NoDup (keys l1 ++ k0 :: keys l2)) by (rewrite Ec, c09_keys_app in NDk; exact NDk).
  assert (Oth : forall k s, In (k, s) l1 \/ In (k, s) l2 -> s_hf s = None).
  { intros k s Hin. destruct (s_hf s) as [[hb r]|] eqn:F; [|reflexivity]. exfalso.
    assert (Hc : In (k, s) c) by (rewrite Ec; apply in_app_iff; destruct Hin; [left | right; right]; assumption).
    destruct (HB k s hb r Hc F) as [_ ->]. fold k0 in Hin. apply NoDup_remove_2 in NDk'. apply NDk'.
    apply in_app_iff. destruct Hin as [Hin|Hin]; [left | right]; eapply c09_in_keys; exact Hin. }
  destruct (At _ _ Hs0) as [_ A2]. pose proof (A2 _ _ Fh0) as Er0.
  destruct (c09_loop_hf dst c false (ex_intro _ x0 (ex_intro _ y0 (ex_intro _ z0 eq_refl))) OK) as [last' EL].
  assert (Paths : get_merge_paths c = merge_paths bs dst) by (eapply c09_merge_paths_spec; eassumption).
  unfold finalize. rewrite c09_dst_hf_flag. cbn [is_hotfix dst]. fold dst. rewrite EL, Paths.
  cbn [bind negb f_rem f_dst f_ignored]. rewrite andb_false_r.
  assert (Edst : flat_map (fun e => hf_b (snd e)) c = [dst]).
  { rewrite Ec, flat_map_app. cbn [flat_map snd]. unfold hf_b at 2. rewrite Fh0.
    rewrite !c09_flat_map_nil; [reflexivity | |];
      intros [k s] Hin; cbn [snd]; unfold hf_b; rewrite (Oth k s); auto. }
  assert (Erem : flat_map (fun e => match s_hf (snd e) with
                                    | Some _ => [(fst e, mkSlot None None (s_hf (snd e)))]
                                    | None => []
                                    end) c = [(k0, mkSlot None None (Some (dst, r0)))]).
  { rewrite Ec, flat_map_app. cbn [flat_map snd fst]. rewrite Fh0.
    rewrite !c09_flat_map_nil; [reflexivity | |];
      intros [k s] Hin; cbn [snd]; rewrite (Oth k s); auto. }
  rewrite Edst, Erem. cbn [set_target_versions]. unfold slot_versions. cbn [s_hf s_stab s_dev fst snd k0 dst key_of major_of minor_of micro_of bind app].
  cbn [observe o_dst o_ignored o_versions o_paths]. f_equal.
  assert (TS : targets bs dst = [dst]) by reflexivity. rewrite TS. f_equal.
  - apply (c09_ignored_spec _ _ c); try assumption; [rewrite TS; left; reflexivity|]. rewrite TS.
    transitivity (flat_map (fun e => dev_b (snd e) ++ stab_b (snd e)) c).
    + apply c09_perm_flat_map. intro e. apply Permutation_app_comm.
    + apply Permutation_refl'. symmetry. apply c09_filter_all_b. intros [k s] Hin. cbn [snd].
      unfold slot_bs. rewrite !filter_app.
      assert (E1 : filter (nt [dst]) (dev_b s) = dev_b s).
      { apply c09_filter_all. intros b Hb. unfold dev_b in Hb. destruct (s_dev s) as [[db a]|] eqn:F; [|destruct Hb].
        destruct Hb as [<-|[]]. destruct (sh_dev _ _ _ Sh _ _ _ _ Hin F) as (_ & _ & Cc).
        destruct db; try discriminate Cc. reflexivity. }
      assert (E2 : filter (nt [dst]) (stab_b s) = stab_b s).
      { apply c09_filter_all. intros b Hb. unfold stab_b in Hb. destruct (s_stab s) as [sb|] eqn:F; [|destruct Hb].
        destruct Hb as [<-|[]]. destruct (sh_stab _ _ _ Sh _ _ _ Hin F) as (_ & _ & Cc).
        destruct sb; try discriminate Cc. reflexivity. }
      assert (E3 : filter (nt [dst]) (hf_b s) = []).
      { apply c09_filter_none. intros b Hb. unfold hf_b in Hb. destruct (s_hf s) as [[hb r]|] eqn:F; [|destruct Hb].
        destruct Hb as [<-|[]]. destruct (HB k s hb r Hin F) as [-> _]. unfold nt, mem. cbn [existsb].
        rewrite c09_branch_eqb_refl. reflexivity. }
      rewrite E1, E2, E3, app_nil_r. reflexivity.
  - cbn [flat_map target_version dst app]. rewrite Er0. reflexivity.
Qed.

(* ======================================================================================== *)
(* 8. The theorems                                                                            *)
(* ======================================================================================== *)

(* the statement of C09 for one input *)
Definition c09_agrees (order bs : list branch) (tags : list string) (dst : branch) : Prop :=
  observe (build order tags dst) = spec bs (release_tags tags) dst.

(* for every discovery order of every duplicate-free set, every tag list, every destination of the set *)
Definition C09_full : Prop :=
  forall order bs tags dst, Permutation order bs -> NoDup bs -> In dst bs -> c09_agrees order bs tags dst.

Theorem c09_full_proof : C09_full.
Proof.
  intros order bs tags dst P ND Idst. unfold c09_agrees, spec.
  destruct (c09_pipeline order bs tags dst P ND) as [[T ->]|(T & c0 & Sh & Fr & ->)]; rewrite T; [reflexivity|].
  rewrite (c09_dep_spec _ _ _ _ Sh Idst).
  destruct (released_stab bs (release_tags tags) dst) eqn:R; [reflexivity|].
  set (ts := release_tags tags) in *. set (c2 := map_slots (final_slot ts (keys c0)) c0).
  assert (Sh2 : Shape bs (Some dst) c2) by (apply c09_shape_map_slots; [intros; apply c09_final_slot_desc | exact Sh]).
  assert (At2 : Attrs ts (keys c2) c2).
  { unfold c2. rewrite c09_keys_map_slots. apply c09_attrs_final. exact Fr. }
  destruct (orphan_stab bs) eqn:O.
  - rewrite (c09_finalize_orphan _ _ _ Sh2 O). reflexivity.
  - destruct (is_hotfix dst) eqn:Hh.
    + apply c09_finalize_hf; assumption.
    + apply c09_finalize_nonhf; assumption.
Qed.

(* the two inputs on which the code left the statement before the repairs f5b7e55 / 08d216c
   (kept as regression cases, also in corpus/C09/00_regressions.json):
   development/4.0 + stabilization/4.0.1, no tag, destination development/4.0: fix version 4.0.0
   (was 4.0.1, the version held by the untargeted stabilization branch) *)
Example c09_regression_gap :
  observe (build [Dev 4 (Some 0); Stab 4 0 1] [] (Dev 4 (Some 0))) =
    Ok (mkSpec [Dev 4 (Some 0)] ["stabilization/4.0.1"] [[4; 0; 0]]
               [[Dev 4 (Some 0)]; [Stab 4 0 1; Dev 4 (Some 0)]]) /\
  observe (build [Dev 4 (Some 0); Stab 4 0 3] ["4.0.0"] (Dev 4 (Some 0))) =
    Ok (mkSpec [Dev 4 (Some 0)] ["stabilization/4.0.3"] [[4; 0; 1]]
               [[Dev 4 (Some 0)]; [Stab 4 0 3; Dev 4 (Some 0)]]) /\
  observe (build [Dev 4 (Some 0); Stab 4 0 1] ["4.0.0"] (Dev 4 (Some 0))) =
    Ok (mkSpec [Dev 4 (Some 0)] ["stabilization/4.0.1"] [[4; 0; 2]]
               [[Dev 4 (Some 0)]; [Stab 4 0 1; Dev 4 (Some 0)]]).
Proof. repeat split; vm_compute; reflexivity. Qed.

(* stabilization/4.0.1 + hotfix/4.0.0 without development/4.0, destination hotfix/4.0.0: rejected with
   DevBranchDoesNotExist (was AttributeError on None.has_stabilization) *)
Example c09_regression_attr :
  observe (build [Stab 4 0 1; Hotfix 4 0 0] [] (Hotfix 4 0 0)) = Err DevBranchDoesNotExist /\
  spec [Stab 4 0 1; Hotfix 4 0 0] [] (Hotfix 4 0 0) = Err DevBranchDoesNotExist.
Proof. split; vm_compute; reflexivity. Qed.

(* the order in which build iterates its set of branch names is irrelevant - with no side condition *)
Theorem c09_order_indep_proof o1 o2 tags dst :
  Permutation o1 o2 -> NoDup o1 -> build o1 tags dst = build o2 tags dst.
Proof. intros P ND. unfold build, build_parsed. rewrite (c09_add_all_perm o1 o2 (Some dst) P ND). reflexivity. Qed.

Theorem c09_order_indep_nodst_proof o1 o2 tags :
  Permutation o1 o2 -> NoDup o1 -> build_nodst o1 tags = build_nodst o2 tags.
Proof. intros P ND. unfold build_nodst. rewrite (c09_add_all_perm o1 o2 None P ND). reflexivity. Qed.

(* whether update_versions raises does not depend on the order of the tags (the raise conditions read
   branch names only), although it is evaluated tag by tag *)
Theorem c09_tag_order_error_proof ts1 ts2 c :
  NoDup (keys c) -> Permutation ts1 ts2 ->
  (exists c1, update_all ts1 c = Ok c1) <-> (exists c2, update_all ts2 c = Ok c2).
Proof.
  intros ND P. rewrite !c09_update_all_closed by exact ND.
  assert (E : existsb (fun t => dep_at t c) (somes ts1) = existsb (fun t => dep_at t c) (somes ts2)).
  { apply eq_true_iff_eq. rewrite !existsb_exists.
    assert (PS : Permutation (somes ts1) (somes ts2)).
    { unfold somes. clear -P. induction P; cbn [flat_map]; [constructor | apply Permutation_app_head; assumption | |
        etransitivity; eassumption].
      rewrite !app_assoc. apply Permutation_app_tail, Permutation_app_comm. }
    split; intros (t & Ht & D); exists t; split; try exact D;
      [apply (Permutation_in _ PS) | apply (Permutation_in _ (Permutation_sym PS))]; exact Ht. }
  rewrite E. destruct (existsb _ (somes ts2)); split; intros [x Hx]; try discriminate Hx; eauto.
Qed.

(* the explicit error constructors of the totalised model that no input of the quantifier reaches *)
Theorem c09_unreachable_errors_proof order bs tags dst :
  Permutation order bs -> NoDup bs -> In dst bs ->
  forall e, build order tags dst = Err e ->
  e = UnsupportedMultipleStabBranches \/ e = DeprecatedStabilizationBranch \/ e = DevBranchDoesNotExist.
Proof.
  intros P ND Idst e E. pose proof (c09_full_proof order bs tags dst P ND Idst) as H.
  unfold c09_agrees in H. rewrite E in H. cbn [observe] in H. unfold spec in H.
  destruct (two_stabs bs); [injection H as ->; auto|].
  destruct (released_stab bs (release_tags tags) dst); [injection H as ->; auto|].
  destruct (orphan_stab bs); [injection H as ->; auto | discriminate H].
Qed.

(* ======================================================================================== *)
(* 9. Non-vacuity: the cascades of the pinned QuickTest, and the facts the model was written for *)
(* ======================================================================================== *)

(* test_branch_cascade_target_first_stab *)
Definition qt_first_stab_branches : list branch :=
  [Stab 4 3 18; Dev 4 (Some 3); Dev 5 (Some 1); Stab 5 1 4; Dev 10 (Some 0)].
Definition qt_first_stab_tags : list string := ["4.3.16"; "4.3.17"; "4.3.18_rc1"; "5.1.3"; "5.1.4_rc1"].

Example c09_qt_first_stab :
  let r := observe (build qt_first_stab_branches qt_first_stab_tags (Stab 4 3 18)) in
  r = spec qt_first_stab_branches (release_tags qt_first_stab_tags) (Stab 4 3 18) /\
  match r with
  | Ok o => map name_of (sp_dst o) = ["stabilization/4.3.18"; "development/4.3"; "development/5.1"; "development/10.0"]
            /\ sp_ignored o = ["stabilization/5.1.4"]
            /\ map print_version (sp_versions o) = ["4.3.18"; "5.1.5"; "10.0.0"]
            /\ map (map name_of) (sp_paths o) =
               [["development/4.3"; "development/5.1"; "development/10.0"];
                ["stabilization/4.3.18"; "development/4.3"; "development/5.1"; "development/10.0"];
                ["stabilization/5.1.4"; "development/5.1"; "development/10.0"]]
  | Err _ => False
  end.
Proof. vm_compute. repeat split; reflexivity. Qed.

(* the hypotheses of C09_full hold of that cascade, in a discovery order that is not the sorted one *)
Example c09_full_nonvacuous :
  let bs := qt_first_stab_branches in
  let order := [Dev 10 (Some 0); Stab 5 1 4; Stab 4 3 18; Dev 5 (Some 1); Dev 4 (Some 3)] in
  Permutation order bs /\ NoDup bs /\ In (Stab 4 3 18) bs /\
  c09_agrees order bs qt_first_stab_tags (Stab 4 3 18).
Proof.
  cbv zeta.
  assert (P : Permutation [Dev 10 (Some 0); Stab 5 1 4; Stab 4 3 18; Dev 5 (Some 1); Dev 4 (Some 3)]
                          qt_first_stab_branches).
  { unfold qt_first_stab_branches. apply NoDup_Permutation.
    - repeat constructor; cbn; intuition discriminate.
    - repeat constructor; cbn; intuition discriminate.
    - intro b. cbn. intuition. }
  assert (ND : NoDup qt_first_stab_branches) by (repeat constructor; cbn; intuition discriminate).
  split; [exact P|]. split; [exact ND|]. split; [left; reflexivity|].
  apply c09_full_proof; try assumption. left; reflexivity.
Qed.

(* test_major_development_branch: development/x branches, v-prefixed tags *)
Example c09_qt_major_branches :
  let bs := [Stab 4 3 18; Dev 4 (Some 3); Dev 4 None; Stab 5 1 4; Dev 5 (Some 1); Dev 10 (Some 0); Dev 10 None] in
  let tags := ["4.3.16"; "4.3.17"; "4.3.18_rc1"; "v5.1.3"; "v5.1.4_rc1"; "v10.0.1"] in
  let r := observe (build bs tags (Dev 4 (Some 3))) in
  r = spec bs (release_tags tags) (Dev 4 (Some 3)) /\
  match r with
  | Ok o => map name_of (sp_dst o) = ["development/4.3"; "development/4"; "development/5.1"; "development/10.0"; "development/10"]
            /\ sp_ignored o = ["stabilization/4.3.18"; "stabilization/5.1.4"]
            /\ map print_version (sp_versions o) = ["4.3.19"; "4.4.0"; "5.1.5"; "10.0.2"; "10.1.0"]
  | Err _ => False
  end.
Proof. vm_compute. repeat split; reflexivity. Qed.

(* test_branch_cascade_target_hotfix (last tag list), test_branch_cascade_hotfix_and_stabilization,
   test_branch_dangling_stab, test_branch_cascade_multi_stab_branches *)
Example c09_qt_hotfix_and_rejections :
  let bs := [Stab 4 3 18; Dev 4 (Some 3); Stab 5 1 4; Dev 5 (Some 1); Hotfix 6 6 5; Hotfix 6 6 6; Hotfix 6 6 7;
             Dev 6 (Some 6); Hotfix 10 0 3; Hotfix 10 0 4; Dev 10 (Some 0)] in
  let tags := ["4.3.16"; "4.3.17"; "4.3.18_rc1"; "5.1.3"; "5.1.4_rc1"; "6.6.6.1"; "6.6.6.2"; "10.0.3.1"] in
  (exists o, observe (build bs tags (Hotfix 6 6 6)) = Ok o /\ spec bs (release_tags tags) (Hotfix 6 6 6) = Ok o /\
             map name_of (sp_dst o) = ["hotfix/6.6.6"] /\ map print_version (sp_versions o) = ["6.6.6.3"] /\
             sp_ignored o = ["development/10.0"; "development/4.3"; "development/5.1"; "development/6.6";
                             "stabilization/4.3.18"; "stabilization/5.1.4"]) /\
  observe (build [Stab 4 3 18; Dev 4 (Some 3); Hotfix 4 3 18] ["4.3.16"; "4.3.17"; "4.3.18"] (Hotfix 4 3 18))
    = Err DeprecatedStabilizationBranch /\
  observe (build [Stab 4 3 18; Dev 5 (Some 1)] ["4.3.17"; "5.1.3"] (Dev 5 (Some 1))) = Err DevBranchDoesNotExist /\
  observe (build [Stab 4 3 17; Stab 4 3 18; Dev 4 (Some 3)] [] (Stab 4 3 18)) = Err UnsupportedMultipleStabBranches.
Proof. vm_compute. split; [eexists; repeat split; reflexivity | repeat split; reflexivity]. Qed.

(* the tag scanner on the forms of the quantifier *)
Example c09_parse_tag_forms :
  parse_tag "4.3.16" = Some (4, 3, 16, None) /\ parse_tag "v10.0.1" = Some (10, 0, 1, None) /\
  parse_tag "6.6.6.2" = Some (6, 6, 6, Some 2) /\ parse_tag "v01.002.3.40" = Some (1, 2, 3, Some 40) /\
  parse_tag "4.3.18_rc1" = None /\ parse_tag "4.3" = None /\ parse_tag "4.3.1." = None /\
  parse_tag "1.2.3.4.5" = None /\ parse_tag "V1.2.3" = None /\ parse_tag "" = None /\
  parse_tag (String "1" (String "." (String "2" (String "." (String "3" (String "010" EmptyString))))))
    = Some (1, 2, 3, None).
Proof. vm_compute. repeat split; reflexivity. Qed.

(* what the hand-written part of the model assumes about the classes (Facts_C09.v is regenerated from
   /repo on every run: a change of the hierarchy or of the shape of __eq__ stops this from checking) *)
Example c09_facts_shape :
  mro_development = ["DevelopmentBranch"; "GWFBranch"; "Branch"; "object"] /\
  mro_stabilization = ["StabilizationBranch"; "DevelopmentBranch"; "GWFBranch"; "Branch"; "object"] /\
  mro_hotfix = ["HotfixBranch"; "GWFBranch"; "Branch"; "object"] /\
  eq_compares_class = [("DevelopmentBranch", true); ("HotfixBranch", true); ("StabilizationBranch", true)] /\
  (can_be_destination CDev && can_be_destination CStab && can_be_destination CHotfix = true) /\
  tag_default_hfrev = 0.
Proof. repeat split. Qed.

(* hypotheses of C09_error_classes are satisfiable together with a rejection (test_branch_dangling_stab) *)
Example c09_error_classes_nonvacuous :
  let bs := [Stab 4 3 18; Dev 5 (Some 1)] in
  let tags := ["4.3.17"; "5.1.3"] in
  NoDup bs /\ In (Dev 5 (Some 1)) bs /\
  build [Dev 5 (Some 1); Stab 4 3 18] tags (Dev 5 (Some 1)) = Err DevBranchDoesNotExist.
Proof.
  cbv zeta. split; [repeat constructor; cbn; intuition discriminate|]. split; [right; left; reflexivity|].
  vm_compute; reflexivity.
Qed.

(* hypotheses of C09_tag_order_error on a cascade built by add_branch: the deprecating tag first or last *)
Example c09_tag_order_nonvacuous :
  exists c, add_all [Stab 6 1 5; Dev 6 (Some 1)] (Some (Stab 6 1 5)) [] = Ok c /\ NoDup (keys c) /\
            update_all [Some (6, 1, 4, None); Some (6, 1, 5, None)] c = Err DeprecatedStabilizationBranch /\
            update_all [Some (6, 1, 5, None); Some (6, 1, 4, None)] c = Err DeprecatedStabilizationBranch /\
            (exists c', update_all [Some (6, 1, 4, None); None] c = Ok c').
Proof.
  eexists. split; [vm_compute; reflexivity|]. split; [repeat constructor; cbn; intuition discriminate|].
  split; [vm_compute; reflexivity|]. split; [vm_compute; reflexivity|]. eexists. vm_compute. reflexivity.
Qed.

(* the three orderings of branches.py agree: DevelopmentBranch.__lt__ is the order of the statement, and
   compare_queues only differs from compare_branches by putting a stabilization before its development branch *)
Lemma c09_dev_lt_line_lt a b : dev_lt a b = line_lt a b.
Proof.
  destruct a as [x1 [y1|]], b as [x2 [y2|]]; cbn [dev_lt line_lt];
  destruct (Z.eqb_spec x1 x2) as [->|N]; cbn [negb andb]; rewrite ?Z.ltb_irrefl, ?orb_false_r, ?orb_false_l; reflexivity.
Qed.

Lemma c09_compare_queues_branches k1 l1 k2 l2 :
  k1 <> k2 -> compare_queues (k1, l1) (k2, l2) = compare_branches k1 k2.
Proof. intro N. unfold compare_queues. rewrite (c09_key_eqb_neq _ _ N). reflexivity. Qed.

Lemma c09_compare_queues_same_line k :
  compare_queues (k, 3%nat) (k, 2%nat) = -1 /\ compare_queues (k, 2%nat) (k, 3%nat) = 1.
Proof. unfold compare_queues. rewrite c09_key_eqb_refl. split; reflexivity. Qed.
