(* The handler skeleton composed with the gate models: when the answers of check_approvals and check_build_status
   are the ones Model/Approvals.v and Model/BuildGate.v compute from the gate inputs, a run of _handle_pull_request
   that queues or merges implies the SPECIFICATIONS of C04 and C06 on those inputs. *)
From Coq Require Import List String Bool Arith ZArith NArith.
Require Import BertE.Model.Pipeline BertE.Proofs.PipelineProofs.
Require BertE.Model.Approvals BertE.Spec.C04Spec BertE.Proofs.C04Proofs.
Require BertE.Model.BuildGate BertE.Spec.C06Spec BertE.Proofs.C06Proofs.
Import ListNotations.
Open Scope string_scope.
Open Scope list_scope.

(* every element of a trace is an answer of the oracle at some position *)
Lemma exec_answers_from_oracle : forall p o pos tr r s a,
  exec o pos p = (tr, r) -> In (s, a) tr -> exists q, o q s = a.
Proof.
  induction p as [r0 | s0 k IH]; intros o pos tr r s a E I.
  - cbn [exec] in E. inversion E; subst. contradiction.
  - cbn [exec] in E. destruct (exec o (S pos) (k (o pos s0))) as [t1 r1] eqn:E1.
    injection E as Etr Er. subst tr. destruct I as [I | I].
    + injection I as <- <-. exists pos. reflexivity.
    + eapply IH; eauto.
Qed.

(* what the real check_approvals call answers, as a function of the model's outcome on the gate inputs *)
Definition approvals_answer (i : Approvals.inputs) : ans :=
  match Approvals.check_approvals i with
  | Approvals.Pass => AOk
  | Approvals.ApprovalRequired => ARaise ETemplate "ApprovalRequired"
  | Approvals.AttributeErr => ARaise EOther "AttributeError"
  end.

Definition build_answer (bypass nokey : bool) (ss : list BuildGate.bstatus) : ans :=
  match BuildGate.gate bypass nokey ss with
  | BuildGate.Pass => AOk
  | BuildGate.Raise c => ARaise (if String.eqb c "BuildFailed" then ETemplate else ESilent) c
  | BuildGate.KeyErr => ARaise EOther "KeyError"
  | BuildGate.AssertErr => ARaise EOther "AssertionError"
  | BuildGate.EmptyErr => ARaise EOther "ValueError"
  end.

(* the oracle is driven by the gate models at the two gate stages (everything else stays arbitrary) *)
Definition gated (o : nat -> stage -> ans) (i : Approvals.inputs) (bypass nokey : bool)
           (ss : list BuildGate.bstatus) : Prop :=
  forall pos, o pos SApprovals = approvals_answer i /\ o pos SBuildStatus = build_answer bypass nokey ss.

Theorem landing_implies_gate_specs : forall c o pos tr r i bypass nokey ss,
  gated o i bypass nokey ss ->
  exec o pos (pr_inner c) = (tr, r) -> reaches lands tr = true ->
  Approvals.check_approvals i = Approvals.Pass /\ BuildGate.gate bypass nokey ss = BuildGate.Pass.
Proof.
  intros c o pos tr r i bypass nokey ss G E R.
  destruct (inner_gates_before_landing _ _ _ _ _ E R) as (pre & s & a & post & T & _ & _ & Hg).
  assert (IA : In (SApprovals, AOk) tr).
  { rewrite T. apply in_or_app. left. apply Hg. unfold gate_answers. cbn [In]. tauto. }
  assert (IB : In (SBuildStatus, AOk) tr).
  { rewrite T. apply in_or_app. left. apply Hg. unfold gate_answers. cbn [In]. tauto. }
  destruct (exec_answers_from_oracle _ _ _ _ _ _ _ E IA) as (q1 & Q1).
  destruct (exec_answers_from_oracle _ _ _ _ _ _ _ E IB) as (q2 & Q2).
  destruct (G q1) as (G1 & _). destruct (G q2) as (_ & G2).
  rewrite G1 in Q1. rewrite G2 in Q2. split.
  - unfold approvals_answer in Q1. destruct (Approvals.check_approvals i); [reflexivity | discriminate | discriminate].
  - unfold build_answer in Q2. destruct (BuildGate.gate bypass nokey ss); try discriminate; reflexivity.
Qed.

(* ... and therefore the statements of C04 and C06 hold of the gate inputs *)
Theorem landing_implies_c04_spec : forall c o pos tr r i bypass nokey ss,
  gated o i bypass nokey ss ->
  exec o pos (pr_inner c) = (tr, r) -> reaches lands tr = true ->
  C04Spec.spec_pass i.
Proof.
  intros c o pos tr r i bypass nokey ss G E R.
  apply (proj1 (C04Proofs.c04_check_approvals_iff_spec i)).
  exact (proj1 (landing_implies_gate_specs _ _ _ _ _ _ _ _ _ G E R)).
Qed.

Theorem landing_implies_c06_spec : forall c o pos tr r i bypass nokey ss,
  gated o i bypass nokey ss -> ss <> [] -> forallb C06Spec.is_known ss = true ->
  exec o pos (pr_inner c) = (tr, r) -> reaches lands tr = true ->
  bypass = true \/ nokey = true \/ forall s, In s ss -> s = BuildGate.SUCCESSFUL.
Proof.
  intros c o pos tr r i bypass nokey ss G N K E R.
  apply (proj1 (C06Proofs.gate_pass_iff bypass nokey ss N K)).
  exact (proj2 (landing_implies_gate_specs _ _ _ _ _ _ _ _ _ G E R)).
Qed.

(* a gated oracle exists and lands: the theorems above are not vacuous *)
Definition example_inputs : Approvals.inputs :=
  Approvals.mkInputs 1%Z 0%Z true false false false false false false false false false false false
                     4%N 0%N [3%N] [0%N; 1%N] [0%N; 1%N] [].

Definition example_oracle : nat -> stage -> ans :=
  fun pos s => match s with
               | SApprovals => approvals_answer example_inputs
               | SBuildStatus => build_answer false false [BuildGate.SUCCESSFUL; BuildGate.SUCCESSFUL]
               | _ => all_ok true pos s
               end.

Example gated_oracle_lands :
  gated example_oracle example_inputs false false [BuildGate.SUCCESSFUL; BuildGate.SUCCESSFUL] /\
  reaches lands (fst (exec example_oracle 0
                        (pr_inner {| use_queue := true; declined := false; robot_authored := false |}))) = true.
Proof. split; [intros pos; split; reflexivity | vm_compute; reflexivity]. Qed.
