(* Proofs for C19: the integration branches / integration pull requests bookkeeping keeps the one-to-one
   invariant under every event, redirects child and commit events to the parent, declines / deletes exactly the
   integration data of a declined pull request and removes the integration branches of a merged one. *)
From Coq Require Import List String Bool ZArith Arith Lia.
Require Import BertE.Generated.Facts_C19 BertE.Model.Integration BertE.Spec.C19Spec.
Import ListNotations.
Open Scope Z_scope.

(* ------------------------------------------------------------------------------------------ names *)

Lemma c19_name_eqb_eq a b : name_eqb a b = true <-> a = b.
Proof.
  destruct a, b; cbn [name_eqb]; try (split; [discriminate | intro H; discriminate H]);
    try (rewrite String.eqb_eq; split; [intros ->; reflexivity | intro H; injection H; auto]).
  rewrite andb_true_iff, !String.eqb_eq. split.
  - intros [-> ->]. reflexivity.
  - intro H. injection H. auto.
Qed.

Lemma c19_name_eqb_refl a : name_eqb a a = true.
Proof. apply c19_name_eqb_eq. reflexivity. Qed.

Lemma c19_name_eqb_neq a b : name_eqb a b = false <-> a <> b.
Proof.
  split.
  - intros H E. apply c19_name_eqb_eq in E. congruence.
  - intro H. destruct (name_eqb a b) eqn:E; [|reflexivity]. apply c19_name_eqb_eq in E. contradiction.
Qed.

Lemma c19_mem_name_In n l : mem_name n l = true <-> In n l.
Proof.
  unfold mem_name. rewrite existsb_exists. split.
  - intros [x [Hx E]]. apply c19_name_eqb_eq in E. subst. exact Hx.
  - intro H. exists n. split; [exact H | apply c19_name_eqb_refl].
Qed.

Lemma c19_mem_name_false n l : mem_name n l = false <-> ~ In n l.
Proof.
  split.
  - intros H I. apply c19_mem_name_In in I. congruence.
  - intro H. destruct (mem_name n l) eqn:E; [|reflexivity]. apply c19_mem_name_In in E. contradiction.
Qed.

Lemma c19_mem_Z_In z l : mem_Z z l = true <-> In z l.
Proof.
  unfold mem_Z. rewrite existsb_exists. split.
  - intros [x [Hx E]]. apply Z.eqb_eq in E. subst. exact Hx.
  - intro H. exists z. split; [exact H | apply Z.eqb_refl].
Qed.

(* ------------------------------------------------------------------------------------------ branch counts *)

Lemma c19_count_app n a b : count_name n (a ++ b) = (count_name n a + count_name n b)%nat.
Proof. unfold count_name. rewrite filter_app, app_length. reflexivity. Qed.

Lemma c19_count_zero n l : ~ In n l -> count_name n l = 0%nat.
Proof.
  unfold count_name. induction l as [|x t IH]; intro H; [reflexivity|].
  cbn [filter]. destruct (name_eqb n x) eqn:E.
  - apply c19_name_eqb_eq in E. subst. exfalso. apply H. left. reflexivity.
  - apply IH. intro I. apply H. right. exact I.
Qed.

Lemma c19_count_pos n l : In n l -> (1 <= count_name n l)%nat.
Proof.
  unfold count_name. induction l as [|x t IH]; intro H; [destruct H|].
  cbn [filter]. destruct (name_eqb n x) eqn:E.
  - cbn [List.length]. lia.
  - destruct H as [->|H]; [rewrite c19_name_eqb_refl in E; discriminate | apply IH, H].
Qed.

Lemma c19_count_filter n f l : (count_name n (filter f l) <= count_name n l)%nat.
Proof.
  unfold count_name. induction l as [|x t IH]; [cbn; lia|].
  cbn [filter]. destruct (f x); cbn [filter]; destruct (name_eqb n x); cbn [List.length]; lia.
Qed.

Lemma c19_count_add n m bs : (count_name n bs <= 1)%nat -> (count_name n (add_branch m bs) <= 1)%nat.
Proof.
  intro H. unfold add_branch. destruct (mem_name m bs) eqn:E; [exact H|].
  rewrite c19_count_app. unfold count_name at 2. cbn [filter].
  destruct (name_eqb n m) eqn:En; cbn [List.length]; [|lia].
  apply c19_name_eqb_eq in En. subst. apply c19_mem_name_false in E.
  rewrite (c19_count_zero _ _ E). lia.
Qed.

Lemma c19_count_create n s vs : forall bs,
  (count_name n bs <= 1)%nat -> (count_name n (create_integration_branches s vs bs) <= 1)%nat.
Proof.
  unfold create_integration_branches. induction vs as [|v t IH]; intros bs H; [exact H|].
  cbn [fold_left]. apply IH. apply c19_count_add. exact H.
Qed.

Lemma c19_count_remove n s vs bs : (count_name n bs <= 1)%nat -> (count_name n (remove_w s vs bs) <= 1)%nat.
Proof. intro H. unfold remove_w. pose proof (c19_count_filter n (fun n0 => negb (mem_name n0 (w_names s vs))) bs). lia. Qed.

Lemma c19_In_add m bs n : In n (add_branch m bs) <-> In n bs \/ n = m.
Proof.
  unfold add_branch. destruct (mem_name m bs) eqn:E.
  - apply c19_mem_name_In in E. split; [auto | intros [H| ->]; assumption].
  - rewrite in_app_iff. cbn [In]. split; [intros [H|[H|[]]]; auto | intros [H| ->]; auto].
Qed.

Lemma c19_In_create s vs : forall bs n,
  In n (create_integration_branches s vs bs) <-> In n bs \/ exists v, In v vs /\ n = W v s.
Proof.
  unfold create_integration_branches. induction vs as [|v t IH]; intros bs n; cbn [fold_left].
  - split; [auto | intros [H|[v [[] _]]]; exact H].
  - rewrite IH, c19_In_add. split.
    + intros [[H| ->]|[u [Hu ->]]]; [left; exact H | right; exists v; split; [left; reflexivity|reflexivity]
                                   | right; exists u; split; [right; exact Hu|reflexivity]].
    + intros [H|[u [[<-|Hu] ->]]]; [left; left; exact H | left; right; reflexivity | right; exists u; auto].
Qed.

Lemma c19_In_w_names s vs n : In n (w_names s vs) <-> exists v, In v vs /\ n = W v s.
Proof.
  unfold w_names. rewrite in_map_iff. split; intros [v [A B]]; exists v; [split; [exact B|symmetry; exact A] | split; [symmetry; exact B|exact A]].
Qed.

Lemma c19_In_remove s vs bs n : In n (remove_w s vs bs) <-> In n bs /\ ~ exists v, In v vs /\ n = W v s.
Proof.
  unfold remove_w. rewrite filter_In, negb_true_iff, c19_mem_name_false, c19_In_w_names. reflexivity.
Qed.

(* ------------------------------------------------------------------------------------------ ids *)

Lemma c19_max_id_ge ps c : In c ps -> pid c <= max_id ps.
Proof.
  induction ps as [|x t IH]; intro H; [destruct H|]. cbn [max_id fold_right].
  destruct H as [->|H]; [lia|]. specialize (IH H). unfold max_id in IH. lia.
Qed.

Lemma c19_next_id_fresh ps c : In c ps -> pid c < next_id ps.
Proof. intro H. apply c19_max_id_ge in H. unfold next_id. lia. Qed.

Lemma c19_find_pr_In id ps p : find_pr id ps = Some p -> In p ps /\ pid p = id.
Proof. unfold find_pr. intro H. apply find_some in H. destruct H as [H E]. apply Z.eqb_eq in E. auto. Qed.

Lemma c19_find_pr_unique ps p : NoDup (map pid ps) -> In p ps -> find_pr (pid p) ps = Some p.
Proof.
  unfold find_pr. induction ps as [|x t IH]; intros ND H; [destruct H|].
  cbn [map] in ND. inversion ND as [|? ? Hn ND']; subst. cbn [find].
  destruct H as [->|H]; [rewrite Z.eqb_refl; reflexivity|].
  destruct (Z.eqb (pid x) (pid p)) eqn:E; [|apply IH; assumption].
  apply Z.eqb_eq in E. exfalso. apply Hn. rewrite E. apply in_map. exact H.
Qed.

(* ------------------------------------------------------------------------------------------ demotion
   every operation of a job on existing pull requests only takes OPEN ones to DECLINED / MERGED *)

Definition c19_dem (c c' : pr) : Prop :=
  c' = c \/ (pst c = OPEN /\ exists st, st <> OPEN /\ c' = set_st st c).

Definition c19_demote (ps ps' : list pr) : Prop := Forall2 c19_dem ps ps'.

Lemma c19_demote_refl ps : c19_demote ps ps.
Proof. induction ps; constructor; [left; reflexivity | assumption]. Qed.

Lemma c19_dem_trans a b c : c19_dem a b -> c19_dem b c -> c19_dem a c.
Proof.
  intros [->|[Ha [st [Hst ->]]]] [->|[Hb [st' [Hst' ->]]]].
  - left; reflexivity.
  - right. split; [exact Hb|]. exists st'. auto.
  - right. split; [exact Ha|]. exists st. auto.
  - cbn in Hb. congruence.
Qed.

Lemma c19_demote_trans a : forall b c, c19_demote a b -> c19_demote b c -> c19_demote a c.
Proof.
  induction a as [|x t IH]; intros b c H1 H2; inversion H1; subst; inversion H2; subst; constructor.
  - eapply c19_dem_trans; eassumption.
  - eapply IH; eassumption.
Qed.

Lemma c19_demote_map g ps : (forall c, c19_dem c (g c)) -> c19_demote ps (map g ps).
Proof. intro H. induction ps; cbn [map]; constructor; [apply H | assumption]. Qed.

Lemma c19_demote_ids ps ps' : c19_demote ps ps' -> map pid ps' = map pid ps.
Proof.
  induction 1 as [|c c' t t' Hd _ IH]; [reflexivity|]. cbn [map]. f_equal; [|exact IH].
  destruct Hd as [->|[_ [st [_ ->]]]]; reflexivity.
Qed.

Lemma c19_demote_open_In ps ps' c' : c19_demote ps ps' -> In c' ps' -> pst c' = OPEN -> In c' ps.
Proof.
  induction 1 as [|c d t t' Hd _ IH]; intros HI Ho; [destruct HI|].
  destruct HI as [<-|HI]; [|right; apply IH; assumption].
  destruct Hd as [->|[_ [st [Hst ->]]]]; [left; reflexivity|]. cbn in Ho. congruence.
Qed.

Lemma c19_demote_max_id ps ps' : c19_demote ps ps' -> max_id ps' = max_id ps.
Proof.
  intro H. apply c19_demote_ids in H. unfold max_id.
  revert ps' H. induction ps as [|x t IH]; intros [|y u] H; try discriminate H; [reflexivity|].
  cbn [map] in H. injection H as H1 H2. cbn [fold_right]. rewrite (IH _ H2), H1. reflexivity.
Qed.

Lemma c19_dem_decline (b : bool) c : (b = true -> pst c = OPEN) -> c19_dem c (if b then set_st DECLINED c else c).
Proof.
  intro H. destruct b; [|left; reflexivity].
  right. split; [apply H; reflexivity|]. exists DECLINED. split; [discriminate|reflexivity].
Qed.

Lemma c19_is_open_true c : is_open c = true <-> pst c = OPEN.
Proof. unfold is_open. destruct (pst c); split; intro H; try reflexivity; discriminate H. Qed.

Lemma c19_demote_decline_first f ps : (forall c, f c = true -> pst c = OPEN) -> c19_demote ps (decline_first f ps).
Proof.
  intro H. induction ps as [|c t IH]; cbn [decline_first]; [constructor|].
  destruct (f c) eqn:E.
  - constructor; [|apply c19_demote_refl]. right. split; [apply H, E|]. exists DECLINED. split; [discriminate|reflexivity].
  - constructor; [left; reflexivity | exact IH].
Qed.

(* ------------------------------------------------------------------------------------------ the invariant *)

Definition c19_Inv (w : world) : Prop := WellFormed w /\ DistinctSrc w /\ OneToOne w.

Lemma c19_inv_demote ps bs ps' bs' :
  c19_Inv (mkWorld ps bs) -> c19_demote ps ps' -> (forall n, (count_name n bs' <= 1)%nat) ->
  c19_Inv (mkWorld ps' bs').
Proof.
  intros [[Hid Hbr] [Hds H11]] Hd Hbr'. unfold c19_Inv, WellFormed, DistinctSrc, OneToOne in *. cbn [prs branches] in *.
  split; [|split].
  - split; [rewrite (c19_demote_ids _ _ Hd); exact Hid | exact Hbr'].
  - intros p1 p2 s I1 I2 O1 O2 S1 S2.
    apply (Hds p1 p2 s); try assumption; eapply c19_demote_open_In; eassumption.
  - intros p s [Ip [Hu [Ho Hs]]] v.
    assert (Ip0 : In p ps) by (eapply c19_demote_open_In; eassumption).
    destruct (H11 p s (conj Ip0 (conj Hu (conj Ho Hs))) v) as [_ [Hu1 Hn1]].
    assert (Hc : forall c, integration_pr (mkWorld ps' bs') v s c -> integration_pr (mkWorld ps bs) v s c).
    { intros c [Ic [Hr [Hoc Hsd]]]. split; [|auto]. cbn [prs] in *. eapply c19_demote_open_In; eassumption. }
    split; [apply Hbr'|]. split.
    + intros c1 c2 C1 C2. apply Hu1; apply Hc; assumption.
    + intros c C. apply Hn1, Hc, C.
Qed.

Lemma c19_inv_branches w : c19_Inv w -> forall n, (count_name n (branches w) <= 1)%nat.
Proof. intros [[_ H] _]. exact H. Qed.

(* ------------------------------------------------------------------------------------------ created children *)

Lemma c19_mk_child_named id par v s : named_after (mkPr par false (Src s) (Dst v) OPEN None None) (mk_child id par v s).
Proof. split; reflexivity. Qed.

Lemma c19_number_In id par s vs : forall c, In c (number_children id par s vs) ->
  exists v, In v vs /\ psrc c = W v s /\ pdst c = Dst v /\ probot c = true /\ pst c = OPEN /\ id <= pid c
            /\ pparent c = Some par /\ ptitle c = Some par.
Proof.
  revert id. induction vs as [|v t IH]; intros id c H; [destruct H|]. cbn [number_children] in H.
  destruct H as [<-|H].
  - exists v. cbn. repeat split; try reflexivity; try lia. left; reflexivity.
  - destruct (IH _ _ H) as [u [Hu [A [B [C [D [E [F G]]]]]]]]. exists u. repeat split; try assumption; try lia.
    right; exact Hu.
Qed.

Lemma c19_number_uniq par s vs : forall id c1 c2, NoDup vs ->
  In c1 (number_children id par s vs) -> In c2 (number_children id par s vs) -> psrc c1 = psrc c2 -> pid c1 = pid c2.
Proof.
  induction vs as [|v t IH]; intros id c1 c2 ND H1 H2 E; [destruct H1|].
  inversion ND as [|? ? Hn ND']; subst. cbn [number_children] in H1, H2.
  destruct H1 as [<-|H1], H2 as [<-|H2].
  - reflexivity.
  - exfalso. destruct (c19_number_In _ _ _ _ _ H2) as [u [Hu [A _]]]. cbn in E. rewrite A in E.
    injection E as ->. contradiction.
  - exfalso. destruct (c19_number_In _ _ _ _ _ H1) as [u [Hu [A _]]]. cbn in E. rewrite A in E.
    injection E as <-. contradiction.
  - eapply IH; eassumption.
Qed.

Lemma c19_number_ids par s vs : forall id, NoDup (map pid (number_children id par s vs)).
Proof.
  induction vs as [|v t IH]; intro id; cbn [number_children map]; constructor; [|apply IH].
  intro H. apply in_map_iff in H. destruct H as [c [E Hc]].
  destruct (c19_number_In _ _ _ _ _ Hc) as [u [_ [_ [_ [_ [_ [F _]]]]]]]. cbn in E. lia.
Qed.

Lemma c19_NoDup_filter {A} (f : A -> bool) l : NoDup l -> NoDup (filter f l).
Proof.
  induction 1 as [|x t Hn _ IH]; cbn [filter]; [constructor|].
  destruct (f x); [|exact IH]. constructor; [|exact IH]. intro H. apply filter_In in H. apply Hn, H.
Qed.

Lemma c19_NoDup_app_ids (a b : list pr) :
  NoDup (map pid a) -> NoDup (map pid b) -> (forall x y, In x a -> In y b -> pid x <> pid y) ->
  NoDup (map pid (a ++ b)).
Proof.
  intros Ha Hb Hd. rewrite map_app. induction a as [|x t IH]; [exact Hb|].
  cbn [map app]. cbn [map] in Ha. inversion Ha as [|? ? Hn Ha']; subst. constructor.
  - rewrite in_app_iff. intros [H|H]; [contradiction|]. apply in_map_iff in H. destruct H as [y [E Hy]].
    apply (Hd x y); [left; reflexivity | exact Hy | symmetry; exact E].
  - apply IH; [exact Ha'|]. intros a0 y Hx Hy. apply Hd; [right; exact Hx | exact Hy].
Qed.

(* appending robot-authored pull requests that satisfy the clauses keeps the invariant *)
Lemma c19_inv_create c x p s ts ps bs bs' :
  c19_Inv (mkWorld ps bs) -> user_open_pr (mkWorld ps bs) p s -> NoDup (tl ts) ->
  (forall n, (count_name n bs' <= 1)%nat) ->
  c19_Inv (mkWorld (create_integration_pull_requests c x (pid p) s ts ps) bs').
Proof.
  intros HI Hp ND Hbr'. unfold create_integration_pull_requests.
  destruct (always_prs c || opt_prs x); [|eapply c19_inv_demote; [exact HI | apply c19_demote_refl | exact Hbr']].
  set (listed := filter (fun q => is_open q && mem_name (psrc q) (Src s :: w_names s (tl ts))) ps).
  set (missing := filter (fun v => match find_child listed v s with Some _ => false | None => true end) (tl ts)).
  set (news := number_children (next_id ps) (pid p) s missing).
  destruct HI as [[Hid Hbr] [Hds H11]]. destruct Hp as [Ip [Hpu [Hpo Hps]]].
  unfold WellFormed, DistinctSrc, OneToOne in *. cbn [prs branches] in *.
  assert (NDm : NoDup missing) by (apply c19_NoDup_filter; exact ND).
  assert (Hnew : forall q, In q news -> exists v, In v missing /\ psrc q = W v s /\ pdst q = Dst v /\ probot q = true
                   /\ pst q = OPEN /\ next_id ps <= pid q /\ pparent q = Some (pid p) /\ ptitle q = Some (pid p))
    by (intros q Hq; apply (c19_number_In _ _ _ _ _ Hq)).
  assert (Hold : forall v q, In v missing -> In q ps -> pst q = OPEN -> psrc q = W v s -> pdst q = Dst v -> False).
  { intros v q Hv Hq Ho Hs Hd. apply filter_In in Hv. destruct Hv as [Hvt Hf].
    destruct (find_child listed v s) eqn:F; [discriminate Hf|].
    unfold find_child in F.
    assert (Hl : In q listed).
    { apply filter_In. split; [exact Hq|]. apply andb_true_iff. split; [apply c19_is_open_true; exact Ho|].
      apply c19_mem_name_In. right. apply c19_In_w_names. exists v. split; [exact Hvt | exact Hs]. }
    pose proof (find_none _ _ F q Hl) as Hm.
    unfold child_match in Hm. rewrite Hs, Hd, !c19_name_eqb_refl in Hm. discriminate Hm. }
  split; [|split].
  - split; [|exact Hbr'].
    apply c19_NoDup_app_ids; [exact Hid | apply c19_number_ids |].
    intros a b Ha Hb. apply c19_next_id_fresh in Ha. destruct (Hnew _ Hb) as [_ [_ [_ [_ [_ [_ [F _]]]]]]]. lia.
  - intros p1 p2 s0 I1 I2 O1 O2 S1 S2. apply in_app_iff in I1. apply in_app_iff in I2.
    destruct I1 as [I1|I1]; [|destruct (Hnew _ I1) as [v [_ [A _]]]; congruence].
    destruct I2 as [I2|I2]; [|destruct (Hnew _ I2) as [v [_ [A _]]]; congruence].
    apply (Hds p1 p2 s0); assumption.
  - intros q s0 [Iq [Hqu [Hqo Hqs]]] v. apply in_app_iff in Iq.
    destruct Iq as [Iq|Iq]; [|destruct (Hnew _ Iq) as [u [_ [_ [_ [A _]]]]]; congruence].
    destruct (H11 q s0 (conj Iq (conj Hqu (conj Hqo Hqs))) v) as [_ [Hu1 Hn1]].
    split; [apply Hbr'|]. split.
    + intros c1 c2 [I1 [R1 [O1 [S1 D1]]]] [I2 [R2 [O2 [S2 D2]]]]. cbn [prs] in I1, I2.
      apply in_app_iff in I1. apply in_app_iff in I2. destruct I1 as [I1|I1], I2 as [I2|I2].
      * apply Hu1; repeat split; assumption.
      * exfalso. destruct (Hnew _ I2) as [u [Hu [A _]]]. rewrite A in S2. injection S2 as E1 E2.
        subst u s0. apply (Hold v c1); assumption.
      * exfalso. destruct (Hnew _ I1) as [u [Hu [A _]]]. rewrite A in S1. injection S1 as E1 E2.
        subst u s0. apply (Hold v c2); assumption.
      * apply (c19_number_uniq (pid p) s missing (next_id ps)); try assumption. congruence.
    + intros c0 [I0 [R0 [O0 [S0 D0]]]]. cbn [prs] in I0. apply in_app_iff in I0. destruct I0 as [I0|I0].
      * apply Hn1. repeat split; assumption.
      * destruct (Hnew _ I0) as [u [Hu [A [_ [_ [_ [_ [P T]]]]]]]]. rewrite A in S0. injection S0 as E1 E2.
        subst u s0. assert (E : pid q = pid p) by (apply (Hds q p s); assumption).
        unfold named_after. rewrite P, T, E. split; reflexivity.
Qed.

(* ------------------------------------------------------------------------------------------ every operation *)

Lemma c19_fold_demote (fs : list (pr -> bool)) : forall ps,
  (forall f c, In f fs -> f c = true -> pst c = OPEN) ->
  c19_demote ps (fold_left (fun l f => decline_first f l) fs ps).
Proof.
  induction fs as [|f t IH]; intros ps H; cbn [fold_left]; [apply c19_demote_refl|].
  eapply c19_demote_trans.
  - apply (c19_demote_decline_first f). intros c Hc. apply (H f c); [left; reflexivity | exact Hc].
  - apply IH. intros g c Hg. apply H. right. exact Hg.
Qed.

Lemma c19_fold_left_map {A B C} (g : B -> C) (f : A -> C -> A) (l : list B) : forall a,
  fold_left (fun a b => f a (g b)) l a = fold_left f (map g l) a.
Proof. induction l as [|b t IH]; intro a; cbn [fold_left map]; [reflexivity | apply IH]. Qed.

Lemma c19_inv_declined s ts w : c19_Inv w -> c19_Inv (handle_declined s ts w).
Proof.
  intro H. destruct w as [ps bs]. unfold handle_declined. cbn [prs branches].
  eapply c19_inv_demote; [exact H | | intro n; apply c19_count_remove, (c19_inv_branches _ H)].
  rewrite (c19_fold_left_map (fun v c => host_listed c && is_open c && child_match v s c)
                             (fun l f => decline_first f l)).
  apply c19_fold_demote. intros f c Hf Hc. apply in_map_iff in Hf. destruct Hf as [v [<- _]].
  apply andb_true_iff in Hc. destruct Hc as [Hc _]. apply andb_true_iff in Hc. destruct Hc as [_ Hc].
  apply c19_is_open_true. exact Hc.
Qed.

Lemma c19_inv_reset s ts w : c19_Inv w -> c19_Inv (reset s ts w).
Proof.
  intro H. destruct w as [ps bs]. unfold reset. cbn [prs branches].
  eapply c19_inv_demote; [exact H | |].
  - apply c19_demote_map. intro c. apply c19_dem_decline. intro Hc.
    apply andb_true_iff in Hc. destruct Hc as [Hc _]. apply andb_true_iff in Hc. destruct Hc as [_ Hc].
    apply c19_is_open_true. exact Hc.
  - intro n. eapply Nat.le_trans; [apply c19_count_filter | apply (c19_inv_branches _ H)].
Qed.

Lemma c19_count_close x ps n : forall bs id, (count_name n bs <= 1)%nat -> (count_name n (close_one x ps bs id) <= 1)%nat.
Proof.
  intros bs id H. unfold close_one. destruct (find_pr id ps) as [p|]; [|exact H].
  destruct (psrc p); try exact H. destruct (pdst p); try exact H.
  destruct (targets_for v (cascade x)); [apply c19_count_remove|]; exact H.
Qed.

Lemma c19_inv_queue_merge x merged w : c19_Inv w -> c19_Inv (queue_merge x merged w).
Proof.
  intro H. destruct w as [ps bs]. unfold queue_merge. cbn [prs branches].
  eapply c19_inv_demote; [exact H | apply c19_demote_refl |].
  intro n. pose proof (c19_inv_branches _ H n) as Hn. cbn [branches] in Hn. revert bs Hn H.
  induction merged as [|id t IH]; intros bs Hn H; cbn [fold_left]; [exact Hn|].
  apply IH; [apply c19_count_close; exact Hn|].
  eapply c19_inv_demote; [exact H | apply c19_demote_refl |].
  intro m. apply c19_count_close. apply (c19_inv_branches _ H m).
Qed.

Lemma c19_inv_queue_eval c x w w' : c19_Inv w -> queue_eval c x w = Ok w' -> c19_Inv w'.
Proof.
  intros H E. unfold queue_eval in E. destruct (oc x); try discriminate E.
  - injection E as <-. exact H.
  - destruct (use_queue c); [|discriminate E]. injection E as <-. apply c19_inv_queue_merge, H.
Qed.

Lemma c19_inv_set_branches ps bs bs' :
  c19_Inv (mkWorld ps bs) -> (forall n, (count_name n bs' <= 1)%nat) -> c19_Inv (mkWorld ps bs').
Proof. intros H Hb. eapply c19_inv_demote; [exact H | apply c19_demote_refl | exact Hb]. Qed.

Definition c19_cascade_ok (x : ectx) : Prop := forall d ts, In (d, ts) (cascade x) -> NoDup ts.

Lemma c19_targets_for_In d c ts : targets_for d c = Some ts -> In (d, ts) c.
Proof.
  induction c as [|[k l] r IH]; cbn [targets_for]; intro H; [discriminate H|].
  destruct (String.eqb k d) eqn:E.
  - apply String.eqb_eq in E. injection H as <-. subst. left; reflexivity.
  - right. apply IH, H.
Qed.

Lemma c19_NoDup_tl {A} (l : list A) : NoDup l -> NoDup (tl l).
Proof. intro H. destruct l; [exact H|]. inversion H; assumption. Qed.

Lemma c19_inv_eval_user c x w p w' :
  c19_cascade_ok x -> c19_Inv w -> In p (prs w) -> probot p = false -> eval_user c x w p = Ok w' -> c19_Inv w'.
Proof.
  intros Hc HI Ip Hu E. unfold eval_user in E.
  destruct (oc x) eqn:Eo; [injection E as <-; exact HI | | | | | | |];
  (destruct (pst p) eqn:Est; [| |discriminate E]);
  (destruct (psrc p) as [s| | | |] eqn:Es; try discriminate E);
  (destruct (pdst p) as [|?|d| |] eqn:Ed; try discriminate E);
  (destruct (targets_for d (cascade x)) as [ts|] eqn:Et; [|discriminate E]);
  try discriminate E;
  pose proof (c19_NoDup_tl _ (Hc _ _ (c19_targets_for_In _ _ _ Et))) as ND;
  destruct w as [ps bs]; cbn [prs branches] in *.
  - (* ORequestIntegration, OPEN *)
    destruct (integration_gate c x ts); [discriminate E|]. injection E as <-. exact HI.
  - (* OReset, OPEN *) injection E as <-. apply c19_inv_reset, HI.
  - (* OReset, DECLINED *) injection E as <-. apply c19_inv_reset, HI.
  - (* ODeclined, DECLINED *) injection E as <-. apply c19_inv_declined, HI.
  - (* OConflict *)
    destruct (integration_gate c x ts); [|discriminate E]. injection E as <-.
    apply (c19_inv_set_branches _ _ _ HI). intro n. apply c19_count_create, (c19_inv_branches _ HI).
  - (* OCreated *)
    destruct (integration_gate c x ts); [|discriminate E]. injection E as <-.
    apply (c19_inv_create c x p s ts ps bs); [exact HI | repeat split; assumption | exact ND |].
    intro n. apply c19_count_create, (c19_inv_branches _ HI).
  - (* OMerged *)
    destruct (integration_gate c x ts); [|discriminate E]. injection E as <-.
    apply (c19_inv_create c x p s ts ps bs); [exact HI | repeat split; assumption | exact ND |].
    intro n. apply c19_count_remove, c19_count_create, (c19_inv_branches _ HI).
  - (* OQueue *)
    destruct (integration_gate c x ts); [|discriminate E].
    eapply c19_inv_queue_eval; [exact HI | exact E].
Qed.

Lemma c19_resolve_In fuel : forall ps id p, resolve fuel ps id = Ok p -> In p ps /\ probot p = false.
Proof.
  induction fuel as [|f IH]; intros ps id p H; cbn [resolve] in H; [discriminate H|].
  destruct (find_pr id ps) as [q|] eqn:F; [|discriminate H].
  destruct (probot q) eqn:R.
  - destruct (pparent q) as [i|]; [|discriminate H]. apply (IH _ _ _ H).
  - injection H as <-. apply c19_find_pr_In in F. split; [apply F | exact R].
Qed.

Lemma c19_inv_eval_pr c x w id w' : c19_cascade_ok x -> c19_Inv w -> eval_pr c x w id = Ok w' -> c19_Inv w'.
Proof.
  intros Hc HI E. unfold eval_pr in E.
  destruct (resolve (S (List.length (prs w))) (prs w) id) as [p|] eqn:R; [|discriminate E].
  apply c19_resolve_In in R. destruct R as [Ip Hu]. eapply c19_inv_eval_user; eassumption.
Qed.

Lemma c19_inv_handle_commit c x w names w' :
  c19_cascade_ok x -> c19_Inv w -> handle_commit c x w names = Ok w' -> c19_Inv w'.
Proof.
  intros Hc HI E. unfold handle_commit in E. destruct names as [|n t].
  - destruct (oc x); try discriminate E. injection E as <-. exact HI.
  - destruct (use_queue c && existsb is_queue_name (n :: t)); [eapply c19_inv_queue_eval; eassumption|].
    destruct (min_by_id _) as [p|].
    + eapply c19_inv_eval_pr; eassumption.
    + destruct (oc x); try discriminate E. injection E as <-. exact HI.
Qed.

(* events a user / the host contribute *)
Lemma c19_inv_user_decline id w : c19_Inv w -> c19_Inv (user_decline id w).
Proof.
  intro H. destruct w as [ps bs]. unfold user_decline. cbn [prs branches].
  eapply c19_inv_demote; [exact H | | apply (c19_inv_branches _ H)].
  apply c19_demote_map. intro c. apply c19_dem_decline. intro Hc.
  apply andb_true_iff in Hc. apply c19_is_open_true, Hc.
Qed.

Lemma c19_inv_host_merged ids w : c19_Inv w -> c19_Inv (host_merged ids w).
Proof.
  intro H. destruct w as [ps bs]. unfold host_merged. cbn [prs branches].
  eapply c19_inv_demote; [exact H | | apply (c19_inv_branches _ H)].
  apply c19_demote_map. intro c. destruct (is_open c && mem_Z (pid c) ids) eqn:E; [|left; reflexivity].
  right. apply andb_true_iff in E. split; [apply c19_is_open_true, E|]. exists MERGED. split; [discriminate|reflexivity].
Qed.

(* a new pull request may be opened from a branch no open pull request uses and for which no open integration
   pull request is left over *)
Definition c19_fresh_source (w : world) (s : string) : Prop :=
  forall q, In q (prs w) -> pst q = OPEN -> psrc q <> Src s /\ forall v, psrc q <> W v s.

Lemma c19_inv_user_open s d par tit w : c19_fresh_source w s -> c19_Inv w -> c19_Inv (user_open s d par tit w).
Proof.
  intros Hf [[Hid Hbr] [Hds H11]]. destruct w as [ps bs]. unfold user_open, c19_fresh_source in *.
  unfold c19_Inv, WellFormed, DistinctSrc, OneToOne in *. cbn [prs branches] in *.
  set (np := mkPr (next_id ps) false (Src s) (Dst d) OPEN par tit).
  split; [|split].
  - split; [|exact Hbr]. apply c19_NoDup_app_ids; [exact Hid | cbn; constructor; [intros []|constructor] |].
    intros a b Ha [<-|[]]. apply c19_next_id_fresh in Ha. cbn. lia.
  - intros p1 p2 s0 I1 I2 O1 O2 S1 S2. apply in_app_iff in I1. apply in_app_iff in I2.
    destruct I1 as [I1|[<-|[]]], I2 as [I2|[<-|[]]].
    + apply (Hds p1 p2 s0); assumption.
    + exfalso. cbn in S2. injection S2 as <-. apply (proj1 (Hf p1 I1 O1)). exact S1.
    + exfalso. cbn in S1. injection S1 as <-. apply (proj1 (Hf p2 I2 O2)). exact S2.
    + reflexivity.
  - intros q s0 [Iq [Hqu [Hqo Hqs]]] v. split; [apply Hbr|]. apply in_app_iff in Iq.
    assert (Hc : forall c0, integration_pr (mkWorld (ps ++ [np]) bs) v s0 c0 -> integration_pr (mkWorld ps bs) v s0 c0).
    { intros c0 [I0 [R0 O0]]. cbn [prs] in I0. apply in_app_iff in I0.
      destruct I0 as [I0|[<-|[]]]; [split; [exact I0 | split; assumption] | discriminate R0]. }
    destruct Iq as [Iq|[<-|[]]].
    + destruct (H11 q s0 (conj Iq (conj Hqu (conj Hqo Hqs))) v) as [_ [Hu1 Hn1]]. split.
      * intros c1 c2 C1 C2. apply Hu1; apply Hc; assumption.
      * intros c0 C0. apply Hn1, Hc, C0.
    + cbn in Hqs. injection Hqs as <-. split.
      * intros c1 c2 C1 C2. apply Hc in C1. destruct C1 as [I1 [_ [O1 [S1 _]]]].
        exfalso. apply (proj2 (Hf c1 I1 O1) v). exact S1.
      * intros c0 C0. apply Hc in C0. destruct C0 as [I0 [_ [O0 [S0 _]]]].
        exfalso. apply (proj2 (Hf c0 I0 O0) v). exact S0.
Qed.

(* ------------------------------------------------------------------------------------------ C19_inv *)

Definition c19_ev_ok (w : world) (e : event) : Prop :=
  match e with
  | EvalPR _ x | EvalCommit _ x | QueueJob x => c19_cascade_ok x
  | UserOpen s _ _ _ => c19_fresh_source w s
  | UserDecline _ | HostMerged _ => True
  end.

Lemma c19_step_inv c w e w' : c19_ev_ok w e -> c19_Inv w -> step c w e = Ok w' -> c19_Inv w'.
Proof.
  intros Hok HI E. destruct e as [id x|names x|x|s d par tit|id|ids]; cbn [step c19_ev_ok] in *.
  - eapply c19_inv_eval_pr; eassumption.
  - eapply c19_inv_handle_commit; eassumption.
  - eapply c19_inv_queue_eval; eassumption.
  - injection E as <-. apply c19_inv_user_open; assumption.
  - injection E as <-. apply c19_inv_user_decline, HI.
  - injection E as <-. apply c19_inv_host_merged, HI.
Qed.

(* every order, every multiplicity: any list of events, each acceptable in the world it arrives in *)
Fixpoint c19_run_ok (c : cfg) (w : world) (es : list event) : Prop :=
  match es with
  | [] => True
  | e :: t => c19_ev_ok w e /\ match step c w e with Ok w' => c19_run_ok c w' t | Err _ => True end
  end.

Lemma c19_run_inv c es : forall w w', c19_run_ok c w es -> c19_Inv w -> run c w es = Ok w' -> c19_Inv w'.
Proof.
  induction es as [|e t IH]; intros w w' Hok HI E; cbn [run c19_run_ok] in *.
  - injection E as <-. exact HI.
  - destruct Hok as [He Ht]. destruct (step c w e) as [w1|] eqn:S; [|discriminate E].
    apply (IH w1 w' Ht); [eapply c19_step_inv; eassumption | exact E].
Qed.

(* ------------------------------------------------------------------------------------------ C19_redirect *)

Lemma c19_same_id ps a b : NoDup (map pid ps) -> In a ps -> In b ps -> pid a = pid b -> a = b.
Proof.
  intros ND Ha Hb E. pose proof (c19_find_pr_unique ps a ND Ha) as Fa.
  pose proof (c19_find_pr_unique ps b ND Hb) as Fb. rewrite E in Fa. congruence.
Qed.

Lemma c19_resolve_user fuel ps p : NoDup (map pid ps) -> In p ps -> probot p = false -> resolve (S fuel) ps (pid p) = Ok p.
Proof. intros ND Ip Hu. cbn [resolve]. rewrite (c19_find_pr_unique ps p ND Ip), Hu. reflexivity. Qed.

(* an event on a child (robot-authored, naming p) is handled as the event on p *)
Lemma c19_redirect_child c x w ch p :
  NoDup (map pid (prs w)) -> In ch (prs w) -> probot ch = true -> pparent ch = Some (pid p) ->
  In p (prs w) -> probot p = false ->
  step c w (EvalPR (pid ch) x) = step c w (EvalPR (pid p) x).
Proof.
  intros ND Ic Hr Hp Ip Hu. cbn [step]. unfold eval_pr.
  assert (Hlen : exists k, List.length (prs w) = S k).
  { destruct (prs w) as [|a t]; [destruct Ic|]. exists (List.length t). reflexivity. }
  destruct Hlen as [k ->].
  rewrite (c19_resolve_user (S k) _ p ND Ip Hu).
  change (resolve (S (S k)) (prs w) (pid ch)) with
    (match find_pr (pid ch) (prs w) with
     | None => Err PrNotFound
     | Some q => if probot q then match pparent q with None => Err ParentNotFound | Some i => resolve (S k) (prs w) i end
                 else Ok q
     end).
  rewrite (c19_find_pr_unique _ ch ND Ic), Hr, Hp.
  rewrite (c19_resolve_user k _ p ND Ip Hu). reflexivity.
Qed.

Lemma c19_min_by_id_In l : forall m, min_by_id l = Some m -> In m l.
Proof.
  induction l as [|c t IH]; intros m H; cbn [min_by_id] in H; [discriminate H|].
  destruct (min_by_id t) as [m0|].
  - destruct (Z.leb (pid c) (pid m0)); injection H as <-; [left; reflexivity | right; apply IH; reflexivity].
  - injection H as <-. left; reflexivity.
Qed.

Lemma c19_min_by_id_some l : l <> [] -> exists m, min_by_id l = Some m.
Proof.
  destruct l as [|c t]; [intro H; contradiction|]. intros _. cbn [min_by_id].
  destruct (min_by_id t) as [m0|]; [destruct (Z.leb (pid c) (pid m0))|]; eexists; reflexivity.
Qed.

Lemma c19_host_listed c : host_listed c = is_open c.
Proof. reflexivity. Qed.

(* a commit event on the tip of the source branch and / or of integration branches of p is handled as the
   event on p (p being the open pull request of that source) *)
Lemma c19_redirect_commit c x w names p s :
  WellFormed w -> DistinctSrc w -> In p (prs w) -> pst p = OPEN -> psrc p = Src s ->
  names <> [] -> (forall n, In n names -> n = Src s \/ exists v, n = W v s) ->
  step c w (EvalCommit names x) = step c w (EvalPR (pid p) x).
Proof.
  intros [ND _] Hds Ip Ho Hs Hne Hall. cbn [step]. unfold handle_commit.
  destruct names as [|n0 t0] eqn:En; [contradiction|]. rewrite <- En in *.
  assert (Hq : existsb is_queue_name names = false).
  { destruct (existsb is_queue_name names) eqn:E; [|reflexivity]. apply existsb_exists in E.
    destruct E as [n [Hn Q]]. destruct (Hall n Hn) as [->|[v ->]]; discriminate Q. }
  rewrite Hq, andb_false_r.
  set (l := filter (fun q => host_listed q && mem_name (psrc q) (map parent_name names)) (prs w)).
  assert (Hl : forall q, In q l -> q = p).
  { intros q Hq'. apply filter_In in Hq'. destruct Hq' as [Iq Hc]. apply andb_true_iff in Hc.
    destruct Hc as [Hopen Hm]. rewrite c19_host_listed in Hopen. apply c19_is_open_true in Hopen.
    apply c19_mem_name_In in Hm. apply in_map_iff in Hm. destruct Hm as [n [En' Hn]].
    assert (Eq : psrc q = Src s) by (destruct (Hall n Hn) as [->|[v ->]]; cbn in En'; symmetry; exact En').
    apply (c19_same_id (prs w)); try assumption. apply (Hds q p s); assumption. }
  assert (Hp : In p l).
  { apply filter_In. split; [exact Ip|]. rewrite c19_host_listed. apply andb_true_iff.
    split; [apply c19_is_open_true; exact Ho|]. apply c19_mem_name_In. apply in_map_iff.
    exists n0. split; [|rewrite En; left; reflexivity].
    destruct (Hall n0) as [->|[v ->]]; [rewrite En; left; reflexivity | | ]; cbn; symmetry; exact Hs. }
  destruct (c19_min_by_id_some l) as [m Hm]; [intro E; rewrite E in Hp; destruct Hp|].
  rewrite Hm. rewrite (Hl m (c19_min_by_id_In _ _ Hm)). reflexivity.
Qed.

(* ------------------------------------------------------------------------------------------ C19_merge *)

Lemma c19_merge_direct c x w p s d ts w' :
  NoDup (map pid (prs w)) -> In p (prs w) -> probot p = false -> psrc p = Src s -> pdst p = Dst d ->
  targets_for d (cascade x) = Some ts -> oc x = OMerged ->
  step c w (EvalPR (pid p) x) = Ok w' -> NoIntegrationBranchLeft s (beyond_first ts) w'.
Proof.
  intros ND Ip Hu Hs Hd Ht Ho E. cbn [step] in E. unfold eval_pr in E.
  rewrite (c19_resolve_user _ _ p ND Ip Hu) in E. unfold eval_user in E. rewrite Ho, Hs, Hd, Ht in E.
  destruct (pst p); try discriminate E.
  destruct (integration_gate c x ts); [|discriminate E]. injection E as <-.
  intros v Hv HI. cbn [branches] in HI. apply c19_In_remove in HI. destruct HI as [_ HI]. apply HI.
  exists v. split; [exact Hv | reflexivity].
Qed.

Lemma c19_close_one_sub x ps bs id n : In n (close_one x ps bs id) -> In n bs.
Proof.
  unfold close_one. destruct (find_pr id ps) as [q|]; [|auto]. destruct (psrc q); auto. destruct (pdst q); auto.
  destruct (targets_for v (cascade x)); auto. intro H. apply c19_In_remove in H. apply H.
Qed.

Lemma c19_fold_close_sub x ps ids : forall bs n, In n (fold_left (close_one x ps) ids bs) -> In n bs.
Proof.
  induction ids as [|i t IH]; intros bs n H; cbn [fold_left] in H; [exact H|].
  apply IH in H. eapply c19_close_one_sub; eassumption.
Qed.

Lemma c19_merge_queue x w p s d ts merged :
  NoDup (map pid (prs w)) -> In p (prs w) -> psrc p = Src s -> pdst p = Dst d ->
  targets_for d (cascade x) = Some ts -> In (pid p) merged ->
  NoIntegrationBranchLeft s ts (queue_merge x merged w).
Proof.
  intros ND Ip Hs Hd Ht Hm v Hv. unfold queue_merge. cbn [branches].
  generalize (branches w). induction merged as [|i t IH]; intros bs HI; [destruct Hm|]. cbn [fold_left] in HI.
  destruct Hm as [->|Hm]; [|exact (IH Hm _ HI)].
  apply c19_fold_close_sub in HI. unfold close_one in HI.
  rewrite (c19_find_pr_unique _ p ND Ip), Hs, Hd, Ht in HI. apply c19_In_remove in HI. apply (proj2 HI).
  exists v. split; [exact Hv | reflexivity].
Qed.

Lemma c19_merge_queue_step c x w p s d ts merged e w' :
  NoDup (map pid (prs w)) -> In p (prs w) -> psrc p = Src s -> pdst p = Dst d ->
  targets_for d (cascade x) = Some ts -> oc x = OQueue merged -> In (pid p) merged ->
  (e = QueueJob x \/ exists names, e = EvalCommit names x /\ names <> [] /\ use_queue c && existsb is_queue_name names = true) ->
  step c w e = Ok w' -> NoIntegrationBranchLeft s ts w'.
Proof.
  intros ND Ip Hs Hd Ht Ho Hm He E.
  assert (Eq : queue_eval c x w = Ok w').
  { destruct He as [->|[names [-> [Hne Hq]]]]; [exact E|]. cbn [step] in E. unfold handle_commit in E.
    destruct names; [contradiction|]. rewrite Hq in E. exact E. }
  unfold queue_eval in Eq. rewrite Ho in Eq. destruct (use_queue c); [|discriminate Eq]. injection Eq as <-.
  eapply c19_merge_queue; eassumption.
Qed.

(* ------------------------------------------------------------------------------------------ C19_decline *)

Lemma c19_decline_first_map f ps :
  NoDup (map pid ps) ->
  (forall c1 c2, In c1 ps -> In c2 ps -> f c1 = true -> f c2 = true -> pid c1 = pid c2) ->
  decline_first f ps = map (fun c => if f c then set_st DECLINED c else c) ps.
Proof.
  induction ps as [|c t IH]; intros ND Hu; [reflexivity|]. cbn [decline_first map].
  cbn [map] in ND. inversion ND as [|? ? Hn ND']; subst.
  destruct (f c) eqn:E.
  - f_equal. rewrite <- (map_id t) at 1. apply map_ext_in. intros a Ha.
    destruct (f a) eqn:Ea; [|reflexivity]. exfalso. apply Hn.
    rewrite (Hu c a); [apply in_map; exact Ha | left; reflexivity | right; exact Ha | exact E | exact Ea].
  - f_equal. apply IH; [exact ND'|]. intros c1 c2 H1 H2. apply Hu; right; assumption.
Qed.

Lemma c19_fold_decline_map (fv : string -> pr -> bool) ts : forall ps,
  NoDup (map pid ps) ->
  (forall v c, fv v c = true -> is_open c = true) ->
  (forall v c, fv v (set_st DECLINED c) = true -> fv v c = true) ->
  (forall v c1 c2, In v ts -> In c1 ps -> In c2 ps -> fv v c1 = true -> fv v c2 = true -> pid c1 = pid c2) ->
  fold_left (fun l v => decline_first (fv v) l) ts ps =
  map (fun c => if existsb (fun v => fv v c) ts then set_st DECLINED c else c) ps.
Proof.
  induction ts as [|v t IH]; intros ps ND Hop Hst Hu; cbn [fold_left existsb].
  - rewrite <- (map_id ps) at 1. reflexivity.
  - rewrite (c19_decline_first_map (fv v) ps ND); [|intros c1 c2; apply Hu; left; reflexivity].
    rewrite IH.
    + rewrite map_map. apply map_ext. intro c. destruct (fv v c) eqn:E; cbn [orb]; [|reflexivity].
      assert (Hn : existsb (fun v0 => fv v0 (set_st DECLINED c)) t = false).
      { destruct (existsb _ t) eqn:Ex; [|reflexivity]. apply existsb_exists in Ex. destruct Ex as [u [_ Hu']].
        apply Hop in Hu'. discriminate Hu'. }
      rewrite Hn. reflexivity.
    + rewrite map_map. cbn. replace (map (fun x => pid (if fv v x then set_st DECLINED x else x)) ps) with (map pid ps); [exact ND|].
      apply map_ext. intro a. destruct (fv v a); reflexivity.
    + exact Hop.
    + exact Hst.
    + intros u c1 c2 Hu' I1 I2 F1 F2. apply in_map_iff in I1. apply in_map_iff in I2.
      destruct I1 as [a1 [E1 I1]], I2 as [a2 [E2 I2]].
      assert (G : forall a b, (if fv v a then set_st DECLINED a else a) = b -> fv u b = true -> fv u a = true /\ pid b = pid a).
      { intros a b Eab Fb. destruct (fv v a); subst b; [split; [apply Hst; exact Fb | reflexivity] | split; [exact Fb | reflexivity]]. }
      destruct (G _ _ E1 F1) as [G1 P1]. destruct (G _ _ E2 F2) as [G2 P2]. rewrite P1, P2.
      apply (Hu u a1 a2); [right; exact Hu' | assumption..].
Qed.

Lemma c19_existsb_and {A} (a : bool) (g : A -> bool) l : existsb (fun v => a && g v) l = a && existsb g l.
Proof. induction l as [|x t IH]; cbn [existsb]; [destruct a; reflexivity|]. rewrite IH. destruct a, (g x); reflexivity. Qed.

Lemma c19_existsb_map {A B} (f : B -> bool) (g : A -> B) l : existsb f (map g l) = existsb (fun x => f (g x)) l.
Proof. induction l as [|x t IH]; cbn [existsb map]; [reflexivity|]. rewrite IH. reflexivity. Qed.

Lemma c19_user_decline_In id w c : In c (prs (user_decline id w)) -> pst c = OPEN -> In c (prs w).
Proof.
  unfold user_decline. cbn [prs]. intros H Ho. apply in_map_iff in H. destruct H as [a [E Ha]].
  destruct (is_open a && Z.eqb (pid a) id); subst c; [cbn in Ho; discriminate Ho | exact Ha].
Qed.

(* decline p on the host, then evaluate p: the result is exactly the world the statement prescribes *)
Lemma c19_decline c x w p s d ts :
  c19_Inv w -> NoUserW w -> user_open_pr w p s -> pdst p = Dst d ->
  targets_for d (cascade x) = Some ts -> NoDup ts -> FirstClean s ts w -> oc x = ODeclined ->
  step c (user_decline (pid p) w) (EvalPR (pid p) x) = Ok (spec_after_decline s ts (user_decline (pid p) w)).
Proof.
  intros HI HW [Ip [Hu [Hopen Hs]]] Hd Ht ND HF Ho.
  pose proof HI as [[Hid Hbr] [Hds H11]].
  set (w1 := user_decline (pid p) w).
  assert (Hid1 : NoDup (map pid (prs w1))).
  { unfold w1, user_decline. cbn [prs]. rewrite map_map.
    replace (map (fun x0 => pid (if is_open x0 && Z.eqb (pid x0) (pid p) then set_st DECLINED x0 else x0)) (prs w))
      with (map pid (prs w)); [exact Hid|]. apply map_ext. intro a. destruct (is_open a && Z.eqb (pid a) (pid p)); reflexivity. }
  assert (Ip1 : In (set_st DECLINED p) (prs w1)).
  { unfold w1, user_decline. cbn [prs]. apply in_map_iff. exists p. split; [|exact Ip].
    rewrite (proj2 (c19_is_open_true p) Hopen), Z.eqb_refl. reflexivity. }
  cbn [step]. unfold eval_pr.
  pose proof (c19_resolve_user (List.length (prs w1)) _ (set_st DECLINED p) Hid1 Ip1 Hu) as R. cbn [pid set_st] in R.
  rewrite R. unfold eval_user. rewrite Ho. cbn [pst psrc pdst set_st]. rewrite Hs, Hd, Ht.
  f_equal. unfold handle_declined, spec_after_decline. f_equal.
  - (* pull requests *)
    rewrite (c19_fold_decline_map (fun v c0 => host_listed c0 && is_open c0 && child_match v s c0) ts (prs w1) Hid1).
    + apply map_ext_in. intros a Ha.
      replace (existsb (fun v => host_listed a && is_open a && child_match v s a) ts)
        with (is_integration_pr_b s (beyond_first ts) a); [reflexivity|].
      unfold is_integration_pr_b. change (host_listed a) with (is_open a). destruct (is_open a) eqn:Eo.
      2:{ rewrite andb_false_r. cbn [andb]. clear. induction ts; [reflexivity | cbn; assumption]. }
      apply c19_is_open_true in Eo. pose proof (c19_user_decline_In _ _ _ Ha Eo) as Ia.
      rewrite andb_true_r. cbn [andb]. unfold child_match.
      destruct ts as [|v1 rest]; [cbn; rewrite andb_false_r; reflexivity|]. cbn [beyond_first tl existsb].
      assert (H1 : name_eqb (psrc a) (W v1 s) && name_eqb (pdst a) (Dst v1) = false).
      { destruct (name_eqb (psrc a) (W v1 s) && name_eqb (pdst a) (Dst v1)) eqn:E; [|reflexivity].
        apply andb_true_iff in E. destruct E as [E1 E2]. apply c19_name_eqb_eq in E1. apply c19_name_eqb_eq in E2.
        exfalso. apply (proj2 HF a Ia Eo E1 E2). }
      rewrite H1. cbn [orb].
      destruct (existsb (fun v => name_eqb (psrc a) (W v s) && name_eqb (pdst a) (Dst v)) rest) eqn:Ex;
        [|rewrite andb_false_r; reflexivity].
      apply existsb_exists in Ex. destruct Ex as [v [_ Ev]]. apply andb_true_iff in Ev.
      destruct Ev as [E1 _]. apply c19_name_eqb_eq in E1. rewrite (HW a v s Ia Eo E1). reflexivity.
    + intros v a Ha. apply andb_true_iff in Ha. destruct Ha as [Ha _]. apply andb_true_iff in Ha. apply Ha.
    + intros v a Ha. apply andb_true_iff in Ha. destruct Ha as [Ha _]. apply andb_true_iff in Ha.
      destruct Ha as [_ Ha]. discriminate Ha.
    + intros v c1 c2 Hv I1 I2 F1 F2.
      assert (G : forall a, In a (prs w1) -> host_listed a && is_open a && child_match v s a = true ->
                            integration_pr w v s a).
      { intros a Ia Fa. apply andb_true_iff in Fa. destruct Fa as [Fa Fm]. apply andb_true_iff in Fa.
        destruct Fa as [_ Fo]. apply c19_is_open_true in Fo. unfold child_match in Fm. apply andb_true_iff in Fm.
        destruct Fm as [M1 M2]. apply c19_name_eqb_eq in M1. apply c19_name_eqb_eq in M2.
        pose proof (c19_user_decline_In _ _ _ Ia Fo) as Ia0.
        repeat split; try assumption. apply (HW a v s Ia0 Fo M1). }
      destruct (H11 p s (conj Ip (conj Hu (conj Hopen Hs))) v) as [_ [Huq _]]. apply Huq; apply G; assumption.
  - (* branches *)
    unfold remove_w. apply filter_ext_in. intros n Hn. f_equal.
    unfold mem_name, w_names, is_integration_name_b. rewrite c19_existsb_map.
    destruct ts as [|v1 rest]; [reflexivity|]. cbn [beyond_first tl existsb].
    replace (name_eqb n (W v1 s)) with false; [reflexivity|]. symmetry. apply c19_name_eqb_neq.
    intros ->. apply (proj1 HF). exact Hn.
Qed.

(* the declined ones are named after p: they are its integration pull requests *)
Lemma c19_decline_named w p s ts c0 :
  c19_Inv w -> user_open_pr w p s -> In c0 (prs w) -> is_integration_pr_b s ts c0 = true -> named_after p c0.
Proof.
  intros [_ [_ H11]] Hp Ic Hb. unfold is_integration_pr_b in Hb. apply andb_true_iff in Hb. destruct Hb as [Hb Hx].
  apply andb_true_iff in Hb. destruct Hb as [Hr Hopen]. apply existsb_exists in Hx. destruct Hx as [v [_ Hv]].
  apply andb_true_iff in Hv. destruct Hv as [E1 E2]. apply c19_name_eqb_eq in E1. apply c19_name_eqb_eq in E2.
  destruct (H11 p s Hp v) as [_ [_ Hn]]. apply Hn. repeat split; try assumption. apply c19_is_open_true, Hopen.
Qed.

(* ------------------------------------------------------------------------------------------ declined stays clean
   however often the event of a DECLINED pull request is delivered, and whatever the gates say, its evaluation
   creates no branch and no pull request: the only outcomes are "nothing", the reset command and the decline
   handling, which delete / decline only *)

Lemma c19_declined_never_creates c x w p w' :
  NoDup (map pid (prs w)) -> In p (prs w) -> probot p = false -> pst p = DECLINED ->
  step c w (EvalPR (pid p) x) = Ok w' ->
  (forall n, In n (branches w') -> In n (branches w)) /\ c19_demote (prs w) (prs w').
Proof.
  intros ND Ip Hu Hd E. cbn [step] in E. unfold eval_pr in E.
  rewrite (c19_resolve_user _ _ p ND Ip Hu) in E. unfold eval_user in E. rewrite Hd in E.
  destruct (oc x) eqn:Eo; try (injection E as <-; split; [auto | apply c19_demote_refl]);
    destruct (psrc p) as [s| | | |]; try discriminate E;
    destruct (pdst p) as [|?|d| |]; try discriminate E;
    destruct (targets_for d (cascade x)) as [ts|]; try discriminate E.
  - (* reset *) injection E as <-. split.
    + intros n Hn. cbn [reset branches] in Hn. apply filter_In in Hn. apply Hn.
    + cbn [reset prs]. apply c19_demote_map. intro c0. apply c19_dem_decline. intro Hc.
      apply andb_true_iff in Hc. destruct Hc as [Hc _]. apply andb_true_iff in Hc. apply c19_is_open_true, Hc.
  - (* decline handling *) injection E as <-. split.
    + intros n Hn. cbn [handle_declined branches] in Hn. apply c19_In_remove in Hn. apply Hn.
    + cbn [handle_declined prs].
      rewrite (c19_fold_left_map (fun v c0 => host_listed c0 && is_open c0 && child_match v s c0)
                                 (fun l f => decline_first f l)).
      apply c19_fold_demote. intros f c0 Hf Hc. apply in_map_iff in Hf. destruct Hf as [v [<- _]].
      apply andb_true_iff in Hc. destruct Hc as [Hc _]. apply andb_true_iff in Hc. apply c19_is_open_true, Hc.
Qed.

(* after the decline handling none of the w/ names of p is left, and a second delivery changes no branch *)
Lemma c19_declined_clean c x w p s d ts w' :
  NoDup (map pid (prs w)) -> In p (prs w) -> probot p = false -> pst p = DECLINED ->
  psrc p = Src s -> pdst p = Dst d -> targets_for d (cascade x) = Some ts -> oc x = ODeclined ->
  step c w (EvalPR (pid p) x) = Ok w' -> NoIntegrationBranchLeft s ts w'.
Proof.
  intros ND Ip Hu Hd Hs Hdst Ht Ho E. cbn [step] in E. unfold eval_pr in E.
  rewrite (c19_resolve_user _ _ p ND Ip Hu) in E. unfold eval_user in E. rewrite Ho, Hd, Hs, Hdst, Ht in E.
  injection E as <-. intros v Hv HI. cbn [handle_declined branches] in HI. apply c19_In_remove in HI.
  apply (proj2 HI). exists v. split; [exact Hv | reflexivity].
Qed.

(* ------------------------------------------------------------------------------------------ executable forms *)

Lemma c19_count_le_of_forallb bs n :
  forallb (fun m => Nat.leb (count_name m bs) 1) bs = true -> (count_name n bs <= 1)%nat.
Proof.
  intro H. destruct (mem_name n bs) eqn:E.
  - apply c19_mem_name_In in E. rewrite forallb_forall in H. apply Nat.leb_le, (H n E).
  - apply c19_mem_name_false in E. rewrite (c19_count_zero _ _ E). lia.
Qed.

Lemma c19_nodup_Zb_sound l : nodup_Zb l = true -> NoDup l.
Proof.
  induction l as [|z t IH]; intro H; [constructor|]. cbn [nodup_Zb] in H. apply andb_true_iff in H.
  destruct H as [H1 H2]. constructor; [|apply IH, H2]. intro I. apply negb_true_iff in H1.
  assert (existsb (Z.eqb z) t = true) by (apply existsb_exists; exists z; split; [exact I | apply Z.eqb_refl]).
  congruence.
Qed.

Lemma c19_well_formed_b_sound w : well_formed_b w = true -> WellFormed w.
Proof.
  unfold well_formed_b. intro H. apply andb_true_iff in H. destruct H as [H1 H2]. split.
  - apply c19_nodup_Zb_sound, H1.
  - intro n. apply c19_count_le_of_forallb, H2.
Qed.

Lemma c19_distinct_src_b_sound w : distinct_src_b w = true -> DistinctSrc w.
Proof.
  unfold distinct_src_b. intros H p1 p2 s I1 I2 O1 O2 S1 S2. rewrite forallb_forall in H.
  specialize (H p1 I1). rewrite forallb_forall in H. specialize (H p2 I2).
  rewrite (proj2 (c19_is_open_true p1) O1), (proj2 (c19_is_open_true p2) O2), S1, S2, String.eqb_refl in H.
  apply Z.eqb_eq, H.
Qed.

Lemma c19_distinct_src_b_complete w : DistinctSrc w -> distinct_src_b w = true.
Proof.
  intro H. unfold distinct_src_b. apply forallb_forall. intros p1 I1. apply forallb_forall. intros p2 I2.
  destruct (is_open p1 && is_open p2) eqn:E; [|reflexivity]. apply andb_true_iff in E. destruct E as [O1 O2].
  apply c19_is_open_true in O1. apply c19_is_open_true in O2.
  destruct (psrc p1) eqn:S1; try reflexivity. destruct (psrc p2) eqn:S2; try reflexivity.
  destruct (String.eqb s s0) eqn:Es; [|reflexivity]. apply String.eqb_eq in Es. subst s0.
  apply Z.eqb_eq. apply (H p1 p2 s); assumption.
Qed.

Lemma c19_shape_b_spec w s c0 : In c0 (prs w) ->
  (integration_shape_b s c0 = true <-> exists v, integration_pr w v s c0).
Proof.
  intro Ic. unfold integration_shape_b. split.
  - intro H. apply andb_true_iff in H. destruct H as [H Hm]. apply andb_true_iff in H. destruct H as [Hr Ho].
    destruct (psrc c0) eqn:Es; try discriminate Hm. destruct (pdst c0) eqn:Ed; try discriminate Hm.
    apply andb_true_iff in Hm. destruct Hm as [E1 E2]. apply String.eqb_eq in E1. apply String.eqb_eq in E2. subst.
    exists v0. repeat split; try assumption. apply c19_is_open_true, Ho.
  - intros [v [_ [Hr [Ho [Es Ed]]]]]. rewrite Hr, (proj2 (c19_is_open_true c0) Ho), Es, Ed, !String.eqb_refl. reflexivity.
Qed.

Lemma c19_named_after_b_spec p c0 : named_after_b p c0 = true <-> named_after p c0.
Proof.
  unfold named_after_b, named_after. destruct (pparent c0) as [a|], (ptitle c0) as [b|]; split; intro H;
    try discriminate H; try (destruct H; discriminate).
  - apply andb_true_iff in H. destruct H as [H1 H2]. apply Z.eqb_eq in H1. apply Z.eqb_eq in H2. subst. split; reflexivity.
  - destruct H as [H1 H2]. injection H1 as ->. injection H2 as ->. rewrite Z.eqb_refl. reflexivity.
Qed.

Lemma c19_one_to_one_b_sound w : one_to_one_b w = true -> OneToOne w.
Proof.
  unfold one_to_one_b. intros H p s [Ip [Hu [Ho Hs]]] v. rewrite forallb_forall in H. specialize (H p Ip).
  rewrite Hs in H. unfold is_user_open_b in H. rewrite Hu, (proj2 (c19_is_open_true p) Ho) in H. cbn [negb andb] in H.
  apply andb_true_iff in H. destruct H as [HA HB]. rewrite forallb_forall in HA, HB.
  assert (Hsh : forall c0, integration_pr w v s c0 -> integration_shape_b s c0 = true).
  { intros c0 C0. apply (c19_shape_b_spec w s c0); [apply C0 | exists v; exact C0]. }
  split; [|split].
  - destruct (mem_name (W v s) (branches w)) eqn:E.
    + apply c19_mem_name_In in E. specialize (HA _ E). cbn in HA. rewrite String.eqb_refl in HA. apply Nat.leb_le, HA.
    + apply c19_mem_name_false in E. rewrite (c19_count_zero _ _ E). lia.
  - intros c1 c2 C1 C2. pose proof (HB c1 (proj1 C1)) as H1. rewrite (Hsh c1 C1) in H1.
    apply andb_true_iff in H1. destruct H1 as [_ H1]. rewrite forallb_forall in H1. specialize (H1 c2 (proj1 C2)).
    rewrite (Hsh c2 C2) in H1. destruct C1 as [_ [_ [_ [S1 _]]]]. destruct C2 as [_ [_ [_ [S2 _]]]].
    rewrite S1, S2, c19_name_eqb_refl in H1. apply Z.eqb_eq, H1.
  - intros c0 C0. pose proof (HB c0 (proj1 C0)) as H1. rewrite (Hsh c0 C0) in H1.
    apply andb_true_iff in H1. apply c19_named_after_b_spec, H1.
Qed.

Lemma c19_one_to_one_b_complete w : OneToOne w -> one_to_one_b w = true.
Proof.
  intro H. unfold one_to_one_b. apply forallb_forall. intros p Ip.
  destruct (psrc p) as [s| | | |] eqn:Hs; try reflexivity.
  destruct (is_user_open_b p) eqn:Hu; [|reflexivity]. unfold is_user_open_b in Hu. apply andb_true_iff in Hu.
  destruct Hu as [Hu Ho]. apply negb_true_iff in Hu. apply c19_is_open_true in Ho.
  pose proof (H p s (conj Ip (conj Hu (conj Ho Hs)))) as Hp.
  apply andb_true_iff. split; apply forallb_forall.
  - intros n Hn. destruct n as [|v s'| | |]; try reflexivity. destruct (String.eqb s s') eqn:E; [|reflexivity].
    apply String.eqb_eq in E. subst s'. apply Nat.leb_le. apply (Hp v).
  - intros c1 I1. destruct (integration_shape_b s c1) eqn:E1; [|reflexivity].
    apply (c19_shape_b_spec w s c1 I1) in E1. destruct E1 as [v C1]. destruct (Hp v) as [_ [Huq Hn]].
    apply andb_true_iff. split; [apply c19_named_after_b_spec, Hn, C1|].
    apply forallb_forall. intros c2 I2.
    destruct (integration_shape_b s c2 && name_eqb (psrc c1) (psrc c2)) eqn:E2; [|reflexivity].
    apply andb_true_iff in E2. destruct E2 as [E2 En]. apply (c19_shape_b_spec w s c2 I2) in E2.
    destruct E2 as [v2 C2]. apply c19_name_eqb_eq in En.
    destruct C1 as [J1 [R1 [O1 [S1 D1]]]]. destruct C2 as [J2 [R2 [O2 [S2 D2]]]].
    rewrite S1, S2 in En. injection En as <-. apply Z.eqb_eq. apply Huq; repeat split; assumption.
Qed.

Lemma c19_no_user_w_b_sound w : no_user_w_b w = true -> NoUserW w.
Proof.
  unfold no_user_w_b. intros H c0 v s Ic Ho Hs. rewrite forallb_forall in H. specialize (H c0 Ic).
  rewrite Hs, (proj2 (c19_is_open_true c0) Ho) in H. exact H.
Qed.

Lemma c19_inv_b_sound w : well_formed_b w && distinct_src_b w && one_to_one_b w = true -> c19_Inv w.
Proof.
  intro H. apply andb_true_iff in H. destruct H as [H H3]. apply andb_true_iff in H. destruct H as [H1 H2].
  split; [apply c19_well_formed_b_sound, H1 | split; [apply c19_distinct_src_b_sound, H2 | apply c19_one_to_one_b_sound, H3]].
Qed.

(* ------------------------------------------------------------------------------------------ the full statements
   Without the hypothesis on source names the statement is false of the model (and of the code: the witnesses
   below are replayed on the real system by the harness, corpus/C19). *)

Open Scope string_scope.

Definition c19_inv_full : Prop :=
  forall c w e w', c19_ev_ok w e -> WellFormed w -> OneToOne w -> step c w e = Ok w' -> OneToOne w'.

Definition c19_cfg_on : cfg := mkCfg true true false.
Definition c19_casc : list (string * list string) :=
  [("4.3", ["4.3"; "5.1"; "10.0"]); ("5.1", ["5.1"; "10.0"]); ("10.0", ["10.0"])].
Definition c19_ctx (o : outcome) : ectx := mkCtx c19_casc false false false o.

(* two open pull requests from the same branch, to development/5.1 and development/4.3 *)
Definition c19_w_same_src : world :=
  mkWorld [mkPr 1 false (Src "bugfix/TEST-1") (Dst "5.1") OPEN None None;
           mkPr 2 false (Src "bugfix/TEST-1") (Dst "4.3") OPEN None None] [].

Lemma c19_casc_ok o : c19_cascade_ok (c19_ctx o).
Proof.
  intros d ts H. cbn in H.
  destruct H as [H|[H|[H|[]]]]; injection H as <- <-; repeat constructor; cbn; intuition discriminate.
Qed.

Lemma c19_inv_refuted : ~ c19_inv_full.
Proof.
  intro H.
  assert (H0 : OneToOne c19_w_same_src).
  { apply c19_one_to_one_b_sound. vm_compute. reflexivity. }
  assert (HW : WellFormed c19_w_same_src) by (apply c19_well_formed_b_sound; vm_compute; reflexivity).
  specialize (H c19_cfg_on c19_w_same_src (EvalPR 1 (c19_ctx OCreated)) _ (c19_casc_ok _) HW H0 eq_refl).
  apply c19_one_to_one_b_complete in H. vm_compute in H. discriminate H.
Qed.

(* "declines exactly ITS open integration pull requests": without the hypothesis, declining one pull request
   declines the integration pull requests named after another one *)
Definition c19_decline_own_full : Prop :=
  forall c x w p s d ts w', WellFormed w -> user_open_pr w p s -> pdst p = Dst d ->
    targets_for d (cascade x) = Some ts -> NoDup ts -> oc x = ODeclined ->
    step c (user_decline (pid p) w) (EvalPR (pid p) x) = Ok w' ->
    forall q q', In q (prs w) -> pst q = OPEN -> pid q <> pid p -> In q' (prs w') -> pid q' = pid q ->
                 pst q' = DECLINED -> pparent q = Some (pid p).

(* pull request 1 (-> 4.3) has been evaluated; pull request 4 (same branch -> 5.1) is then declined *)
Definition c19_w_decline : world :=
  mkWorld [mkPr 1 false (Src "bugfix/TEST-1") (Dst "4.3") OPEN None None;
           mkPr 2 true (W "5.1" "bugfix/TEST-1") (Dst "5.1") OPEN (Some 1%Z) (Some 1%Z);
           mkPr 3 true (W "10.0" "bugfix/TEST-1") (Dst "10.0") OPEN (Some 1%Z) (Some 1%Z);
           mkPr 4 false (Src "bugfix/TEST-1") (Dst "5.1") OPEN None None]
          [W "5.1" "bugfix/TEST-1"; W "10.0" "bugfix/TEST-1"].

Lemma c19_decline_own_refuted : ~ c19_decline_own_full.
Proof.
  intro H.
  assert (HW : WellFormed c19_w_decline) by (apply c19_well_formed_b_sound; vm_compute; reflexivity).
  set (p4 := mkPr 4 false (Src "bugfix/TEST-1") (Dst "5.1") OPEN None None).
  assert (Hp : user_open_pr c19_w_decline p4 "bugfix/TEST-1") by (repeat split; cbn; auto).
  assert (ND : NoDup ["5.1"; "10.0"]) by (repeat constructor; cbn; intuition discriminate).
  destruct (step c19_cfg_on (user_decline (pid p4) c19_w_decline) (EvalPR (pid p4) (c19_ctx ODeclined)))
    as [w'|] eqn:E; [|vm_compute in E; discriminate E].
  pose proof (H c19_cfg_on (c19_ctx ODeclined) c19_w_decline p4 "bugfix/TEST-1" "5.1" ["5.1"; "10.0"] w'
                HW Hp eq_refl eq_refl ND eq_refl E
                (mkPr 3 true (W "10.0" "bugfix/TEST-1") (Dst "10.0") OPEN (Some 1%Z) (Some 1%Z))
                (mkPr 3 true (W "10.0" "bugfix/TEST-1") (Dst "10.0") DECLINED (Some 1%Z) (Some 1%Z))) as G.
  vm_compute in E. injection E as <-.
  assert (F : Some 1%Z = Some 4%Z); [|discriminate F].
  apply G; cbn; auto; try discriminate.
Qed.

(* even with distinct sources among OPEN pull requests: an event on a pull request declined long ago (or on one
   of its old children) runs its decline handling again, on the integration data of the open pull request that
   now uses the same branch *)
Definition c19_decline_stale_full : Prop :=
  forall c x w p w', WellFormed w -> DistinctSrc w -> OneToOne w -> NoUserW w ->
    In p (prs w) -> probot p = false -> pst p = DECLINED -> oc x = ODeclined -> c19_cascade_ok x ->
    step c w (EvalPR (pid p) x) = Ok w' ->
    forall q q', In q (prs w) -> pst q = OPEN -> In q' (prs w') -> pid q' = pid q -> pst q' = DECLINED ->
                 pparent q = Some (pid p).

(* #1 declined and cleaned up (children #2 #3 declined), #4 re-opens the branch towards 5.1, child #5 *)
Definition c19_w_stale : world :=
  mkWorld [mkPr 1 false (Src "feature/TEST-1") (Dst "4.3") DECLINED None None;
           mkPr 2 true (W "5.1" "feature/TEST-1") (Dst "5.1") DECLINED (Some 1%Z) (Some 1%Z);
           mkPr 3 true (W "10.0" "feature/TEST-1") (Dst "10.0") DECLINED (Some 1%Z) (Some 1%Z);
           mkPr 4 false (Src "feature/TEST-1") (Dst "5.1") OPEN None None;
           mkPr 5 true (W "10.0" "feature/TEST-1") (Dst "10.0") OPEN (Some 4%Z) (Some 4%Z)]
          [W "10.0" "feature/TEST-1"; Src "feature/TEST-1"].

Lemma c19_decline_stale_refuted : ~ c19_decline_stale_full.
Proof.
  intro H.
  assert (HI : c19_Inv c19_w_stale) by (apply c19_inv_b_sound; vm_compute; reflexivity).
  destruct HI as [HW [HD HO]].
  assert (HN : NoUserW c19_w_stale) by (apply c19_no_user_w_b_sound; vm_compute; reflexivity).
  set (p1 := mkPr 1 false (Src "feature/TEST-1") (Dst "4.3") DECLINED None None).
  destruct (step c19_cfg_on c19_w_stale (EvalPR (pid p1) (c19_ctx ODeclined))) as [w'|] eqn:E;
    [|vm_compute in E; discriminate E].
  pose proof (H c19_cfg_on (c19_ctx ODeclined) c19_w_stale p1 w' HW HD HO HN (or_introl eq_refl) eq_refl eq_refl
                eq_refl (c19_casc_ok _) E
                (mkPr 5 true (W "10.0" "feature/TEST-1") (Dst "10.0") OPEN (Some 4%Z) (Some 4%Z))
                (mkPr 5 true (W "10.0" "feature/TEST-1") (Dst "10.0") DECLINED (Some 4%Z) (Some 4%Z))) as G.
  vm_compute in E. injection E as <-.
  assert (F : Some 4%Z = Some 1%Z); [|discriminate F].
  apply G; cbn; auto 10.
Qed.

(* ------------------------------------------------------------------------------------------ non-vacuity *)

(* a world with two pull requests on overlapping cascades, one of them evaluated, satisfies the hypotheses *)
Definition c19_w_ex : world :=
  mkWorld [mkPr 1 false (Src "bugfix/TEST-1") (Dst "4.3") OPEN None None;
           mkPr 2 true (W "5.1" "bugfix/TEST-1") (Dst "5.1") OPEN (Some 1%Z) (Some 1%Z);
           mkPr 3 true (W "10.0" "bugfix/TEST-1") (Dst "10.0") OPEN (Some 1%Z) (Some 1%Z);
           mkPr 4 false (Src "feature/TEST-2") (Dst "5.1") OPEN None None]
          [W "5.1" "bugfix/TEST-1"; W "10.0" "bugfix/TEST-1"; Src "bugfix/TEST-1"; Src "feature/TEST-2"].

Example c19_ex_inv : c19_Inv c19_w_ex /\ NoUserW c19_w_ex.
Proof. split; [apply c19_inv_b_sound | apply c19_no_user_w_b_sound]; vm_compute; reflexivity. Qed.

(* events in an arbitrary order with repetitions: evaluation of 4 (creates), of the child 2 twice, a commit
   event on a w/ tip, evaluation of 1 and 4 again; nothing is duplicated *)
Definition c19_es_ex : list event :=
  [EvalPR 4 (c19_ctx OCreated); EvalPR 2 (c19_ctx OCreated); EvalPR 2 (c19_ctx OCreated);
   EvalCommit [W "10.0" "feature/TEST-2"] (c19_ctx OCreated); EvalPR 1 (c19_ctx (OConflict 1));
   EvalPR 4 (c19_ctx OCreated); EvalPR 5 (c19_ctx OCreated)].

Example c19_ex_run :
  c19_run_ok c19_cfg_on c19_w_ex c19_es_ex /\
  exists w', run c19_cfg_on c19_w_ex c19_es_ex = Ok w' /\
             List.length (prs w') = 5%nat /\ List.length (branches w') = 5%nat.
Proof.
  split.
  - cbn [c19_run_ok c19_es_ex]. repeat (split; [apply c19_casc_ok|]). vm_compute. exact I.
  - eexists. split; [vm_compute; reflexivity | split; reflexivity].
Qed.

Example c19_ex_redirect :
  step c19_cfg_on c19_w_ex (EvalPR 3 (c19_ctx OCreated)) = step c19_cfg_on c19_w_ex (EvalPR 1 (c19_ctx OCreated))
  /\ step c19_cfg_on c19_w_ex (EvalCommit [W "5.1" "bugfix/TEST-1"; Src "bugfix/TEST-1"] (c19_ctx OMerged))
     = step c19_cfg_on c19_w_ex (EvalPR 1 (c19_ctx OMerged))
  /\ exists w', step c19_cfg_on c19_w_ex (EvalPR 1 (c19_ctx OMerged)) = Ok w' /\
                branches w' = [Src "bugfix/TEST-1"; Src "feature/TEST-2"].
Proof. split; [|split]; [vm_compute; reflexivity.. | eexists; split; vm_compute; reflexivity]. Qed.

Example c19_ex_decline :
  FirstClean "bugfix/TEST-1" ["4.3"; "5.1"; "10.0"] c19_w_ex /\
  exists w', step c19_cfg_on (user_decline 1 c19_w_ex) (EvalPR 1 (c19_ctx ODeclined)) = Ok w' /\
             map pst (prs w') = [DECLINED; DECLINED; DECLINED; OPEN] /\
             branches w' = [Src "bugfix/TEST-1"; Src "feature/TEST-2"].
Proof.
  split.
  - split; [cbn; intuition discriminate|]. intros c0 Hc Ho Hs. cbn in Hc.
    destruct Hc as [<-|[<-|[<-|[<-|[]]]]]; discriminate Hs.
  - eexists. split; [vm_compute; reflexivity | split; reflexivity].
Qed.

(* the integration branches of pull request 1 have disappeared (deleted by hand, or removed after a partial queue
   merge) while its integration pull requests 2 and 3 are still OPEN: the next evaluation - here through an event
   on child 3, then a commit event on the source tip - re-creates the branches and REUSES the two pull requests *)
Definition c19_w_gone : world :=
  mkWorld (prs c19_w_ex) [Src "bugfix/TEST-1"; Src "feature/TEST-2"].

Example c19_ex_recreate :
  c19_Inv c19_w_gone /\
  exists w', run c19_cfg_on c19_w_gone [EvalPR 3 (c19_ctx OCreated); EvalCommit [Src "bugfix/TEST-1"] (c19_ctx OCreated)]
             = Ok w' /\
             prs w' = prs c19_w_gone /\
             branches w' = [Src "bugfix/TEST-1"; Src "feature/TEST-2"; W "5.1" "bugfix/TEST-1"; W "10.0" "bugfix/TEST-1"].
Proof.
  split; [apply c19_inv_b_sound; vm_compute; reflexivity|].
  eexists. split; [vm_compute; reflexivity | split; reflexivity].
Qed.

(* the gate of check_integration_branches: with both settings off, no option and no author approval, an
   evaluation of a pull request with several targets cannot get to the creation point *)
Example c19_ex_gate :
  step (mkCfg false false false) c19_w_ex (EvalPR 4 (c19_ctx OCreated)) = Err GateClosed /\
  step (mkCfg false false false) c19_w_ex (EvalPR 4 (c19_ctx ORequestIntegration)) = Ok c19_w_ex /\
  step (mkCfg false true false) c19_w_ex (EvalPR 4 (c19_ctx ORequestIntegration)) = Err GateOpen /\
  (exists w', step (mkCfg false true false) c19_w_ex (EvalPR 4 (c19_ctx OCreated)) = Ok w' /\
              List.length (prs w') = 4%nat /\ List.length (branches w') = 5%nat) /\
  (exists w', step (mkCfg false false false) c19_w_ex (EvalPR 4 (mkCtx c19_casc true false false OCreated)) = Ok w' /\
              List.length (prs w') = 5%nat).
Proof.
  repeat split; try (vm_compute; reflexivity); eexists; (split; [vm_compute; reflexivity | repeat split; reflexivity]).
Qed.
