(* C01 at the level of a whole pull-request evaluation: for EVERY oracle (every combination of answers of the
   steps), every commit graph, every number of targets and every strategy mix, the clone an evaluation ends with
   keeps the forward-port inclusion - composing the skeleton (Pipeline) with the fragment theorems (Flow, Gate,
   Queues). *)
From Coq Require Import List Bool Arith Lia.
Require Import BertE.Model.Git BertE.Model.Flow BertE.Model.Gate BertE.Model.Pipeline BertE.Model.Job.
Require Import BertE.Proofs.GitProofs BertE.Proofs.FlowProofs BertE.Proofs.GateProofs BertE.Proofs.QueueProofs.
Require Import BertE.Proofs.PipelineProofs.
Import ListNotations.

Section Job.
  Variable later : name -> name -> Prop.

  Definition is_dest (n : name) : Prop := exists m, later n m \/ later m n.

  (* a step that leaves the destination branches alone (it may create, move, reset or delete anything else) *)
  Definition dest_stable (c c' : clone) : Prop :=
    wf_clone c' /\ extends (st c) (st c') /\ forall n, is_dest n -> lookup (refs c') n = lookup (refs c) n.

  Lemma dest_stable_refl c : wf_clone c -> dest_stable c c.
  Proof. intros W. split; [exact W|]. split; [apply extends_refl | reflexivity]. Qed.

  Lemma dest_stable_incl c c' : Incl later c -> dest_stable c c' -> Incl later c'.
  Proof.
    intros I (W' & E & U) a b x y L La Lb.
    rewrite (U a) in La by (exists b; left; exact L).
    rewrite (U b) in Lb by (exists a; right; exact L).
    exact (extends_Anc _ _ _ _ E (I a b x y L La Lb)).
  Qed.

  Lemma dest_stable_upward c c' ts : dest_stable c c' -> upward_closed later c ts -> upward_closed later c' ts.
  Proof.
    intros (_ & _ & U) Up a b Ha L Lb. apply (Up a b Ha L).
    rewrite <- (U b) by (exists a; right; exact L). exact Lb.
  Qed.

  (* merges whose destinations are not destination branches are dest-stable *)
  Lemma run_ops_dest_stable c ops c' :
    wf_clone c -> (forall n, In n (map op_dst ops) -> ~ is_dest n) -> run_ops c ops = Some c' -> dest_stable c c'.
  Proof.
    intros W Hn H. destruct (run_ops_grows _ _ _ W H) as [(W' & E & _ & _) U].
    split; [exact W'|]. split; [exact E|]. intros n Dn. apply U. intro Hin. exact (Hn n Hin Dn).
  Qed.

  (* the hypotheses on the names of one evaluation: integration and queue branches are not destination branches;
     the targets are distinct destination branches listed in forward-port order, closed upwards *)
  Record names_ok (d : jobdata) (c : clone) : Prop := {
    no_w_dest : forall w, In w (map fst (j_wds d)) -> ~ is_dest w;
    no_q_dest : forall n, In n (map tq (j_triples d)) \/ In n (map ti (j_triples d)) -> ~ is_dest n;
    aq_ok : aq_names_ok (j_triples d);
    targets_nodup : NoDup (map fst (j_pairs d));
    targets_apart : forall w, In w (map snd (j_pairs d)) -> ~ In w (map fst (j_pairs d));
    targets_closed : upward_closed later c (map fst (j_pairs d));
    targets_ordered : in_order later (map fst (j_pairs d)) }.

  Variable d : jobdata.
  Variable other : stage -> clone -> option clone.
  (* the steps that are not modelled leave the destination branches alone *)
  Hypothesis other_stable : forall s c c', wf_clone c -> other s c = Some c' -> dest_stable c c'.

  Lemma update_dest_stable c c' :
    wf_clone c -> (forall w, In w (map fst (j_wds d)) -> ~ is_dest w) ->
    update_integration (j_sg_update d) c (j_src d) (j_wds d) = Some c' -> dest_stable c c'.
  Proof.
    intros W Hw H. unfold update_integration in H.
    refine (run_ops_dest_stable c _ c' W _ H).
    intros n Hn. apply Hw. exact (update_ops_dsts _ _ _ _ Hn).
  Qed.

  Lemma add_to_queue_dest_stable c c' :
    wf_clone c -> aq_names_ok (j_triples d) ->
    (forall n, In n (map tq (j_triples d)) \/ In n (map ti (j_triples d)) -> ~ is_dest n) ->
    add_to_queue (j_sg_queue d) c (j_triples d) = Some c' -> dest_stable c c'.
  Proof.
    intros W Ok Hq H. destruct (add_to_queue_spec _ _ _ _ W Ok H) as ((W' & E & _ & _) & U & _).
    split; [exact W'|]. split; [exact E|]. intros n Dn. apply U; intro Hin; apply (Hq n); tauto.
  Qed.

  (* one step keeps the inclusion, and keeps the name hypotheses usable for the later steps *)
  Lemma stage_keeps_incl s c c' :
    wf_clone c -> Incl later c -> names_ok d c -> stage_effect d other s c = Some c' ->
    wf_clone c' /\ Incl later c' /\ names_ok d c'.
  Proof.
    intros W I N H.
    assert (Stable : dest_stable c c' -> wf_clone c' /\ Incl later c' /\ names_ok d c').
    { intros S. split; [exact (proj1 S)|]. split; [exact (dest_stable_incl _ _ I S)|].
      destruct N. constructor; try assumption. exact (dest_stable_upward _ _ _ S targets_closed0). }
    destruct s; cbn [stage_effect] in H; try (apply Stable; exact (other_stable _ _ _ W H)).
    - (* update_integration_branches *) apply Stable. exact (update_dest_stable _ _ W (no_w_dest _ _ N) H).
    - (* add_to_queue *) apply Stable. exact (add_to_queue_dest_stable _ _ W (aq_ok _ _ N) (no_q_dest _ _ N) H).
    - (* merge_integration_branches *)
      destruct (merge_integration_incl later _ _ _ _ W I (targets_nodup _ _ N) (targets_apart _ _ N)
                  (targets_closed _ _ N) (targets_ordered _ _ N) H) as (I' & G & U).
      split; [exact (proj1 G)|]. split; [exact I'|].
      destruct N. constructor; try assumption.
      (* the targets still exist afterwards (refs only grow) *)
      intros a b Ha L Lb. apply (targets_closed0 a b Ha L).
      destruct G as (_ & _ & _ & Nn). intro Hnone. apply Lb. exact (Nn b Hnone).
  Qed.

  (* C01 for one evaluation, whatever its steps answer *)
  Theorem job_keeps_inclusion : forall tr c c',
    wf_clone c -> Incl later c -> names_ok d c -> job_clone d other tr c = Some c' ->
    wf_clone c' /\ Incl later c'.
  Proof.
    induction tr as [|[s a] t IH]; intros c c' W I N H; cbn [job_clone] in H.
    - injection H as <-. split; assumption.
    - destruct a; try (destruct (stage_effect d other s c) as [c1|] eqn:E; [|discriminate H];
                       destruct (stage_keeps_incl _ _ _ W I N E) as (W1 & I1 & N1); exact (IH _ _ W1 I1 N1 H)).
      injection H as <-. split; assumption.
  Qed.

  (* ... in particular for every run of the real handler's skeleton *)
  Corollary pr_evaluation_keeps_inclusion : forall cfg o pos tr r c c',
    exec o pos (pr_inner cfg) = (tr, r) ->
    wf_clone c -> Incl later c -> names_ok d c -> job_clone d other tr c = Some c' ->
    wf_clone c' /\ Incl later c'.
  Proof. intros cfg o pos tr r c c' _. apply job_keeps_inclusion. Qed.
End Job.

(* ---- non-vacuity: a two-target evaluation (update, then the direct merge) on a concrete graph --------------- *)
Definition ex_later (a b : name) : Prop := a = 0 /\ b = 1.
(* names: 0 = development/4.3, 1 = development/5.1, 2 = the source branch, 3 = w/5.1/<source> *)
Definition ex_store : store := [mkCommit [] false; mkCommit [0] false; mkCommit [1] false; mkCommit [1] false].
Definition ex_clone : clone := mkClone ex_store [(0, 1); (1, 2); (2, 3); (3, 2)].
Definition ex_job : jobdata := mkJob 2 [(3, 1)] [(0, 2); (1, 3)] [] [Octopus] [Octopus] [].
Definition ex_trace : list (stage * ans) := [(SInSync, AB false); (SUpdate, AOk); (SPushW, AOk); (SMergeIntegration, AOk)].

Example ex_job_runs : exists c', job_clone ex_job (fun _ c => Some c) ex_trace ex_clone = Some c'.
Proof. vm_compute. eexists. reflexivity. Qed.

Lemma ex_wf : wf_clone ex_clone.
Proof.
  split.
  - unfold wf_store, ex_store. intros i c H p Hp.
    destruct i as [|[|[|[|i]]]]; cbn in H; try (destruct i; discriminate);
      injection H as <-; cbn in Hp; intuition lia.
  - intros n x L. cbn in L.
    repeat match type of L with (if ?b then _ else _) = _ => destruct b; [injection L as <-; cbn; lia|] end.
    discriminate L.
Qed.

Example ex_premises : Incl ex_later ex_clone /\ names_ok ex_later ex_job ex_clone.
Proof.
  split.
  - intros a b x y (-> & ->) La Lb. cbn in La, Lb. injection La as <-. injection Lb as <-.
    apply (proj1 (anc_spec ex_store (proj1 ex_wf) 1 2)). vm_compute. reflexivity.
  - constructor.
    + intros w [<-|[]] (m & [(E & _)|(_ & E)]); discriminate.
    + intros n [[]|[]].
    + split; [constructor|]. split; [constructor|]. split; intros ? [].
    + cbn. repeat constructor; cbn; intuition discriminate.
    + cbn. intros w [<-|[<-|[]]]; intuition discriminate.
    + intros a b Ha (-> & ->) _. cbn. tauto.
    + intros a b (-> & ->) _ _. exists [], [], []. reflexivity.
Qed.
