(* Proofs for C14: the model of the HTTP entry points (Model/Http.v), instantiated with the route tables
   generated from the live Flask app (Generated/Facts_C14.v), meets the specification (Spec/C14Spec.v). *)
From Coq Require Import List String Ascii Bool Arith ZArith NArith Lia.
Require Import BertE.Base.Str BertE.Model.Http BertE.Generated.Facts_C14 BertE.Spec.C14Spec.
Import ListNotations.
Open Scope string_scope.

(* ================================================================== 1. regular expressions = grammar *)

Lemma c14_at_end_iff r : at_end r = true <-> r = "".
Proof. unfold at_end. apply is_empty_true. Qed.

Lemma c14_scan_num_some s r :
  scan_num s = Some r -> exists d, s = d ++ r /\ is_num d = true /\ stops is_digit r = true.
Proof.
  unfold scan_num. destruct (span is_digit s) as [d r0] eqn:E.
  apply span_spec in E as (-> & Hd & Hr).
  destruct (is_empty d) eqn:Hd0; intro H; [discriminate H|]. injection H as <-.
  exists d. repeat split; try assumption. unfold is_num. rewrite Hd0, Hd. reflexivity.
Qed.

Lemma c14_scan_num_app d r :
  is_num d = true -> stops is_digit r = true -> scan_num (d ++ r) = Some r.
Proof.
  intros Hd Hr. unfold scan_num. rewrite (span_app is_digit d r (is_num_digits d Hd) Hr).
  unfold is_num in Hd. apply andb_true_iff in Hd as [Hne _]. apply negb_true_iff in Hne. rewrite Hne. reflexivity.
Qed.

Definition c14_dot : ascii := ".".

Lemma c14_digit_not_dot c : is_digit c = true -> (c =? c14_dot)%char = false.
Proof.
  intro H. destruct (Ascii.eqb_spec c c14_dot) as [->|]; [discriminate H | reflexivity].
Qed.

Lemma c14_num_no_dot d : is_num d = true -> has_char c14_dot d = false.
Proof. intro H. apply (is_num_no_char c14_dot d H). reflexivity. Qed.

Lemma c14_stops_dot r : stops is_digit (String c14_dot r) = true.
Proof. reflexivity. Qed.

(* what [dotted n] says, on lists of parts *)
Lemma c14_dotted_parts n b :
  dotted n b = true <->
  exists parts, parts <> [] /\ List.length parts = n /\ forallb is_num parts = true /\ b = join c14_dot parts.
Proof.
  unfold dotted. split.
  - intro H. apply andb_true_iff in H as [Hl Hp]. apply Nat.eqb_eq in Hl.
    exists (split_char "." b). repeat split; try assumption.
    + apply split_char_nonempty.
    + symmetry. apply join_split.
  - intros (parts & Hne & Hl & Hp & ->).
    assert (E : split_char "." (join c14_dot parts) = parts).
    { apply split_join; [exact Hne|]. rewrite forallb_forall in Hp. apply Forall_forall.
      intros x Hx. apply c14_num_no_dot. apply Hp; exact Hx. }
    rewrite E, Hl, Nat.eqb_refl, Hp. reflexivity.
Qed.

Lemma c14_scan_dotted_sound n : forall s r,
  scan_dotted n s = Some r ->
  exists parts, parts <> [] /\ List.length parts = n /\ forallb is_num parts = true /\
                s = join c14_dot parts ++ r /\ stops is_digit r = true.
Proof.
  induction n as [|k IH]; intros s r H; [discriminate H|].
  cbn [scan_dotted] in H. destruct (scan_num s) as [r1|] eqn:E1; [|discriminate H].
  apply c14_scan_num_some in E1 as (d & -> & Hd & Hr1).
  destruct k as [|k'].
  - injection H as <-. exists [d]. cbn. rewrite Hd. repeat split; try reflexivity; try assumption. discriminate.
  - destruct (expect_char "." r1) as [r2|] eqn:E2; [|discriminate H].
    unfold expect_char in E2. destruct r1 as [|c t]; [discriminate E2|].
    destruct (Ascii.eqb_spec c ".") as [->|]; [|discriminate E2]. injection E2 as <-.
    destruct (IH _ _ H) as (parts & Hne & Hl & Hp & -> & Hr).
    exists (d :: parts). repeat split.
    + discriminate.
    + cbn. rewrite Hl. reflexivity.
    + cbn. rewrite Hd, Hp. reflexivity.
    + rewrite join_cons by exact Hne. rewrite !sapp_assoc. reflexivity.
    + exact Hr.
Qed.

Lemma c14_scan_dotted_complete parts : forall r,
  parts <> [] -> forallb is_num parts = true -> stops is_digit r = true ->
  scan_dotted (List.length parts) (join c14_dot parts ++ r) = Some r.
Proof.
  induction parts as [|d rest IH]; intros r Hne Hp Hr; [contradiction|].
  cbn [forallb] in Hp. apply andb_true_iff in Hp as [Hd Hrest].
  destruct rest as [|d2 rest'].
  - cbn. rewrite (c14_scan_num_app d r Hd Hr). reflexivity.
  - rewrite join_cons by discriminate. rewrite sapp_assoc.
    change (List.length (d :: d2 :: rest')) with (S (S (List.length rest'))).
    cbn [scan_dotted]. rewrite sapp_cons.
    rewrite (c14_scan_num_app d _ Hd (c14_stops_dot _)).
    cbn [expect_char]. change (("."%char =? "."%char)%char) with true. cbv iota.
    apply (IH r); [discriminate | exact Hrest | exact Hr].
Qed.

Lemma c14_named_iff prefix n s :
  named prefix n s = true <-> exists b, s = prefix ++ b /\ dotted n b = true.
Proof.
  unfold named. split.
  - destruct (strip_prefix prefix s) as [r|] eqn:E; [|discriminate].
    intro H. exists r. split; [apply strip_prefix_some; exact E | exact H].
  - intros (b & -> & H). rewrite strip_prefix_app. exact H.
Qed.

(* "^prefix N(.N)*\Z" with re.match = the grammar *)
Lemma c14_re_alt_spec prefix n s : re_alt prefix n s = named prefix n s.
Proof.
  apply eq_true_iff_eq. split.
  - unfold re_alt. destruct (strip_prefix prefix s) as [r0|] eqn:E0; [|discriminate].
    apply strip_prefix_some in E0. subst s.
    destruct (scan_dotted n r0) as [r'|] eqn:E1; [|discriminate].
    apply c14_scan_dotted_sound in E1 as (parts & Hne & Hl & Hp & -> & _).
    intro He. apply c14_at_end_iff in He. subst r'. rewrite sapp_nil_r.
    apply c14_named_iff. exists (join c14_dot parts). split; [reflexivity|].
    apply c14_dotted_parts. exists parts. repeat split; assumption.
  - intro H. apply c14_named_iff in H as (b & -> & Hd).
    apply c14_dotted_parts in Hd as (parts & Hne & Hl & Hp & ->).
    unfold re_alt. rewrite strip_prefix_app. rewrite <- (sapp_nil_r (join c14_dot parts)), <- Hl.
    rewrite (c14_scan_dotted_complete parts "" Hne Hp eq_refl). reflexivity.
Qed.

Lemma c14_hex_digit_eq c : is_hex c = hex_digit c.
Proof.
  destruct c as [b0 b1 b2 b3 b4 b5 b6 b7].
  destruct b0, b1, b2, b3, b4, b5, b6, b7; reflexivity.
Qed.

Lemma c14_str_forall_ext (p q : ascii -> bool) s : (forall c, p c = q c) -> str_forall p s = str_forall q s.
Proof. intro E. induction s as [|c t IH]; cbn; [reflexivity | rewrite E, IH; reflexivity]. Qed.

Lemma c14_re_hex_spec s : re_hex s = str_forall hex_digit s.
Proof.
  rewrite <- (c14_str_forall_ext is_hex hex_digit _ c14_hex_digit_eq).
  apply eq_true_iff_eq. unfold re_hex. destruct (span is_hex s) as [h r] eqn:E. split.
  - apply span_spec in E as (-> & Hh & _). intro He. apply c14_at_end_iff in He. subst r.
    rewrite sapp_nil_r. exact Hh.
  - intro H. rewrite <- (sapp_nil_r s) in E. rewrite (span_app is_hex _ "" H eq_refl) in E.
    injection E as _ <-. reflexivity.
Qed.

Theorem c14_re_branch_spec s : re_branch s = branch_wf s.
Proof. unfold re_branch, branch_wf. rewrite !c14_re_alt_spec. reflexivity. Qed.

Theorem c14_re_branch_from_spec s : re_branch_from s = branch_from_wf s.
Proof. unfold re_branch_from, branch_from_wf. rewrite c14_re_hex_spec, c14_re_alt_spec. reflexivity. Qed.

(* ================================================================== 2. what is checked on the generated tables *)

Definition c14_conv_kind_eqb (a b : conv) : bool :=
  match a, b with CPath, CPath | CInt, CInt | CString, CString => true | _, _ => false end.

Definition c14_conv_eqb (a b : option (string * conv)) : bool :=
  match a, b with
  | None, None => true
  | Some (n, c), Some (n', c') => (n =? n')%string && c14_conv_kind_eqb c c'
  | _, _ => false
  end.

Lemma c14_conv_eqb_eq a b : c14_conv_eqb a b = true -> a = b.
Proof.
  destruct a as [[n c]|], b as [[n' c']|]; cbn; intro H; try discriminate H; [|reflexivity].
  apply andb_true_iff in H as [Hn Hc]. apply String.eqb_eq in Hn. subst n'.
  destruct c, c'; try discriminate Hc; reflexivity.
Qed.

(* the validator and the URL argument a job kind needs, by the SPECIFICATION's reading of the kinds *)
Definition c14_validator_fits (k : string) (v : validator) (c : option (string * conv)) : bool :=
  if (k =? "CreateBranchJob")%string then
    match v, c with ValCreateBranch, Some (n, CPath) => (n =? "branch")%string | _, _ => false end
  else if (k =? "DeleteBranchJob")%string then
    match v, c with ValDeleteBranch, Some (n, CPath) => (n =? "branch")%string | _, _ => false end
  else if (k =? "EvalPullRequestJob")%string then
    match v, c with ValEvalPullRequest, Some (n, CInt) => (n =? "pr_id")%string | _, _ => false end
  else match c with None => true | Some _ => false end.

(* one API rule: registered behind requires_auth, with the admin flag of its class; a view that creates a
   repository-changing job demands admin; its validator and URL argument are the ones its job kind needs *)
Definition c14_api_entry_ok (e : api_entry) : bool :=
  match ae_wrap e with
  | WSession a =>
      Bool.eqb a (ae_cls_admin e) &&
      match ae_view e with
      | VJob k => implb (repo_changing k) a && c14_validator_fits k (ae_validator e) (ae_conv e)
      | VRead _ => true
      end
  | _ => false
  end.

Definition c14_convs_consistent (tbl : list api_entry) : bool :=
  forallb (fun e => forallb (fun e' => negb (ae_rule e =? ae_rule e')%string
                                        || c14_conv_eqb (ae_conv e) (ae_conv e')) tbl) tbl.

Definition c14_api_table_ok (tbl : list api_entry) : bool :=
  forallb c14_api_entry_ok tbl && c14_convs_consistent tbl.

Definition c14_endpoint_of (atbl : list api_entry) (f : form_entry) : option api_entry :=
  find (fun e => (ae_name e =? fe_endpoint f)%string) atbl.

(* one management form: behind requires_auth, demanding admin whenever the endpoint it drives creates a
   repository-changing job *)
Definition c14_form_entry_ok (atbl : list api_entry) (f : form_entry) : bool :=
  match fe_wrap f with
  | WSession a =>
      Bool.eqb a (fe_cls_admin f) &&
      match c14_endpoint_of atbl f with
      | Some ep => match ae_view ep with VJob k => implb (repo_changing k) a | VRead _ => true end
      | None => false
      end
  | _ => false
  end.

Definition c14_hook_entry_ok (h : hook_entry) : bool :=
  match he_wrap h with WBasic => true | _ => false end.

Definition c14_hooks_ok (htbl : list hook_entry) : bool :=
  forallb c14_hook_entry_ok htbl &&
  match hook_entry_for htbl "parse_bitbucket_webhook", hook_entry_for htbl "parse_github_webhook" with
  | Some _, Some _ => true
  | _, _ => false
  end.

(* every other registered route: its view never names put_job *)
Definition c14_others_ok (otbl : list other_entry) : bool :=
  forallb (fun o => negb (oe_mentions_put_job o)) otbl.

Definition c14_tables_ok : bool :=
  c14_api_table_ok api_table && forallb (c14_form_entry_ok api_table) form_table &&
  c14_hooks_ok webhook_table && c14_others_ok other_routes && csrf_enabled.

Lemma c14_tables_checked : c14_tables_ok = true.
Proof. vm_compute. reflexivity. Qed.

Lemma c14_api_table_checked : c14_api_table_ok api_table = true.
Proof. vm_compute. reflexivity. Qed.

Lemma c14_form_table_checked : forallb (c14_form_entry_ok api_table) form_table = true.
Proof. vm_compute. reflexivity. Qed.

Lemma c14_hooks_checked : c14_hooks_ok webhook_table = true.
Proof. vm_compute. reflexivity. Qed.

(* the table statement in words *)
Theorem c14_table_statement :
  (forall e, In e api_table ->
     exists a, ae_wrap e = WSession a /\ a = ae_cls_admin e /\
               forall k, ae_view e = VJob k -> repo_changing k = true -> a = true) /\
  (forall f, In f form_table ->
     exists a ep, fe_wrap f = WSession a /\ c14_endpoint_of api_table f = Some ep /\
                  forall k, ae_view ep = VJob k -> repo_changing k = true -> a = true) /\
  (forall h, In h webhook_table -> he_wrap h = WBasic) /\
  (forall o, In o other_routes -> oe_mentions_put_job o = false) /\
  csrf_enabled = true.
Proof.
  pose proof c14_tables_checked as T. unfold c14_tables_ok in T.
  apply andb_true_iff in T as [T Tcsrf]. apply andb_true_iff in T as [T To].
  apply andb_true_iff in T as [T Th]. apply andb_true_iff in T as [T Tf].
  unfold c14_api_table_ok in T. apply andb_true_iff in T as [Ta _].
  split; [|split; [|split; [|split]]].
  - intros e He. rewrite forallb_forall in Ta. specialize (Ta e He). unfold c14_api_entry_ok in Ta.
    destruct (ae_wrap e) as [|a|]; try discriminate Ta. apply andb_true_iff in Ta as [Ea Tv].
    exists a. split; [reflexivity|]. split; [apply eqb_prop; exact Ea|].
    intros k Hk Hr. rewrite Hk in Tv. apply andb_true_iff in Tv as [Ti _]. rewrite Hr in Ti.
    destruct a; [reflexivity | discriminate Ti].
  - intros f Hf. rewrite forallb_forall in Tf. specialize (Tf f Hf). unfold c14_form_entry_ok in Tf.
    destruct (fe_wrap f) as [|a|]; try discriminate Tf. apply andb_true_iff in Tf as [_ Tv].
    destruct (c14_endpoint_of api_table f) as [ep|]; [|discriminate Tv].
    exists a, ep. split; [reflexivity|]. split; [reflexivity|].
    intros k Hk Hr. rewrite Hk, Hr in Tv. destruct a; [reflexivity | discriminate Tv].
  - intros h Hh. unfold c14_hooks_ok in Th. apply andb_true_iff in Th as [Th _].
    rewrite forallb_forall in Th. specialize (Th h Hh). unfold c14_hook_entry_ok in Th.
    destruct (he_wrap h); try discriminate Th; reflexivity.
  - intros o Ho. unfold c14_others_ok in To. rewrite forallb_forall in To. specialize (To o Ho).
    apply negb_true_iff in To. exact To.
  - exact Tcsrf.
Qed.

(* ================================================================== 3. API endpoints: every request *)

Lemma c14_lookup_app k (a b : params) :
  lookup k (a ++ b)%list = match lookup k a with Some v => Some v | None => lookup k b end.
Proof.
  induction a as [|[k' v'] t IH]; cbn [lookup app]; [reflexivity|].
  destruct (k' =? k)%string; [reflexivity | exact IH].
Qed.

Lemma c14_has_key_false k (p : params) : has_key k p = false <-> lookup k p = None.
Proof. unfold has_key. destruct (lookup k p); split; intro H; try reflexivity; discriminate H. Qed.

Lemma c14_lookup_filter k kw (d : params) :
  has_key k kw = false ->
  lookup k (filter (fun kv => negb (has_key (fst kv) kw)) d) = lookup k d.
Proof.
  intro Hk. induction d as [|[k' v'] t IH]; [reflexivity|].
  cbn [filter fst]. destruct (has_key k' kw) eqn:Hk'; cbn [negb lookup].
  - destruct (String.eqb_spec k' k) as [->|Hn]; [rewrite Hk in Hk'; discriminate Hk' | exact IH].
  - destruct (k' =? k)%string; [reflexivity | exact IH].
Qed.

Lemma c14_lookup_merge k kw d :
  lookup k (merge_settings kw d) = match lookup k kw with Some v => Some v | None => lookup k d end.
Proof.
  unfold merge_settings. rewrite c14_lookup_app. destruct (lookup k kw) eqn:E; [reflexivity|].
  apply c14_lookup_filter. apply c14_has_key_false. exact E.
Qed.

Lemma c14_pval_eqb_refl v : pval_eqb v v = true.
Proof. destruct v; cbn; [apply String.eqb_refl | apply Z.eqb_refl | apply String.eqb_refl]. Qed.

Lemma c14_opt_pval_eqb_refl o : opt_pval_eqb o o = true.
Proof. destruct o; [apply c14_pval_eqb_refl | reflexivity]. Qed.

Lemma c14_settings_agree_merge kw d : settings_agree kw d (merge_settings kw d) = true.
Proof.
  unfold settings_agree. apply forallb_forall. intros k _. rewrite c14_lookup_merge.
  apply c14_opt_pval_eqb_refl.
Qed.

Lemma c14_route_match c s v : route c s = RMatch v -> v = s /\ conv_ok c s = true.
Proof.
  unfold route. destruct (conv_ok c s) eqn:E.
  - intro H. injection H as <-. split; reflexivity.
  - destruct (conv_ok c (tail_str (merge2 (String "/" s)))); discriminate.
Qed.

Lemma c14_route_param_match c p v :
  route_param c p = RMatch v ->
  (c = None /\ p = None /\ v = "") \/
  (exists n cv, c = Some (n, cv) /\ p = Some v /\ conv_ok cv v = true).
Proof.
  unfold route_param. destruct c as [[n cv]|], p as [s|]; intro H; try discriminate H.
  - right. apply c14_route_match in H as [-> Hc]. exists n, cv. repeat split. exact Hc.
  - left. injection H as <-. repeat split.
Qed.

Lemma c14_with_wrap_inv w s k j :
  o_job (with_wrap w s k) = Some j ->
  (exists a u, w = WSession a /\ s_user s = Some u /\ is_empty u = false /\
               (a = true -> truthy_admin s = true) /\ o_job (k (Some u)) = Some j)
  \/ (w = WNone /\ o_job (k (s_user s)) = Some j).
Proof.
  destruct w as [|a|]; cbn [with_wrap]; intro H.
  - right. split; [reflexivity | exact H].
  - left. unfold requires_auth in H. destruct (s_user s) as [u|]; [|discriminate H].
    destruct (is_empty u) eqn:Hu; [discriminate H|].
    destruct (a && negb (truthy_admin s)) eqn:Ha; [discriminate H|].
    exists a, u. repeat split; try assumption. intros ->. cbn in Ha. apply negb_false_iff in Ha. exact Ha.
  - discriminate H.
Qed.

Lemma c14_api_view_inv cfg e v b user j :
  o_job (api_view cfg e v b user) = Some j ->
  exists cls u, ae_view e = VJob cls /\ user = Some u /\
    validate (ae_validator e) (kwargs_of e v) b = VOk /\ j_kind j = cls /\ j_user j = u /\
    ((exists d, b = BodyDict d /\ j_settings j = SDict (merge_settings (kwargs_of e v) d) /\
                o_status (api_view cfg e v b user) = 202%Z) \/
     (exists raw, b = BodyNonDict raw /\ kwargs_of e v = [] /\ j_settings j = SNonDict raw)).
Proof.
  unfold api_view. destruct (ae_view e) as [cls|name].
  2:{ destruct (name =? "GetJob")%string; [destruct (mem_str v (c_known_jobs cfg))|]; discriminate. }
  destruct b as [|d|raw]; [discriminate| |];
    (destruct user as [u|]; [|discriminate]);
    (destruct (validate (ae_validator e) (kwargs_of e v) _) eqn:V; try discriminate).
  - cbn. intro H. injection H as <-. exists cls, u. repeat split. left. exists d. repeat split.
  - destruct (kwargs_of e v) eqn:K; [|discriminate]. cbn. intro H. injection H as <-.
    exists cls, u. repeat split. right. exists raw. repeat split.
Qed.

Lemma c14_handle_api_inv tbl cfg rq j :
  o_job (handle_api tbl cfg rq) = Some j ->
  exists e0 e v, In e0 tbl /\ In e tbl /\ ae_rule e0 = rq_rule rq /\ ae_rule e = rq_rule rq /\
    route_param (ae_conv e0) (rq_param rq) = RMatch v /\
    handle_api tbl cfg rq = with_wrap (ae_wrap e) (rq_session rq) (api_view cfg e v (rq_body rq)).
Proof.
  unfold handle_api.
  destruct (filter (fun e => (ae_rule e =? rq_rule rq)%string) tbl) as [|e0 rest] eqn:Ees; [discriminate|].
  assert (Hin : forall x, In x (e0 :: rest) -> In x tbl /\ ae_rule x = rq_rule rq).
  { intros x Hx. rewrite <- Ees in Hx. apply filter_In in Hx as [Hx Hr]. apply String.eqb_eq in Hr. tauto. }
  destruct (route_param (ae_conv e0) (rq_param rq)) as [v|m|] eqn:R; [| |discriminate];
    (destruct (find (fun e => mem_str (rq_method rq) (ae_methods e)) (e0 :: rest)) as [e|] eqn:F; [|discriminate]).
  2:{ discriminate. }
  destruct ((rq_method rq =? "OPTIONS")%string && ae_auto_options e); [discriminate|].
  intro H. apply find_some in F as [Fin _].
  exists e0, e, v. destruct (Hin e0 (or_introl eq_refl)) as [H0 R0]. destruct (Hin e Fin) as [H1 R1].
  repeat split; assumption.
Qed.

Lemma c14_same_conv tbl e0 e :
  c14_convs_consistent tbl = true -> In e0 tbl -> In e tbl -> ae_rule e0 = ae_rule e -> ae_conv e0 = ae_conv e.
Proof.
  unfold c14_convs_consistent. intros H H0 H1 Hr. rewrite forallb_forall in H. specialize (H e0 H0).
  rewrite forallb_forall in H. specialize (H e H1). rewrite Hr, String.eqb_refl in H. cbn in H.
  apply c14_conv_eqb_eq. exact H.
Qed.

Definition c14_user_of (s : session) : string := session_user s.

(* the guarantee for one job *)
Definition c14_job_ok (rq : request) (j : job) : Prop :=
  logged_in (rq_session rq) = true /\
  (repo_changing (j_kind j) = true -> is_admin (rq_session rq) = true) /\
  valid_params (j_kind j) (j_settings j) = true /\
  carries_exactly (rq_param rq) (rq_body rq) (session_user (rq_session rq)) j = true.

Lemma c14_mem2_neq cls a b : cls <> a -> cls <> b -> mem_str cls [a; b] = false.
Proof.
  intros Ha Hb. unfold mem_str. cbn [existsb].
  rewrite (proj2 (String.eqb_neq _ _) Ha), (proj2 (String.eqb_neq _ _) Hb). reflexivity.
Qed.

Theorem c14_api_sound tbl :
  c14_api_table_ok tbl = true ->
  forall cfg rq j, o_job (handle_api tbl cfg rq) = Some j -> c14_job_ok rq j.
Proof.
  intros Hok cfg rq j Hj. unfold c14_api_table_ok in Hok. apply andb_true_iff in Hok as [Hent Hcons].
  destruct (c14_handle_api_inv _ _ _ _ Hj) as (e0 & e & v & H0 & H1 & R0 & R1 & Hroute & Heq).
  rewrite Heq in Hj.
  rewrite forallb_forall in Hent. pose proof (Hent e H1) as Hentry. unfold c14_api_entry_ok in Hentry.
  rewrite (c14_same_conv tbl e0 e Hcons H0 H1 (eq_trans R0 (eq_sym R1))) in Hroute.
  destruct (c14_with_wrap_inv _ _ _ _ Hj) as [(a & u & Hw & Hu & Hue & Hadm & Hview)|[Hw _]];
    [|rewrite Hw in Hentry; discriminate Hentry].
  rewrite Hw in Hentry. apply andb_true_iff in Hentry as [_ Hentry].
  destruct (c14_api_view_inv _ _ _ _ _ _ Hview) as (cls & u' & Hcls & Hu' & Hval & Hk & Hju & Hset).
  injection Hu' as <-. rewrite Hcls in Hentry. apply andb_true_iff in Hentry as [Himp Hfit].
  assert (Hlog : logged_in (rq_session rq) = true).
  { unfold logged_in. rewrite Hu, Hue. reflexivity. }
  assert (Huser : session_user (rq_session rq) = u) by (unfold session_user; rewrite Hu; reflexivity).
  unfold c14_job_ok. split; [exact Hlog|]. split.
  { rewrite Hk. intro Hrc. rewrite Hrc in Himp. destruct a; [|discriminate Himp].
    unfold is_admin. rewrite Hlog. specialize (Hadm eq_refl). unfold truthy_admin in Hadm.
    destruct (s_admin (rq_session rq)) as [[|]|]; try discriminate Hadm; reflexivity. }
  unfold carries_exactly. rewrite Hju, Huser, String.eqb_refl, Hk. cbn [andb].
  unfold c14_validator_fits in Hfit.
  destruct (String.eqb_spec cls "CreateBranchJob") as [->|N1].
  { (* create branch *)
    destruct (ae_validator e); try discriminate Hfit.
    destruct (ae_conv e) as [[n cv]|] eqn:Ec; [|discriminate Hfit].
    destruct cv; try discriminate Hfit. apply String.eqb_eq in Hfit. subst n.
    destruct (c14_route_param_match _ _ _ Hroute) as [(Hn & _)|(n' & cv' & Hc' & Hp & Hconv)]; [discriminate Hn|].
    injection Hc' as <- <-.
    assert (Hkw : kwargs_of e v = [("branch", PStr v)]) by (unfold kwargs_of; rewrite Ec; reflexivity).
    rewrite Hkw in *. rewrite Hp. cbn [url_params mem_str existsb String.eqb Ascii.eqb Bool.eqb orb].
    cbn [validate lookup] in Hval. rewrite String.eqb_refl in Hval.
    destruct (re_branch v) eqn:Hre; [|discriminate Hval]. cbn [negb] in Hval.
    pose proof Hre as Hwf. rewrite c14_re_branch_spec in Hwf.
    destruct Hset as [(d & Hb & Hs & _)|(raw & _ & Hnil & _)]; [|discriminate Hnil].
    rewrite Hb in *. rewrite Hs. split; [|apply c14_settings_agree_merge].
    cbn [valid_params]. change ("CreateBranchJob" =? "CreateBranchJob")%string with true. cbv iota.
    rewrite !c14_lookup_merge. cbn [lookup]. change ("branch" =? "branch")%string with true.
    change ("branch" =? "branch_from")%string with false. cbv iota. rewrite Hwf. cbn [andb].
    destruct (lookup "branch_from" d) as [[f|z|r]|]; try discriminate Hval; [|reflexivity].
    destruct (re_branch_from f) eqn:Hf; [|discriminate Hval].
    rewrite c14_re_branch_from_spec in Hf. exact Hf. }
  destruct (String.eqb_spec cls "DeleteBranchJob") as [->|N2].
  { destruct (ae_validator e); try discriminate Hfit.
    destruct (ae_conv e) as [[n cv]|] eqn:Ec; [|discriminate Hfit].
    destruct cv; try discriminate Hfit. apply String.eqb_eq in Hfit. subst n.
    destruct (c14_route_param_match _ _ _ Hroute) as [(Hn & _)|(n' & cv' & Hc' & Hp & Hconv)]; [discriminate Hn|].
    injection Hc' as <- <-.
    assert (Hkw : kwargs_of e v = [("branch", PStr v)]) by (unfold kwargs_of; rewrite Ec; reflexivity).
    rewrite Hkw in *. rewrite Hp. cbn [url_params mem_str existsb String.eqb Ascii.eqb Bool.eqb orb].
    cbn [validate lookup] in Hval. rewrite String.eqb_refl in Hval.
    destruct (re_branch v) eqn:Hre; [|discriminate Hval].
    pose proof Hre as Hwf. rewrite c14_re_branch_spec in Hwf.
    destruct Hset as [(d & Hb & Hs & _)|(raw & _ & Hnil & _)]; [|discriminate Hnil].
    rewrite Hb in *. rewrite Hs. split; [|apply c14_settings_agree_merge].
    cbn [valid_params]. change ("DeleteBranchJob" =? "CreateBranchJob")%string with false.
    change ("DeleteBranchJob" =? "DeleteBranchJob")%string with true. cbv iota.
    rewrite c14_lookup_merge. cbn [lookup]. change ("branch" =? "branch")%string with true. cbv iota. exact Hwf. }
  destruct (String.eqb_spec cls "EvalPullRequestJob") as [->|N3].
  { destruct (ae_validator e); try discriminate Hfit.
    destruct (ae_conv e) as [[n cv]|] eqn:Ec; [|discriminate Hfit].
    destruct cv; try discriminate Hfit. apply String.eqb_eq in Hfit. subst n.
    destruct (c14_route_param_match _ _ _ Hroute) as [(Hn & _)|(n' & cv' & Hc' & Hp & Hconv)]; [discriminate Hn|].
    injection Hc' as <- <-. cbn [conv_ok] in Hconv.
    assert (Hkw : kwargs_of e v = [("pr_id", PInt (Z.of_N (dec_value v)))]) by (unfold kwargs_of; rewrite Ec; reflexivity).
    rewrite Hkw in *. rewrite Hp.
    cbn [url_params mem_str existsb String.eqb Ascii.eqb Bool.eqb orb]. rewrite Hconv.
    cbn [validate lookup] in Hval. rewrite String.eqb_refl in Hval.
    destruct (Z.ltb_spec (Z.of_N (dec_value v)) 1) as [Hlt|Hge]; [discriminate Hval|].
    destruct Hset as [(d & Hb & Hs & _)|(raw & _ & Hnil & _)]; [|discriminate Hnil].
    rewrite Hb in *. rewrite Hs. split; [|apply c14_settings_agree_merge].
    cbn [valid_params]. change ("EvalPullRequestJob" =? "CreateBranchJob")%string with false.
    change ("EvalPullRequestJob" =? "DeleteBranchJob")%string with false.
    change ("EvalPullRequestJob" =? "EvalPullRequestJob")%string with true. cbv iota.
    rewrite c14_lookup_merge. cbn [lookup]. change ("pr_id" =? "pr_id")%string with true. cbv iota.
    apply Z.leb_le. exact Hge. }
  (* every other job kind: no URL argument, nothing to validate *)
  destruct (ae_conv e) as [[n cv]|] eqn:Ec; [discriminate Hfit|].
  destruct (c14_route_param_match _ _ _ Hroute) as [(_ & Hp & _)|(n' & cv' & Hc' & _)]; [|discriminate Hc'].
  assert (Hkw : kwargs_of e v = []) by (unfold kwargs_of; rewrite Ec; reflexivity).
  rewrite Hkw in *. rewrite Hp. unfold url_params.
  rewrite (c14_mem2_neq cls _ _ N1 N2), (proj2 (String.eqb_neq _ _) N3).
  assert (Hvalid : forall st, valid_params cls st = true).
  { intros [p|raw]; cbn [valid_params].
    - rewrite (proj2 (String.eqb_neq _ _) N1), (proj2 (String.eqb_neq _ _) N2), (proj2 (String.eqb_neq _ _) N3).
      reflexivity.
    - unfold mem_str. cbn [existsb].
      rewrite (proj2 (String.eqb_neq _ _) N1), (proj2 (String.eqb_neq _ _) N2), (proj2 (String.eqb_neq _ _) N3).
      reflexivity. }
  split; [apply Hvalid|].
  destruct Hset as [(d & Hb & Hs & _)|(raw & Hb & _ & Hs)]; rewrite Hb, Hs.
  - apply c14_settings_agree_merge.
  - rewrite String.eqb_refl. reflexivity.
Qed.

(* ---- the theorem for the generated table ---- *)
Theorem c14_api_full : forall cfg rq j,
  o_job (handle_api api_table cfg rq) = Some j -> c14_job_ok rq j.
Proof. exact (c14_api_sound api_table c14_api_table_checked). Qed.

Definition c14_cfg0 : config := mk_config "login" "pwd" "owner" "slug" "owner/slug" "github" [].
Definition c14_admin : session := mk_session (Some "alice") (Some true).
Definition c14_user : session := mk_session (Some "bob") (Some false).
Definition c14_nobody : session := mk_session None None.

(* ---- refusal ---- *)

(* the job kind created by the view that serves (rule, method) *)
Definition c14_target (tbl : list api_entry) (rq : request) : option string :=
  match find (fun e => mem_str (rq_method rq) (ae_methods e))
             (filter (fun e => (ae_rule e =? rq_rule rq)%string) tbl) with
  | Some e => match ae_view e with VJob k => Some k | VRead _ => None end
  | None => None
  end.

Definition c14_unauthorised (tbl : list api_entry) (rq : request) : Prop :=
  logged_in (rq_session rq) = false \/
  (exists k, c14_target tbl rq = Some k /\ repo_changing k = true /\ is_admin (rq_session rq) = false).

Lemma c14_requires_auth_refuses a s k :
  logged_in s = false \/ (a = true /\ is_admin s = false) -> refused (requires_auth a s k) = true.
Proof.
  unfold requires_auth, logged_in, is_admin, logged_in, truthy_admin.
  destruct (s_user s) as [u|]; [|reflexivity].
  destruct (is_empty u); [reflexivity|]. cbn [negb andb].
  intros [H|[-> H]]; [discriminate H|]. cbn [andb].
  destruct (s_admin s) as [[|]|]; try discriminate H; reflexivity.
Qed.

Theorem c14_api_refuses tbl :
  c14_api_table_ok tbl = true ->
  forall cfg rq, rq_method rq <> "OPTIONS" -> c14_unauthorised tbl rq ->
  refused (handle_api tbl cfg rq) = true.
Proof.
  intros Hok cfg rq Hm Hun. unfold c14_api_table_ok in Hok. apply andb_true_iff in Hok as [Hent _].
  unfold c14_unauthorised, c14_target in Hun. unfold handle_api.
  destruct (filter (fun e => (ae_rule e =? rq_rule rq)%string) tbl) as [|e0 rest] eqn:Ees; [reflexivity|].
  destruct (route_param (ae_conv e0) (rq_param rq)) as [v|m|]; [| |reflexivity];
    (destruct (find (fun e => mem_str (rq_method rq) (ae_methods e)) (e0 :: rest)) as [e|] eqn:F; [|reflexivity]).
  2:{ reflexivity. }
  rewrite (proj2 (String.eqb_neq _ _) Hm). cbn [andb].
  apply find_some in F as [Fin _]. rewrite <- Ees in Fin. apply filter_In in Fin as [Fin _].
  rewrite forallb_forall in Hent. specialize (Hent e Fin). unfold c14_api_entry_ok in Hent.
  destruct (ae_wrap e) as [|a|]; try discriminate Hent. cbn [with_wrap].
  apply c14_requires_auth_refuses. destruct Hun as [Hl|(k & Hk & Hr & Ha)]; [left; exact Hl|].
  right. split; [|exact Ha]. apply andb_true_iff in Hent as [_ Hent].
  destruct (ae_view e) as [k'|]; [|discriminate Hk]. injection Hk as ->.
  apply andb_true_iff in Hent as [Hi _]. rewrite Hr in Hi. destruct a; [reflexivity | discriminate Hi].
Qed.

Theorem c14_api_refusal : forall cfg rq,
  rq_method rq <> "OPTIONS" -> c14_unauthorised api_table rq -> refused (handle_api api_table cfg rq) = true.
Proof. exact (c14_api_refuses api_table c14_api_table_checked). Qed.

(* ---- status and queue agree (for JSON object bodies) ---- *)

Lemma c14_with_wrap_value w s k j :
  o_job (with_wrap w s k) = Some j -> exists u, with_wrap w s k = k u.
Proof.
  destruct w as [|a|]; cbn [with_wrap]; intro H.
  - eexists; reflexivity.
  - unfold requires_auth in *. destruct (s_user s) as [u|]; [|discriminate H].
    destruct (is_empty u); [discriminate H|].
    destruct (a && negb (truthy_admin s)); [discriminate H|]. eexists; reflexivity.
  - discriminate H.
Qed.

Theorem c14_api_job_status tbl cfg rq j :
  o_job (handle_api tbl cfg rq) = Some j -> (forall raw, rq_body rq <> BodyNonDict raw) ->
  o_status (handle_api tbl cfg rq) = 202%Z.
Proof.
  intros Hj Hb. destruct (c14_handle_api_inv _ _ _ _ Hj) as (e0 & e & v & _ & _ & _ & _ & _ & Heq).
  rewrite Heq in *. destruct (c14_with_wrap_value _ _ _ _ Hj) as [u Hu]. rewrite Hu in *.
  destruct (c14_api_view_inv _ _ _ _ _ _ Hj) as (cls & u' & _ & _ & _ & _ & _ & Hset).
  destruct Hset as [(d & _ & _ & Hst)|(raw & Hraw & _)]; [exact Hst | exfalso; exact (Hb raw Hraw)].
Qed.

Lemma c14_api_view_202 cfg e v b user :
  o_status (api_view cfg e v b user) = 202%Z -> o_job (api_view cfg e v b user) <> None.
Proof.
  unfold api_view. destruct (ae_view e) as [cls|name].
  2:{ destruct (name =? "GetJob")%string; [destruct (mem_str v (c_known_jobs cfg))|]; discriminate. }
  destruct b as [|d|raw]; [discriminate| |];
    (destruct user as [u|]; [|discriminate]);
    (destruct (validate (ae_validator e) (kwargs_of e v) _); try discriminate).
  destruct (kwargs_of e v); cbn; intro H; discriminate H.
Qed.

Theorem c14_api_status_job tbl cfg rq :
  o_status (handle_api tbl cfg rq) = 202%Z -> o_job (handle_api tbl cfg rq) <> None.
Proof.
  unfold handle_api.
  destruct (filter (fun e => (ae_rule e =? rq_rule rq)%string) tbl) as [|e0 rest]; [discriminate|].
  destruct (route_param (ae_conv e0) (rq_param rq)) as [v|m|]; [| |discriminate];
    (destruct (find (fun e => mem_str (rq_method rq) (ae_methods e)) (e0 :: rest)) as [e|]; [|discriminate]).
  2:{ discriminate. }
  destruct ((rq_method rq =? "OPTIONS")%string && ae_auto_options e); [discriminate|].
  destruct (ae_wrap e) as [|a|]; cbn [with_wrap]; [apply c14_api_view_202| |discriminate].
  unfold requires_auth. destruct (s_user (rq_session rq)) as [u|]; [|discriminate].
  destruct (is_empty u); [discriminate|].
  destruct (a && negb (truthy_admin (rq_session rq))); [discriminate|]. apply c14_api_view_202.
Qed.

(* "2xx <-> enqueued" fails when the JSON body is not an object: the job is queued, then as_json raises *)
Definition c14_status_full_statement : Prop := forall cfg rq,
  o_job (handle_api api_table cfg rq) <> None -> (o_status (handle_api api_table cfg rq) < 300)%Z.

Definition c14_witness_nondict : request :=
  mk_request "/api/gwf/queues" "DELETE" None c14_admin (BodyNonDict "[1]").

Lemma c14_status_refuted : ~ c14_status_full_statement.
Proof.
  intro H. specialize (H c14_cfg0 c14_witness_nondict).
  assert (E : handle_api api_table c14_cfg0 c14_witness_nondict =
              mk_out 500 (Some (mk_job "DeleteQueuesJob" (SNonDict "[1]") "alice"))) by (vm_compute; reflexivity).
  rewrite E in H. cbn [o_job o_status] in H.
  assert (X : Some (mk_job "DeleteQueuesJob" (SNonDict "[1]") "alice") <> None) by discriminate.
  specialize (H X). apply Z.ltb_lt in H. vm_compute in H. discriminate H.
Qed.

(* ================================================================== 4. management forms *)

Lemma c14_form_nested_inv atbl f fq rq :
  form_nested atbl f fq = Some rq -> rq_session rq = fq_session fq /\ fq_csrf_ok fq = true.
Proof.
  unfold form_nested. destruct (fq_csrf_ok fq); [|discriminate].
  destruct (form_data (fe_fields f) (fq_fields fq)) as [data|]; [|discriminate].
  destruct (find (fun e => (ae_name e =? fe_endpoint f)%string) atbl) as [ep|]; [|discriminate].
  destruct (build_param ep data) as [p|]; [|discriminate].
  intro H. injection H as <-. split; reflexivity.
Qed.

Lemma c14_redirected_session tbl rq rq' : redirected tbl rq = Some rq' -> rq_session rq' = rq_session rq.
Proof.
  unfold redirected. destruct (filter _ tbl) as [|e0 rest]; [discriminate|].
  destruct (route_param (ae_conv e0) (rq_param rq)); try discriminate.
  intro H. injection H as <-. reflexivity.
Qed.

(* a job created through a form is a job the API creates for a request made with the caller's session *)
Theorem c14_form_sound ftbl atbl cfg fq j :
  o_job (handle_form ftbl atbl cfg fq) = Some j ->
  fq_csrf_ok fq = true /\
  exists rq, rq_session rq = fq_session fq /\ o_job (handle_api atbl cfg rq) = Some j.
Proof.
  unfold handle_form.
  destruct (find (fun f => (fe_rule f =? fq_rule fq)%string) ftbl) as [f|]; [|discriminate].
  destruct (negb (mem_str (fq_method fq) (fe_methods f))); [discriminate|].
  destruct ((fq_method fq =? "OPTIONS")%string && fe_auto_options f); [discriminate|].
  intro H.
  assert (Hn : o_job (match form_nested atbl f fq with
                      | Some rq => mk_out 302 (o_job (handle_api_follow atbl cfg rq))
                      | None => if form_crashes atbl f fq then refuse 500 else refuse 302
                      end) = Some j).
  { destruct (c14_with_wrap_inv _ _ _ _ H) as [(a & u & _ & _ & _ & _ & Hk)|[_ Hk]]; exact Hk. }
  clear H. destruct (form_nested atbl f fq) as [rq|] eqn:En.
  2:{ destruct (form_crashes atbl f fq); discriminate Hn. }
  destruct (c14_form_nested_inv _ _ _ _ En) as [Hs Hc]. split; [exact Hc|].
  cbn [o_job] in Hn. unfold handle_api_follow in Hn.
  destruct (o_status (handle_api atbl cfg rq) =? 308)%Z.
  - destruct (redirected atbl rq) as [rq'|] eqn:Er.
    + exists rq'. split; [rewrite (c14_redirected_session _ _ _ Er); exact Hs | exact Hn].
    + exists rq. split; [exact Hs | exact Hn].
  - exists rq. split; [exact Hs | exact Hn].
Qed.

Theorem c14_form_full : forall cfg fq j,
  o_job (handle_form form_table api_table cfg fq) = Some j ->
  fq_csrf_ok fq = true /\ exists rq, rq_session rq = fq_session fq /\ c14_job_ok rq j.
Proof.
  intros cfg fq j H. destruct (c14_form_sound _ _ _ _ _ H) as [Hc (rq & Hs & Hj)].
  split; [exact Hc|]. exists rq. split; [exact Hs | exact (c14_api_full cfg rq j Hj)].
Qed.

Lemma c14_requires_auth_error a s k :
  logged_in s = false \/ (a = true /\ is_admin s = false) -> hook_refused (requires_auth a s k) = true.
Proof.
  unfold requires_auth, logged_in, is_admin, logged_in, truthy_admin.
  destruct (s_user s) as [u|]; [|reflexivity].
  destruct (is_empty u); [reflexivity|]. cbn [negb andb].
  intros [H|[-> H]]; [discriminate H|]. cbn [andb].
  destruct (s_admin s) as [[|]|]; try discriminate H; reflexivity.
Qed.

(* the job kind a form finally creates *)
Definition c14_form_target (ftbl : list form_entry) (atbl : list api_entry) (fq : form_request) : option string :=
  match find (fun f => (fe_rule f =? fq_rule fq)%string) ftbl with
  | Some f => match c14_endpoint_of atbl f with
              | Some ep => match ae_view ep with VJob k => Some k | VRead _ => None end
              | None => None
              end
  | None => None
  end.

Theorem c14_form_refuses ftbl atbl :
  forallb (c14_form_entry_ok atbl) ftbl = true ->
  forall cfg fq, fq_method fq <> "OPTIONS" ->
    (logged_in (fq_session fq) = false \/
     exists k, c14_form_target ftbl atbl fq = Some k /\ repo_changing k = true /\ is_admin (fq_session fq) = false) ->
    hook_refused (handle_form ftbl atbl cfg fq) = true.
Proof.
  intros Hok cfg fq Hm Hun. unfold handle_form. unfold c14_form_target in Hun.
  destruct (find (fun f => (fe_rule f =? fq_rule fq)%string) ftbl) as [f|] eqn:F; [|reflexivity].
  destruct (negb (mem_str (fq_method fq) (fe_methods f))); [reflexivity|].
  rewrite (proj2 (String.eqb_neq _ _) Hm). cbn [andb].
  apply find_some in F as [Fin _]. rewrite forallb_forall in Hok. specialize (Hok f Fin).
  unfold c14_form_entry_ok in Hok. destruct (fe_wrap f) as [|a|]; try discriminate Hok. cbn [with_wrap].
  apply c14_requires_auth_error. destruct Hun as [Hl|(k & Hk & Hr & Ha)]; [left; exact Hl|].
  right. split; [|exact Ha]. apply andb_true_iff in Hok as [_ Hok].
  destruct (c14_endpoint_of atbl f) as [ep|]; [|discriminate Hk].
  destruct (ae_view ep) as [k'|]; [|discriminate Hk]. injection Hk as ->.
  rewrite Hr in Hok. destruct a; [reflexivity | discriminate Hok].
Qed.

Theorem c14_form_refusal : forall cfg fq, fq_method fq <> "OPTIONS" ->
  (logged_in (fq_session fq) = false \/
   exists k, c14_form_target form_table api_table fq = Some k /\ repo_changing k = true /\
             is_admin (fq_session fq) = false) ->
  hook_refused (handle_form form_table api_table cfg fq) = true.
Proof. exact (c14_form_refuses form_table api_table c14_form_table_checked). Qed.

(* ================================================================== 5. webhooks *)

Lemma c14_creds_ok_eq cfg c : check_basic_auth cfg c = creds_ok cfg c.
Proof. destruct c as [[u p]|]; reflexivity. Qed.

Lemma c14_hook_wrapped htbl func h :
  c14_hooks_ok htbl = true -> hook_entry_for htbl func = Some h -> he_wrap h = WBasic.
Proof.
  unfold c14_hooks_ok, hook_entry_for. intros H F. apply andb_true_iff in H as [H _].
  apply find_some in F as [Fin _]. rewrite forallb_forall in H. specialize (H h Fin).
  unfold c14_hook_entry_ok in H. destruct (he_wrap h); try discriminate H; reflexivity.
Qed.

Lemma c14_with_basic_inv cfg h m c k j :
  he_wrap h = WBasic -> o_job (with_basic cfg h m c k) = Some j ->
  creds_ok cfg c = true /\ with_basic cfg h m c k = k.
Proof.
  intros Hw. unfold with_basic. rewrite Hw.
  destruct (negb (mem_str m (he_methods h))); [discriminate|].
  destruct ((m =? "OPTIONS")%string && he_auto_options h); [discriminate|].
  rewrite c14_creds_ok_eq. destruct (creds_ok cfg c); [|discriminate]. intros _. split; reflexivity.
Qed.

Lemma c14_with_basic_refuses cfg h m c k :
  he_wrap h = WBasic -> m <> "OPTIONS" -> (creds_ok cfg c = false \/ hook_refused k = true) ->
  hook_refused (with_basic cfg h m c k) = true.
Proof.
  intros Hw Hm H. unfold with_basic. rewrite Hw.
  destruct (negb (mem_str m (he_methods h))); [reflexivity|].
  rewrite (proj2 (String.eqb_neq _ _) Hm). cbn [andb]. rewrite c14_creds_ok_eq.
  destruct (creds_ok cfg c); [|reflexivity]. destruct H as [H|H]; [discriminate H | exact H].
Qed.

Lemma c14_single_param_refl kind key v : single_param (hook_job kind key v) kind key v = true.
Proof.
  unfold single_param, hook_job. cbn. rewrite !String.eqb_refl, c14_pval_eqb_refl. reflexivity.
Qed.

Definition c14_bb_handled (entity event : string) : Prop :=
  entity = "pullrequest" \/
  (entity = "repo" /\ mem_str event ["commit_status_created"; "commit_status_updated"] = true).

Theorem c14_bitbucket_sound htbl :
  c14_hooks_ok htbl = true ->
  forall cfg rq j, o_job (handle_bitbucket htbl cfg rq) = Some j ->
    creds_ok cfg (bb_creds rq) = true /\ bb_repo_ok cfg rq = true /\ bb_carries rq j = true /\
    exists key entity event, bb_event_key rq = Some key /\ split_char ":" key = [entity; event] /\
                             c14_bb_handled entity event.
Proof.
  intros Hok cfg rq j. unfold handle_bitbucket.
  destruct (hook_entry_for htbl "parse_bitbucket_webhook") as [h|] eqn:F; [|discriminate].
  intro H. destruct (c14_with_basic_inv _ _ _ _ _ _ (c14_hook_wrapped _ _ _ Hok F) H) as [Hc Heq].
  rewrite Heq in H. clear Heq. split; [exact Hc|]. unfold bitbucket_view in H.
  destruct (bb_event_key rq) as [key|] eqn:Ek; [|discriminate H].
  destruct (split_char ":" key) as [|entity [|event [|x l]]] eqn:Es; try discriminate H.
  unfold bb_repo_ok. destruct (bb_repo rq) as [[owner slug]|]; [|discriminate H].
  destruct (owner =? c_owner cfg)%string; [|discriminate H].
  destruct (slug =? c_slug cfg)%string; [|discriminate H]. cbn [negb andb] in *. split; [reflexivity|].
  unfold bb_dispatch in H. unfold bb_carries.
  destruct (String.eqb_spec entity "repo") as [->|Nr].
  - destruct (mem_str event ["commit_status_created"; "commit_status_updated"]) eqn:Ev; [|discriminate H].
    destruct (bb_commit_status rq) as [[state href]|]; [|discriminate H].
    destruct (state =? "INPROGRESS")%string; [discriminate H|]. cbn in H. injection H as <-.
    split.
    + unfold last_segment. rewrite c14_single_param_refl. apply orb_true_r.
    + exists key, "repo", event. split; [reflexivity|]. split; [exact Es|].
      right. split; [reflexivity | exact Ev].
  - destruct (String.eqb_spec entity "pullrequest") as [->|Np]; [|discriminate H].
    destruct (bb_pr_id rq) as [n|]; [|discriminate H]. cbn in H. injection H as <-.
    split.
    + rewrite c14_single_param_refl. reflexivity.
    + exists key, "pullrequest", event. split; [reflexivity|]. split; [exact Es|]. left. reflexivity.
Qed.

Lemma c14_bitbucket_view_wrong_repo cfg rq :
  bb_repo_ok cfg rq = false -> hook_refused (bitbucket_view cfg rq) = true.
Proof.
  unfold bb_repo_ok, bitbucket_view. intro H.
  destruct (bb_event_key rq) as [key|]; [|reflexivity].
  destruct (split_char ":" key) as [|entity [|event [|x l]]]; try reflexivity.
  destruct (bb_repo rq) as [[owner slug]|]; [|reflexivity].
  destruct (owner =? c_owner cfg)%string; [|reflexivity].
  destruct (slug =? c_slug cfg)%string; [discriminate H | reflexivity].
Qed.

Theorem c14_bitbucket_refuses htbl :
  c14_hooks_ok htbl = true ->
  forall cfg rq, bb_method rq <> "OPTIONS" ->
    creds_ok cfg (bb_creds rq) = false \/ bb_repo_ok cfg rq = false ->
    hook_refused (handle_bitbucket htbl cfg rq) = true.
Proof.
  intros Hok cfg rq Hm H. unfold handle_bitbucket.
  destruct (hook_entry_for htbl "parse_bitbucket_webhook") as [h|] eqn:F; [|reflexivity].
  apply c14_with_basic_refuses; [exact (c14_hook_wrapped _ _ _ Hok F) | exact Hm|].
  destruct H as [H|H]; [left; exact H | right; apply c14_bitbucket_view_wrong_repo; exact H].
Qed.

Definition c14_gh_handled (ev : string) : Prop :=
  In ev ["pull_request"; "issue_comment"; "pull_request_review"; "status"; "check_suite"].

Theorem c14_github_sound htbl :
  c14_hooks_ok htbl = true ->
  forall cfg rq j, o_job (handle_github htbl cfg rq) = Some j ->
    creds_ok cfg (gh_creds rq) = true /\ gh_repo_ok cfg rq = true /\ gh_carries rq j = true /\
    exists ev, gh_event rq = Some ev /\ c14_gh_handled ev.
Proof.
  intros Hok cfg rq j. unfold handle_github.
  destruct (hook_entry_for htbl "parse_github_webhook") as [h|] eqn:F; [|discriminate].
  intro H. destruct (c14_with_basic_inv _ _ _ _ _ _ (c14_hook_wrapped _ _ _ Hok F) H) as [Hc Heq].
  rewrite Heq in H. clear Heq. split; [exact Hc|]. unfold github_view in H. unfold gh_repo_ok.
  destruct (c_host cfg =? "github")%string; [|discriminate H].
  destruct (gh_json_ok rq); [|discriminate H].
  destruct (gh_full_name rq) as [fn|]; [|discriminate H].
  destruct (fn =? c_full_name cfg)%string; [|discriminate H]. cbn [negb andb] in *. split; [reflexivity|].
  unfold gh_dispatch in H. destruct (gh_event rq) as [ev|]; [|discriminate H]. unfold gh_carries, c14_gh_handled.
  destruct (String.eqb_spec ev "pull_request") as [Eev|N1]; [subst ev|].
  { destruct (gh_pr rq) as [n|]; [|discriminate H]. destruct (gh_action rq) as [a|]; [|discriminate H].
    destruct (a =? "closed")%string; [discriminate H|]. cbn in H. injection H as <-.
    rewrite c14_single_param_refl. split; [reflexivity|]. eexists; split; [reflexivity|]. cbn. tauto. }
  destruct (String.eqb_spec ev "issue_comment") as [Eev|N2]; [subst ev|].
  { destruct (gh_issue_f rq) as [| |[n|]]; try discriminate H. cbn in H. injection H as <-.
    rewrite c14_single_param_refl. split; [rewrite !orb_true_r; try reflexivity; rewrite orb_true_l; reflexivity|].
    eexists; split; [reflexivity|]. cbn. tauto. }
  destruct (String.eqb_spec ev "pull_request_review") as [Eev|N3]; [subst ev|].
  { destruct (gh_pr rq) as [n|]; [|discriminate H]. cbn in H. injection H as <-.
    rewrite c14_single_param_refl. split; [reflexivity|]. eexists; split; [reflexivity|]. cbn. tauto. }
  destruct (String.eqb_spec ev "status") as [Eev|N4]; [subst ev|].
  { destruct (gh_sha rq) as [sha|]; [|discriminate H].
    assert (Hj : j = hook_job "CommitJob" "commit" (PStr sha)).
    { destruct (gh_status_state rq) as [| |st]; [discriminate H | cbn in H; injection H as <-; reflexivity |].
      destruct (st =? "pending")%string; [discriminate H|].
      destruct (mem_str st ["success"; "error"; "failure"]); [|discriminate H].
      cbn in H. injection H as <-. reflexivity. }
    subst j. rewrite c14_single_param_refl. split.
    - rewrite orb_true_r. apply orb_true_l.
    - eexists; split; [reflexivity|]. cbn. tauto. }
  destruct (String.eqb_spec ev "check_suite") as [Eev|N5]; [subst ev | discriminate H].
  destruct (gh_check rq) as [[sha ci]|]; [|discriminate H]. destruct ci; try discriminate H.
  cbn in H. injection H as <-. rewrite c14_single_param_refl. split; [apply orb_true_r|].
  eexists; split; [reflexivity|]. cbn. tauto.
Qed.

Lemma c14_github_view_wrong_repo cfg rq :
  gh_repo_ok cfg rq = false -> hook_refused (github_view cfg rq) = true.
Proof.
  unfold gh_repo_ok, github_view. intro H.
  destruct (c_host cfg =? "github")%string; [|reflexivity]. cbn [negb andb] in *.
  destruct (gh_json_ok rq); [|reflexivity]. cbn [negb].
  destruct (gh_full_name rq) as [fn|]; [|reflexivity].
  destruct (fn =? c_full_name cfg)%string; [discriminate H | reflexivity].
Qed.

Theorem c14_github_refuses htbl :
  c14_hooks_ok htbl = true ->
  forall cfg rq, gh_method rq <> "OPTIONS" ->
    creds_ok cfg (gh_creds rq) = false \/ gh_repo_ok cfg rq = false ->
    hook_refused (handle_github htbl cfg rq) = true.
Proof.
  intros Hok cfg rq Hm H. unfold handle_github.
  destruct (hook_entry_for htbl "parse_github_webhook") as [h|] eqn:F; [|reflexivity].
  apply c14_with_basic_refuses; [exact (c14_hook_wrapped _ _ _ Hok F) | exact Hm|].
  destruct H as [H|H]; [left; exact H | right; apply c14_github_view_wrong_repo; exact H].
Qed.

(* ================================================================== 6. OAuth login: post-condition *)

Lemma c14_lower_eq s : lower s = to_lower s.
Proof. induction s as [|c t IH]; cbn; [reflexivity | rewrite IH; reflexivity]. Qed.

Lemma c14_ends_with_eq suf s : ends_with suf s = has_suffix suf s.
Proof. induction s as [|c t IH]; cbn; [reflexivity | rewrite IH; reflexivity]. Qed.

Theorem c14_oauth_post org admins username email :
  oauth_spec org admins username email (handle_authorize org admins username email) = true.
Proof.
  unfold oauth_spec, handle_authorize. cbv zeta.
  destruct username as [u|]; [|reflexivity].
  destruct (is_empty u) eqn:Eu; [reflexivity|]. cbn [negb andb].
  rewrite c14_lower_eq.
  assert (Ee : match email with
               | Some e => negb (is_empty e) && ends_with (String "@" org) e
               | None => false
               end = match email with
                     | Some e => negb (is_empty e) && has_suffix ("@" ++ org) e
                     | None => false
                     end).
  { destruct email as [e|]; [rewrite c14_ends_with_eq|]; reflexivity. }
  rewrite Ee. clear Ee.
  destruct (is_empty org); cbn [negb andb orb].
  - cbn. rewrite String.eqb_refl, eqb_reflx. reflexivity.
  - destruct (match email with Some e => negb (is_empty e) && has_suffix ("@" ++ org) e | None => false end);
      cbn; [rewrite String.eqb_refl, eqb_reflx|]; reflexivity.
Qed.

(* ================================================================== 7. the generated webhook table *)

Theorem c14_bitbucket_full : forall cfg rq j,
  o_job (handle_bitbucket webhook_table cfg rq) = Some j ->
  creds_ok cfg (bb_creds rq) = true /\ bb_repo_ok cfg rq = true /\ bb_carries rq j = true /\
  exists key entity event, bb_event_key rq = Some key /\ split_char ":" key = [entity; event] /\
                           c14_bb_handled entity event.
Proof. exact (c14_bitbucket_sound webhook_table c14_hooks_checked). Qed.

Theorem c14_github_full : forall cfg rq j,
  o_job (handle_github webhook_table cfg rq) = Some j ->
  creds_ok cfg (gh_creds rq) = true /\ gh_repo_ok cfg rq = true /\ gh_carries rq j = true /\
  exists ev, gh_event rq = Some ev /\ c14_gh_handled ev.
Proof. exact (c14_github_sound webhook_table c14_hooks_checked). Qed.

Theorem c14_bitbucket_refusal : forall cfg rq, bb_method rq <> "OPTIONS" ->
  creds_ok cfg (bb_creds rq) = false \/ bb_repo_ok cfg rq = false ->
  hook_refused (handle_bitbucket webhook_table cfg rq) = true.
Proof. exact (c14_bitbucket_refuses webhook_table c14_hooks_checked). Qed.

Theorem c14_github_refusal : forall cfg rq, gh_method rq <> "OPTIONS" ->
  creds_ok cfg (gh_creds rq) = false \/ gh_repo_ok cfg rq = false ->
  hook_refused (handle_github webhook_table cfg rq) = true.
Proof. exact (c14_github_refuses webhook_table c14_hooks_checked). Qed.

(* ================================================================== 8. non-vacuity: concrete requests *)

Definition c14_create (s : session) (name : string) : request :=
  mk_request "/api/gwf/branches/<path:branch>" "POST" (Some name) s (BodyDict [("branch_from", PStr "0123abcd")]).

Example c14_example_admin_creates :
  handle_api api_table c14_cfg0 (c14_create c14_admin "development/7.4") =
  mk_out 202 (Some (mk_job "CreateBranchJob"
                      (SDict [("branch", PStr "development/7.4"); ("branch_from", PStr "0123abcd")]) "alice")).
Proof. vm_compute. reflexivity. Qed.

Example c14_example_refusals :
  handle_api api_table c14_cfg0 (c14_create c14_user "development/7.4") = refuse 403 /\
  handle_api api_table c14_cfg0 (c14_create c14_nobody "development/7.4") = refuse 401 /\
  handle_api api_table c14_cfg0 (c14_create c14_admin "development/7.x") = refuse 400 /\
  handle_api api_table c14_cfg0 (c14_create c14_admin (String "d" (String LF ""))) = refuse 404 /\
  handle_api api_table c14_cfg0 (c14_create c14_admin "/development/7.4") = refuse 308 /\
  (* the regression of the repaired defect: a trailing line feed in branch_from is refused *)
  handle_api api_table c14_cfg0
    (mk_request "/api/gwf/branches/<path:branch>" "POST" (Some "development/7.4") c14_admin
       (BodyDict [("branch_from", PStr (String "a" (String "b" (String "c" (String LF "")))))])) = refuse 400.
Proof. vm_compute. repeat split; reflexivity. Qed.

Example c14_example_unauthorised_satisfiable :
  c14_unauthorised api_table (c14_create c14_user "development/7.4") /\
  c14_unauthorised api_table (c14_create c14_nobody "development/7.4").
Proof.
  split; [right | left; reflexivity].
  exists "CreateBranchJob". vm_compute. repeat split; reflexivity.
Qed.

Example c14_example_user_evaluates :
  handle_api api_table c14_cfg0
    (mk_request "/api/pull-requests/<int:pr_id>" "POST" (Some "0042") c14_user (BodyDict [("pr_id", PInt (-5))])) =
  mk_out 202 (Some (mk_job "EvalPullRequestJob" (SDict [("pr_id", PInt 42)]) "bob")) /\
  handle_api api_table c14_cfg0
    (mk_request "/api/pull-requests/<int:pr_id>" "POST" (Some "0") c14_user (BodyDict [])) = refuse 400 /\
  handle_api api_table c14_cfg0
    (mk_request "/api/pull-requests/<int:pr_id>" "POST" (Some "-1") c14_user (BodyDict [])) = refuse 404.
Proof. vm_compute. repeat split; reflexivity. Qed.

Example c14_example_form :
  handle_form form_table api_table c14_cfg0
    (mk_form_request "/form/DeleteBranchForm" "POST" c14_admin true [("branch", "hotfix/7.4.1")]) =
  mk_out 302 (Some (mk_job "DeleteBranchJob" (SDict [("branch", PStr "hotfix/7.4.1")]) "alice")) /\
  handle_form form_table api_table c14_cfg0
    (mk_form_request "/form/DeleteBranchForm" "POST" c14_user true [("branch", "hotfix/7.4.1")]) = refuse 403 /\
  handle_form form_table api_table c14_cfg0
    (mk_form_request "/form/DeleteBranchForm" "POST" c14_admin false [("branch", "hotfix/7.4.1")]) = refuse 302.
Proof. vm_compute. repeat split; reflexivity. Qed.

Definition c14_bb (creds : option (string * string)) (repo : string * string) : bb_request :=
  mk_bb "POST" creds (Some "pullrequest:updated") (Some repo) None (Some 7%Z).

Example c14_example_bitbucket :
  handle_bitbucket webhook_table c14_cfg0 (c14_bb (Some ("login", "pwd")) ("owner", "slug")) =
  mk_out 200 (Some (mk_job "PullRequestJob" (SDict [("pull_request", PInt 7)]) "")) /\
  handle_bitbucket webhook_table c14_cfg0 (c14_bb (Some ("login", "nope")) ("owner", "slug")) = refuse 401 /\
  handle_bitbucket webhook_table c14_cfg0 (c14_bb None ("owner", "slug")) = refuse 401 /\
  handle_bitbucket webhook_table c14_cfg0 (c14_bb (Some ("login", "pwd")) ("other", "slug")) = refuse 500 /\
  handle_bitbucket webhook_table c14_cfg0 (c14_bb (Some ("login", "pwd")) ("owner", "other")) = refuse 500.
Proof. vm_compute. repeat split; reflexivity. Qed.

Definition c14_gh (creds : option (string * string)) (full_name state : string) : gh_request :=
  mk_gh "POST" creds (Some "status") true (Some full_name) None None IssueMissing (Some "0123abcd") (StStr state) None.

Example c14_example_github :
  handle_github webhook_table c14_cfg0 (c14_gh (Some ("login", "pwd")) "owner/slug" "success") =
  mk_out 202 (Some (mk_job "CommitJob" (SDict [("commit", PStr "0123abcd")]) "")) /\
  handle_github webhook_table c14_cfg0 (c14_gh (Some ("login", "pwd")) "owner/slug" "pending") = refuse 200 /\
  handle_github webhook_table c14_cfg0 (c14_gh (Some ("login", "pwd")) "other/slug" "success") = refuse 500 /\
  handle_github webhook_table c14_cfg0 (c14_gh (Some ("x", "pwd")) "owner/slug" "success") = refuse 401.
Proof. vm_compute. repeat split; reflexivity. Qed.

Example c14_example_oauth :
  handle_authorize "scality.com" ["alice"] (Some "Alice") (Some "a@scality.com") =
    Some (mk_session (Some "alice") (Some true)) /\
  handle_authorize "scality.com" ["alice"] (Some "Bob") (Some "b@scality.com") =
    Some (mk_session (Some "bob") (Some false)) /\
  handle_authorize "scality.com" ["alice"] (Some "Alice") (Some "a@evil.org") = None /\
  handle_authorize "" ["alice"] (Some "Alice") None = Some (mk_session (Some "alice") (Some true)).
Proof. vm_compute. repeat split; reflexivity. Qed.

Example c14_example_regex :
  re_branch "stabilization/7.4.0" = true /\ re_branch "stabilization/7.4" = false /\
  re_branch (String "h" (String LF "")) = false /\ re_branch_from "0aF" = true /\ re_branch_from "" = true /\
  re_branch_from (String "a" (String LF "")) = false /\ branch_from_wf (String "a" (String LF "")) = false.
Proof. vm_compute. repeat split; reflexivity. Qed.
