(* C05, part 3: the repaired _process equals the specification on every well-formed queue state
   (any number of pull requests, versions, merge paths), and the theorems derived from it. *)
From Coq Require Import String List Bool Arith ZArith Lia.
Require Import BertE.Generated.Facts_C05 BertE.Model.QueueSel BertE.Spec.C05Spec.
Require Import BertE.Proofs.C05Base BertE.Proofs.C05Lookup.
Import ListNotations.
Open Scope list_scope.
Open Scope Z_scope.

(* ------------------------------------------------------------------------------------------------
   1. more lists                                                                                    *)

Lemma c05_filter_filter (A : Type) (P Q : A -> bool) l :
  (forall x, P x = true -> Q x = true) -> filter P (filter Q l) = filter P l.
Proof.
  intro H. induction l as [|x l IH]; [reflexivity|]. cbn [filter]. destruct (Q x) eqn:EQ.
  - cbn [filter]. rewrite IH. reflexivity.
  - destruct (P x) eqn:EP; [rewrite (H x EP) in EQ; discriminate EQ | exact IH].
Qed.

Lemma c05_filter_map_comm (A B : Type) (f : A -> B) (P : B -> bool) (Q : A -> bool) l :
  (forall x, P (f x) = Q x) -> filter P (map f l) = map f (filter Q l).
Proof.
  intro H. induction l as [|x l IH]; [reflexivity|]. cbn [map filter]. rewrite H.
  destruct (Q x); [cbn [map]; rewrite IH; reflexivity | exact IH].
Qed.

Lemma c05_flat_map_map (A B C : Type) (f : A -> B) (g : B -> list C) l :
  flat_map g (map f l) = flat_map (fun x => g (f x)) l.
Proof. induction l as [|x l IH]; [reflexivity|]. cbn [map flat_map]. rewrite IH. reflexivity. Qed.

Lemma c05_flat_map_ext_in (A B : Type) (f g : A -> list B) l :
  (forall x, In x l -> f x = g x) -> flat_map f l = flat_map g l.
Proof.
  induction l as [|x l IH]; intro H; [reflexivity|]. cbn [flat_map].
  rewrite (H x (or_introl eq_refl)), IH; [reflexivity|]. intros y Hy. apply H. right; exact Hy.
Qed.

Lemma c05_forallb_ext_in (A : Type) (f g : A -> bool) l :
  (forall x, In x l -> f x = g x) -> forallb f l = forallb g l.
Proof.
  induction l as [|x l IH]; intro H; [reflexivity|]. cbn [forallb].
  rewrite (H x (or_introl eq_refl)), IH; [reflexivity|]. intros y Hy. apply H. right; exact Hy.
Qed.

Lemma c05_forallb_filter (A : Type) (P Q : A -> bool) l :
  forallb P (filter Q l) = forallb (fun x => negb (Q x) || P x) l.
Proof.
  induction l as [|x l IH]; [reflexivity|]. cbn [filter forallb]. destruct (Q x); cbn [negb orb forallb].
  - rewrite IH. reflexivity.
  - exact IH.
Qed.

Lemma c05_find_map (A B : Type) (f : A -> B) (P : B -> bool) l :
  find P (map f l) = option_map f (find (fun x => P (f x)) l).
Proof. induction l as [|x l IH]; [reflexivity|]. cbn [map find]. destruct (P (f x)); [reflexivity | exact IH]. Qed.

Lemma c05_filter_rev (A : Type) (P : A -> bool) l : filter P (rev l) = rev (filter P l).
Proof.
  induction l as [|x l IH]; [reflexivity|]. cbn [rev filter]. rewrite filter_app, IH. cbn [filter].
  destruct (P x); [reflexivity | apply app_nil_r].
Qed.

Lemma c05_find_filter_some (A : Type) (P Q : A -> bool) l g :
  find P l = Some g -> Q g = true -> find P (filter Q l) = Some g.
Proof.
  induction l as [|x l IH]; intros Hf Hq; [discriminate Hf|]. cbn [find] in Hf. cbn [filter].
  destruct (P x) eqn:EP.
  - inversion Hf; subst. rewrite Hq. cbn [find]. rewrite EP. reflexivity.
  - destruct (Q x); [cbn [find]; rewrite EP|]; exact (IH Hf Hq).
Qed.

Lemma c05_find_filter_none (A : Type) (P Q : A -> bool) l : find P l = None -> find P (filter Q l) = None.
Proof.
  induction l as [|x l IH]; intro Hf; [reflexivity|]. cbn [find] in Hf. cbn [filter].
  destruct (P x) eqn:EP; [discriminate Hf|]. destruct (Q x); [cbn [find]; rewrite EP|]; exact (IH Hf).
Qed.

Lemma c05_NoDup_flat_map_sub (A B : Type) (F G : A -> list B) (L : list A) :
  (forall x, In x L -> exists pre, F x = pre ++ G x) -> NoDup (flat_map F L) -> NoDup (flat_map G L).
Proof.
  induction L as [|x L IH]; intros H Hn; [constructor|]. cbn [flat_map] in *.
  apply c05_NoDup_app in Hn as (Hx & HL & Hd).
  assert (Hsub : forall p, In p (flat_map G L) -> In p (flat_map F L)).
  { intros p Hp. apply in_flat_map in Hp as (y & Hy & Hp). apply in_flat_map. exists y. split; [exact Hy|].
    destruct (H y (or_intror Hy)) as (pre & E). rewrite E. apply in_or_app. right; exact Hp. }
  destruct (H x (or_introl eq_refl)) as (pre & E).
  apply c05_NoDup_app. repeat split.
  - rewrite E in Hx. apply c05_NoDup_app in Hx as (_ & Hx & _). exact Hx.
  - apply IH; [|exact HL]. intros y Hy. apply H. right; exact Hy.
  - intros p Hp Hp'. apply (Hd p); [rewrite E; apply in_or_app; right; exact Hp | exact (Hsub p Hp')].
Qed.

Lemma c05_NoDup_flat_map_each (A B : Type) (F : A -> list B) (L : list A) x :
  NoDup (flat_map F L) -> In x L -> NoDup (F x).
Proof.
  induction L as [|y L IH]; intros Hn Hx; [destruct Hx|]. cbn [flat_map] in Hn.
  apply c05_NoDup_app in Hn as (Hy & HL & _). destruct Hx as [<-|Hx]; [exact Hy | exact (IH HL Hx)].
Qed.

Lemma c05_version_eqb_eq a : forall b, version_eqb a b = true <-> a = b.
Proof.
  induction a as [|x a IH]; intros [|y b]; cbn [version_eqb]; split; intro H; try reflexivity; try discriminate H.
  - apply andb_true_iff in H as [H1 H2]. apply IH in H2. subst b. f_equal.
    destruct x as [x|], y as [y|]; cbn in H1; try discriminate H1; [apply Z.eqb_eq in H1; subst; reflexivity | reflexivity].
  - inversion H; subst. apply andb_true_iff. split; [|apply IH; reflexivity].
    destruct y as [y|]; cbn; [apply Z.eqb_refl | reflexivity].
Qed.

Lemma c05_upd_id qs : map (upd ints0) qs = qs.
Proof.
  induction qs as [|[v [m i]] t IH]; [reflexivity|]. cbn [map]. rewrite IH. reflexivity.
Qed.

Lemma c05_remove_upd m cur S0 :
  remove_unmergeable m (map (upd cur) S0) = map (upd (fun x => drop_unlisted m (cur x))) S0.
Proof. unfold remove_unmergeable. rewrite map_map. apply map_ext. intro x. reflexivity. Qed.

Lemma c05_path_stack_upd p cur qs : path_stack p (map (upd cur) qs) = map (upd cur) (path_stack p qs).
Proof. unfold path_stack. apply c05_filter_map_comm. intro x. reflexivity. Qed.

Lemma c05_drop_unlisted_app m A B :
  (forall e, In e A -> ~ In (q_pr e) m) ->
  (match B with [] => True | e :: _ => In (q_pr e) m end) ->
  drop_unlisted m (A ++ B) = B.
Proof.
  intros HA HB. induction A as [|a A IH]; cbn [app].
  - destruct B as [|e r]; [reflexivity|]. cbn [drop_unlisted]. apply c05_mem_z_In in HB. rewrite HB. reflexivity.
  - cbn [drop_unlisted]. assert (E : mem_z (q_pr a) m = false).
    { apply c05_mem_z_false. apply HA. left; reflexivity. }
    rewrite E. apply IH. intros e He. apply HA. right; exact He.
Qed.

Lemma c05_best_skip okf b : forall a,
  (forall a1 a2, a = a1 ++ a2 -> a2 <> [] -> okf (a2 ++ b) = false) -> best okf (a ++ b) = best okf b.
Proof.
  induction a as [|x a IH]; intro H; [reflexivity|]. cbn [app best].
  change (x :: a ++ b) with ((x :: a) ++ b). rewrite (H [] (x :: a) eq_refl) by discriminate.
  apply IH. intros a1 a2 E Hne. apply (H (x :: a1) a2); [rewrite E; reflexivity | exact Hne].
Qed.

Lemma c05_best_ext f g : forall l,
  (forall a l', l = a ++ l' -> f l' = g l') -> best f l = best g l.
Proof.
  induction l as [|x t IH]; intro H; [reflexivity|]. cbn [best]. rewrite (H [] (x :: t) eq_refl).
  rewrite IH; [reflexivity|]. intros a l' E. apply (H (x :: a) l'). rewrite E. reflexivity.
Qed.

(* ------------------------------------------------------------------------------------------------
   2. queues described by a function on the original entries                                        *)

Lemma c05_hotfix_queues_upd c S : hotfix_queues (map (upd c) S) = map (upd c) (hotfix_queues S).
Proof. unfold hotfix_queues. apply c05_filter_map_comm. intro x. reflexivity. Qed.

Lemma c05_hotfix_prs_upd c S : hotfix_prs (map (upd c) S) = flat_map (fun x => ids (c x)) (hotfix_queues S).
Proof. unfold hotfix_prs. rewrite c05_hotfix_queues_upd, c05_flat_map_map. reflexivity. Qed.

Lemma c05_hf_list_upd c S : hf_list (map (upd c) S) = flat_map (fun x => rev (ids (c x))) (hotfix_queues S).
Proof. unfold hf_list. rewrite c05_hotfix_queues_upd, c05_flat_map_map. reflexivity. Qed.

Lemma c05_last_dev_upd c S : last_dev (map (upd c) S) = option_map (upd c) (last_dev S).
Proof. unfold last_dev. rewrite <- map_rev, c05_find_map. reflexivity. Qed.

Lemma c05_entries_upd_le c S :
  (forall x, In x S -> (length (c x) <= length (ints0 x))%nat) -> (entries (map (upd c) S) <= entries S)%nat.
Proof.
  induction S as [|x S IH]; intro H; [apply Nat.le_refl|]. cbn [map]. rewrite !c05_entries_cons.
  cbn [upd snd set_ints q_ints]. pose proof (H x (or_introl eq_refl)) as Hx. unfold ints0 in Hx.
  assert (entries (map (upd c) S) <= entries S)%nat by (apply IH; intros y Hy; apply H; right; exact Hy). lia.
Qed.

Lemma c05_okS_nil st S : okS st S [] = true.
Proof. unfold okS. apply forallb_forall. intros x _. cbn [sel flat_map]. apply orb_true_r. Qed.

Section C05_Main.
  Variable st : Z -> string.
  Variable paths : list (list version).
  Variable order : list Z.
  Variable qs0 : queues.
  Hypothesis Hwf : WF paths order qs0.

  Lemma c05_main_sorted x :
    In x qs0 -> is_hotfix (fst x) = false -> ints0 x = sel (ints0 x) (rev order).
  Proof.
    intros Hx Ex. destruct x as [v qu]. apply c05_sorted_sel.
    - apply NoDup_rev. exact (wf_order_nodup _ _ _ Hwf).
    - apply (wf_sorted _ _ _ Hwf v qu). unfold main_queues. apply filter_In. split; [exact Hx|].
      cbn [fst] in *. rewrite Ex. reflexivity.
  Qed.

  Lemma c05_hf_on_path p v : is_hotfix v = true -> on_path p v = true.
  Proof.
    unfold is_hotfix, on_path. intro H. apply Nat.eqb_eq in H. rewrite H. apply orb_true_r.
  Qed.

  Lemma c05_stack_hf p : hotfix_queues (path_stack p qs0) = hotfix_queues qs0.
  Proof.
    unfold hotfix_queues, path_stack. apply c05_filter_filter. intros x Hx. apply c05_hf_on_path. exact Hx.
  Qed.

  Lemma c05_stack_in p x : In x (path_stack p qs0) <-> In x qs0 /\ on_path p (fst x) = true.
  Proof. unfold path_stack. apply filter_In. Qed.

  Lemma c05_stack_main_on_path p x :
    In x (path_stack p qs0) -> is_hotfix (fst x) = false -> In (fst x) p.
  Proof.
    intros Hx Ex. apply c05_stack_in in Hx as [Hx Hon]. destruct x as [v qu]. cbn [fst] in *.
    pose proof (wf_len _ _ _ Hwf v qu Hx) as Hlen. unfold is_hotfix in Ex. apply Nat.eqb_neq in Ex.
    unfold on_path in Hon. apply orb_true_iff in Hon as [Hon|Hon].
    - apply existsb_exists in Hon as (w & Hw & E). apply c05_version_eqb_eq in E. subst w. exact Hw.
    - exfalso. apply negb_true_iff in Hon. apply Nat.ltb_ge in Hon.
      change process_hf_len with 4%nat in Hon. lia.
  Qed.

  Lemma c05_on_path_in p x : In x qs0 -> In (fst x) p -> In x (path_stack p qs0).
  Proof.
    intros Hx Hp. apply c05_stack_in. split; [exact Hx|]. unfold on_path. apply orb_true_iff. left.
    apply existsb_exists. exists (fst x). split; [exact Hp | apply c05_version_eqb_eq; reflexivity].
  Qed.

  Lemma c05_stack_chain p : In p paths ->
    forall x y, In x (path_stack p qs0) -> In y (path_stack p qs0) ->
      is_hotfix (fst x) = false -> is_hotfix (fst y) = false ->
      incl (ids (ints0 x)) (ids (ints0 y)) \/ incl (ids (ints0 y)) (ids (ints0 x)).
  Proof.
    intros Hp x y Hx Hy Ex Ey.
    pose proof (c05_stack_main_on_path p x Hx Ex) as Px. pose proof (c05_stack_main_on_path p y Hy Ey) as Py.
    apply c05_stack_in in Hx as [Hx _]. apply c05_stack_in in Hy as [Hy _].
    destruct x as [u qu], y as [v qv]. cbn [fst] in *.
    apply (wf_vertical _ _ _ Hwf p u qu v qv Hp); try assumption;
      unfold main_queues; apply filter_In; cbn [fst]; split; try assumption.
    - rewrite Ex. reflexivity.
    - rewrite Ey. reflexivity.
  Qed.

  Lemma c05_stack_hf_prs p : hotfix_prs (path_stack p qs0) = hotfix_prs qs0.
  Proof. unfold hotfix_prs. rewrite c05_stack_hf. reflexivity. Qed.

  Lemma c05_good_sub p l cur : Good st qs0 l cur -> Good st (path_stack p qs0) l cur.
  Proof. intros H x Hx. apply H. apply c05_stack_in in Hx as [Hx _]. exact Hx. Qed.

  Lemma c05_good_entries l cur a :
    rev order = a ++ l -> Good st qs0 l cur -> (entries (map (upd cur) qs0) <= entries qs0)%nat.
  Proof.
    intros Hro Hg. apply c05_entries_upd_le. intros x Hx. destruct (Hg x Hx) as [Hh Hm].
    destruct (is_hotfix (fst x)) eqn:Ex.
    - destruct (Hh eq_refl) as (pre & Hp & _). rewrite Hp, app_length. lia.
    - rewrite (Hm eq_refl). rewrite (c05_main_sorted x Hx Ex) at 2. rewrite Hro, c05_sel_app, app_length. lia.
  Qed.

  (* the hotfix part of every list: each hotfix queue cut at its first green commit *)
  Definition HFfin : list Z :=
    flat_map (fun x => rev (ids (dropbad st (ints0 x)))) (hotfix_queues qs0).

  Lemma c05_HFfin_in p : In p HFfin -> In p (hotfix_prs qs0).
  Proof.
    unfold HFfin, hotfix_prs. intro H. apply in_flat_map in H as (x & Hx & Hp). apply in_flat_map.
    exists x. split; [exact Hx|]. apply in_rev in Hp. unfold ids in Hp. apply in_map_iff in Hp as (e & He & Hin).
    destruct (c05_dropbad_suffix st (ints0 x)) as (pre & E & _). unfold pr_ids. fold (ints0 x). rewrite E.
    rewrite map_app. apply in_or_app. right. rewrite <- He. apply in_map. exact Hin.
  Qed.

  Lemma c05_last_dev_nonhf g qu : last_dev qs0 = Some (g, qu) -> is_hotfix g = false /\ In (g, qu) qs0.
  Proof.
    unfold last_dev. intro H. apply find_some in H as [Hin Hl]. cbn [fst] in Hl. split.
    - unfold is_hotfix. apply Nat.eqb_eq in Hl. rewrite Hl. reflexivity.
    - apply in_rev. exact Hin.
  Qed.

  Lemma c05_last_dev_stack p : In p paths -> last_dev (path_stack p qs0) = last_dev qs0.
  Proof.
    intro Hp. unfold last_dev at 1. unfold path_stack. rewrite <- c05_filter_rev. fold (last_dev qs0).
    destruct (last_dev qs0) as [[g qu]|] eqn:E.
    - apply c05_find_filter_some; [exact E|]. cbn [fst].
      pose proof (wf_last_on_paths _ _ _ Hwf) as H. rewrite E in H. specialize (H p Hp).
      unfold on_path. apply orb_true_iff. left. apply existsb_exists. exists g. split; [exact H|].
      apply c05_version_eqb_eq. reflexivity.
    - apply c05_find_filter_none. exact E.
  Qed.

  Lemma c05_path_prs fuel p l cur a :
    In p paths -> rev order = a ++ l -> Good st qs0 l cur -> (entries qs0 <= fuel)%nat ->
    path_prs fuel st (map (upd cur) qs0) p = Ok (HFfin ++ rev (best (okS st (path_stack p qs0)) l)).
  Proof.
    intros Hp Hro Hg Hfuel. unfold path_prs. rewrite c05_path_stack_upd.
    set (S := path_stack p qs0).
    assert (Hent : (entries (map (upd cur) S) <= fuel)%nat).
    { unfold S. rewrite <- c05_path_stack_upd. unfold path_stack.
      pose proof (c05_entries_filter (fun vq => on_path p (fst vq)) (map (upd cur) qs0)).
      pose proof (c05_good_entries l cur a Hro Hg). lia. }
    destruct (c05_lookup_shape st order S (wf_order_nodup _ _ _ Hwf) (wf_order_pos _ _ _ Hwf)) with
        (fuel := fuel) (l := l) (cur := cur) (a := a) as (cur' & Hrl & Hfin).
    - unfold S. rewrite c05_stack_hf_prs. exact (wf_hf_nodup _ _ _ Hwf).
    - unfold S. rewrite c05_stack_hf_prs. exact (wf_hf_pos _ _ _ Hwf).
    - unfold S. rewrite c05_stack_hf_prs. exact (wf_hf_disjoint _ _ _ Hwf).
    - exact (c05_stack_chain p Hp).
    - exact Hro.
    - exact (c05_good_sub p l cur Hg).
    - exact Hent.
    - rewrite Hrl. f_equal. set (b := best (okS st S) l) in *.
      rewrite (map_ext_in (upd cur') (upd (fin st b)) S)
        by (intros x Hx; unfold upd; rewrite (Hfin x Hx); reflexivity).
      destruct (c05_best_spec (okS st S) l) as (ab & Hab & _ & _). fold b in Hab.
      assert (Hndb : NoDup b).
      { pose proof (NoDup_rev (wf_order_nodup _ _ _ Hwf)) as Hn. rewrite Hro, Hab in Hn.
        apply c05_NoDup_app in Hn as (_ & Hn & _). apply c05_NoDup_app in Hn as (_ & Hn & _). exact Hn. }
      assert (Hbo : forall q, In q b -> In q order).
      { intros q Hq. apply in_rev. rewrite Hro, Hab. apply in_or_app. right. apply in_or_app. right. exact Hq. }
      assert (Hhfeq : flat_map (fun x => rev (ids (fin st b x))) (hotfix_queues S) = HFfin).
      { unfold S. rewrite c05_stack_hf. unfold HFfin. apply c05_flat_map_ext_in. intros x Hx.
        unfold hotfix_queues in Hx. apply filter_In in Hx as [_ Hx]. unfold fin. rewrite Hx. reflexivity. }
      assert (Hhfprs : forall q, In q (hotfix_prs (map (upd (fin st b)) S)) -> In q (hotfix_prs qs0)).
      { intros q Hq. rewrite c05_hotfix_prs_upd in Hq. apply c05_HFfin_in. rewrite <- Hhfeq.
        apply in_flat_map in Hq as (x & Hx & Hq). apply in_flat_map. exists x. split; [exact Hx|].
        apply -> in_rev. exact Hq. }
      rewrite c05_extract.
      + rewrite c05_hf_list_upd, c05_last_dev_upd, Hhfeq. f_equal. unfold S.
        rewrite (c05_last_dev_stack p Hp).
        pose proof (wf_last_dev _ _ _ Hwf) as Hld.
        destruct (last_dev qs0) as [[g qu]|] eqn:Eg; cbn [option_map upd fst snd].
        * destruct (c05_last_dev_nonhf g qu Eg) as [Ehf _].
          unfold pr_ids. cbn [set_ints q_ints]. unfold fin. cbn [fst]. rewrite Ehf. fold (ids (sel (ints0 (g, qu)) b)).
          rewrite c05_sel_ids_incl; [reflexivity| |exact Hndb].
          change (ids (ints0 (g, qu))) with (pr_ids qu). rewrite Hld. intros q Hq. apply -> in_rev. exact (Hbo q Hq).
        * subst order. cbn [rev] in Hro. destruct a; [|discriminate Hro]. cbn [app] in Hro. subst l.
          reflexivity.
      + rewrite c05_hotfix_prs_upd. unfold S. rewrite c05_stack_hf.
        apply (c05_NoDup_flat_map_sub _ _ (fun x => pr_ids (snd x)) (fun x => ids (fin st b x))).
        * intros x Hx. unfold hotfix_queues in Hx. apply filter_In in Hx as [_ Hx]. unfold fin. rewrite Hx.
          destruct (c05_dropbad_suffix st (ints0 x)) as (pre & E & _). exists (ids pre).
          unfold pr_ids. fold (ints0 x). rewrite E at 1. apply map_app.
        * exact (wf_hf_nodup _ _ _ Hwf).
      + rewrite c05_last_dev_upd. unfold S. rewrite (c05_last_dev_stack p Hp).
        destruct (last_dev qs0) as [[g qu]|] eqn:Eg; cbn [option_map upd fst snd]; [|exact I].
        destruct (c05_last_dev_nonhf g qu Eg) as [Ehf _].
        unfold pr_ids. cbn [set_ints q_ints]. unfold fin. cbn [fst]. rewrite Ehf. fold (ids (sel (ints0 (g, qu)) b)).
        pose proof (wf_last_dev _ _ _ Hwf) as Hld. rewrite Eg in Hld.
        rewrite c05_sel_ids_incl; [| |exact Hndb].
        * split; [exact Hndb|]. intros q Hq Hq'. apply Hhfprs in Hq'.
          exact (wf_hf_disjoint _ _ _ Hwf q Hq' (Hbo q Hq)).
        * change (ids (ints0 (g, qu))) with (pr_ids qu). rewrite Hld. intros q Hq. apply -> in_rev. exact (Hbo q Hq).
  Qed.
End C05_Main.

(* ------------------------------------------------------------------------------------------------
   3. one pass over the merge paths, and the iteration                                              *)

Lemma c05_one_pass_char fuel st qs (Lf : list version -> list Z) : forall paths m,
  (forall p, In p paths -> path_prs fuel st qs p = Ok (Lf p)) ->
  exists m', one_pass fuel st qs paths m = Ok m'
             /\ (m' = m \/ exists p, In p paths /\ m' = Lf p)
             /\ (length m' <= length m)%nat
             /\ forall p, In p paths -> (length m' <= length (Lf p))%nat.
Proof.
  induction paths as [|p t IH]; intros m H; cbn [one_pass].
  - exists m. repeat split; [left; reflexivity | apply Nat.le_refl | intros p []].
  - rewrite (H p (or_introl eq_refl)).
    assert (Ht : forall q, In q t -> path_prs fuel st qs q = Ok (Lf q)) by (intros q Hq; apply H; right; exact Hq).
    destruct (Nat.ltb_spec (length (Lf p)) (length m)) as [Hlt|Hge].
    + destruct (IH (Lf p) Ht) as (m' & E & Hc & Hle & Hall). exists m'. repeat split.
      * exact E.
      * destruct Hc as [->|(q & Hq & ->)]; right; [exists p; split; [left; reflexivity|reflexivity] | exists q; split; [right; exact Hq|reflexivity]].
      * lia.
      * intros q [<-|Hq]; [exact Hle | exact (Hall q Hq)].
    + destruct (IH m Ht) as (m' & E & Hc & Hle & Hall). exists m'. repeat split.
      * exact E.
      * destruct Hc as [->|(q & Hq & ->)]; [left; reflexivity | right; exists q; split; [right; exact Hq|reflexivity]].
      * exact Hle.
      * intros q [<-|Hq]; [lia | exact (Hall q Hq)].
Qed.

Lemma c05_rev_ids_len I : length (rev (ids I)) = length I.
Proof. unfold ids. rewrite rev_length, map_length. reflexivity. Qed.

Lemma c05_hf_len_le (A : Type) st (c : A -> list qint) L :
  (length (flat_map (fun x => rev (ids (dropbad st (c x)))) L)
   <= length (flat_map (fun x => rev (ids (c x))) L))%nat.
Proof.
  induction L as [|x L IH]; [apply Nat.le_refl|]. cbn [flat_map]. rewrite !app_length, !c05_rev_ids_len.
  pose proof (c05_dropbad_len st (c x)). lia.
Qed.

Lemma c05_hf_len_eq (A : Type) st (c : A -> list qint) L :
  length (flat_map (fun x => rev (ids (dropbad st (c x)))) L)
  = length (flat_map (fun x => rev (ids (c x))) L) ->
  forall x, In x L -> dropbad st (c x) = c x.
Proof.
  induction L as [|y L IH]; intros H x Hx; [destruct Hx|]. cbn [flat_map] in H.
  rewrite !app_length, !c05_rev_ids_len in H.
  pose proof (c05_dropbad_len st (c y)) as H1. pose proof (c05_hf_len_le A st c L) as H2.
  destruct Hx as [<-|Hx].
  - destruct (c05_dropbad_suffix st (c y)) as (pre & E & _). symmetry.
    apply (c05_suffix_same_length _ (c y) pre (dropbad st (c y)) E). lia.
  - apply IH; [lia | exact Hx].
Qed.

Lemma c05_okS_mono st S S' s : (forall x, In x S -> In x S') -> okS st S' s = true -> okS st S s = true.
Proof.
  intros Hsub H. unfold okS in *. rewrite forallb_forall in *. intros x Hx. apply H. apply Hsub. exact Hx.
Qed.

Lemma c05_nonempty_in (A : Type) (l : list A) : l <> [] -> exists x, In x l.
Proof. destruct l as [|x t]; intro H; [contradiction | exists x; left; reflexivity]. Qed.

Section C05_Loop.
  Variable st : Z -> string.
  Variable paths : list (list version).
  Variable order : list Z.
  Variable qs0 : queues.
  Hypothesis Hwf : WF paths order qs0.

  Definition hfl (cur : version * queue -> list qint) : list Z :=
    flat_map (fun x => rev (ids (cur x))) (hotfix_queues qs0).
  Definition okAll : list Z -> bool := okS st qs0.
  Definition Lf (l : list Z) (p : list version) : list Z :=
    HFfin st qs0 ++ rev (best (okS st (path_stack p qs0)) l).

  Lemma c05_hf_dropbad_cur l cur x :
    Good st qs0 l cur -> In x (hotfix_queues qs0) -> dropbad st (ints0 x) = dropbad st (cur x).
  Proof.
    intros Hg Hx. unfold hotfix_queues in Hx. apply filter_In in Hx as [Hx Ex].
    destruct (Hg x Hx) as [Hh _]. destruct (Hh Ex) as (pre & Hp & Hb). rewrite Hp. apply c05_dropbad_app. exact Hb.
  Qed.

  Lemma c05_HFfin_cur l cur :
    Good st qs0 l cur -> HFfin st qs0 = flat_map (fun x => rev (ids (dropbad st (cur x)))) (hotfix_queues qs0).
  Proof.
    intro Hg. unfold HFfin. apply c05_flat_map_ext_in. intros x Hx. rewrite (c05_hf_dropbad_cur l cur x Hg Hx).
    reflexivity.
  Qed.

  Lemma c05_best_len okf l : (length (best okf l) <= length l)%nat.
  Proof. destruct (c05_best_spec okf l) as (a & E & _). rewrite E at 2. rewrite app_length. lia. Qed.

  Lemma c05_loop_stop l cur a m m' :
    rev order = a ++ l -> Good st qs0 l cur -> m = hfl cur ++ rev l ->
    best okAll (rev order) = best okAll l ->
    (m' = m \/ exists p, In p paths /\ m' = Lf l p) ->
    (forall p, In p paths -> (length m' <= length (Lf l p))%nat) ->
    length m' = length m ->
    m' = HFfin st qs0 ++ rev (best okAll (rev order)).
  Proof.
    intros Hro Hg Hm Hinv Hc Hall Hlen.
    pose proof (c05_HFfin_cur l cur Hg) as HF.
    assert (Hle1 : (length (HFfin st qs0) <= length (hfl cur))%nat).
    { rewrite HF. unfold hfl. apply c05_hf_len_le. }
    assert (Hm_len : length m = (length (hfl cur) + length l)%nat).
    { rewrite Hm, app_length, rev_length. reflexivity. }
    assert (Hb : forall p, In p paths -> best (okS st (path_stack p qs0)) l = l
                                         /\ length (HFfin st qs0) = length (hfl cur)).
    { intros p Hp. specialize (Hall p Hp). unfold Lf in Hall. rewrite app_length, rev_length in Hall.
      pose proof (c05_best_len (okS st (path_stack p qs0)) l) as Hbl.
      destruct (c05_best_spec (okS st (path_stack p qs0)) l) as (ab & E & _). split; [|lia].
      symmetry. apply (c05_suffix_same_length _ l ab _ E). lia. }
    destruct (c05_nonempty_in _ paths (wf_paths _ _ _ Hwf)) as [p1 Hp1].
    destruct (Hb p1 Hp1) as [_ HlenF].
    assert (HFeq : HFfin st qs0 = hfl cur).
    { rewrite HF. unfold hfl. apply c05_flat_map_ext_in. intros x Hx.
      rewrite (c05_hf_len_eq _ st cur (hotfix_queues qs0)); [reflexivity| |exact Hx].
      rewrite <- HF. exact HlenF. }
    assert (Hmm : m' = m).
    { destruct Hc as [H|(p & Hp & H)]; [exact H|]. rewrite H, Hm. unfold Lf.
      destruct (Hb p Hp) as [-> _]. rewrite HFeq. reflexivity. }
    assert (Hok : okAll l = true).
    { unfold okAll, okS. apply forallb_forall. intros x Hx.
      destruct (is_hotfix (fst x)) eqn:Ex; [reflexivity|]. cbn [orb].
      destruct x as [v qu].
      destruct (wf_covered _ _ _ Hwf v qu) as (p & Hp & Hv).
      { unfold main_queues. apply filter_In. split; [exact Hx|]. cbn [fst] in *. rewrite Ex. reflexivity. }
      destruct (Hb p Hp) as [Hbp _].
      assert (Hokp : okS st (path_stack p qs0) l = true).
      { destruct (c05_best_spec (okS st (path_stack p qs0)) l) as (_ & _ & _ & [H|H]).
        - rewrite Hbp in H. subst l. apply c05_okS_nil.
        - rewrite Hbp in H. exact H. }
      unfold okS in Hokp. rewrite forallb_forall in Hokp.
      specialize (Hokp (v, qu) (c05_on_path_in qs0 p (v, qu) Hx Hv)). rewrite Ex in Hokp. exact Hokp. }
    rewrite Hmm, Hm, Hinv, HFeq. rewrite c05_best_fix; [reflexivity|]. right; exact Hok.
  Qed.

  Lemma c05_hf_ids_nodup x : In x (hotfix_queues qs0) -> NoDup (ids (ints0 x)).
  Proof.
    intro Hx. exact (c05_NoDup_flat_map_each _ _ (fun vq => pr_ids (snd vq)) (hotfix_queues qs0) x
                       (wf_hf_nodup _ _ _ Hwf) Hx).
  Qed.

  Lemma c05_loop_step l cur a p :
    rev order = a ++ l -> Good st qs0 l cur -> In p paths ->
    let b := best (okS st (path_stack p qs0)) l in
    let m' := Lf l p in
    let cur' := fun x => drop_unlisted m' (cur x) in
    (exists a', rev order = a' ++ b) /\ Good st qs0 b cur' /\ m' = hfl cur' ++ rev b
    /\ best okAll l = best okAll b.
  Proof.
    intros Hro Hg Hp b m' cur'.
    destruct (c05_best_spec (okS st (path_stack p qs0)) l) as (ab & Hab & Hbad & _). fold b in Hab, Hbad.
    pose proof (NoDup_rev (wf_order_nodup _ _ _ Hwf)) as Hndro. rewrite Hro in Hndro.
    apply c05_NoDup_app in Hndro as (_ & Hndl & _). rewrite Hab in Hndl.
    apply c05_NoDup_app in Hndl as (_ & _ & Hdis).
    assert (Hlo : forall q, In q l -> In q order).
    { intros q Hq. apply in_rev. rewrite Hro. apply in_or_app. right; exact Hq. }
    assert (Hm'in : forall q, In q m' -> In q (hotfix_prs qs0) \/ In q b).
    { intros q Hq. unfold m', Lf in Hq. apply in_app_or in Hq as [Hq|Hq].
      - left. exact (c05_HFfin_in st qs0 q Hq).
      - right. apply in_rev in Hq. exact Hq. }
    (* the hotfix queues end up cut at their first green commit *)
    assert (Hhf : forall x, In x (hotfix_queues qs0) -> cur' x = dropbad st (ints0 x)).
    { intros x Hx. pose proof Hx as Hx'. unfold hotfix_queues in Hx'. apply filter_In in Hx' as [Hxq Ex].
      destruct (Hg x Hxq) as [Hh _]. destruct (Hh Ex) as (pre & Hpre & Hbpre).
      rewrite (c05_hf_dropbad_cur l cur x Hg Hx).
      destruct (c05_dropbad_suffix st (cur x)) as (pre2 & Hp2 & _).
      unfold cur'. rewrite Hp2 at 1. apply c05_drop_unlisted_app.
      - intros e He Hin.
        assert (Hex : In (q_pr e) (ids (ints0 x))).
        { rewrite Hpre, Hp2. unfold ids. rewrite !map_app. apply in_or_app. right. apply in_or_app. left.
          apply in_map. exact He. }
        destruct (Hm'in _ Hin) as [_|Hb'].
        + (* it would be both before and after the first green commit of its queue *)
          unfold m', Lf in Hin. apply in_app_or in Hin as [Hin|Hin].
          * unfold HFfin in Hin. apply in_flat_map in Hin as (y & Hy & Hin). apply in_rev in Hin.
            pose proof Hy as Hy'. unfold hotfix_queues in Hy'. apply filter_In in Hy' as [Hyq Ey].
            assert (Hey : In (q_pr e) (ids (ints0 y))).
            { destruct (c05_dropbad_suffix st (ints0 y)) as (py & Epy & _). rewrite Epy. unfold ids.
              rewrite map_app. apply in_or_app. right. exact Hin. }
            assert (x = y) by exact (c05_hf_unique qs0 (wf_hf_nodup _ _ _ Hwf) x y (q_pr e) Hxq Hyq Ex Ey Hex Hey).
            subst y. rewrite (c05_hf_dropbad_cur l cur x Hg Hx) in Hin.
            pose proof (c05_hf_ids_nodup x Hx) as Hnd. rewrite Hpre, Hp2 in Hnd. unfold ids in Hnd.
            rewrite !map_app in Hnd. apply c05_NoDup_app in Hnd as (_ & Hnd & _).
            apply c05_NoDup_app in Hnd as (_ & _ & Hd). apply (Hd (q_pr e)); [apply in_map; exact He | exact Hin].
          * apply in_rev in Hin. apply (wf_hf_disjoint _ _ _ Hwf (q_pr e)).
            -- unfold hotfix_prs. apply in_flat_map. exists x. split; [exact Hx | exact Hex].
            -- apply Hlo. rewrite Hab. apply in_or_app. right; exact Hin.
        + apply (wf_hf_disjoint _ _ _ Hwf (q_pr e)).
          * unfold hotfix_prs. apply in_flat_map. exists x. split; [exact Hx | exact Hex].
          * apply Hlo. rewrite Hab. apply in_or_app. right; exact Hb'.
      - destruct (dropbad st (cur x)) as [|e r] eqn:Ed; [exact I|].
        unfold m', Lf. apply in_or_app. left. unfold HFfin. apply in_flat_map. exists x. split; [exact Hx|].
        apply -> in_rev. rewrite (c05_hf_dropbad_cur l cur x Hg Hx), Ed. left; reflexivity. }
    split; [|split; [|split]].
    - exists (a ++ ab). rewrite Hro, Hab, app_assoc. reflexivity.
    - intros x Hx. destruct (Hg x Hx) as [Hh Hm]. split; intro Ex.
      + assert (Hxh : In x (hotfix_queues qs0)) by (unfold hotfix_queues; apply filter_In; split; assumption).
        rewrite (Hhf x Hxh). destruct (c05_dropbad_suffix st (ints0 x)) as (pre & E & Hb'). exists pre. split; assumption.
      + unfold cur'. rewrite (Hm Ex), Hab, c05_sel_app. apply c05_drop_unlisted_app.
        * intros e He Hin. apply c05_sel_In in He as [He _]. destruct (Hm'in _ Hin) as [Hh'|Hb'].
          -- apply (wf_hf_disjoint _ _ _ Hwf (q_pr e) Hh'). apply Hlo. rewrite Hab. apply in_or_app. left; exact He.
          -- exact (Hdis _ He Hb').
        * destruct (sel (ints0 x) b) as [|e r] eqn:Es; [exact I|].
          assert (He : In e (sel (ints0 x) b)) by (rewrite Es; left; reflexivity).
          apply c05_sel_In in He as [He _]. unfold m', Lf. apply in_or_app. right. apply -> in_rev. exact He.
    - unfold m', Lf. f_equal. unfold HFfin, hfl. apply c05_flat_map_ext_in. intros x Hx.
      rewrite (Hhf x Hx). reflexivity.
    - rewrite Hab at 1. apply c05_best_skip. intros a1 a2 E Hne.
      destruct (okAll (a2 ++ b)) eqn:Eok; [|reflexivity].
      rewrite <- (Hbad a1 a2 E Hne). symmetry.
      apply (c05_okS_mono st (path_stack p qs0) qs0); [|exact Eok].
      intros x Hx. apply (c05_stack_in qs0 p x) in Hx as [Hx _]. exact Hx.
  Qed.

  Lemma c05_loop fuel : (entries qs0 <= fuel)%nat -> forall n l cur a m,
    rev order = a ++ l -> Good st qs0 l cur -> m = hfl cur ++ rev l -> (length m <= n)%nat ->
    best okAll (rev order) = best okAll l ->
    process_loop n fuel st paths (map (upd cur) qs0) m = Ok (HFfin st qs0 ++ rev (best okAll (rev order))).
  Proof.
    intro Hfuel. induction n as [|n IH]; intros l cur a m Hro Hg Hm Hn Hinv; cbn [process_loop];
      (destruct (c05_one_pass_char fuel st (map (upd cur) qs0) (Lf l) paths m) as (m' & E & Hc & Hle & Hall);
       [ intros p Hp; exact (c05_path_prs st paths order qs0 Hwf fuel p l cur a Hp Hro Hg Hfuel) | ]);
      rewrite E; destruct (Nat.eqb_spec (length m') (length m)) as [Heq|Hne].
    - f_equal. exact (c05_loop_stop l cur a m m' Hro Hg Hm Hinv Hc Hall Heq).
    - exfalso. lia.
    - f_equal. exact (c05_loop_stop l cur a m m' Hro Hg Hm Hinv Hc Hall Heq).
    - destruct Hc as [Hc|(p & Hp & Hc)]; [exfalso; apply Hne; rewrite Hc; reflexivity|].
      destruct (c05_loop_step l cur a p Hro Hg Hp) as ((a' & Hro') & Hg' & Hm' & Hb').
      rewrite c05_remove_upd. rewrite Hc.
      apply (IH (best (okS st (path_stack p qs0)) l) (fun x => drop_unlisted (Lf l p) (cur x)) a' (Lf l p)).
      + exact Hro'.
      + exact Hg'.
      + exact Hm'.
      + rewrite <- Hc. lia.
      + rewrite Hinv. exact Hb'.
  Qed.
End C05_Loop.

(* ------------------------------------------------------------------------------------------------
   4. from the newest-first suffixes of the proofs to the oldest-first prefixes of the specification  *)

Lemma c05_longest_prefix_app okf o t : forall k, (k <= length o)%nat ->
  longest_prefix okf (o ++ t) k = longest_prefix okf o k.
Proof.
  induction k as [|k IH]; intro Hk; [reflexivity|]. cbn [longest_prefix].
  rewrite firstn_app. replace (S k - length o)%nat with O by lia. cbn [firstn]. rewrite app_nil_r.
  rewrite IH by lia. reflexivity.
Qed.

Lemma c05_longest_prefix_rev okf : (forall s, okf (rev s) = okf s) ->
  forall order, longest_prefix okf order (length order) = rev (best okf (rev order)).
Proof.
  intro Hrev. induction order as [|x o IH] using rev_ind; [reflexivity|].
  rewrite app_length. cbn [length]. rewrite Nat.add_1_r. cbn [longest_prefix].
  replace (firstn (S (length o)) (o ++ [x])) with (o ++ [x]).
  2:{ symmetry. apply firstn_all2. rewrite app_length. cbn [length]. lia. }
  rewrite rev_app_distr. cbn [rev app best].
  assert (E : okf (x :: rev o) = okf (o ++ [x])).
  { rewrite <- (Hrev (o ++ [x])). rewrite rev_app_distr. reflexivity. }
  rewrite E. destruct (okf (o ++ [x])).
  - cbn [rev]. rewrite rev_involutive. reflexivity.
  - rewrite c05_longest_prefix_app by apply Nat.le_refl. exact IH.
Qed.

Lemma c05_longest_prefix_firstn okf order : forall k,
  exists j, (j <= k)%nat /\ longest_prefix okf order k = firstn j order.
Proof.
  induction k as [|k IH]; [exists O; split; [apply Nat.le_refl | reflexivity]|]. cbn [longest_prefix].
  destruct (okf (firstn (S k) order)).
  - exists (S k). split; [apply Nat.le_refl | reflexivity].
  - destruct IH as (j & Hj & E). exists j. split; [lia | exact E].
Qed.

Lemma c05_longest_prefix_none okf order : forall k,
  (forall j, (0 < j <= k)%nat -> okf (firstn j order) = false) -> longest_prefix okf order k = [].
Proof.
  induction k as [|k IH]; intro H; [reflexivity|]. cbn [longest_prefix].
  rewrite (H (S k)) by lia. apply IH. intros j Hj. apply H. lia.
Qed.

Lemma c05_longest_prefix_ok okf order : okf [] = true -> forall k, okf (longest_prefix okf order k) = true.
Proof.
  intro H0. induction k as [|k IH]; [exact H0|]. cbn [longest_prefix].
  destruct (okf (firstn (S k) order)) eqn:E; [exact E | exact IH].
Qed.

Lemma c05_longest_prefix_max okf order : forall k j,
  (length (longest_prefix okf order k) < j <= k)%nat -> (j <= length order)%nat ->
  okf (firstn j order) = false.
Proof.
  induction k as [|k IH]; intros j Hj Hlen; [lia|]. cbn [longest_prefix] in Hj.
  destruct (okf (firstn (S k) order)) eqn:E.
  - rewrite firstn_length in Hj. lia.
  - destruct (Nat.eq_dec j (S k)) as [->|Hne]; [exact E|]. apply IH; lia.
Qed.

Lemma c05_mem_z_rev p s : mem_z p (rev s) = mem_z p s.
Proof.
  destruct (mem_z p s) eqn:E.
  - apply c05_mem_z_In. apply -> in_rev. apply c05_mem_z_In. exact E.
  - apply c05_mem_z_false. intro H. apply in_rev in H. apply c05_mem_z_false in E. exact (E H).
Qed.

Lemma c05_newest_selected_ext s s' I :
  (forall e, In e I -> mem_z (q_pr e) s = mem_z (q_pr e) s') -> newest_selected s I = newest_selected s' I.
Proof.
  unfold newest_selected. induction I as [|e t IH]; intro H; [reflexivity|]. cbn [find].
  rewrite (H e (or_introl eq_refl)). rewrite IH; [reflexivity|]. intros e' He'. apply H. right; exact He'.
Qed.

Lemma c05_all_green_rev st vs s : all_green st vs (rev s) = all_green st vs s.
Proof.
  unfold all_green. apply c05_forallb_ext_in. intros x _.
  rewrite (c05_newest_selected_ext (rev s) s); [reflexivity|]. intros e _. apply c05_mem_z_rev.
Qed.

(* a hotfix queue alone: its longest green prefix is what is left after dropping its non-green tips *)
Lemma c05_hf_best st x : forall J pre,
  ints0 x = pre ++ J -> NoDup (ids (ints0 x)) -> best (all_green st [x]) (ids J) = ids (dropbad st J).
Proof.
  induction J as [|e r IH]; intros pre HI Hnd; [reflexivity|].
  cbn [ids map best dropbad]. fold (ids r).
  assert (Hns : newest_selected (q_pr e :: ids r) (q_ints (snd x)) = Some e).
  { fold (ints0 x). rewrite HI. unfold newest_selected. rewrite c05_find_app_skip.
    - cbn [find]. unfold mem_z at 1. cbn [existsb]. rewrite Z.eqb_refl. reflexivity.
    - intros e' He'. apply c05_mem_z_false. intro Hin.
      rewrite HI in Hnd. unfold ids in Hnd. rewrite map_app in Hnd.
      apply c05_NoDup_app in Hnd as (_ & _ & Hd). apply (Hd (q_pr e')); [apply in_map; exact He' | exact Hin]. }
  unfold all_green at 1. cbn [forallb]. rewrite Hns. rewrite andb_true_r.
  rewrite c05_bad_green. destruct (green st e); cbn [negb].
  - reflexivity.
  - apply (IH (pre ++ [e])); [rewrite <- app_assoc; exact HI | exact Hnd].
Qed.

Lemma c05_hf_select st x :
  NoDup (ids (ints0 x)) -> select st [x] (entry_order (snd x)) = rev (ids (dropbad st (ints0 x))).
Proof.
  intro Hnd. unfold select, entry_order.
  rewrite (c05_longest_prefix_rev (all_green st [x]) (c05_all_green_rev st [x])).
  rewrite rev_involutive. f_equal. exact (c05_hf_best st x (ints0 x) [] eq_refl Hnd).
Qed.

(* ------------------------------------------------------------------------------------------------
   5. the theorems                                                                                  *)

Section C05_Final.
  Variable st : Z -> string.
  Variable paths : list (list version).
  Variable order : list Z.
  Variable qs0 : queues.
  Hypothesis Hwf : WF paths order qs0.

  Lemma c05_extract_all : extract_pr_ids qs0 = hf_list qs0 ++ order.
  Proof.
    pose proof (wf_last_dev _ _ _ Hwf) as Hld.
    rewrite c05_extract.
    - f_equal. destruct (last_dev qs0) as [[g qu]|].
      + rewrite Hld. apply rev_involutive.
      + symmetry; exact Hld.
    - exact (wf_hf_nodup _ _ _ Hwf).
    - destruct (last_dev qs0) as [[g qu]|]; [|exact I]. rewrite Hld. split.
      + apply NoDup_rev. exact (wf_order_nodup _ _ _ Hwf).
      + intros p Hp Hh. apply in_rev in Hp. exact (wf_hf_disjoint _ _ _ Hwf p Hh Hp).
  Qed.

  Lemma c05_good_init : Good st qs0 (rev order) ints0.
  Proof.
    intros x Hx. split; intro Ex.
    - exists []. split; reflexivity.
    - exact (c05_main_sorted paths order qs0 Hwf x Hx Ex).
  Qed.

  Lemma c05_okAll_spec a l :
    rev order = a ++ l -> all_green st (main_queues qs0) l = okAll st qs0 l.
  Proof.
    intro Hro. unfold all_green, main_queues, okAll, okS. rewrite c05_forallb_filter.
    apply c05_forallb_ext_in. intros x Hx. rewrite negb_involutive.
    destruct (is_hotfix (fst x)) eqn:Ex; [reflexivity|]. cbn [orb]. fold (ints0 x).
    rewrite (c05_newest_selected_sel (ints0 x) a l).
    - destruct (sel (ints0 x) l); reflexivity.
    - rewrite <- Hro. apply NoDup_rev. exact (wf_order_nodup _ _ _ Hwf).
    - rewrite <- Hro. exact (c05_main_sorted paths order qs0 Hwf x Hx Ex).
  Qed.

  Lemma c05_main_select : select st (main_queues qs0) order = rev (best (okAll st qs0) (rev order)).
  Proof.
    unfold select.
    rewrite (c05_longest_prefix_rev _ (c05_all_green_rev st (main_queues qs0))). f_equal.
    apply c05_best_ext. intros a l' E. exact (c05_okAll_spec a l' E).
  Qed.

  Lemma c05_hf_part :
    flat_map (fun x : version * queue => select st [x] (entry_order (snd x))) (hotfix_queues qs0) = HFfin st qs0.
  Proof.
    unfold HFfin. apply c05_flat_map_ext_in. intros x Hx. apply c05_hf_select.
    exact (c05_hf_ids_nodup paths order qs0 Hwf x Hx).
  Qed.

  Lemma c05_spec_prs_eq : spec_prs st false order qs0 = HFfin st qs0 ++ rev (best (okAll st qs0) (rev order)).
  Proof. unfold spec_prs. rewrite c05_hf_part, c05_main_select. reflexivity. Qed.

  Lemma c05_process_eq :
    process st paths false qs0
    = Ok (spec_prs st false order qs0, remove_unmergeable (spec_prs st false order qs0) qs0).
  Proof.
    unfold process, process_fuel.
    pose proof (c05_loop st paths order qs0 Hwf (entries qs0) (Nat.le_refl _)
                  (length (extract_pr_ids qs0)) (rev order) ints0 [] (extract_pr_ids qs0)) as H.
    rewrite c05_upd_id in H. rewrite H.
    - rewrite c05_spec_prs_eq. reflexivity.
    - reflexivity.
    - exact c05_good_init.
    - rewrite c05_extract_all, rev_involutive. reflexivity.
    - apply Nat.le_refl.
    - reflexivity.
  Qed.

  (* C05_full, non-forced half *)
  Theorem c05_evaluate_eq :
    evaluate st paths false qs0 = Ok (spec_prs st false order qs0, spec_moves st false order qs0).
  Proof.
    unfold evaluate. rewrite c05_process_eq. rewrite c05_moves_remove by exact (wf_master _ _ _ Hwf).
    reflexivity.
  Qed.

  (* with an admin force merge the whole queue is selected *)
  Theorem c05_evaluate_force :
    evaluate st paths true qs0 = Ok (spec_prs st true order qs0, spec_moves st true order qs0).
  Proof.
    unfold evaluate, process, process_fuel.
    assert (E : extract_pr_ids qs0 = spec_prs st true order qs0).
    { rewrite c05_extract_all. reflexivity. }
    rewrite E. rewrite c05_moves_remove by exact (wf_master _ _ _ Hwf). reflexivity.
  Qed.
End C05_Final.

(* ------------------------------------------------------------------------------------------------
   6. consequences: prefix, nothing qualifies, green moves, maximality, queued_prs                  *)

Lemma c05_firstn_len (A : Type) j (o : list A) : firstn (length (firstn j o)) o = firstn j o.
Proof.
  rewrite firstn_length. destruct (Nat.le_ge_cases j (length o)) as [H|H].
  - rewrite Nat.min_l by exact H. reflexivity.
  - rewrite Nat.min_r by exact H. rewrite firstn_all. symmetry. apply firstn_all2. exact H.
Qed.

Lemma c05_select_firstn st vs o : select st vs o = firstn (length (select st vs o)) o.
Proof.
  unfold select. destruct (c05_longest_prefix_firstn (all_green st vs) o (length o)) as (j & _ & E).
  rewrite E. symmetry. apply c05_firstn_len.
Qed.

Lemma c05_all_green_nil st vs : all_green st vs [] = true.
Proof. unfold all_green. apply forallb_forall. intros x _. unfold newest_selected. induction (q_ints (snd x)) as [|e t IH]; [reflexivity | exact IH]. Qed.

Lemma c05_select_green st vs o : all_green st vs (select st vs o) = true.
Proof. unfold select. apply c05_longest_prefix_ok. apply c05_all_green_nil. Qed.

Lemma c05_select_maximal st vs o j :
  (length (select st vs o) < j <= length o)%nat -> all_green st vs (firstn j o) = false.
Proof. intro H. unfold select in H. apply (c05_longest_prefix_max _ o (length o) j); lia. Qed.

Lemma c05_select_in st vs o p : In p (select st vs o) -> In p o.
Proof.
  rewrite c05_select_firstn. intro H. rewrite <- (firstn_skipn (length (select st vs o)) o).
  apply in_or_app. left; exact H.
Qed.

Lemma c05_newest_selected_nil I : newest_selected [] I = None.
Proof. unfold newest_selected. induction I as [|e t IH]; [reflexivity | exact IH]. Qed.

Lemma c05_flat_map_nil (A B : Type) (f : A -> list B) l : (forall x, In x l -> f x = []) -> flat_map f l = [].
Proof.
  induction l as [|x l IH]; intro H; [reflexivity|]. cbn [flat_map]. rewrite (H x (or_introl eq_refl)).
  apply IH. intros y Hy. apply H. right; exact Hy.
Qed.

Lemma c05_filter_all (A : Type) (P : A -> bool) l : (forall x, In x l -> P x = true) -> filter P l = l.
Proof.
  induction l as [|x l IH]; intro H; [reflexivity|]. cbn [filter]. rewrite (H x (or_introl eq_refl)).
  rewrite IH; [reflexivity|]. intros y Hy. apply H. right; exact Hy.
Qed.

Lemma c05_mem_z_app_skip p A B : ~ In p A -> mem_z p (A ++ B) = mem_z p B.
Proof.
  intro H. destruct (mem_z p B) eqn:E.
  - apply c05_mem_z_In. apply in_or_app. right. apply c05_mem_z_In. exact E.
  - apply c05_mem_z_false. intro Hin. apply in_app_or in Hin as [Hin|Hin]; [exact (H Hin)|].
    apply c05_mem_z_false in E. exact (E Hin).
Qed.

Section C05_Consequences.
  Variable st : Z -> string.
  Variable paths : list (list version).
  Variable order : list Z.
  Variable qs0 : queues.
  Hypothesis Hwf : WF paths order qs0.

  (* the selection is a prefix of the queue in order of entry, and a prefix of every hotfix queue *)
  Theorem c05_prefix :
    exists (k : nat) (kh : version * queue -> nat) mv,
      evaluate st paths false qs0
      = Ok (flat_map (fun x => firstn (kh x) (entry_order (snd x))) (hotfix_queues qs0) ++ firstn k order, mv).
  Proof.
    exists (length (select st (main_queues qs0) order)).
    exists (fun x => length (select st [x] (entry_order (snd x)))).
    exists (spec_moves st false order qs0).
    rewrite (c05_evaluate_eq st paths order qs0 Hwf). unfold spec_prs.
    rewrite <- c05_select_firstn. do 3 f_equal. apply c05_flat_map_ext_in. intros x _. apply c05_select_firstn.
  Qed.

  (* if no prefix qualifies nothing moves *)
  Theorem c05_empty :
    (forall j, (0 < j <= length order)%nat -> all_green st (main_queues qs0) (firstn j order) = false) ->
    (forall x j, In x (hotfix_queues qs0) -> (0 < j <= length (entry_order (snd x)))%nat ->
                 all_green st [x] (firstn j (entry_order (snd x))) = false) ->
    evaluate st paths false qs0 = Ok ([], map (fun x : version * queue => (fst x, None)) qs0).
  Proof.
    intros Hmain Hhf. rewrite (c05_evaluate_eq st paths order qs0 Hwf).
    assert (E : spec_prs st false order qs0 = []).
    { unfold spec_prs, select. rewrite (c05_longest_prefix_none _ order (length order) Hmain). rewrite app_nil_r.
      apply c05_flat_map_nil. intros x Hx. apply c05_longest_prefix_none. intros j Hj. exact (Hhf x j Hx Hj). }
    unfold spec_moves. rewrite E. do 2 f_equal. apply map_ext. intro x. rewrite c05_newest_selected_nil. reflexivity.
  Qed.

  Lemma c05_main_ids_order x p : In x qs0 -> is_hotfix (fst x) = false -> In p (ids (ints0 x)) -> In p order.
  Proof.
    intros Hx Ex Hp. destruct x as [v qu].
    assert (Hm : In (v, qu) (main_queues qs0)).
    { unfold main_queues. apply filter_In. split; [exact Hx|]. cbn [fst] in *. rewrite Ex. reflexivity. }
    pose proof (wf_sorted _ _ _ Hwf v qu Hm) as Hs. change (ids (ints0 (v, qu))) with (pr_ids qu) in Hp.
    rewrite Hs in Hp. apply filter_In in Hp as [Hp _]. apply in_rev. exact Hp.
  Qed.

  (* every destination that moves, moves to a commit with a SUCCESSFUL build *)
  Theorem c05_moves_green v e :
    In (v, Some e) (spec_moves st false order qs0) -> green st e = true.
  Proof.
    unfold spec_moves. intro H. apply in_map_iff in H as (x & E & Hx). inversion E as [[Ev Ens]]. clear E Ev.
    fold (ints0 x) in Ens.
    set (HF := flat_map (fun y : version * queue => select st [y] (entry_order (snd y))) (hotfix_queues qs0)) in *.
    set (M := select st (main_queues qs0) order) in *.
    assert (Hspec : spec_prs st false order qs0 = HF ++ M) by reflexivity.
    assert (HFin : forall p, In p HF -> exists y, In y (hotfix_queues qs0) /\ In p (ids (ints0 y))
                                                  /\ In p (select st [y] (entry_order (snd y)))).
    { intros p Hp. unfold HF in Hp. apply in_flat_map in Hp as (y & Hy & Hp). exists y. repeat split; try assumption.
      apply c05_select_in in Hp. unfold entry_order in Hp. apply in_rev in Hp. exact Hp. }
    assert (HFhf : forall p, In p HF -> In p (hotfix_prs qs0)).
    { intros p Hp. destruct (HFin p Hp) as (y & Hy & Hpy & _). unfold hotfix_prs. apply in_flat_map.
      exists y. split; assumption. }
    destruct (is_hotfix (fst x)) eqn:Ex.
    - (* a hotfix queue: only its own selection matters *)
      assert (Hxh : In x (hotfix_queues qs0)) by (unfold hotfix_queues; apply filter_In; split; assumption).
      pose proof (c05_select_green st [x] (entry_order (snd x))) as Hg.
      unfold all_green in Hg. cbn [forallb] in Hg. rewrite andb_true_r in Hg.
      rewrite (c05_newest_selected_ext (select st [x] (entry_order (snd x))) (spec_prs st false order qs0)) in Hg.
      + fold (ints0 x) in Hg. rewrite Ens in Hg. exact Hg.
      + intros e' He'. rewrite Hspec.
        assert (Hpe : In (q_pr e') (ids (ints0 x))) by (unfold ids; apply in_map; exact He').
        destruct (mem_z (q_pr e') (select st [x] (entry_order (snd x)))) eqn:Em; symmetry.
        * apply c05_mem_z_In. apply in_or_app. left. unfold HF. apply in_flat_map. exists x.
          split; [exact Hxh | apply c05_mem_z_In; exact Em].
        * apply c05_mem_z_false. intro Hin. apply c05_mem_z_false in Em. apply Em.
          apply in_app_or in Hin as [Hin|Hin].
          -- destruct (HFin _ Hin) as (y & Hy & Hpy & Hsel).
             pose proof Hy as Hy'. unfold hotfix_queues in Hy'. apply filter_In in Hy' as [Hyq Ey].
             assert (x = y) by exact (c05_hf_unique qs0 (wf_hf_nodup _ _ _ Hwf) x y _ Hx Hyq Ex Ey Hpe Hpy).
             subst y. exact Hsel.
          -- exfalso. apply (wf_hf_disjoint _ _ _ Hwf (q_pr e')).
             ++ unfold hotfix_prs. apply in_flat_map. exists x. split; assumption.
             ++ exact (c05_select_in _ _ _ _ Hin).
    - (* a version of the main queue: the hotfix selections do not reach it *)
      pose proof (c05_select_green st (main_queues qs0) order) as Hg. fold M in Hg.
      unfold all_green in Hg. rewrite forallb_forall in Hg.
      assert (Hxm : In x (main_queues qs0)).
      { unfold main_queues. apply filter_In. split; [exact Hx|]. rewrite Ex. reflexivity. }
      specialize (Hg x Hxm).
      rewrite (c05_newest_selected_ext M (spec_prs st false order qs0)) in Hg.
      + fold (ints0 x) in Hg. rewrite Ens in Hg. exact Hg.
      + intros e' He'. rewrite Hspec. symmetry. apply c05_mem_z_app_skip. intro Hin.
        apply (wf_hf_disjoint _ _ _ Hwf (q_pr e') (HFhf _ Hin)).
        apply (c05_main_ids_order x (q_pr e') Hx Ex). unfold ids. apply in_map. exact He'.
  Qed.

  (* queued_prs is "the queue in order of entry" when the newest development queue is the last
     non-hotfix key of _queues (see the Example below for what happens otherwise) *)
  Theorem c05_queued_prs :
    find (fun vq : version * queue => (length (fst vq) <? 4)%nat) (rev qs0) = last_dev qs0 ->
    queued_prs qs0 = hf_list qs0 ++ order.
  Proof.
    intro Hlast. unfold queued_prs.
    change (fold_left _ (rev qs0) []) with (hf_fold (rev qs0) []).
    change (find _ (rev qs0)) with (find (fun vq : version * queue => (length (fst vq) <? 4)%nat) (rev qs0)).
    rewrite Hlast, (c05_hf_fold qs0 (wf_hf_nodup _ _ _ Hwf)). f_equal.
    pose proof (wf_last_dev _ _ _ Hwf) as Hld.
    assert (E : match last_dev qs0 with Some (_, qu) => rev (map q_pr (q_ints qu)) | None => [] end = order).
    { destruct (last_dev qs0) as [[g qu]|]; [|symmetry; exact Hld].
      fold (pr_ids qu). rewrite Hld. apply rev_involutive. }
    rewrite E. apply c05_filter_all. intros p Hp. apply negb_true_iff. apply c05_mem_z_false.
    intro Hin. apply c05_hf_list_In in Hin. exact (wf_hf_disjoint _ _ _ Hwf p Hin Hp).
  Qed.
End C05_Consequences.

(* status abstraction for the whole evaluation *)
Theorem c05_status_abstraction st1 st2 paths force qs :
  (forall c, String.eqb (st1 c) "SUCCESSFUL" = String.eqb (st2 c) "SUCCESSFUL") ->
  evaluate st1 paths force qs = evaluate st2 paths force qs.
Proof. intro H. unfold evaluate. rewrite (c05_process_ext st1 st2 H). reflexivity. Qed.

Theorem c05_failed_abstraction st1 st2 qs :
  (forall c, String.eqb (st1 c) "FAILED" = String.eqb (st2 c) "FAILED") -> failed_prs st1 qs = failed_prs st2 qs.
Proof. exact (c05_failed_prs_ext st1 st2 qs). Qed.

(* ------------------------------------------------------------------------------------------------
   7. the executable well-formedness check is sound; examples                                       *)

Lemma c05_nodup_b_sound l : nodup_b l = true -> NoDup l.
Proof.
  induction l as [|x t IH]; intro H; [constructor|]. cbn [nodup_b] in H. apply andb_true_iff in H as [H1 H2].
  constructor; [|exact (IH H2)]. apply negb_true_iff in H1. apply c05_mem_z_false. exact H1.
Qed.

Lemma c05_zlist_eqb_eq a : forall b, zlist_eqb a b = true -> a = b.
Proof.
  induction a as [|x a IH]; intros [|y b] H; cbn [zlist_eqb] in H; try discriminate H; [reflexivity|].
  apply andb_true_iff in H as [H1 H2]. apply Z.eqb_eq in H1. subst y. rewrite (IH b H2). reflexivity.
Qed.

Lemma c05_incl_b_sound a b : incl_b a b = true -> incl a b.
Proof. unfold incl_b. rewrite forallb_forall. intros H x Hx. apply c05_mem_z_In. exact (H x Hx). Qed.

Lemma c05_existsb_version v path : In v path -> existsb (version_eqb v) path = true.
Proof. intro H. apply existsb_exists. exists v. split; [exact H | apply c05_version_eqb_eq; reflexivity]. Qed.

Lemma c05_existsb_version_in v path : existsb (version_eqb v) path = true -> In v path.
Proof. intro H. apply existsb_exists in H as (w & Hw & E). apply c05_version_eqb_eq in E. subst w. exact Hw. Qed.

Theorem c05_wf_b_sound paths order qs : wf_b paths order qs = true -> WF paths order qs.
Proof.
  unfold wf_b. intro H.
  apply andb_true_iff in H as [H H13]. apply andb_true_iff in H as [H H12].
  apply andb_true_iff in H as [H H11]. apply andb_true_iff in H as [H H10].
  apply andb_true_iff in H as [H H9]. apply andb_true_iff in H as [H H8].
  apply andb_true_iff in H as [H H7]. apply andb_true_iff in H as [H H6].
  apply andb_true_iff in H as [H H5]. apply andb_true_iff in H as [H H4].
  apply andb_true_iff in H as [H H3]. apply andb_true_iff in H as [H1 H2].
  rewrite forallb_forall in H2, H3, H4, H5, H8, H9, H11, H13.
  constructor.
  - exact (c05_nodup_b_sound _ H1).
  - intros p Hp. apply Z.ltb_lt. exact (H2 p Hp).
  - intros v qu Hin. specialize (H3 (v, qu) Hin). apply Nat.leb_le in H3. exact H3.
  - intros v qu Hin. exact (H4 (v, qu) Hin).
  - intros v qu Hin. exact (c05_zlist_eqb_eq _ _ (H5 (v, qu) Hin)).
  - destruct (last_dev qs) as [[g qu]|]; [exact (c05_zlist_eqb_eq _ _ H6)|].
    destruct order; [reflexivity | discriminate H6].
  - exact (c05_nodup_b_sound _ H7).
  - intros p Hp. apply Z.ltb_lt. exact (H8 p Hp).
  - intros p Hp. specialize (H9 p Hp). apply negb_true_iff in H9. apply c05_mem_z_false. exact H9.
  - destruct paths; [discriminate H10 | discriminate].
  - intros v qu Hin. specialize (H11 (v, qu) Hin). apply existsb_exists in H11 as (path & Hp & Hv).
    exists path. split; [exact Hp | exact (c05_existsb_version_in _ _ Hv)].
  - destruct (last_dev qs) as [[g qu]|]; [|exact I]. rewrite forallb_forall in H12.
    intros path Hp. exact (c05_existsb_version_in _ _ (H12 path Hp)).
  - intros path u qu v qv Hp Hu Hv Iu Iv. specialize (H13 path Hp). rewrite forallb_forall in H13.
    specialize (H13 (u, qu) Hu). rewrite forallb_forall in H13. specialize (H13 (v, qv) Hv).
    cbn [fst snd] in H13. rewrite (c05_existsb_version u path Iu), (c05_existsb_version v path Iv) in H13.
    cbn [negb orb] in H13. apply orb_true_iff in H13 as [H13|H13]; [left | right]; exact (c05_incl_b_sound _ _ H13).
Qed.

(* The F1 state of DESIGN 1.2: PR1 -> development/4.3, PR2 -> stabilization/5.1.4, PR3 -> development/4.3
   over development/4.3, stabilization/5.1.4, development/5.1, development/10.0; commits 0 (q/w/1/4.3)
   and 3 (q/w/2/5.1.4) FAILED, everything else SUCCESSFUL. *)
Definition c05_v (l : list Z) : version := map Some l.
Definition c05_e (p c : Z) : qint := {| q_pr := p; q_commit := c |}.
Definition c05_f1_queues : queues :=
  [ (c05_v [4; 3],    {| q_master := true; q_ints := [c05_e 3 6; c05_e 1 0] |});
    (c05_v [5; 1; 4], {| q_master := true; q_ints := [c05_e 2 3] |});
    (c05_v [5; 1],    {| q_master := true; q_ints := [c05_e 3 7; c05_e 2 4; c05_e 1 1] |});
    (c05_v [10; 0],   {| q_master := true; q_ints := [c05_e 3 8; c05_e 2 5; c05_e 1 2] |}) ].
Definition c05_f1_paths : list (list version) :=
  get_merge_paths [ {| c_dev := Some (c05_v [4; 3]); c_stab := None; c_hf := None |};
                    {| c_dev := Some (c05_v [5; 1]); c_stab := Some (c05_v [5; 1; 4]); c_hf := None |};
                    {| c_dev := Some (c05_v [10; 0]); c_stab := None; c_hf := None |} ].
Definition c05_f1_status (c : Z) : string := if (c =? 0) || (c =? 3) then "FAILED"%string else "SUCCESSFUL"%string.

Example c05_f1_wf : WF c05_f1_paths [1; 2; 3] c05_f1_queues.
Proof. apply c05_wf_b_sound. vm_compute. reflexivity. Qed.

Example c05_f1_paths_value :
  c05_f1_paths = [ [c05_v [4; 3]; c05_v [5; 1]; c05_v [10; 0]]; [c05_v [5; 1; 4]; c05_v [5; 1]; c05_v [10; 0]] ].
Proof. vm_compute. reflexivity. Qed.

(* the repaired algorithm (the model) selects nothing there, as the specification says *)
Example c05_f1_repaired :
  evaluate c05_f1_status c05_f1_paths false c05_f1_queues
  = Ok ([], [(c05_v [4; 3], None); (c05_v [5; 1; 4], None); (c05_v [5; 1], None); (c05_v [10; 0], None)])
  /\ spec_prs c05_f1_status false [1; 2; 3] c05_f1_queues = [].
Proof. vm_compute. split; reflexivity. Qed.

(* the algorithm before the repair: one pass over the merge paths, "shortest list wins", no second look.
   On the F1 state it selects [1] and development/4.3 would move to commit 0, which FAILED. *)
Definition c05_process_unrepaired (st : Z -> string) (paths : list (list version)) (qs : queues)
  : result (list Z * queues) :=
  match one_pass (entries qs) st qs paths (extract_pr_ids qs) with
  | Ok m => Ok (m, remove_unmergeable m qs)
  | Err e => Err e
  end.

Example c05_f1_unrepaired :
  exists mq, c05_process_unrepaired c05_f1_status c05_f1_paths c05_f1_queues = Ok ([1], mq)
             /\ moves mq = Ok [(c05_v [4; 3], Some (c05_e 1 0)); (c05_v [5; 1; 4], None);
                               (c05_v [5; 1], Some (c05_e 1 1)); (c05_v [10; 0], Some (c05_e 1 2))]
             /\ green c05_f1_status (c05_e 1 0) = false.
Proof. eexists. vm_compute. repeat split; reflexivity. Qed.

(* a state with a hotfix queue, a selection that is neither empty nor everything *)
Definition c05_hf_queues : queues :=
  [ (c05_v [4; 2; 17; 1], {| q_master := true; q_ints := [c05_e 8 11; c05_e 7 10] |});
    (c05_v [4; 3],    {| q_master := true; q_ints := [c05_e 3 6; c05_e 1 0] |});
    (c05_v [5; 1; 4], {| q_master := true; q_ints := [c05_e 2 3] |});
    (c05_v [5; 1],    {| q_master := true; q_ints := [c05_e 3 7; c05_e 2 4; c05_e 1 1] |});
    (c05_v [10; 0],   {| q_master := true; q_ints := [c05_e 3 8; c05_e 2 5; c05_e 1 2] |}) ].
Definition c05_hf_status (c : Z) : string :=
  if (c =? 11) || (c =? 6) then "INPROGRESS"%string else if c =? 1 then "FAILED"%string else "SUCCESSFUL"%string.

Example c05_hf_wf : WF c05_f1_paths [1; 2; 3] c05_hf_queues.
Proof. apply c05_wf_b_sound. vm_compute. reflexivity. Qed.

Example c05_hf_value :
  evaluate c05_hf_status c05_f1_paths false c05_hf_queues
  = Ok ([7; 1; 2], [(c05_v [4; 2; 17; 1], Some (c05_e 7 10)); (c05_v [4; 3], Some (c05_e 1 0));
                    (c05_v [5; 1; 4], Some (c05_e 2 3)); (c05_v [5; 1], Some (c05_e 2 4));
                    (c05_v [10; 0], Some (c05_e 2 5))])
  /\ evaluate c05_hf_status c05_f1_paths true c05_hf_queues
     = Ok ([7; 8; 1; 2; 3], [(c05_v [4; 2; 17; 1], Some (c05_e 8 11)); (c05_v [4; 3], Some (c05_e 3 6));
                             (c05_v [5; 1; 4], Some (c05_e 2 3)); (c05_v [5; 1], Some (c05_e 3 7));
                             (c05_v [10; 0], Some (c05_e 3 8))])
  /\ failed_prs c05_hf_status c05_hf_queues = [] /\ queued_prs c05_hf_queues = [7; 8; 1; 2; 3].
Proof. vm_compute. repeat split; reflexivity. Qed.

(* nothing qualifies *)
Example c05_empty_example :
  evaluate (fun _ => "FAILED"%string) c05_f1_paths false c05_hf_queues
  = Ok ([], map (fun x : version * queue => (fst x, None)) c05_hf_queues).
Proof. vm_compute. reflexivity. Qed.

(* queued_prs when a hotfix, a stabilization and a development branch share major.minor:
   compare_queues says hotfix = development, hotfix = stabilization, stabilization < development; the
   sort of _add_branch can then leave q/10.0.1 after q/10.0 (observed on the real class), and
   queued_prs, which reads the last non-hotfix key, misses pull request 9. _process is not affected. *)
Definition c05_qp_added : queues :=
  [ (c05_v [10; 0],       {| q_master := true; q_ints := [c05_e 9 3; c05_e 3 2] |});
    (c05_v [10; 0; 0; 1], {| q_master := true; q_ints := [c05_e 7 0] |});
    (c05_v [10; 0; 1],    {| q_master := true; q_ints := [c05_e 3 1] |}) ].
Example c05_queued_prs_misses_one :
  add_versions c05_qp_added [] = Ok c05_qp_added
  /\ queued_prs c05_qp_added = [7; 3]
  /\ extract_pr_ids c05_qp_added = [7; 3; 9].
Proof. vm_compute. repeat split; reflexivity. Qed.

(* ------------------------------------------------------------------------------------------------
   8. the statements used by Properties/C05.v                                                       *)

Theorem c05_full st paths order qs force :
  WF paths order qs ->
  evaluate st paths force qs = Ok (spec_prs st force order qs, spec_moves st force order qs).
Proof.
  intro Hwf. destruct force; [exact (c05_evaluate_force st paths order qs Hwf) | exact (c05_evaluate_eq st paths order qs Hwf)].
Qed.

Theorem c05_fuel st paths force qs : exists r, process st paths force qs = Ok r.
Proof. exact (c05_process_total st paths force qs). Qed.

Theorem c05_lookup_fuel st fuel qs :
  (entries qs <= fuel)%nat -> exists qs', recursive_lookup fuel st qs = Ok qs'.
Proof. exact (c05_lookup_total st fuel qs). Qed.

Theorem c05_maximal st paths order qs j :
  WF paths order qs ->
  (length (select st (main_queues qs) order) < j <= length order)%nat ->
  all_green st (main_queues qs) (firstn j order) = false.
Proof. intros _ H. exact (c05_select_maximal st (main_queues qs) order j H). Qed.

Lemma c05_merge_paths_from_nonempty c : forall ret, ret <> [] -> merge_paths_from c ret <> [].
Proof.
  induction c as [|b t IH]; intros ret H; [exact H|]. cbn [merge_paths_from].
  destruct (c_dev b) as [dev|]; [|exact (IH ret H)]. apply IH.
  destruct ret as [|r0 rt]; [contradiction|].
  destruct (c_hf b), (c_stab b); cbn; discriminate.
Qed.

Theorem c05_merge_paths_nonempty c : get_merge_paths c <> [].
Proof. unfold get_merge_paths. apply c05_merge_paths_from_nonempty. discriminate. Qed.

(* two hotfix queues at once (q/4.3.18.1 and q/5.1.3.1) and a development pull request: nothing in WF or
   in the proofs bounds the number of hotfix queues; here the lower hotfix tip FAILED, the higher is green *)
Definition c05_hf2_queues : queues :=
  [ (c05_v [4; 3],        {| q_master := true; q_ints := [c05_e 9 2] |});
    (c05_v [4; 3; 18; 1], {| q_master := true; q_ints := [c05_e 7 0] |});
    (c05_v [5; 1],        {| q_master := true; q_ints := [c05_e 9 3] |});
    (c05_v [5; 1; 3; 1],  {| q_master := true; q_ints := [c05_e 3 1] |}) ].
Definition c05_hf2_paths : list (list version) :=
  get_merge_paths [ {| c_dev := Some (c05_v [4; 3]); c_stab := None; c_hf := None |};
                    {| c_dev := Some (c05_v [5; 1]); c_stab := None; c_hf := None |} ].
Definition c05_hf2_status (c : Z) : string := if c =? 0 then "FAILED"%string else "SUCCESSFUL"%string.

Example c05_hf2_wf : WF c05_hf2_paths [9] c05_hf2_queues.
Proof. apply c05_wf_b_sound. vm_compute. reflexivity. Qed.

Example c05_hf2_value :
  evaluate c05_hf2_status c05_hf2_paths false c05_hf2_queues
  = Ok ([3; 9], [(c05_v [4; 3], Some (c05_e 9 2)); (c05_v [4; 3; 18; 1], None);
                 (c05_v [5; 1], Some (c05_e 9 3)); (c05_v [5; 1; 3; 1], Some (c05_e 3 1))])
  /\ evaluate (fun _ => "SUCCESSFUL"%string) c05_hf2_paths false c05_hf2_queues
     = Ok ([7; 3; 9], [(c05_v [4; 3], Some (c05_e 9 2)); (c05_v [4; 3; 18; 1], Some (c05_e 7 0));
                       (c05_v [5; 1], Some (c05_e 9 3)); (c05_v [5; 1; 3; 1], Some (c05_e 3 1))])
  /\ evaluate (fun _ => "FAILED"%string) c05_hf2_paths true c05_hf2_queues
     = Ok ([7; 3; 9], [(c05_v [4; 3], Some (c05_e 9 2)); (c05_v [4; 3; 18; 1], Some (c05_e 7 0));
                       (c05_v [5; 1], Some (c05_e 9 3)); (c05_v [5; 1; 3; 1], Some (c05_e 3 1))]).
Proof. vm_compute. repeat split; reflexivity. Qed.
