(* Model/JobSettings.v: after init_settings every option has its default whatever the job was built with; every other
   key is read from the job's own map if it has it, else from the instance; a job built without settings reads every
   non-option setting from the instance. *)
From Coq Require Import List String Bool.
Require Import BertE.Model.JobSettings.
Import ListNotations.
Open Scope string_scope.

Lemma sget_sset_same k v m : sget k (sset k v m) = Some v.
Proof.
  induction m as [|[k' v'] t IH]; cbn; [rewrite String.eqb_refl; reflexivity|].
  destruct (String.eqb_spec k k') as [E|N]; cbn.
  - rewrite String.eqb_refl. reflexivity.
  - destruct (String.eqb_spec k k'); [contradiction | exact IH].
Qed.

Lemma sget_sset_other k k' v m : k <> k' -> sget k (sset k' v m) = sget k m.
Proof.
  intros N. induction m as [|[k2 v2] t IH]; cbn.
  - destruct (String.eqb_spec k k'); [contradiction | reflexivity].
  - destruct (String.eqb_spec k' k2) as [E|N2]; cbn.
    + subst k2. destruct (String.eqb_spec k k'); [contradiction | reflexivity].
    + destruct (String.eqb_spec k k2); [reflexivity | exact IH].
Qed.

Lemma jget_jput_same k v s : jget k (jput s (k, v)) = Some v.
Proof. unfold jget, jput. cbn. rewrite sget_sset_same. reflexivity. Qed.

Lemma jget_jput_other k k' v s : k <> k' -> jget k (jput s (k', v)) = jget k s.
Proof. intros N. unfold jget, jput. cbn. rewrite (sget_sset_other _ _ _ _ N). reflexivity. Qed.

(* keys that are not written keep their reading *)
Lemma fold_frame k : forall l s, ~ In k (map fst l) -> jget k (fold_left jput l s) = jget k s.
Proof.
  induction l as [|[k' v] t IH]; intros s H; [reflexivity|]. cbn [fold_left].
  rewrite IH; [|intros C; apply H; right; exact C].
  apply jget_jput_other. intros E. apply H. left. cbn. symmetry. exact E.
Qed.

(* every option has its default after init_settings, whatever the job was created with *)
Theorem init_resets opts : NoDup (map fst opts) ->
  forall s k d, In (k, d) opts -> jget k (init_settings opts s) = Some d.
Proof.
  unfold init_settings. induction opts as [|[k' v] t IH]; intros ND s k d Hin; [destruct Hin|].
  cbn in ND. inversion ND as [|x xs Hnot ND' Eq]; subst x xs. cbn [fold_left].
  destruct Hin as [E|Hin].
  - injection E as -> ->. rewrite (fold_frame k t _ Hnot). apply jget_jput_same.
  - apply (IH ND' _ k d Hin).
Qed.

(* a key that is not an option is read as before init_settings *)
Theorem init_frame opts s k : ~ In k (map fst opts) -> jget k (init_settings opts s) = jget k s.
Proof. unfold init_settings. apply fold_frame. Qed.

(* a job built without settings (webhook handlers, nested evaluations) reads every non-option setting from the
   instance *)
Theorem bare_job_reads_instance opts inst k :
  ~ In k (map fst opts) -> jget k (init_settings opts (new_job None inst)) = sget k inst.
Proof. intros H. rewrite (init_frame opts _ k H). reflexivity. Qed.

(* what the creator passes takes precedence over the instance for every non-option key: the body of an API request must
   therefore stay with the API job and not be handed on to the evaluation it triggers *)
Theorem given_takes_precedence opts inst body k v :
  ~ In k (map fst opts) -> sget k body = Some v ->
  jget k (init_settings opts (new_job (Some body) inst)) = Some v.
Proof. intros H B. rewrite (init_frame opts _ k H). unfold jget, new_job. cbn. rewrite B. reflexivity. Qed.

(* ... but never for an option: those start from their defaults *)
Theorem given_never_sets_an_option opts inst body k d :
  NoDup (map fst opts) -> In (k, d) opts ->
  jget k (init_settings opts (new_job (Some body) inst)) = Some d.
Proof. intros ND Hin. apply (init_resets opts ND _ k d Hin). Qed.

Example job_reads_example :
  job_reads [("bypass_build_status", 0); ("wait", 0)] [("build_key", 7); ("robot", 8)]
            (Some [("bypass_build_status", 1); ("build_key", 9)]) [("wait", 1)]
            ["bypass_build_status"; "wait"; "build_key"; "robot"; "unknown"]
  = [Some 0; Some 1; Some 9; Some 8; None].
Proof. vm_compute. reflexivity. Qed.
