(* Proofs about Model/Reset.v against Spec/C15Spec.v.
   1. the classification loop: which commits end in the feature set ([Clo]), when the loop says "lossy", and how
      far that depends on the order in which `git log` lists the commits;
   2. the command: refusal, scope of the deletions / declines;
   3. refutation witnesses and non-vacuity examples. *)
From Coq Require Import List Bool Arith Lia.
Require Import BertE.Model.Git BertE.Model.Reset BertE.Spec.C15Spec.
Require Import BertE.Proofs.GitProofs BertE.Proofs.FlowProofs.
Require Import BertE.Generated.Facts_C15.
Import ListNotations.

(* ------------------------------------------------------------------------------------------------
   1. the loop
   ------------------------------------------------------------------------------------------------ *)
Section Loop.
  Variable v : variant.
  Variable s : store.
  Variable seen : list cid.
  Variable dst : cid.
  Variable f0 : list cid.             (* the initial feature set *)
  Variable Wp : cid -> Prop.          (* "is listed by the git log of the integration branch" *)

  (* the commits that can ever enter the feature set, whatever the order *)
  Inductive Clo : cid -> Prop :=
  | Clo_base x : In x f0 -> Clo x
  | Clo_join1 x p : Wp x -> mem x seen = false -> all_parents v = false ->
      parents_of s x = [p] -> (Clo p \/ anc s p dst = true) -> Clo x
  | Clo_joinA x : Wp x -> mem x seen = false -> all_parents v = true ->
      parents_of s x <> [] -> (forall p, In p (parents_of s x) -> Clo p \/ anc s p dst = true) -> Clo x.

  Definition run (l : list cid) (st : list cid * bool) : list cid * bool := fold_left (step v s seen dst) l st.

  Lemma run_cons x l st : run (x :: l) st = run l (step v s seen dst st x).
  Proof. reflexivity. Qed.

  Lemma step_lossy_sticky st x : snd st = true -> snd (step v s seen dst st x) = true.
  Proof.
    intro H. unfold step. destruct (mem x (fst st)); [exact H|]. destruct (mem x seen); [exact H|].
    destruct (joins v s (fst st) dst x); [exact H | reflexivity].
  Qed.

  Lemma run_lossy_sticky l : forall st, snd st = true -> snd (run l st) = true.
  Proof.
    induction l as [|x l IH]; intros st H; [exact H|]. rewrite run_cons. apply IH. apply step_lossy_sticky. exact H.
  Qed.

  Lemma step_feature_mono st x y : In y (fst st) -> In y (fst (step v s seen dst st x)).
  Proof.
    intro H. unfold step. destruct (mem x (fst st)); [exact H|]. destruct (mem x seen); [exact H|].
    destruct (joins v s (fst st) dst x); cbn; [right; exact H | exact H].
  Qed.

  (* the parent test, read as a relation over a set F *)
  Lemma parent_ok_true F p : parent_ok s F dst p = true <-> In p F \/ anc s p dst = true.
  Proof. unfold parent_ok. rewrite orb_true_iff, mem_true. tauto. Qed.

  Lemma joins_single F x : all_parents v = false ->
    (joins v s F dst x = true <-> exists p, parents_of s x = [p] /\ (In p F \/ anc s p dst = true)).
  Proof.
    intro A. unfold joins. rewrite A. destruct (parents_of s x) as [|p [|q t]].
    - split; [discriminate | intros (p & E & _); discriminate E].
    - rewrite parent_ok_true. split.
      + intro H. exists p. split; [reflexivity | exact H].
      + intros (p' & E & H). injection E as <-. exact H.
    - split; [discriminate | intros (p' & E & _); discriminate E].
  Qed.

  Lemma joins_all F x : all_parents v = true ->
    (joins v s F dst x = true <->
     parents_of s x <> [] /\ forall p, In p (parents_of s x) -> In p F \/ anc s p dst = true).
  Proof.
    intro A. unfold joins. rewrite A. destruct (parents_of s x) as [|p t] eqn:E.
    - split; [discriminate | intros [N _]; contradiction N; reflexivity].
    - rewrite forallb_forall. split.
      + intro H. split; [discriminate|]. intros q Hq. apply parent_ok_true. exact (H q Hq).
      + intros [_ H] q Hq. apply parent_ok_true. exact (H q Hq).
  Qed.

  (* every member of the feature set is in Clo, at every moment, for every order *)
  Definition sound (st : list cid * bool) : Prop := forall x, In x (fst st) -> Clo x.

  Lemma step_sound st x : Wp x -> sound st -> sound (step v s seen dst st x).
  Proof.
    intros Hw S. unfold step. destruct (mem x (fst st)) eqn:M; [exact S|].
    destruct (mem x seen) eqn:R; [exact S|].
    destruct (joins v s (fst st) dst x) eqn:J; [|exact S].
    intros y [<-|Hy]; [|exact (S y Hy)].
    destruct (all_parents v) eqn:A.
    - apply (joins_all _ _ A) in J as [N H]. apply Clo_joinA; try assumption.
      intros p Hp. destruct (H p Hp) as [I|I]; [left; exact (S p I) | right; exact I].
    - apply (joins_single _ _ A) in J as (p & E & H). apply (Clo_join1 x p); try assumption.
      destruct H as [I|I]; [left; exact (S p I) | right; exact I].
  Qed.

  Lemma run_sound l : forall st, Forall Wp l -> sound st -> sound (run l st).
  Proof.
    induction l as [|x l IH]; intros st F S; [exact S|].
    inversion F as [|? ? Hx F']; subst. rewrite run_cons. apply IH; [exact F' | apply step_sound; assumption].
  Qed.

  (* a listed commit that the author test does not skip and that cannot enter the feature set makes the loop
     answer "lossy" - whatever the order of the list *)
  Lemma run_flags l : forall st x, Forall Wp l -> sound st -> In x l -> mem x seen = false -> ~ Clo x ->
    snd (run l st) = true.
  Proof.
    induction l as [|y l IH]; intros st x F S Hin R NC; [destruct Hin|].
    inversion F as [|? ? Hy F']; subst. rewrite run_cons. destruct Hin as [->|Hin].
    - apply run_lossy_sticky. unfold step.
      destruct (mem x (fst st)) eqn:M; [apply mem_true in M; contradiction (NC (S x M))|].
      rewrite R. destruct (joins v s (fst st) dst x) eqn:J; [|reflexivity].
      exfalso. apply NC. pose proof (step_sound st x Hy S) as S'. unfold step in S'. rewrite M, R, J in S'.
      apply S'. left; reflexivity.
    - apply (IH _ x F'); try assumption. apply step_sound; assumption.
  Qed.

  (* ---- orders consistent with ancestry ---- *)
  Definition topo (l : list cid) : Prop :=
    forall l1 c l2, l = l1 ++ c :: l2 -> forall p, In p (parents_of s c) -> In p l -> In p l1.

  Lemma Clo_inv x : Clo x -> In x f0 \/ Wp x.
  Proof. intro H. destruct H; [left | right | right]; assumption. Qed.

  (* everything of Clo that has been listed so far is in the feature set *)
  Definition complete_upto (l1 : list cid) (F : list cid) : Prop :=
    forall x, Clo x -> In x f0 \/ In x l1 -> In x F.

  Lemma run_flags_only total : topo total -> (forall x, Wp x -> In x total) ->
    forall l l1 st, total = l1 ++ l -> complete_upto l1 (fst st) -> snd st = false ->
    snd (run l st) = true -> exists x, In x l /\ mem x seen = false /\ ~ Clo x.
  Proof.
    intros T C. induction l as [|y l IH]; intros l1 st E K L H.
    - cbn in H. rewrite L in H. discriminate H.
    - rewrite run_cons in H.
      assert (E' : total = (l1 ++ [y]) ++ l) by (rewrite <- app_assoc; exact E).
      assert (Kmono : forall F', (forall z, In z (fst st) -> In z F') -> (Clo y -> In y F') ->
                                 complete_upto (l1 ++ [y]) F').
      { intros F' Mono Hy x Cx [I|I]; [apply Mono; apply K; [exact Cx | left; exact I]|].
        apply in_app_or in I as [I|[<-|[]]]; [apply Mono; apply K; [exact Cx | right; exact I] | exact (Hy Cx)]. }
      unfold step in H. destruct (mem y (fst st)) eqn:M.
      + destruct (IH (l1 ++ [y]) st E') as (x & I & R & N); try assumption.
        * apply Kmono; [auto | intros _; apply mem_true; exact M].
        * exists x. split; [right; exact I | split; assumption].
      + destruct (mem y seen) eqn:R.
        * destruct (IH (l1 ++ [y]) st E') as (x & I & R' & N); try assumption.
          -- apply Kmono; [auto|]. intro Cy. destruct Cy as [y I | y p _ R' | y _ R'].
             ++ apply K; [apply Clo_base; exact I | left; exact I].
             ++ rewrite R in R'; discriminate R'.
             ++ rewrite R in R'; discriminate R'.
          -- exists x. split; [right; exact I | split; assumption].
        * destruct (joins v s (fst st) dst y) eqn:J.
          -- destruct (IH (l1 ++ [y]) (y :: fst st, snd st) E') as (x & I & R' & N); try assumption.
             ++ apply Kmono; cbn; [intros z Hz; right; exact Hz | intros _; left; reflexivity].
             ++ exists x. split; [right; exact I | split; assumption].
          -- exists y. split; [left; reflexivity | split; [exact R|]].
             intro Cy.
             assert (P : forall p, In p (parents_of s y) -> Clo p -> In p (fst st)).
             { intros p Hp Cp. apply K; [exact Cp|]. destruct (Clo_inv p Cp) as [I|I]; [left; exact I|].
               right. exact (T l1 y l E p Hp (C p I)). }
             destruct Cy as [y I | y p _ _ A Ep Hp | y _ _ A Ne Hp].
             ++ assert (In y (fst st)) by (apply K; [apply Clo_base; exact I | left; exact I]).
                apply mem_true in H0. rewrite H0 in M. discriminate M.
             ++ assert (joins v s (fst st) dst y = true).
                { apply (joins_single _ _ A). exists p. split; [exact Ep|].
                  destruct Hp as [Cp|Hd]; [left; apply (P p); [rewrite Ep; left; reflexivity | exact Cp] | right; exact Hd]. }
                rewrite H0 in J. discriminate J.
             ++ assert (joins v s (fst st) dst y = true).
                { apply (joins_all _ _ A). split; [exact Ne|]. intros p Hin.
                  destruct (Hp p Hin) as [Cp|Hd]; [left; exact (P p Hin Cp) | right; exact Hd]. }
                rewrite H0 in J. discriminate J.
  Qed.
End Loop.

(* ---- the loop of one integration branch ---- *)
Definition Wlisted (v : variant) (s : store) (cd cw x : cid) : Prop := listed s (walk_merges v) cd cw x = true.
Definition F0 (v : variant) (s : store) (cd cs : cid) : list cid := log_set s (feature_merges v) cd cs.
(* the commits the loop can absorb into the feature set: current source commits, and (recursively) listed commits
   that pass the parent test *)
Definition Absorbed (v : variant) (s : store) (seen : list cid) (cs cd cw : cid) : cid -> Prop :=
  Clo v s seen cd (F0 v s cd cs) (Wlisted v s cd cw).

Lemma walk_Forall v s cd cw order : Forall (Wlisted v s cd cw) (walk_of v s cd cw order).
Proof. apply Forall_forall. intros x H. apply filter_In in H as [_ H]. exact H. Qed.

Lemma initial_sound v s seen cs cd cw :
  sound v s seen cd (F0 v s cd cs) (Wlisted v s cd cw) (F0 v s cd cs, false).
Proof. intros x H. apply Clo_base. exact H. Qed.

(* any order: a listed, unskipped, unabsorbable commit makes the verdict "lossy" *)
Lemma classify_flags v s seen cs cd cw order x :
  Wlisted v s cd cw x -> In x order -> mem x seen = false -> ~ Absorbed v s seen cs cd cw x ->
  snd (classify v s seen cs cd cw order) = true.
Proof.
  intros Hw Hin R NC. unfold classify.
  apply (run_flags v s seen cd (F0 v s cd cs) (Wlisted v s cd cw) _ _ x).
  - apply walk_Forall.
  - apply initial_sound.
  - apply filter_In. split; assumption.
  - exact R.
  - exact NC.
Qed.

(* orders consistent with ancestry that list everything: the verdict is exactly that, hence the same for all *)
Lemma classify_exact v s seen cs cd cw order :
  topo s (walk_of v s cd cw order) -> (forall x, Wlisted v s cd cw x -> In x order) ->
  (snd (classify v s seen cs cd cw order) = true <->
   exists x, Wlisted v s cd cw x /\ mem x seen = false /\ ~ Absorbed v s seen cs cd cw x).
Proof.
  intros T C. split.
  - intro H. unfold classify in H.
    destruct (run_flags_only v s seen cd (F0 v s cd cs) (Wlisted v s cd cw) (walk_of v s cd cw order) T)
      with (l := walk_of v s cd cw order) (l1 := @nil cid) (st := (F0 v s cd cs, false)) as (x & I & R & N).
    + intros y Hy. apply filter_In. split; [exact (C y Hy) | exact Hy].
    + reflexivity.
    + intros y _ [I|[]]. exact I.
    + reflexivity.
    + exact H.
    + exists x. split; [|split; assumption]. apply filter_In in I as [_ I]. exact I.
  - intros (x & Hw & R & N). exact (classify_flags v s seen cs cd cw order x Hw (C x Hw) R N).
Qed.

Theorem classify_order_independent v s seen cs cd cw o1 o2 :
  topo s (walk_of v s cd cw o1) -> (forall x, Wlisted v s cd cw x -> In x o1) ->
  topo s (walk_of v s cd cw o2) -> (forall x, Wlisted v s cd cw x -> In x o2) ->
  snd (classify v s seen cs cd cw o1) = snd (classify v s seen cs cd cw o2).
Proof.
  intros T1 C1 T2 C2.
  pose proof (classify_exact v s seen cs cd cw o1 T1 C1) as E1.
  pose proof (classify_exact v s seen cs cd cw o2 T2 C2) as E2.
  destruct (snd (classify v s seen cs cd cw o1)) eqn:A, (snd (classify v s seen cs cd cw o2)) eqn:B; try reflexivity.
  - symmetry. apply E2. apply E1. reflexivity.
  - apply E1. apply E2. reflexivity.
Qed.

(* an order that is not consistent with ancestry can only add refusals *)
Theorem classify_order_monotone v s seen cs cd cw o1 o2 :
  topo s (walk_of v s cd cw o1) -> (forall x, Wlisted v s cd cw x -> In x o1) ->
  (forall x, Wlisted v s cd cw x -> In x o2) ->
  snd (classify v s seen cs cd cw o1) = true -> snd (classify v s seen cs cd cw o2) = true.
Proof.
  intros T1 C1 C2 H. apply (classify_exact v s seen cs cd cw o1 T1 C1) in H as (x & Hw & R & N).
  exact (classify_flags v s seen cs cd cw o2 x Hw (C2 x Hw) R N).
Qed.

(* ... and it does: old source commits 1 <- 2 (0 = destination, 3 = current source, 4 = robot merge of 2 and 3):
   listed oldest first the loop absorbs 1 then 2; listed 2 before 1 it calls 2 lossy. *)
Example order_matters :
  let s := [mkCommit [] false; mkCommit [0] false; mkCommit [1] false; mkCommit [0] false; mkCommit [2; 3] true] in
  let v := mkVariant false false false in
  snd (classify v s [] 3 0 4 [1; 2; 3]) = false /\ snd (classify v s [] 3 0 4 [2; 1; 3]) = true.
Proof. vm_compute. split; reflexivity. Qed.

(* ------------------------------------------------------------------------------------------------
   2. the command
   ------------------------------------------------------------------------------------------------ *)
Lemma has_true r n : has r n = true <-> exists x, lookup r n = Some x.
Proof.
  unfold has. destruct (lookup r n) as [x|]; split.
  - intros _. exists x. reflexivity.
  - reflexivity.
  - discriminate.
  - intros [y E]. discriminate E.
Qed.

Lemma existing_In local cands wb : In wb (existing local cands) <-> In wb cands /\ has local (w_name wb) = true.
Proof. unfold existing. apply filter_In. Qed.

Definition refs_present (local : refmap) (src : name) (ws : list wbranch) : Prop :=
  has local src = true /\ forall wb, In wb ws -> has local (w_dst wb) = true /\ has local (w_name wb) = true.

Lemma lossy_any_present v s seen local src ws :
  refs_present local src ws -> exists l, lossy_any v s seen local src ws = Some l.
Proof.
  intros [Hs Hw]. induction ws as [|wb ws IH]; [exists false; reflexivity|].
  cbn [lossy_any]. apply has_true in Hs as [cs Es]. rewrite Es.
  destruct (Hw wb (or_introl eq_refl)) as [Hd Hn].
  apply has_true in Hd as [cd Ed]. apply has_true in Hn as [cw En]. rewrite Ed, En.
  destruct IH as [l El]; [intros w Hin; apply Hw; right; exact Hin|]. rewrite El.
  eexists. reflexivity.
Qed.

Lemma lossy_any_flag v s seen local src ws l wb cs cd cw :
  lossy_any v s seen local src ws = Some l -> In wb ws ->
  lookup local src = Some cs -> lookup local (w_dst wb) = Some cd -> lookup local (w_name wb) = Some cw ->
  snd (classify v s seen cs cd cw (w_order wb)) = true -> l = true.
Proof.
  revert l. induction ws as [|w ws IH]; intros l H Hin Es Ed En C; [destruct Hin|].
  cbn [lossy_any] in H. rewrite Es in H.
  destruct (lookup local (w_dst w)) as [cd'|] eqn:Ed'; [|discriminate H].
  destruct (lookup local (w_name w)) as [cw'|] eqn:En'; [|discriminate H].
  destruct (lossy_any v s seen local src ws) as [l'|] eqn:El; [|discriminate H].
  injection H as <-. destruct Hin as [->|Hin].
  - rewrite Ed in Ed'. injection Ed' as <-. rewrite En in En'. injection En' as <-. rewrite C. reflexivity.
  - rewrite (IH l' eq_refl Hin Es Ed En C). apply orb_true_r.
Qed.

Definition refused (remote : refmap) : result := mkRes LossyResetWarning remote [] 0 [].

(* the general form of the refusal: some existing integration branch lists a commit that the author test does
   not skip and that the loop cannot absorb *)
Theorem refuse_general prune v s seen snapshot remote src cands prs wb cs cd cw x :
  refs_present snapshot src (existing snapshot cands) ->
  In wb (existing snapshot cands) ->
  lookup snapshot src = Some cs -> lookup snapshot (w_dst wb) = Some cd -> lookup snapshot (w_name wb) = Some cw ->
  Wlisted v s cd cw x -> In x (w_order wb) -> mem x seen = false -> ~ Absorbed v s seen cs cd cw x ->
  reset_with prune v false s seen snapshot remote src cands prs = refused remote.
Proof.
  intros P Hin Es Ed En Hw Ho R NC. unfold reset_with.
  destruct (existing snapshot cands) as [|w0 ws0] eqn:E; [destruct Hin|]. rewrite <- E in *.
  destruct (lossy_any_present v s seen snapshot src _ P) as [l El]. rewrite El.
  assert (l = true) as ->.
  { apply (lossy_any_flag v s seen snapshot src _ l wb cs cd cw El Hin Es Ed En).
    exact (classify_flags v s seen cs cd cw (w_order wb) x Hw Ho R NC). }
  rewrite E. reflexivity.
Qed.

(* the converse, for orders consistent with ancestry: reset refuses only for such a commit *)
Lemma lossy_any_only v s seen local src ws :
  lossy_any v s seen local src ws = Some true ->
  exists wb cs cd cw, In wb ws /\ lookup local src = Some cs /\ lookup local (w_dst wb) = Some cd /\
    lookup local (w_name wb) = Some cw /\ snd (classify v s seen cs cd cw (w_order wb)) = true.
Proof.
  induction ws as [|w ws IH]; intro H; [discriminate H|].
  cbn [lossy_any] in H.
  destruct (lookup local src) as [cs|] eqn:Es; [|discriminate H].
  destruct (lookup local (w_dst w)) as [cd|] eqn:Ed; [|discriminate H].
  destruct (lookup local (w_name w)) as [cw|] eqn:En; [|discriminate H].
  destruct (lossy_any v s seen local src ws) as [l|] eqn:El; [|discriminate H].
  injection H as H. apply orb_true_iff in H as [H|H].
  - exists w, cs, cd, cw. repeat split; try assumption. left; reflexivity.
  - subst l. destruct (IH eq_refl) as (wb & cs' & cd' & cw' & I & A & B & C & D).
    exists wb, cs', cd', cw'. repeat split; try assumption. right; exact I.
Qed.

Theorem refuse_only prune v force s seen snapshot remote src cands prs :
  r_outcome (reset_with prune v force s seen snapshot remote src cands prs) = LossyResetWarning ->
  force = false /\
  exists wb cs cd cw, In wb (existing snapshot cands) /\ lookup snapshot src = Some cs /\
    lookup snapshot (w_dst wb) = Some cd /\ lookup snapshot (w_name wb) = Some cw /\
    snd (classify v s seen cs cd cw (w_order wb)) = true.
Proof.
  unfold reset_with. destruct (existing snapshot cands) as [|w0 ws0] eqn:E; [discriminate|]. rewrite <- E.
  destruct (lossy_any v s seen snapshot src (existing snapshot cands)) as [l|] eqn:El; [|discriminate].
  destruct l, force; cbn [andb negb].
  - destruct (push_all_atomic _ _ _ _); discriminate.
  - intros _. split; [reflexivity|]. exact (lossy_any_only v s seen snapshot src _ El).
  - destruct (push_all_atomic _ _ _ _); discriminate.
  - destruct (push_all_atomic _ _ _ _); discriminate.
Qed.

(* ---- from the statement's "manual commit" to the loop ---- *)
Record well_formed (v : variant) (s : store) (seen : list cid) (h : pr_history)
    (snapshot : refmap) (src : name) (cands : list wbranch) : Prop := mkWF {
  (* the author test only ever answers yes for commits of the robot *)
  wf_seen : forall x, mem x seen = true -> robot_commit s x = true;
  (* source, destination branches of the existing integration branches are in the clone *)
  wf_refs : refs_present snapshot src (existing snapshot cands);
  (* the current version of the source branch is part of its history *)
  wf_hist : forall cs x, lookup snapshot src = Some cs -> anc s x cs = true -> In x (src_hist h);
  (* `git log dst..w` prints every commit it should *)
  wf_order : forall wb cd cw, In wb (existing snapshot cands) ->
      lookup snapshot (w_dst wb) = Some cd -> lookup snapshot (w_name wb) = Some cw ->
      forall x, Wlisted v s cd cw x -> In x (w_order wb)
}.

Definition on_branch (snapshot : refmap) (cands : list wbranch) (wb : wbranch) (cd cw : cid) : Prop :=
  In wb (existing snapshot cands) /\ lookup snapshot (w_dst wb) = Some cd /\ lookup snapshot (w_name wb) = Some cw.

(* the normal shape: the commit was made on a merge commit of the robot which is neither part of the source
   history nor contained in the destination branch *)
Definition normal_shape (s : store) (h : pr_history) (cd c : cid) : Prop :=
  forall p, first_parent s c = Some p ->
    is_merge s p = true /\ robot_commit s p = true /\ ~ In p (src_hist h) /\ anc s p cd = false.

(* the author test recognises the robot's merge commits (only needed when the parent test looks at all parents) *)
Definition robot_merges_seen (v : variant) (s : store) (seen : list cid) : Prop :=
  all_parents v = true -> forall p, robot_commit s p = true -> is_merge s p = true -> mem p seen = true.

Lemma F0_in_source v s cd cs x : In x (F0 v s cd cs) -> anc s x cs = true.
Proof.
  unfold F0, log_set. intro H. apply filter_In in H as [_ H]. unfold listed, in_range in H.
  apply andb_true_iff in H as [H _]. apply andb_true_iff in H as [H _]. exact H.
Qed.

Lemma robot_merge_not_absorbed v s seen h cs cd cw p :
  (forall x, anc s x cs = true -> In x (src_hist h)) -> robot_merges_seen v s seen ->
  is_merge s p = true -> robot_commit s p = true -> ~ In p (src_hist h) ->
  ~ Absorbed v s seen cs cd cw p.
Proof.
  intros Hh Rs M R Nh C. unfold Absorbed in C. inversion C as [x I | x q _ _ A E _ | x _ Sn A _ _]; subst.
  - apply Nh. apply Hh. exact (F0_in_source _ _ _ _ _ I).
  - unfold is_merge in M. rewrite E in M. discriminate M.
  - rewrite (Rs A p R M) in Sn. discriminate Sn.
Qed.

Lemma manual_not_absorbed v s seen h cs cd cw w c :
  (forall x, anc s x cs = true -> In x (src_hist h)) ->
  manual s h w c ->
  (forall p, first_parent s c = Some p -> ~ Absorbed v s seen cs cd cw p /\ anc s p cd = false) ->
  ~ Absorbed v s seen cs cd cw c.
Proof.
  intros Hh (_ & Nh & _) Hp C. unfold Absorbed in C. inversion C as [x I | x q _ _ _ E Hq | x _ _ _ Ne Hq]; subst.
  - apply Nh. apply Hh. exact (F0_in_source _ _ _ _ _ I).
  - destruct (Hp q) as [Nq Nd]; [unfold first_parent; rewrite E; reflexivity|].
    destruct Hq as [Cq|Dq]; [exact (Nq Cq) | rewrite Dq in Nd; discriminate Nd].
  - destruct (parents_of s c) as [|q t] eqn:E; [contradiction Ne; reflexivity|].
    destruct (Hp q) as [Nq Nd]; [unfold first_parent; rewrite E; reflexivity|].
    destruct (Hq q (or_introl eq_refl)) as [Cq|Dq]; [exact (Nq Cq) | rewrite Dq in Nd; discriminate Nd].
Qed.

(* The refusal, for a manual commit in the normal shape that the walk lists *)
Theorem refuse_partial prune v s seen h snapshot remote src cands prs wb cd cw c :
  well_formed v s seen h snapshot src cands -> robot_merges_seen v s seen ->
  on_branch snapshot cands wb cd cw -> held s cw cd c -> manual s h (w_name wb) c ->
  normal_shape s h cd c ->
  walk_merges v = true \/ is_merge s c = false ->
  reset_with prune v false s seen snapshot remote src cands prs = refused remote.
Proof.
  intros [Ws Wr Wh Wo] Rs (Hin & Ed & En) [Hw Hd] M N K.
  destruct Wr as [Hs Hrest]. pose proof (conj Hs Hrest) as Wr. apply has_true in Hs as [cs Es].
  assert (Hh : forall x, anc s x cs = true -> In x (src_hist h)) by (intros x; apply Wh; exact Es).
  assert (L : Wlisted v s cd cw c).
  { unfold Wlisted, listed, in_range, kept. rewrite Hw, Hd. cbn [andb negb].
    destruct K as [-> | ->]; [reflexivity | apply orb_true_r]. }
  apply (refuse_general prune v s seen snapshot remote src cands prs wb cs cd cw c); try assumption.
  - exact (Wo wb cd cw Hin Ed En c L).
  - destruct (mem c seen) eqn:Sc; [|reflexivity]. destruct M as (Rc & _). rewrite (Ws c Sc) in Rc. discriminate Rc.
  - apply (manual_not_absorbed v s seen h cs cd cw (w_name wb) c Hh M).
    intros p Ep. destruct (N p Ep) as (Mp & Rp & Np & Dp). split; [|exact Dp].
    exact (robot_merge_not_absorbed v s seen h cs cd cw p Hh Rs Mp Rp Np).
Qed.

(* ---- the three statements ---- *)
Definition refuses (v : variant) (s : store) (seen : list cid) (snapshot remote : refmap) (src : name)
    (cands : list wbranch) (prs : list pullreq) : Prop :=
  reset v false s seen snapshot remote src cands prs = refused remote.

(* the statement at full strength *)
Definition full_statement (v : variant) : Prop :=
  forall s seen h snapshot remote src cands prs wb cd cw c,
  well_formed v s seen h snapshot src cands -> robot_merges_seen v s seen ->
  on_branch snapshot cands wb cd cw -> held s cw cd c -> manual s h (w_name wb) c ->
  refuses v s seen snapshot remote src cands prs.

(* ... restricted to the normal shape (manual work made on a merge commit of the robot) *)
Definition normal_statement (v : variant) : Prop :=
  forall s seen h snapshot remote src cands prs wb cd cw c,
  well_formed v s seen h snapshot src cands -> robot_merges_seen v s seen ->
  on_branch snapshot cands wb cd cw -> held s cw cd c -> manual s h (w_name wb) c ->
  normal_shape s h cd c ->
  refuses v s seen snapshot remote src cands prs.

(* ... and further to manual commits that are not merge commits *)
Definition nonmerge_statement (v : variant) : Prop :=
  forall s seen h snapshot remote src cands prs wb cd cw c,
  well_formed v s seen h snapshot src cands -> robot_merges_seen v s seen ->
  on_branch snapshot cands wb cd cw -> held s cw cd c -> manual s h (w_name wb) c ->
  normal_shape s h cd c -> is_merge s c = false ->
  refuses v s seen snapshot remote src cands prs.

Theorem nonmerge_holds v : nonmerge_statement v.
Proof.
  intros s seen h snapshot remote src cands prs wb cd cw c W R O H M N K.
  exact (refuse_partial push_prune v s seen h snapshot remote src cands prs wb cd cw c W R O H M N (or_intror K)).
Qed.

Theorem normal_holds_when_merges_walked v : walk_merges v = true -> normal_statement v.
Proof.
  intros Wm s seen h snapshot remote src cands prs wb cd cw c W R O H M N.
  exact (refuse_partial push_prune v s seen h snapshot remote src cands prs wb cd cw c W R O H M N (or_introl Wm)).
Qed.

(* ---- witness 1 (F8): the integration branch is a fast-forward of the source branch ----
   commits: 0 = tip of both development branches, 1 = the source commit (w/ was fast-forwarded to it),
   2 = a commit of the author on top of w/.  names: 0 = destination of w/, 1 = source, 10 = w/. *)
Definition f8_store : store := [mkCommit [] false; mkCommit [0] false; mkCommit [1] false].
Definition f8_hist : pr_history := mkHist [0; 1] [(10, [1; 2])].
Definition f8_refs : refmap := [(0, 0); (1, 1); (10, 2)].
Definition f8_cands : list wbranch := [mkW 10 0 [1; 2]].

Lemma f8_well_formed v : well_formed v f8_store [] f8_hist f8_refs 1 f8_cands.
Proof.
  split.
  - intros x H. discriminate H.
  - split; [reflexivity|]. intros wb [<-|[]]. split; reflexivity.
  - intros cs x E. cbn in E. injection E as <-.
    destruct x as [|[|[|x]]]; vm_compute; intro H; try discriminate H; auto.
  - intros wb cd cw [<-|[]] Ed En. cbn in Ed, En. injection Ed as <-. injection En as <-.
    intros x L. unfold Wlisted, listed in L. apply andb_true_iff in L as [L _].
    destruct x as [|[|[|x]]]; vm_compute in L; try discriminate L; cbn; auto.
Qed.

Theorem full_refuted v : ~ full_statement v.
Proof.
  intro F.
  specialize (F f8_store [] f8_hist f8_refs f8_refs 1 f8_cands [] (mkW 10 0 [1; 2]) 0 2 2 (f8_well_formed v)).
  assert (R : refuses v f8_store [] f8_refs f8_refs 1 f8_cands []).
  { apply F.
    - intros _ p H. vm_compute. destruct p as [|[|[|p]]]; vm_compute in H; try discriminate H.
      destruct p; discriminate H.
    - repeat split. left; reflexivity.
    - split; reflexivity.
    - split; [reflexivity|]. split.
      + intros [H|[H|[]]]; discriminate H.
      + exists 1. split; [reflexivity | left; reflexivity]. }
  unfold refuses in R. destruct v as [[] [] []]; vm_compute in R; discriminate R.
Qed.

(* ---- witness 2: a merge commit of the author on top of the robot's merge commit ----
   commits: 0 root, 1 = destination tip, 2 = first source commit, 3 = robot merge of (1, 2) = w/,
   4 = second source commit, 5 = the author's merge of the source (4) into w/ (3).
   names: 0 = destination, 1 = source, 10 = w/. *)
Definition mg_store : store :=
  [mkCommit [] false; mkCommit [0] false; mkCommit [0] false; mkCommit [1; 2] true; mkCommit [2] false;
   mkCommit [3; 4] false].
Definition mg_hist : pr_history := mkHist [0; 2; 4] [(10, [3; 5])].
Definition mg_refs : refmap := [(0, 1); (1, 4); (10, 5)].
Definition mg_cands (order : list cid) : list wbranch := [mkW 10 0 order].

Lemma mg_well_formed v : walk_merges v = false -> well_formed v mg_store [3] mg_hist mg_refs 1 (mg_cands [2; 4]).
Proof.
  intro Wm. split.
  - intros x H. destruct x as [|[|[|[|x]]]]; vm_compute in H; try discriminate H. reflexivity.
  - split; [reflexivity|]. intros wb [<-|[]]. split; reflexivity.
  - intros cs x E. cbn in E. injection E as <-.
    destruct x as [|[|[|[|[|[|x]]]]]]; vm_compute; intro H; try discriminate H; auto.
  - intros wb cd cw [<-|[]] Ed En. cbn in Ed, En. injection Ed as <-. injection En as <-.
    intros x L. unfold Wlisted in L. rewrite Wm in L.
    destruct x as [|[|[|[|[|[|x]]]]]]; vm_compute in L; try discriminate L; cbn; auto.
Qed.

Theorem normal_refuted_when_merges_hidden v : walk_merges v = false -> ~ normal_statement v.
Proof.
  intros Wm F.
  specialize (F mg_store [3] mg_hist mg_refs mg_refs 1 (mg_cands [2; 4]) [] (mkW 10 0 [2; 4]) 1 5 5
                (mg_well_formed v Wm)).
  assert (R : refuses v mg_store [3] mg_refs mg_refs 1 (mg_cands [2; 4]) []).
  { apply F.
    - intros _ p H M. destruct p as [|[|[|[|[|[|p]]]]]]; vm_compute in H; try discriminate H; try reflexivity.
      destruct p; discriminate H.
    - repeat split. left; reflexivity.
    - split; reflexivity.
    - split; [reflexivity|]. split.
      + intros [H|[H|[H|[]]]]; discriminate H.
      + exists 3. split; [reflexivity | left; reflexivity].
    - intros p E. vm_compute in E. injection E as <-. repeat split.
      intros [H|[H|[H|[]]]]; discriminate H. }
  unfold refuses in R. destruct v as [fm wm ap]. cbn in Wm. subst wm.
  destruct fm, ap; vm_compute in R; discriminate R.
Qed.

(* non-vacuity: the same history with a plain commit (5, on top of the robot's merge 3) instead of a merge is
   refused by the code as it is; with the merge commit it is refused as soon as merges are walked *)
Definition pl_store : store :=
  [mkCommit [] false; mkCommit [0] false; mkCommit [0] false; mkCommit [1; 2] true; mkCommit [2] false;
   mkCommit [3] false].

Example plain_manual_refused :
  reset code_variant false pl_store [3] mg_refs mg_refs 1 (mg_cands [2; 4; 5]) [] = refused mg_refs /\
  manual pl_store mg_hist 10 5 /\ held pl_store 5 1 5 /\ normal_shape pl_store mg_hist 1 5 /\
  is_merge pl_store 5 = false.
Proof.
  split; [vm_compute; reflexivity|]. split; [|split; [split; reflexivity|split; [|reflexivity]]].
  - split; [reflexivity|]. split.
    + intros [H|[H|[H|[]]]]; discriminate H.
    + exists 3. split; [reflexivity | left; reflexivity].
  - intros p E. vm_compute in E. injection E as <-. repeat split.
    intros [H|[H|[H|[]]]]; discriminate H.
Qed.

Example merge_manual_refused_once_walked :
  reset (mkVariant true true true) false mg_store [3] mg_refs mg_refs 1 (mg_cands [2; 3; 4; 5]) [] = refused mg_refs /\
  reset (mkVariant false false false) false mg_store [3] mg_refs mg_refs 1 (mg_cands [2; 4]) [] <> refused mg_refs.
Proof. split; [vm_compute; reflexivity | vm_compute; discriminate]. Qed.

(* non-vacuity of the hypotheses of the refusal theorems, for whatever variant the code has *)
Example partial_hypotheses_satisfiable :
  well_formed code_variant pl_store [3] mg_hist mg_refs 1 (mg_cands [2; 3; 4; 5]) /\
  robot_merges_seen code_variant pl_store [3] /\
  on_branch mg_refs (mg_cands [2; 3; 4; 5]) (mkW 10 0 [2; 3; 4; 5]) 1 5.
Proof.
  split; [|split].
  - split.
    + intros x H. destruct x as [|[|[|[|x]]]]; vm_compute in H; try discriminate H. reflexivity.
    + split; [reflexivity|]. intros wb [<-|[]]. split; reflexivity.
    + intros cs x E. cbn in E. injection E as <-.
      destruct x as [|[|[|[|[|[|x]]]]]]; vm_compute; intro H; try discriminate H; auto.
    + intros wb cd cw [<-|[]] Ed En. cbn in Ed, En. injection Ed as <-. injection En as <-.
      intros x L. unfold Wlisted, listed in L. apply andb_true_iff in L as [L _].
      destruct x as [|[|[|[|[|[|x]]]]]]; vm_compute in L; try discriminate L; cbn; auto.
  - intros _ p H M. destruct p as [|[|[|[|[|[|p]]]]]]; vm_compute in H; try discriminate H; try reflexivity.
    destruct p; discriminate H.
  - repeat split. left; reflexivity.
Qed.

(* an order consistent with ancestry and complete exists: the hypotheses of the exactness theorems *)
Example order_hypotheses_satisfiable :
  topo pl_store (walk_of (mkVariant false false false) pl_store 1 5 [2; 4; 5]) /\
  (forall x, Wlisted (mkVariant false false false) pl_store 1 5 x -> In x [2; 4; 5]).
Proof.
  split.
  - change (walk_of (mkVariant false false false) pl_store 1 5 [2; 4; 5]) with [2; 5].
    intros l1 c l2 E p Hp Hin.
    destruct l1 as [|a [|b l1]].
    + injection E as <- _. vm_compute in Hp. destruct Hp as [<-|[]]. destruct Hin as [H|[H|[]]]; discriminate H.
    + injection E as <- <- _. vm_compute in Hp. destruct Hp as [<-|[]]. destruct Hin as [H|[H|[]]]; discriminate H.
    + injection E as _ _ E. destruct l1; discriminate E.
  - intros x L. unfold Wlisted in L.
    destruct x as [|[|[|[|[|[|x]]]]]]; vm_compute in L; try discriminate L; cbn; auto.
Qed.

(* ---- the verdict for the code as it is, through the switch read from /repo (Generated/Facts_C15.v) ---- *)
Definition code_verdict (v : variant) : Prop :=
  if walk_merges v then normal_statement v /\ ~ full_statement v
  else ~ normal_statement v /\ nonmerge_statement v /\ ~ full_statement v.

Theorem code_verdict_holds v : code_verdict v.
Proof.
  unfold code_verdict. destruct (walk_merges v) eqn:W.
  - split; [exact (normal_holds_when_merges_walked v W) | exact (full_refuted v)].
  - split; [exact (normal_refuted_when_merges_hidden v W) | split; [exact (nonmerge_holds v) | exact (full_refuted v)]].
Qed.

(* The repaired loop (commit "reset refuses when an integration branch holds a hand-made merge commit"): both logs
   show merge commits and the parent test looks at all parents.  [eq_refl] only type-checks while
   Generated/Facts_C15.v says so: reverting the repair in /repo breaks this proof. *)
Theorem code_is_repaired : code_variant = mkVariant true true true.
Proof. exact eq_refl. Qed.

Theorem code_statement :
  walk_merges code_variant = true /\ normal_statement code_variant /\ ~ full_statement code_variant.
Proof.
  assert (W : walk_merges code_variant = true) by (rewrite code_is_repaired; reflexivity).
  split; [exact W | split; [exact (normal_holds_when_merges_walked code_variant W) | exact (full_refuted code_variant)]].
Qed.

(* ------------------------------------------------------------------------------------------------
   3. scope: what the command deletes and declines
   ------------------------------------------------------------------------------------------------ *)
Lemma lookup_remove r n m : lookup (remove r n) m = if Nat.eqb n m then None else lookup r m.
Proof.
  induction r as [|[k x] t IH]; cbn [remove lookup]; [destruct (Nat.eqb n m); reflexivity|].
  destruct (Nat.eqb k n) eqn:E.
  - apply Nat.eqb_eq in E. subst k. rewrite IH. destruct (Nat.eqb n m); reflexivity.
  - cbn [lookup]. rewrite IH. destruct (Nat.eqb k m) eqn:K; [|reflexivity].
    apply Nat.eqb_eq in K. subst k. rewrite Nat.eqb_sym, E. reflexivity.
Qed.

Lemma lookup_remove_all ns : forall r m, lookup (remove_all r ns) m = if mem m ns then None else lookup r m.
Proof.
  unfold remove_all. induction ns as [|n ns IH]; intros r m; cbn [fold_left]; [reflexivity|].
  rewrite IH, lookup_remove. unfold mem. cbn [existsb]. fold (mem m ns).
  rewrite (Nat.eqb_sym m n). destruct (mem m ns), (Nat.eqb n m); reflexivity.
Qed.

Lemma remove_keys r n k : In k (map fst (remove r n)) -> In k (map fst r).
Proof.
  induction r as [|[a x] t IH]; cbn [remove]; [tauto|].
  destruct (Nat.eqb a n); cbn [map fst In]; intro H; [right; exact (IH H)|].
  destruct H as [H|H]; [left; exact H | right; exact (IH H)].
Qed.

Lemma keys_nodup_remove r n : keys_nodup r -> keys_nodup (remove r n).
Proof.
  unfold keys_nodup. induction r as [|[a x] t IH]; cbn [remove map fst]; intro ND; [constructor|].
  inversion ND as [|? ? Hn ND']; subst. destruct (Nat.eqb a n); [exact (IH ND')|].
  cbn [map fst]. constructor; [|exact (IH ND')]. intro H. apply Hn. exact (remove_keys _ _ _ H).
Qed.

Lemma keys_nodup_remove_all ns : forall r, keys_nodup r -> keys_nodup (remove_all r ns).
Proof.
  unfold remove_all. induction ns as [|n ns IH]; intros r ND; cbn [fold_left]; [exact ND|].
  apply IH. apply keys_nodup_remove. exact ND.
Qed.

Lemma mem_false a l : mem a l = false <-> ~ In a l.
Proof.
  rewrite <- mem_true. destruct (mem a l); split; intro H.
  - discriminate H.
  - contradiction H. reflexivity.
  - discriminate.
  - reflexivity.
Qed.

Definition names_of (snapshot : refmap) (cands : list wbranch) : list name := map w_name (existing snapshot cands).

Lemma names_exist snapshot cands n : In n (names_of snapshot cands) ->
  In n (map w_name cands) /\ has snapshot n = true.
Proof.
  unfold names_of. intro H. apply in_map_iff in H as (wb & <- & H). apply existing_In in H as [H1 H2].
  split; [apply in_map; exact H1 | exact H2].
Qed.

Lemma open_prs_of_spec prs names i : In i (open_prs_of prs names) ->
  exists p, In p prs /\ pr_id p = i /\ pr_open p = true /\ In (pr_src p) names.
Proof.
  unfold open_prs_of. intro H. apply in_map_iff in H as (p & <- & H). apply filter_In in H as [H1 H2].
  apply andb_true_iff in H2 as [H2 H3]. apply mem_true in H3. exists p. auto.
Qed.

(* the shape of every result *)
Lemma reset_cases prune v force s seen snapshot remote src cands prs :
  let r := reset_with prune v force s seen snapshot remote src cands prs in
  let names := names_of snapshot cands in
  let deleted := if prune then names else [] in
  (r = mkRes ResetComplete remote [] 0 [] /\ names = []) \/
  r = mkRes MissingRef remote [] 0 [] \/
  (r = refused remote /\ force = false) \/
  (push_all_atomic s remote (remove_all snapshot names) deleted = None /\ r = mkRes PushFailed remote [] 1 []) \/
  (exists remote',
     push_all_atomic s remote (remove_all snapshot names) deleted = Some remote' /\
     r = mkRes ResetComplete remote' deleted 1 (open_prs_of prs names)).
Proof.
  cbv zeta. unfold reset_with, names_of.
  destruct (existing snapshot cands) as [|w0 ws0] eqn:E; [left; split; reflexivity|]. rewrite <- E.
  destruct (lossy_any v s seen snapshot src (existing snapshot cands)) as [l|]; [|right; left; reflexivity].
  destruct (l && negb force) eqn:B.
  - right; right; left. split; [reflexivity|]. apply andb_true_iff in B as [_ B]. destruct force; [discriminate B | reflexivity].
  - destruct (push_all_atomic s remote _ _) as [remote'|] eqn:P.
    + right; right; right; right. exists remote'. split; reflexivity.
    + right; right; right; left. split; reflexivity.
Qed.

Definition no_effect (remote : refmap) (r : result) : Prop :=
  r_remote r = remote /\ r_deleted r = [] /\ r_declined r = [].

(* Deleted names and declined pull requests, with or without force; a refusal or a failure changes nothing;
   at most one push. *)
Theorem scope_effects prune v force s seen snapshot remote src cands prs :
  let r := reset_with prune v force s seen snapshot remote src cands prs in
  (forall n, In n (r_deleted r) -> In n (map w_name cands) /\ has snapshot n = true) /\
  (forall i, In i (r_declined r) ->
     exists p, In p prs /\ pr_id p = i /\ pr_open p = true /\
               In (pr_src p) (map w_name cands) /\ has snapshot (pr_src p) = true) /\
  r_pushes r <= 1 /\
  (r_outcome r <> ResetComplete -> no_effect remote r) /\
  (r_pushes r = 0 -> no_effect remote r).
Proof.
  cbv zeta. unfold no_effect.
  destruct (reset_cases prune v force s seen snapshot remote src cands prs)
    as [[-> _]|[->|[[-> _]|[[_ ->]|(remote' & _ & ->)]]]]; cbn [r_deleted r_declined r_pushes r_outcome r_remote refused].
  - repeat split; intros; try reflexivity; try lia; try contradiction.
  - repeat split; intros; try reflexivity; try lia; try contradiction.
  - repeat split; intros; try reflexivity; try lia; try contradiction.
  - repeat split; intros; try reflexivity; try lia; try contradiction; try discriminate.
  - split; [|split; [|split; [lia | split]]].
    + intros n H. destruct prune; [|destruct H]. exact (names_exist _ _ _ H).
    + intros i H. apply open_prs_of_spec in H as (p & A & B & C & D). apply names_exist in D as [D1 D2].
      exists p. auto.
    + intro H. contradiction H. reflexivity.
    + discriminate.
Qed.

(* the heads of the remote after a completed reset that pushed *)
Theorem scope_remote prune v force s seen snapshot remote src cands prs :
  wf_store s -> keys_nodup snapshot ->
  let r := reset_with prune v force s seen snapshot remote src cands prs in
  let names := names_of snapshot cands in
  r_pushes r = 1 -> r_outcome r = ResetComplete ->
  forall n, lookup (r_remote r) n =
            if mem n names then (if prune then None else lookup remote n)
            else match lookup snapshot n with Some x => Some x | None => lookup remote n end.
Proof.
  intros W ND. cbv zeta.
  destruct (reset_cases prune v force s seen snapshot remote src cands prs)
    as [[-> _]|[->|[[-> _]|[[_ ->]|(remote' & P & ->)]]]]; cbn [r_pushes r_outcome r_remote refused]; try discriminate.
  intros _ _ n.
  destruct (push_all_atomic_spec s remote _ _ remote' W (keys_nodup_remove_all _ _ ND) P) as (A & B & _).
  pose proof (lookup_remove_all (names_of snapshot cands) snapshot n) as L.
  destruct (mem n (names_of snapshot cands)) eqn:M.
  - rewrite (B n L). destruct prune; [rewrite M; reflexivity | reflexivity].
  - destruct (lookup snapshot n) as [x|] eqn:Ls.
    + exact (A n x L).
    + rewrite (B n L). destruct prune; [rewrite M; reflexivity | reflexivity].
Qed.

(* Under the clone-time assumption (nobody wrote to the remote since the clone: remote = snapshot) the push is
   accepted, every name that is not an integration branch of this pull request keeps its value, and the only
   change is the disappearance of such names. *)
Theorem scope_snapshot prune v force s seen snapshot src cands prs :
  wf_store s -> keys_nodup snapshot -> (forall n x, lookup snapshot n = Some x -> x < length s) ->
  let r := reset_with prune v force s seen snapshot snapshot src cands prs in
  let own := fun n => mem n (map w_name cands) in
  r_outcome r <> PushFailed /\ untouched own snapshot (r_remote r) /\ only_deletes own snapshot (r_remote r).
Proof.
  intros W ND Hb. cbv zeta.
  pose proof (scope_remote prune v force s seen snapshot snapshot src cands prs W ND) as SR. cbv zeta in SR.
  assert (Same : forall r, r_remote r = snapshot ->
            untouched (fun n => mem n (map w_name cands)) snapshot (r_remote r) /\
            only_deletes (fun n => mem n (map w_name cands)) snapshot (r_remote r)).
  { intros r ->. split; [intros n _; reflexivity | intros n H; contradiction H; reflexivity]. }
  destruct (reset_cases prune v force s seen snapshot snapshot src cands prs)
    as [[E _]|[E|[[E _]|[[P E]|(remote' & P & E)]]]]; rewrite E in *.
  - split; [discriminate | apply Same; reflexivity].
  - split; [discriminate | apply Same; reflexivity].
  - split; [discriminate | apply Same; reflexivity].
  - (* the push cannot be refused *)
    exfalso. unfold push_all_atomic in P.
    match type of P with (if ?c then _ else _) = None => assert (C : c = true) end.
    { apply andb_true_iff. split.
      - apply forallb_forall. intros [n x] Hin. cbn [fst snd]. unfold ref_acceptable.
        apply (In_lookup _ _ _ (keys_nodup_remove_all _ _ ND)) in Hin. rewrite lookup_remove_all in Hin.
        destruct (mem n (names_of snapshot cands)); [discriminate Hin|]. rewrite Hin.
        apply anc_refl_b; [exact W | exact (Hb n x Hin)].
      - destruct prune; [|reflexivity]. apply forallb_forall. intros n Hn. apply names_exist in Hn as [_ Hn]. exact Hn. }
    rewrite C in P. discriminate P.
  - split; [discriminate|]. cbn [r_pushes r_outcome r_remote] in *. specialize (SR eq_refl eq_refl).
    assert (Sub : forall n, mem n (names_of snapshot cands) = true -> mem n (map w_name cands) = true).
    { intros n H. apply mem_true in H. apply names_exist in H as [H _]. apply mem_true. exact H. }
    split.
    + intros n Hn. rewrite SR. destruct (mem n (names_of snapshot cands)) eqn:M.
      * rewrite (Sub n M) in Hn. discriminate Hn.
      * destruct (lookup snapshot n); reflexivity.
    + intros n Hn. rewrite SR in *. destruct (mem n (names_of snapshot cands)) eqn:M.
      * split; [exact (Sub n M)|]. destruct prune; [reflexivity | contradiction Hn; reflexivity].
      * exfalso. apply Hn. destruct (lookup snapshot n); reflexivity.
Qed.

(* Without that assumption: what the clone knew is pushed as the clone knew it (a non-forced push: every update
   is a fast-forward), a branch the clone does not know survives. *)
Corollary scope_unknown_survives prune v force s seen snapshot remote src cands prs n :
  wf_store s -> keys_nodup snapshot -> lookup snapshot n = None ->
  lookup (r_remote (reset_with prune v force s seen snapshot remote src cands prs)) n = lookup remote n.
Proof.
  intros W ND L.
  pose proof (scope_remote prune v force s seen snapshot remote src cands prs W ND) as SR. cbv zeta in SR.
  pose proof (scope_effects prune v force s seen snapshot remote src cands prs) as (_ & _ & Le & Ne & Z). cbv zeta in *.
  destruct (r_pushes (reset_with prune v force s seen snapshot remote src cands prs)) as [|[|k]] eqn:Pn; [| |lia].
  - destruct (Z eq_refl) as (-> & _). reflexivity.
  - destruct (r_outcome (reset_with prune v force s seen snapshot remote src cands prs)) eqn:O;
      try (destruct Ne as (-> & _); [discriminate | reflexivity]).
    rewrite (SR eq_refl eq_refl n), L.
    destruct (mem n (names_of snapshot cands)) eqn:M; [|reflexivity].
    apply mem_true in M. apply names_exist in M as [_ M]. unfold has in M. rewrite L in M. discriminate M.
Qed.

(* the completed reset really removes the integration branches (uses the keyword read from the code) *)
Theorem reset_removes v force s seen snapshot remote src cands prs :
  wf_store s -> keys_nodup snapshot ->
  let r := reset v force s seen snapshot remote src cands prs in
  r_outcome r = ResetComplete ->
  forall n, In n (names_of snapshot cands) -> lookup (r_remote r) n = None.
Proof.
  intros W ND. cbv zeta. unfold reset. intros O n Hn.
  pose proof (scope_remote push_prune v force s seen snapshot remote src cands prs W ND) as SR. cbv zeta in SR.
  destruct (reset_cases push_prune v force s seen snapshot remote src cands prs)
    as [[E N]|[E|[[E _]|[[_ E]|(remote' & P & E)]]]]; rewrite E in *; cbn [r_outcome r_pushes r_remote refused] in *;
    try discriminate O.
  - rewrite N in Hn. destruct Hn.
  - rewrite (SR eq_refl eq_refl n). apply mem_true in Hn. rewrite Hn. reflexivity.
Qed.

(* scope, on a concrete repository: names 11 (an integration branch of another pull request), 12 (a queue branch)
   and the source / destination keep their value; only the open pull request of the deleted branch is declined *)
Example scope_example :
  let refs := mg_refs ++ [(11, 3); (12, 1)] in
  let prs := [mkPR 5 10 true; mkPR 6 1 true; mkPR 7 11 true; mkPR 8 10 false] in
  let r := reset code_variant true pl_store [3] refs refs 1 (mg_cands [2; 3; 4; 5]) prs in
  r_outcome r = ResetComplete /\ r_deleted r = [10] /\ r_declined r = [5] /\ r_pushes r = 1 /\
  lookup (r_remote r) 10 = None /\ lookup (r_remote r) 11 = Some 3 /\ lookup (r_remote r) 12 = Some 1 /\
  lookup (r_remote r) 0 = Some 1 /\ lookup (r_remote r) 1 = Some 4.
Proof. vm_compute. repeat split. Qed.

(* ---- names: the integration branches pass the guard of Branch.remove ---- *)
From Coq Require Import String Ascii.
Lemma prefix_app (a b : string) : prefix a (a ++ b) = true.
Proof. induction a as [|c a IH]; cbn; [destruct b; reflexivity|]. destruct (ascii_dec c c); [exact IH | contradiction]. Qed.

Lemma wname_shape version src : wname version src = ("w/" ++ version ++ "/" ++ src ++ "")%string.
Proof. reflexivity. Qed.

Theorem wname_guard version src : remove_allowed (wname version src) = true.
Proof.
  unfold remove_allowed. rewrite wname_shape.
  change remove_guard_prefixes with ("w/" :: tl remove_guard_prefixes)%string.
  cbn [existsb]. rewrite prefix_app. reflexivity.
Qed.
