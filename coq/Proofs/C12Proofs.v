(* Proofs for C12: the gates of _handle_pull_request (Model/Holds.v, data from Generated/Facts_C12.v, options
   through Model/Reactor.v, names through Model/Names.v) against Spec/C12Spec.v. *)
From Coq Require Import List String Ascii Bool Arith NArith Lia Permutation.
Require Import BertE.Base.Str BertE.Base.C07Str BertE.Generated.Facts_C07 BertE.Generated.Facts_C12
               BertE.Model.Names BertE.Model.Reactor BertE.Model.Holds
               BertE.Spec.C07Spec BertE.Spec.C12Spec BertE.Proofs.C07Proofs.
Import ListNotations.
Open Scope string_scope.

(* ================================================================== 1. what the generated facts say *)

(* the relevant calls of _handle_pull_request start with the gate prefix of the model, in its order,
   the gates unconditional, handle_declined_pull_request under its guard *)
Lemma c12_gate_order : firstn (List.length gate_prefix) relevant_calls = gate_prefix.
Proof. vm_compute. reflexivity. Qed.

Definition c12_gates : list string :=
  ["early_checks"; "send_greetings"; "handle_comments"; "check_dependencies"; "clone_git_repo";
   "handle_declined_pull_request"].

(* every call that can create a branch, a pull request, a queue entry or a merge (or push) comes after
   every gate, in particular after clone_git_repo and after the DECLINED branch *)
Lemma c12_gates_precede : forallb precedes_creating c12_gates = true.
Proof. vm_compute. reflexivity. Qed.

(* ... and they do occur in the function (the statement above is not empty) *)
Lemma c12_creating_present :
  forallb (fun c => existsb (fun cb => (fst cb =? c)%string) hpr_calls) creating_calls = true.
Proof. vm_compute. reflexivity. Qed.

Lemma c12_early_before_greetings :
  index_of "early_checks" relevant_calls = Some 0%nat /\ index_of "send_greetings" relevant_calls = Some 1%nat.
Proof. vm_compute. split; reflexivity. Qed.

Lemma c12_fact_literals :
  early_status_ok = ["OPEN"; "DECLINED"] /\
  early_raises = ["NothingToDo"; "NotMyJob"; "WrongDestination"] /\
  dep_raises = ["NothingToDo"; "IncorrectPullRequestNumber"; "AfterPullRequest"] /\
  dep_merged_status = "MERGED" /\ declined_guard_status = "DECLINED" /\ declined_always_raises = true /\
  notify_kind = "template".
Proof. vm_compute. repeat split; reflexivity. Qed.

(* only the option handler and check_dependencies look at the hold options; the queue code looks at
   neither comments nor options *)
Lemma c12_hold_readers : hold_readers = ["after_pull_request"; "check_dependencies"] /\ queue_reads_holds = false.
Proof. vm_compute. split; reflexivity. Qed.

Definition c12_quiet (cls : string) : bool := match notified cls with Some false => true | _ => false end.

Lemma c12_kinds :
  forallb c12_quiet ["NothingToDo"; "NotMyJob"; "UnrecognizedBranchPattern"; "PullRequestDeclined"] = true /\
  forallb c12_quiet declined_raises = true /\
  notified "WrongDestination" = Some true /\ notified "AfterPullRequest" = Some true /\
  notified "IncorrectPullRequestNumber" = Some true /\ notified "InitMessage" = Some true.
Proof. vm_compute. repeat split; reflexivity. Qed.

(* `wait` and `after_pull_request` are options anybody may set (the registry of C07 and the flags read by
   this property's translator agree) *)
Lemma c12_hold_options_unprivileged :
  map fst hold_flags = ["wait"; "after_pull_request"] /\
  forallb (fun kf => match dispatch registry (fst kf) with
                     | Some e => is_option e && Bool.eqb (e_priv e) (fst (snd kf))
                                 && Bool.eqb (e_auth e) (snd (snd kf)) && negb (e_priv e) && negb (e_auth e)
                     | None => false
                     end) hold_flags = true.
Proof. vm_compute. split; reflexivity. Qed.

(* ================================================================== 2. check_dependencies *)

Lemma c12_first_unknown_none lookup ids :
  first_unknown lookup ids = None <-> forall d, In d ids -> dep_status lookup d <> None.
Proof.
  induction ids as [|d t IH]; cbn [first_unknown].
  - split; [intros _ d [] | reflexivity].
  - destruct (dep_status lookup d) eqn:E.
    + rewrite IH. split.
      * intros H x [<-|I]; [rewrite E; discriminate | apply H; exact I].
      * intros H x I. apply H. right. exact I.
    + split; [discriminate|]. intro H. exfalso. apply (H d (or_introl eq_refl)). exact E.
Qed.

Lemma c12_first_unknown_perm lookup o1 o2 : Permutation o1 o2 ->
  first_unknown lookup o1 = None -> first_unknown lookup o2 = None.
Proof.
  intros P H. rewrite c12_first_unknown_none in *. intros d I. apply H.
  apply (Permutation_in d (Permutation_sym P)). exact I.
Qed.

Lemma c12_filter_length_perm {A} (f : A -> bool) o1 o2 : Permutation o1 o2 ->
  List.length (filter f o1) = List.length (filter f o2).
Proof.
  intro P. induction P as [|x l l' P IH|x y l|l l' l'' P1 IH1 P2 IH2]; cbn [filter].
  - reflexivity.
  - destruct (f x); cbn [List.length]; rewrite IH; reflexivity.
  - destruct (f x), (f y); reflexivity.
  - rewrite IH1. exact IH2.
Qed.

(* the outcome of check_dependencies does not depend on the order in which the set is iterated *)
Lemma c12_order_independent lookup s o1 o2 : Permutation o1 o2 ->
  check_dependencies lookup s o1 = check_dependencies lookup s o2.
Proof.
  intro P. unfold check_dependencies.
  destruct (get_setting "wait" s) as [w|]; [|reflexivity].
  destruct (truthy w); [reflexivity|].
  destruct (get_setting "after_pull_request" s) as [v|]; [|reflexivity].
  destruct (negb (truthy v)); [reflexivity|].
  destruct v as [b| |t|l]; try reflexivity.
  rewrite (c12_filter_length_perm (is_merged lookup) o1 o2 P).
  destruct (first_unknown lookup o1) eqn:E1, (first_unknown lookup o2) eqn:E2; try reflexivity.
  - rewrite (c12_first_unknown_perm lookup o2 o1 (Permutation_sym P) E2) in E1. discriminate E1.
  - rewrite (c12_first_unknown_perm lookup o1 o2 P E1) in E2. discriminate E2.
Qed.

(* the id it names is one of the unknown ones, whatever the order (the only order-dependent part) *)
Lemma c12_reported_id_unknown lookup order d :
  reported_id lookup order = Some d -> In d order /\ dep_status lookup d = None.
Proof.
  unfold reported_id. induction order as [|x t IH]; cbn [first_unknown]; [discriminate|].
  destruct (dep_status lookup x) eqn:E.
  - intro H. destruct (IH H) as [I U]. split; [right; exact I | exact U].
  - intro H. injection H as <-. split; [left; reflexivity | exact E].
Qed.

Lemma c12_filter_le {A} (f : A -> bool) l : (List.length (filter f l) <= List.length l)%nat.
Proof. induction l as [|a t IH]; cbn [filter List.length]; [lia|]. destruct (f a); cbn [List.length]; lia. Qed.

Lemma c12_filter_all {A} (f : A -> bool) l :
  List.length (filter f l) = List.length l -> forall x, In x l -> f x = true.
Proof.
  induction l as [|a t IH]; cbn [filter List.length]; [intros _ x []|].
  destruct (f a) eqn:E; cbn [List.length].
  - intros H x [<-|I]; [exact E | apply IH; [lia | exact I]].
  - intro H. pose proof (c12_filter_le f t). lia.
Qed.

Lemma c12_filter_all_inv {A} (f : A -> bool) l :
  (forall x, In x l -> f x = true) -> List.length (filter f l) = List.length l.
Proof.
  induction l as [|a t IH]; cbn [filter List.length]; [reflexivity|].
  intro H. rewrite (H a (or_introl eq_refl)). cbn [List.length]. rewrite IH; [reflexivity|].
  intros x I. apply H. right. exact I.
Qed.

Lemma c12_is_merged_spec lookup d : is_merged lookup d = dep_merged lookup d.
Proof. unfold is_merged, dep_merged, dep_status. reflexivity. Qed.

Lemma c12_after_ids_dependencies s : after_ids s = dependencies s.
Proof. reflexivity. Qed.

(* check_dependencies returns only for a pull request that is not held ... *)
Lemma c12_dep_return_not_held lookup s order : Permutation order (after_ids s) ->
  check_dependencies lookup s order = DReturn -> held_by lookup s = false.
Proof.
  intros P. unfold check_dependencies, held_by, wait_on, dependencies, after_ids in *.
  destruct (get_setting "wait" s) as [w|]; [|discriminate].
  destruct (truthy w); [discriminate|]. cbn [orb].
  destruct (get_setting "after_pull_request" s) as [v|]; [|discriminate].
  destruct v as [b| |t|l]; cbn [truthy negb]; try reflexivity.
  destruct l as [|d0 l0] eqn:EL; [reflexivity|]. cbn [negb]. rewrite <- EL in *.
  destruct (first_unknown lookup order) eqn:FU; [discriminate|].
  destruct (Nat.eqb (List.length l) (List.length (filter (is_merged lookup) order))) eqn:LE; [|discriminate].
  intros _. apply Nat.eqb_eq in LE. rewrite <- (Permutation_length P) in LE.
  pose proof (c12_filter_all (is_merged lookup) order (eq_sym LE)) as ALL.
  destruct (existsb (fun d => negb (dep_merged lookup d)) l) eqn:X; [|reflexivity].
  apply existsb_exists in X as (d & I & ND). rewrite <- c12_is_merged_spec in ND.
  rewrite (ALL d (Permutation_in d (Permutation_sym P) I)) in ND. discriminate ND.
Qed.

(* settings in which both hold options have the shape the registry gives them *)
Definition c12_typed (s : settings) : Prop :=
  (exists w, get_setting "wait" s = Some w) /\ c07_apv s.

(* ... and it does return for every such pull request *)
Lemma c12_not_held_dep_return lookup s order : Permutation order (after_ids s) -> c12_typed s ->
  held_by lookup s = false -> check_dependencies lookup s order = DReturn.
Proof.
  intros P [[w W] [l A]] H. unfold check_dependencies, held_by, wait_on, dependencies, after_ids in *.
  rewrite W, A in *. apply orb_false_iff in H as [HW HD]. rewrite HW.
  destruct l as [|d0 l0] eqn:EL; [reflexivity|]. cbn [truthy negb]. rewrite <- EL in *.
  assert (ALL : forall d, In d order -> is_merged lookup d = true).
  { intros d I. destruct (is_merged lookup d) eqn:M; [reflexivity|]. exfalso.
    assert (X : existsb (fun d => negb (dep_merged lookup d)) l = true).
    { apply existsb_exists. exists d. split; [exact (Permutation_in d P I)|].
      rewrite <- c12_is_merged_spec, M. reflexivity. }
    rewrite X in HD. discriminate HD. }
  assert (FU : first_unknown lookup order = None).
  { apply c12_first_unknown_none. intros d I. specialize (ALL d I). unfold is_merged in ALL.
    destruct (dep_status lookup d); [discriminate | discriminate ALL]. }
  rewrite FU, (c12_filter_all_inv _ _ ALL), (Permutation_length P), Nat.eqb_refl. reflexivity.
Qed.

(* what it raises for a held one: the silent NothingToDo for `wait`, otherwise one of the two messages *)
Lemma c12_held_dep_raises lookup s order : Permutation order (after_ids s) -> c12_typed s ->
  held_by lookup s = true ->
  exists cls, check_dependencies lookup s order = DRaise cls /\
              (cls = "NothingToDo" /\ wait_on s = true \/
               wait_on s = false /\ (cls = "IncorrectPullRequestNumber" \/ cls = "AfterPullRequest")).
Proof.
  intros P T H. destruct (check_dependencies lookup s order) as [|cls|n] eqn:E.
  - rewrite (c12_dep_return_not_held lookup s order P E) in H. discriminate H.
  - exists cls. split; [reflexivity|].
    destruct T as [[w W] [l A]]. unfold check_dependencies, wait_on in *. rewrite W, A in *.
    destruct (truthy w); [left; injection E as <-; split; reflexivity|]. right. split; [reflexivity|].
    destruct (negb (truthy (VSet l))); [discriminate|].
    destruct (first_unknown lookup order); [injection E as <-; left; reflexivity|].
    destruct (Nat.eqb _ _); [discriminate | injection E as <-; right; reflexivity].
  - exfalso. destruct T as [[w W] [l A]]. unfold check_dependencies in E. rewrite W, A in E.
    destruct (truthy w); [discriminate|]. destruct (negb (truthy (VSet l))); [discriminate|].
    destruct (first_unknown lookup order); [discriminate|]. destruct (Nat.eqb _ _); discriminate.
Qed.

(* ================================================================== 3. the options of the registry stay typed *)

Lemma c12_has_set k k' v s : get_setting k s <> None -> get_setting k (set_setting k' v s) <> None.
Proof.
  intro H. destruct (String.eqb_spec k' k) as [->|N].
  - rewrite c07_get_set_same. discriminate.
  - rewrite c07_get_set_other; [exact H | exact N].
Qed.

Lemma c12_has_run_option k e args s : get_setting k s <> None ->
  get_setting k (rsettings (run_option e args s)) <> None.
Proof.
  intro H. unfold run_option. destruct (e_handler e); try exact H.
  - destruct args as [|a [|b r]]; cbn [rsettings]; try exact H; apply c12_has_set; exact H.
  - destruct args as [|a [|b r]]; cbn [rsettings]; try exact H.
    destruct (py_int_ok a); [|exact H].
    destruct (get_setting "after_pull_request" s) as [[| | |l]|]; cbn [rsettings]; try exact H.
    apply c12_has_set; exact H.
Qed.

Lemma c12_has_apply_keywords k reg P A kws : forall first s, get_setting k s <> None ->
  get_setting k (rsettings (apply_keywords reg P A first kws s)) <> None.
Proof.
  induction kws as [|kwd rest IH]; intros first s H; [exact H|]. cbn [apply_keywords].
  destruct (dispatch reg (kw_key kwd)) as [e|]; [|exact H].
  destruct (is_option e); [|destruct first; exact H].
  destruct (e_priv e && negb P); [exact H|]. destruct (e_auth e && negb A); [exact H|].
  pose proof (c12_has_run_option k e (kw_args kwd) s H) as R.
  destruct (run_option e (kw_args kwd) s) as [s1|r s1]; cbn [rsettings] in R |- *; [apply IH; exact R | exact R].
Qed.

Lemma c12_has_options_phase k reg prefix admins pr_author cs : forall s, get_setting k s <> None ->
  get_setting k (settings_of (options_phase reg prefix admins pr_author cs s)) <> None.
Proof.
  induction cs as [|c t IH]; intros s H; [exact H|]. cbn [options_phase]. unfold handle_options.
  destruct (option_keywords prefix (c_text c)) as [kws|]; [|apply IH; exact H].
  pose proof (c12_has_apply_keywords k reg (is_privileged admins pr_author (c_author c))
                (c_author c =? pr_author)%string kws true s H) as R.
  destruct (apply_keywords reg (is_privileged admins pr_author (c_author c))
              (c_author c =? pr_author)%string true kws s) as [s1|r s1]; cbn [rsettings] in R;
    [apply IH; exact R | exact R].
Qed.

Lemma c12_apv_options_phase robot admins pr_author cs : forall s, c07_apv s ->
  forall s', options_phase registry (address robot) admins pr_author cs s = Ok s' -> c07_apv s'.
Proof.
  induction cs as [|c t IH]; intros s AP s' E; cbn [options_phase] in E.
  - injection E as <-. exact AP.
  - pose proof (c07_handle_options_block robot admins pr_author c s AP) as HB.
    destruct (handle_options registry (address robot) (is_privileged admins pr_author (c_author c))
                (c_author c =? pr_author)%string (c_text c) s) as [s1|r s1]; [|discriminate E].
    exact (IH s1 HB s' E).
Qed.

Lemma c12_init_has reg cmdline k : In k (option_names reg) -> get_setting k (init_settings reg cmdline) <> None.
Proof.
  unfold option_names. induction reg as [|e t IH]; cbn [filter map init_settings]; [intros []|].
  destruct (is_option e); cbn [map].
  - intros [E|I].
    + rewrite E, c07_get_set_same. discriminate.
    + apply c12_has_set. exact (IH I).
  - exact IH.
Qed.

Lemma c12_init_has_wait cmdline : get_setting "wait" (init_settings registry cmdline) <> None.
Proof. apply c12_init_has. vm_compute. tauto. Qed.

Lemma c12_options_typed cmdline robot admins pr_author cs s :
  options_result registry cmdline robot admins pr_author cs = Ok s -> c12_typed s.
Proof.
  intro E. unfold options_result in E. split.
  - pose proof (c12_has_options_phase "wait" registry ("@" ++ robot) admins pr_author cs
                  (init_settings registry cmdline) (c12_init_has_wait cmdline)) as H.
    rewrite E in H. cbn [settings_of] in H. destruct (get_setting "wait" s) as [w|]; [exists w; reflexivity|].
    exfalso. apply H. reflexivity.
  - exact (c12_apv_options_phase robot admins pr_author cs _ (c07_init_apv cmdline) s E).
Qed.

(* ================================================================== 4. early_checks *)

Lemma c12_producer_source k : cascade_producer k = source_name k.
Proof. destruct k; vm_compute; reflexivity. Qed.

Lemma c12_consumer_destination k : cascade_consumer k = destination_name k.
Proof. destruct k; vm_compute; reflexivity. Qed.

Lemma c12_status_ok st : mem_str st early_status_ok = true <-> st = "OPEN" \/ st = "DECLINED".
Proof.
  change early_status_ok with ["OPEN"; "DECLINED"]. rewrite mem_str_In. cbn [In].
  split; [intros [H|[H|[]]]; [left|right]; symmetry; exact H | intros [->| ->]; [left | right; left]; reflexivity].
Qed.

(* exact characterisation of the pull requests early_checks lets through *)
Lemma c12_early_none e st src dst :
  early_checks e st src dst = None <->
  (st = "OPEN" \/ st = "DECLINED") /\ foreign src dst = false /\ e = true.
Proof.
  unfold early_checks, foreign, foreign_destination, foreign_source, is_cascade_producer, is_cascade_consumer.
  rewrite <- c12_status_ok.
  destruct (mem_str st early_status_ok); cbn [negb].
  2:{ split; [discriminate | intros [H _]; discriminate H]. }
  destruct (classify src) as [a|]; cbn [option_map].
  2:{ rewrite orb_true_r. split; [discriminate | intros [_ [H _]]; discriminate H]. }
  rewrite c12_producer_source. destruct (source_name (bi_class a)); cbn [negb].
  2:{ rewrite orb_true_r. split; [discriminate | intros [_ [H _]]; discriminate H]. }
  rewrite orb_false_r.
  destruct (classify dst) as [b|]; cbn [option_map].
  2:{ split; [discriminate | intros [_ [H _]]; discriminate H]. }
  rewrite c12_consumer_destination. destruct (destination_name (bi_class b)); cbn [negb].
  2:{ split; [discriminate | intros [_ [H _]]; discriminate H]. }
  destruct e; split; try discriminate; try (intros [_ [_ H]]; discriminate H).
  - intros _. repeat split; reflexivity.
  - intros _. reflexivity.
Qed.

(* what leaves early_checks for a foreign or finished-by-merge pull request is never posted *)
Lemma c12_early_quiet e st src dst :
  foreign src dst = true \/ (finished st = true /\ closed st = false) ->
  exists cls, early_checks e st src dst = Some cls /\ notified cls = Some false /\
              (cls = "NothingToDo" \/ cls = "NotMyJob" \/ cls = "UnrecognizedBranchPattern").
Proof.
  intro H. unfold early_checks.
  destruct (mem_str st early_status_ok) eqn:M; cbn [negb].
  2:{ exists "NothingToDo". split; [reflexivity|]. split; [vm_compute; reflexivity | left; reflexivity]. }
  apply c12_status_ok in M.
  assert (F : foreign src dst = true).
  { destruct H as [F|[Fi Cl]]; [exact F|]. exfalso. unfold finished, closed in *.
    destruct M as [-> | ->]; [discriminate Fi | discriminate Cl]. }
  unfold foreign, foreign_destination, foreign_source, is_cascade_producer, is_cascade_consumer in *.
  destruct (classify src) as [a|]; cbn [option_map].
  2:{ exists "UnrecognizedBranchPattern". split; [reflexivity|]. split; [vm_compute; reflexivity | right; right; reflexivity]. }
  rewrite c12_producer_source. destruct (source_name (bi_class a)); cbn [negb] in *.
  2:{ exists "NotMyJob". split; [reflexivity|]. split; [vm_compute; reflexivity | right; left; reflexivity]. }
  rewrite orb_false_r in F.
  destruct (classify dst) as [b|]; cbn [option_map].
  2:{ exists "UnrecognizedBranchPattern". split; [reflexivity|]. split; [vm_compute; reflexivity | right; right; reflexivity]. }
  rewrite c12_consumer_destination. destruct (destination_name (bi_class b)); cbn [negb] in *; [discriminate F|].
  exists "NotMyJob". split; [reflexivity|]. split; [vm_compute; reflexivity | right; left; reflexivity].
Qed.

Lemma c12_foreign_stated_foreign src dst : foreign_stated src dst = true -> foreign src dst = true.
Proof.
  unfold foreign_stated, foreign, foreign_source_stated, foreign_source.
  destruct (foreign_destination dst); [reflexivity|]. cbn [orb].
  destruct (classify src) as [a|]; [|reflexivity]. destruct (bi_class a); cbn; congruence.
Qed.

(* ================================================================== 5. one evaluation *)

Lemma c12_greeting_unaddressed robot : addressed robot greeting_text = false.
Proof. unfold addressed, address, starts_with. cbn. reflexivity. Qed.

(* the options handle_comments works with are the ones the pull request carries: the greeting posted by
   the same evaluation changes nothing *)
Lemma c12_visible_options cf p :
  options_result registry (cf_cmdline cf) (cf_robot cf) (cf_admins cf) (pr_author p)
                 (visible_comments (cf_robot cf) (pr_comments p))
  = options_result registry (cf_cmdline cf) (cf_robot cf) (cf_admins cf) (pr_author p) (pr_comments p).
Proof.
  unfold visible_comments. destruct (greets (cf_robot cf) (pr_comments p)); [|reflexivity].
  pose proof (c07_unaddressed registry (cf_cmdline cf) (cf_robot cf) (cf_admins cf) (pr_author p)
                (pr_comments p) (mk_comment (cf_robot cf) greeting_text) []
                (c12_greeting_unaddressed (cf_robot cf))) as [E _].
  rewrite app_nil_r in E. exact E.
Qed.

Lemma c12_handle_comments_ok reg cmdline robot admins pr_author cs s :
  handle_comments reg cmdline robot admins pr_author cs = Ok s ->
  options_result reg cmdline robot admins pr_author cs = Ok s.
Proof.
  unfold handle_comments. destruct (options_result reg cmdline robot admins pr_author cs) as [s0|e s0]; [|discriminate].
  destruct (commands_scan reg ("@" ++ robot) robot admins pr_author (rev cs)); [discriminate|]. exact (fun H => H).
Qed.

Lemma c12_carried_of_ok cf p s :
  handle_comments registry (cf_cmdline cf) (cf_robot cf) (cf_admins cf) (pr_author p)
                  (visible_comments (cf_robot cf) (pr_comments p)) = Ok s ->
  carried cf p = s /\ c12_typed s.
Proof.
  intro H. apply c12_handle_comments_ok in H. split.
  - unfold carried. rewrite <- c12_visible_options, H. reflexivity.
  - exact (c12_options_typed _ _ _ _ _ _ H).
Qed.

Definition c12_perm (order : list string -> list string) : Prop := forall l, Permutation (order l) l.

Lemma c12_precedes c : In c c12_gates -> precedes_creating c = true.
Proof. intro I. pose proof c12_gates_precede as H. rewrite forallb_forall in H. exact (H c I). Qed.

(* C12_held *)
Theorem c12_held cf dst_exists lookup order p : c12_perm order ->
  held cf lookup p = true \/ finished (pr_status p) = true \/ foreign (pr_src p) (pr_dst p) = true ->
  exists c, stop_call (ev_fate (evaluate cf dst_exists lookup order p)) = Some c /\
            In c c12_gates /\ precedes_creating c = true.
Proof.
  intros PO H. unfold evaluate.
  destruct (early_checks dst_exists (pr_status p) (pr_src p) (pr_dst p)) as [cls|] eqn:EC; cbn [ev_fate].
  { exists "early_checks". cbn [stop_call]. split; [reflexivity|]. split; [left; reflexivity|].
    apply c12_precedes. left. reflexivity. }
  apply c12_early_none in EC as (ST & NF & _).
  destruct (handle_comments registry (cf_cmdline cf) (cf_robot cf) (cf_admins cf) (pr_author p)
              (visible_comments (cf_robot cf) (pr_comments p))) as [s|[cls|n] s] eqn:HC.
  2,3: exists "handle_comments"; cbn [stop_call]; split; [reflexivity|]; split;
       [right; right; left; reflexivity | apply c12_precedes; right; right; left; reflexivity].
  destruct (check_dependencies lookup s (order (after_ids s))) as [|cls|n] eqn:CD.
  2,3: exists "check_dependencies"; cbn [stop_call]; split; [reflexivity|]; split;
       [do 3 right; left; reflexivity | apply c12_precedes; do 3 right; left; reflexivity].
  unfold after_clone. change declined_guard_status with "DECLINED". change declined_always_raises with true.
  destruct (String.eqb_spec (pr_status p) "DECLINED") as [D|ND].
  { exists "handle_declined_pull_request". cbn [stop_call]. split; [reflexivity|]. split;
      [do 5 right; left; reflexivity | apply c12_precedes; do 5 right; left; reflexivity]. }
  exfalso. destruct H as [H|[H|H]].
  - destruct (c12_carried_of_ok cf p s HC) as [C _]. unfold held in H. rewrite C in H.
    rewrite (c12_dep_return_not_held lookup s (order (after_ids s)) (PO _) CD) in H. discriminate H.
  - unfold finished in H. destruct ST as [ST|ST]; [rewrite ST in H; discriminate H | contradiction].
  - rewrite H in NF. discriminate NF.
Qed.

(* C12_silent *)
Theorem c12_silent cf dst_exists lookup order p :
  foreign (pr_src p) (pr_dst p) = true \/ (finished (pr_status p) = true /\ closed (pr_status p) = false) ->
  exists cls, evaluate cf dst_exists lookup order p = mk_eval false (Stopped "early_checks" cls) /\
              notified cls = Some false /\
              (cls = "NothingToDo" \/ cls = "NotMyJob" \/ cls = "UnrecognizedBranchPattern").
Proof.
  intro H. destruct (c12_early_quiet dst_exists (pr_status p) (pr_src p) (pr_dst p) H) as (cls & E & Q & W).
  exists cls. unfold evaluate. rewrite E. repeat split; assumption.
Qed.

(* a closed pull request: never past the DECLINED branch, whose own exceptions are silent *)
Theorem c12_declined cf dst_exists lookup order p : pr_status p = "DECLINED" ->
  match ev_fate (evaluate cf dst_exists lookup order p) with
  | Continues _ => False
  | _ => True
  end /\ forallb c12_quiet declined_raises = true.
Proof.
  intro D. split; [|exact (proj1 (proj2 c12_kinds))]. unfold evaluate.
  destruct (early_checks dst_exists (pr_status p) (pr_src p) (pr_dst p)); cbn [ev_fate]; [exact I|].
  destruct (handle_comments _ _ _ _ _ _) as [s|[cls|n] s]; try exact I.
  destruct (check_dependencies lookup s (order (after_ids s))); try exact I.
  unfold after_clone. rewrite D. vm_compute. exact I.
Qed.

(* C12_lifted *)
Theorem c12_lifted cf lookup order p s : c12_perm order ->
  pr_status p = "OPEN" -> foreign (pr_src p) (pr_dst p) = false ->
  handle_comments registry (cf_cmdline cf) (cf_robot cf) (cf_admins cf) (pr_author p)
                  (visible_comments (cf_robot cf) (pr_comments p)) = Ok s ->
  held cf lookup p = false ->
  evaluate cf true lookup order p = mk_eval (greets (cf_robot cf) (pr_comments p)) (Continues s)
  /\ s = carried cf p.
Proof.
  intros PO ST NF HC NH. destruct (c12_carried_of_ok cf p s HC) as [C T].
  split; [|symmetry; exact C]. unfold evaluate.
  assert (EC : early_checks true (pr_status p) (pr_src p) (pr_dst p) = None).
  { apply c12_early_none. repeat split; [left; exact ST | exact NF]. }
  rewrite EC, HC. unfold held in NH. rewrite C in NH.
  rewrite (c12_not_held_dep_return lookup s (order (after_ids s)) (PO _) T NH).
  unfold after_clone. rewrite ST. vm_compute. reflexivity.
Qed.

(* deleting comments that are not addressed to the robot (its own messages, chat), or adding some, leaves
   the carried options unchanged: two comment lists with the same addressed comments carry the same *)
Lemma c12_options_filter reg cmdline robot admins pr_author cs :
  options_result reg cmdline robot admins pr_author cs
  = options_result reg cmdline robot admins pr_author (filter (fun c => addressed robot (c_text c)) cs).
Proof.
  assert (G : forall pre, options_result reg cmdline robot admins pr_author (pre ++ cs)
              = options_result reg cmdline robot admins pr_author
                               (pre ++ filter (fun c => addressed robot (c_text c)) cs)).
  { induction cs as [|c t IH]; intro pre; [reflexivity|]. cbn [filter].
    destruct (addressed robot (c_text c)) eqn:A.
    - specialize (IH (pre ++ [c])%list). rewrite <- !app_assoc in IH. exact IH.
    - rewrite (proj1 (c07_unaddressed reg cmdline robot admins pr_author pre c t A)). apply IH. }
  exact (G []).
Qed.

Theorem c12_twin cf lookup p p' :
  pr_author p = pr_author p' ->
  filter (fun c => addressed (cf_robot cf) (c_text c)) (pr_comments p)
    = filter (fun c => addressed (cf_robot cf) (c_text c)) (pr_comments p') ->
  carried cf p = carried cf p' /\ held cf lookup p = held cf lookup p'.
Proof.
  intros A F. assert (C : carried cf p = carried cf p').
  { unfold carried. rewrite (c12_options_filter _ _ _ _ _ (pr_comments p)),
      (c12_options_filter _ _ _ _ _ (pr_comments p')), A, F. reflexivity. }
  split; [exact C|]. unfold held. rewrite C. reflexivity.
Qed.

(* a pull request is held only if one of its comments names a hold option (no hold out of nothing),
   unless `wait` was switched on from the command line *)
Theorem c12_hold_needs_comment cf lookup p : mem_str "wait" (cf_cmdline cf) = false ->
  held cf lookup p = true ->
  exists c, In c (pr_comments p) /\
            (names (cf_robot cf) (c_text c) "wait" = true \/
             names (cf_robot cf) (c_text c) "after_pull_request" = true).
Proof.
  intros CL H.
  destruct (existsb (fun c => names (cf_robot cf) (c_text c) "wait"
                              || names (cf_robot cf) (c_text c) "after_pull_request") (pr_comments p)) eqn:X.
  { apply existsb_exists in X as (c & I & N). exists c. split; [exact I|].
    apply orb_true_iff in N. exact N. }
  exfalso.
  assert (HL : forall o c, (o = "wait" \/ o = "after_pull_request") -> In c (pr_comments p) ->
               c07_harmless registry (cf_robot cf) (cf_admins cf) (pr_author p) o c).
  { intros o c O I. left. destruct (names (cf_robot cf) (c_text c) o) eqn:N; [|reflexivity]. exfalso.
    assert (Y : existsb (fun c => names (cf_robot cf) (c_text c) "wait"
                                  || names (cf_robot cf) (c_text c) "after_pull_request") (pr_comments p) = true).
    { apply existsb_exists. exists c. split; [exact I|]. destruct O as [-> | ->]; rewrite N;
        [reflexivity | apply orb_true_r]. }
    rewrite Y in X. discriminate X. }
  unfold held, carried, options_result in H.
  pose proof (c07_options_phase_frame registry (cf_robot cf) (cf_admins cf) (pr_author p) "wait"
                c07_registry_ok (pr_comments p) (init_settings registry (cf_cmdline cf))
                (fun c I => HL "wait" c (or_introl eq_refl) I)) as FW.
  pose proof (c07_options_phase_frame registry (cf_robot cf) (cf_admins cf) (pr_author p) "after_pull_request"
                c07_registry_ok (pr_comments p) (init_settings registry (cf_cmdline cf))
                (fun c I => HL "after_pull_request" c (or_intror eq_refl) I)) as FA.
  unfold address in FW, FA. unfold held_by, wait_on, dependencies in H. rewrite FW, FA in H.
  assert (IW : get_setting "wait" (init_settings registry (cf_cmdline cf)) = Some (VBool false)).
  { unfold registry. cbn [init_settings is_option e_kind e_key e_handler e_default default_of].
    rewrite CL. reflexivity. }
  assert (IA : get_setting "after_pull_request" (init_settings registry (cf_cmdline cf)) = Some (VSet [])).
  { destruct (c07_init_apv (cf_cmdline cf)) as [l E]. rewrite E.
    assert (L : forall b : bool, True) by (intro; exact I).
    unfold registry in E. cbn [init_settings is_option e_kind e_key e_handler e_default default_of] in E.
    repeat (rewrite c07_get_set_other in E by discriminate). rewrite c07_get_set_same in E.
    exact (eq_sym E). }
  rewrite IW, IA in H. discriminate H.
Qed.

(* ================================================================== 6. histories *)

Lemma c12_witness_wait_dirty : clean_logb c12_cf (run c12_h c12_w0 c12_witness_wait) = false.
Proof. vm_compute. reflexivity. Qed.

Lemma c12_witness_after_dirty : clean_logb c12_cf (run c12_h c12_w0 c12_witness_after) = false.
Proof. vm_compute. reflexivity. Qed.

Lemma c12_clean_logb_spec cf log : clean_logb cf log = true <-> clean_log cf log.
Proof.
  unfold clean_logb, clean_log. rewrite forallb_forall. split.
  - intros H id w I. specialize (H (id, w) I). cbn in H. apply negb_true_iff in H. exact H.
  - intros H [id w] I. cbn. apply negb_true_iff. apply H. exact I.
Qed.

Definition c12_full : Prop :=
  forall h w evs, (forall l, Permutation (h_order h l) l) -> s_queued w = [] ->
    clean_log (h_cf h) (run h w evs).

Theorem c12_refuted : ~ c12_full.
Proof.
  intro H. pose proof (H c12_h c12_w0 c12_witness_wait (fun l => Permutation_refl l) eq_refl) as C.
  apply c12_clean_logb_spec in C.
  change (clean_logb c12_cf (run c12_h c12_w0 c12_witness_wait) = true) in C.
  rewrite c12_witness_wait_dirty in C. discriminate C.
Qed.

(* ---- the invariant behind C12_partial: nothing in the queue is held *)

Definition c12_inv (cf : config) (w : sys) : Prop :=
  forall id, In id (s_queued w) -> held_in cf w id = false.

Lemma c12_mem_N x l : mem_N x l = true <-> In x l.
Proof.
  unfold mem_N. rewrite existsb_exists. split.
  - intros (y & I & E). apply N.eqb_eq in E. subst y. exact I.
  - intro I. exists x. split; [exact I | apply N.eqb_refl].
Qed.

Lemma c12_find_update_other f id id' prs : id' <> id ->
  find_pr (update_pr f id prs) id' = find_pr prs id'.
Proof.
  intro N. induction prs as [|[i q] t IH]; [reflexivity|]. cbn [update_pr map fst snd find_pr].
  destruct (N.eqb_spec i id) as [->|NE]; cbn [fst find_pr].
  - destruct (N.eqb_spec id id'); [congruence | exact IH].
  - destruct (i =? id')%N; [reflexivity | exact IH].
Qed.

Lemma c12_find_update f id id' prs :
  find_pr (update_pr f id prs) id' =
  if (id' =? id)%N then option_map f (find_pr prs id') else find_pr prs id'.
Proof.
  destruct (N.eqb_spec id' id) as [->|N]; [|apply c12_find_update_other; exact N].
  induction prs as [|[i q] t IH]; [reflexivity|]. cbn [update_pr map fst snd find_pr].
  destruct (N.eqb_spec i id) as [->|NE]; cbn [fst find_pr].
  - rewrite N.eqb_refl. reflexivity.
  - destruct (N.eqb_spec i id); [contradiction | exact IH].
Qed.

(* statuses after an update that keeps statuses *)
Lemma c12_lookup_update_keep f id prs (K : forall q, pr_status (f q) = pr_status q) id' :
  option_map pr_status (find_pr (update_pr f id prs) id') = option_map pr_status (find_pr prs id').
Proof.
  rewrite c12_find_update. destruct (id' =? id)%N; [|reflexivity].
  destruct (find_pr prs id'); cbn [option_map]; [rewrite K|]; reflexivity.
Qed.

Lemma c12_held_by_ext l1 l2 s : (forall n, l1 n = l2 n) -> held_by l1 s = held_by l2 s.
Proof.
  intro E. unfold held_by. f_equal. induction (dependencies s) as [|d t IH]; [reflexivity|].
  cbn [existsb]. rewrite IH. unfold dep_merged. rewrite E. reflexivity.
Qed.

(* merging pull requests can only lift holds *)
Lemma c12_held_by_mono l1 l2 s :
  (forall n, l1 n = Some "MERGED" -> l2 n = Some "MERGED") -> held_by l1 s = false -> held_by l2 s = false.
Proof.
  intros M H. unfold held_by in *. apply orb_false_iff in H as [HW HD]. rewrite HW. cbn [orb].
  induction (dependencies s) as [|d t IH]; [reflexivity|]. cbn [existsb] in *.
  apply orb_false_iff in HD as [H1 H2]. rewrite (IH H2), orb_false_r.
  apply negb_false_iff in H1. apply negb_false_iff. unfold dep_merged in *.
  destruct (l1 (py_int_value d)) as [st|] eqn:E; [|discriminate H1].
  apply String.eqb_eq in H1. subst st. rewrite (M _ E). reflexivity.
Qed.

Lemma c12_carried_with_status cf st q : carried cf (with_status st q) = carried cf q.
Proof. reflexivity. Qed.

(* comments of another pull request, or statuses, do not change what a pull request carries *)
Lemma c12_inv_comment cf w id f :
  (forall q, pr_status (f q) = pr_status q) -> mem_N id (s_queued w) = false ->
  c12_inv cf w -> c12_inv cf (mk_sys (update_pr f id (s_prs w)) (s_queued w)).
Proof.
  intros K NQ INV id' I. cbn [s_queued] in I. specialize (INV id' I).
  assert (NE : id' <> id).
  { intro E. subst id'. apply c12_mem_N in I. rewrite I in NQ. discriminate NQ. }
  unfold held_in in *. cbn [s_prs]. rewrite (c12_find_update_other f id id' (s_prs w) NE).
  destruct (find_pr (s_prs w) id') as [q|]; [|reflexivity]. unfold held in *.
  rewrite <- INV. apply c12_held_by_ext. intro n. unfold lookup_of. cbn [s_prs].
  apply c12_lookup_update_keep. exact K.
Qed.

Lemma c12_merge_one_queued w id x : In x (s_queued (merge_one w id)) <-> In x (s_queued w) /\ x <> id.
Proof.
  unfold merge_one. cbn [s_queued]. rewrite filter_In. split.
  - intros [I H]. split; [exact I|]. apply negb_true_iff in H. apply N.eqb_neq in H. exact H.
  - intros [I H]. split; [exact I|]. apply negb_true_iff. apply N.eqb_neq. exact H.
Qed.

Lemma c12_merge_one_lookup w id n :
  lookup_of w n = Some "MERGED" -> lookup_of (merge_one w id) n = Some "MERGED".
Proof.
  unfold lookup_of, merge_one. cbn [s_prs]. rewrite c12_find_update. intro H.
  destruct (n =? id)%N; [|exact H]. destruct (find_pr (s_prs w) n); [reflexivity | discriminate H].
Qed.

Lemma c12_inv_merge_one cf w id : c12_inv cf w -> c12_inv cf (merge_one w id).
Proof.
  intros INV x I. apply c12_merge_one_queued in I as [I NE]. specialize (INV x I).
  unfold held_in in *. unfold merge_one at 1. cbn [s_prs].
  rewrite (c12_find_update_other _ id x (s_prs w) NE).
  destruct (find_pr (s_prs w) x) as [q|]; [|reflexivity]. unfold held in *.
  apply (c12_held_by_mono (lookup_of w)); [|exact INV]. intros n. apply c12_merge_one_lookup.
Qed.

Lemma c12_inv_fold cf sel : forall w, c12_inv cf w -> c12_inv cf (fold_left merge_one sel w).
Proof.
  induction sel as [|id t IH]; intros w INV; [exact INV|]. cbn [fold_left]. apply IH.
  apply c12_inv_merge_one. exact INV.
Qed.

Lemma c12_queue_selection_sub w green id : In id (queue_selection w green) -> In id (s_queued w).
Proof. unfold queue_selection. rewrite filter_In. intros [I _]. exact I. Qed.

(* an evaluation that continues past the gates starts from a pull request that is not held *)
Lemma c12_continues_not_held cf e lookup order p s : c12_perm order ->
  ev_fate (evaluate cf e lookup order p) = Continues s -> held cf lookup p = false.
Proof.
  intros PO H. destruct (held cf lookup p) eqn:HB; [|reflexivity]. exfalso.
  destruct (c12_held cf e lookup order p PO (or_introl HB)) as (c & SC & _).
  rewrite H in SC. discriminate SC.
Qed.

Lemma c12_step_inv h w e : c12_perm (h_order h) ->
  (match e with EComment id _ | EDelete id _ => mem_N id (s_queued w) = false | _ => True end) ->
  c12_inv (h_cf h) w ->
  c12_inv (h_cf h) (fst (step h w e)) /\
  (forall id, In id (snd (step h w e)) -> held_in (h_cf h) w id = false).
Proof.
  intros PO Q INV. destruct e as [id c|id k|id ready direct green|green]; cbn [step].
  - split; [|intros x []]. cbn [fst]. apply c12_inv_comment; [reflexivity | exact Q | exact INV].
  - split; [|intros x []]. cbn [fst]. apply c12_inv_comment; [reflexivity | exact Q | exact INV].
  - destruct (find_pr (s_prs w) id) as [p|] eqn:F; [|split; [exact INV | intros x []]].
    destruct (ev_fate (evaluate (h_cf h) (h_exists h (pr_dst p)) (lookup_of w) (h_order h) p)) as [c cls| |s] eqn:EV;
      try (split; [exact INV | intros x []]).
    pose proof (c12_continues_not_held _ _ _ _ _ _ PO EV) as NH.
    assert (NHI : held_in (h_cf h) w id = false) by (unfold held_in; rewrite F; exact NH).
    destruct (h_use_queue h && mem_N id (s_queued w)) eqn:AQ.
    { unfold eval_queue. cbn [fst snd]. split; [apply c12_inv_fold; exact INV|].
      intros x I. apply INV. exact (c12_queue_selection_sub _ _ _ I). }
    destruct ready; cbn [negb]; [|split; [exact INV | intros x []]].
    destruct (h_use_queue h && negb direct); cbn [fst snd].
    + split; [|intros x []]. intros x I. cbn [s_queued] in I. apply in_app_or in I as [I|[<-|[]]].
      * specialize (INV x I). unfold held_in in *. cbn [s_prs]. exact INV.
      * unfold held_in in *. cbn [s_prs]. exact NHI.
    + split; [apply c12_inv_merge_one; exact INV|]. intros x [<-|[]]. exact NHI.
  - unfold eval_queue. cbn [fst snd]. split; [apply c12_inv_fold; exact INV|].
    intros x I. apply INV. exact (c12_queue_selection_sub _ _ _ I).
Qed.

(* C12_partial *)
Theorem c12_partial h w evs : c12_perm (h_order h) -> c12_inv (h_cf h) w ->
  quiet_while_queued h w evs = true -> clean_log (h_cf h) (run h w evs).
Proof.
  intros PO. revert w. induction evs as [|e t IH]; intros w INV Q; [intros id w' []|].
  cbn [quiet_while_queued] in Q. apply andb_true_iff in Q as [Q1 Q2].
  assert (QE : match e with EComment id _ | EDelete id _ => mem_N id (s_queued w) = false | _ => True end).
  { destruct e; try exact I; apply negb_true_iff in Q1; exact Q1. }
  destruct (c12_step_inv h w e PO QE INV) as [INV' CL].
  cbn [run]. destruct (step h w e) as [w' merged] eqn:ST. cbn [fst snd] in *.
  intros id w0 I. apply in_app_or in I as [I|I].
  - apply in_map_iff in I as (x & E & IX). injection E as <- <-. apply CL. exact IX.
  - exact (IH w' INV' Q2 id w0 I).
Qed.

Lemma c12_inv_empty cf w : s_queued w = [] -> c12_inv cf w.
Proof. intros E id I. rewrite E in I. destruct I. Qed.

Theorem c12_partial_empty h w evs : (forall l, Permutation (h_order h l) l) -> s_queued w = [] ->
  quiet_while_queued h w evs = true -> clean_log (h_cf h) (run h w evs).
Proof. intros PO Q. apply c12_partial; [exact PO | apply c12_inv_empty; exact Q]. Qed.

(* ================================================================== 7. non-vacuity *)

Definition c12_lookup0 : N -> option string := lookup_of c12_w0.

Example c12_ex_wait_held :
  held c12_cf c12_lookup0 (with_comments [mk_comment "author" "@bert-e wait"] c12_pr1) = true /\
  ev_fate (evaluate c12_cf true c12_lookup0 (fun l => l)
             (with_comments [mk_comment "author" "@bert-e wait"] c12_pr1))
  = Stopped "check_dependencies" "NothingToDo".
Proof. vm_compute. split; reflexivity. Qed.

Example c12_ex_after_open_held :
  held c12_cf c12_lookup0 (with_comments [mk_comment "peer" "@bert-e after_pull_request=2"] c12_pr1) = true /\
  ev_fate (evaluate c12_cf true c12_lookup0 (fun l => l)
             (with_comments [mk_comment "peer" "@bert-e after_pull_request=2"] c12_pr1))
  = Stopped "check_dependencies" "AfterPullRequest".
Proof. vm_compute. split; reflexivity. Qed.

Example c12_ex_after_unknown_and_order :
  let p := with_comments [mk_comment "author" "@bert-e after_pull_request=2 after_pull_request=77"] c12_pr1 in
  held c12_cf c12_lookup0 p = true /\
  ev_fate (evaluate c12_cf true c12_lookup0 (fun l => l) p) = Stopped "check_dependencies" "IncorrectPullRequestNumber" /\
  ev_fate (evaluate c12_cf true c12_lookup0 (@rev string) p) = Stopped "check_dependencies" "IncorrectPullRequestNumber".
Proof. vm_compute. repeat split; reflexivity. Qed.

Example c12_ex_non_numeric_free :
  let p := with_comments [mk_comment "author" "@bert-e after_pull_request=abc"] c12_pr1 in
  held c12_cf c12_lookup0 p = false /\ spec_verdict c12_cf c12_lookup0 p = VFree /\
  exists s, ev_fate (evaluate c12_cf true c12_lookup0 (fun l => l) p) = Continues s.
Proof. vm_compute. repeat split; try reflexivity. eexists. reflexivity. Qed.

Example c12_ex_merged_dependency_free :
  let lk := fun n : N => if (n =? 2)%N then Some "MERGED" else None in
  let p := with_comments [mk_comment "author" "@bert-e after_pull_request=2"] c12_pr1 in
  held c12_cf lk p = false /\ exists s, ev_fate (evaluate c12_cf true lk (fun l => l) p) = Continues s.
Proof. vm_compute. split; [reflexivity | eexists; reflexivity]. Qed.

Example c12_ex_foreign :
  foreign_stated "user/x" "development/4.3" = true /\ foreign_stated "bugfix/x" "release/4.3" = true /\
  foreign_stated "hotfix/4.3.1" "development/4.3" = true /\ foreign_stated "what" "development/4.3" = true /\
  foreign "w/4.3/bugfix/x" "development/4.3" = true /\ foreign_stated "w/4.3/bugfix/x" "development/4.3" = false /\
  foreign "bugfix/x" "development/4.3" = false /\ foreign "development/4.3" "development/5.1" = false /\
  evaluate c12_cf true c12_lookup0 (fun l => l) (mk_pr "OPEN" "user/x" "development/4.3" "author" [])
  = mk_eval false (Stopped "early_checks" "NotMyJob").
Proof. vm_compute. repeat split; reflexivity. Qed.

Example c12_ex_finished :
  evaluate c12_cf true c12_lookup0 (fun l => l) (with_status "MERGED" c12_pr1)
  = mk_eval false (Stopped "early_checks" "NothingToDo") /\
  evaluate c12_cf true c12_lookup0 (fun l => l) (with_status "DECLINED" c12_pr1) = mk_eval true StoppedDeclined /\
  evaluate c12_cf false c12_lookup0 (fun l => l) c12_pr1 = mk_eval false (Stopped "early_checks" "WrongDestination").
Proof. vm_compute. repeat split; reflexivity. Qed.

Example c12_ex_lifted :
  let held_p := with_comments [mk_comment "bert-e" "Hello"; mk_comment "author" "@bert-e wait"] c12_pr1 in
  let lifted := with_comments [mk_comment "bert-e" "Hello"] c12_pr1 in
  held c12_cf c12_lookup0 held_p = true /\ held c12_cf c12_lookup0 lifted = false /\
  evaluate c12_cf true c12_lookup0 (fun l => l) lifted
  = mk_eval false (Continues (carried c12_cf c12_pr1)).
Proof. vm_compute. repeat split; reflexivity. Qed.

Example c12_ex_partial_history :
  let evs := [EComment 1 (mk_comment "author" "@bert-e wait"); EEvalPR 1 true false []; EEvalQueue [1%N];
              EDelete 1 0; EEvalPR 1 true false []; EEvalQueue [1%N]] in
  quiet_while_queued c12_h c12_w0 evs = true /\ map fst (run c12_h c12_w0 evs) = [1%N].
Proof. vm_compute. split; reflexivity. Qed.

Example c12_ex_witness_not_quiet : quiet_while_queued c12_h c12_w0 c12_witness_wait = false.
Proof. vm_compute. reflexivity. Qed.
