(* C03: with queues on, a destination only advances to a commit that was built.
   - queue merge: every selected destination lands exactly on its selected queue commit (FlowProofs);
   - direct merge (queue skipped because source and integration branches already contain their targets and
     are in sync): every merge is a fast-forward, so each target lands exactly on the integration commit whose
     status the build gate read, and no new commit is created. *)
From Coq Require Import List Bool Arith Lia.
Require Import BertE.Model.Git BertE.Model.Flow BertE.Proofs.GitProofs BertE.Proofs.FlowProofs.
Import ListNotations.

Lemma dedupe_NoDup l : NoDup (dedupe l).
Proof.
  induction l as [|x t IH]; cbn; [constructor|].
  destruct (mem x t) eqn:M; [exact IH|]. constructor; [|exact IH].
  rewrite dedupe_In. intro H. apply mem_true in H. congruence.
Qed.

Lemma filter_single l (r : nat) : NoDup l -> In r l -> filter (fun x => Nat.eqb x r) l = [r].
Proof.
  induction l as [|x t IH]; intros ND H; [destruct H|].
  inversion ND as [|? ? Hn Ht]; subst. cbn. destruct (Nat.eqb x r) eqn:E.
  - apply Nat.eqb_eq in E. subst x. f_equal.
    clear IH H ND Ht. induction t as [|y t IH]; [reflexivity|]. cbn.
    destruct (Nat.eqb y r) eqn:E; [apply Nat.eqb_eq in E; subst; exfalso; apply Hn; left; reflexivity|].
    apply IH. intro; apply Hn; right; assumption.
  - destruct H as [->|H]; [rewrite Nat.eqb_refl in E; discriminate E|]. exact (IH Ht H).
Qed.

Lemma filter_none {A} (f : A -> bool) l : (forall x, In x l -> f x = false) -> filter f l = [].
Proof.
  induction l as [|x t IH]; intro H; [reflexivity|]. cbn. rewrite (H x (or_introl eq_refl)).
  apply IH. intros y Hy. apply H. right. exact Hy.
Qed.

(* whatever the list of sources: if one of them contains HEAD and all the others, the merge is a pure
   fast-forward (or up to date) onto it - no new commit *)
Lemma apply_merge_ff_general s h r srcs :
  wf_store s -> Anc s h r -> In r srcs -> (forall x, In x srcs -> Anc s x r) ->
  apply_merge s h srcs = (s, r).
Proof.
  intros W Ahr Hr All. unfold apply_merge, git_merge.
  set (dd := rev (dedupe (rev srcs))).
  assert (NDd : NoDup dd) by (apply NoDup_rev, dedupe_NoDup).
  assert (Ind : forall x, In x dd <-> In x srcs) by (intro x; apply dedupe_first_In).
  match goal with |- context [reduce s ?c] => set (cand := c) end.
  assert (NDc : NoDup cand) by (apply NoDup_filter; exact NDd).
  destruct (anc s r h) eqn:Arh.
  - (* r already in HEAD: r = h and every source is an ancestor of h *)
    apply anc_spec in Arh; [|exact W].
    assert (E : r = h) by (pose proof (Anc_le _ _ _ W Ahr); pose proof (Anc_le _ _ _ W Arh); lia). subst r.
    assert (Ec : cand = []).
    { apply filter_none. intros x Hx. apply negb_false_iff. apply anc_spec; [exact W|]. apply All, Ind, Hx. }
    rewrite Ec. reflexivity.
  - assert (Rc : In r cand) by (apply filter_In; split; [apply Ind; exact Hr | rewrite Arh; reflexivity]).
    assert (Red : reduce s cand = [r]).
    { unfold reduce. transitivity (filter (fun x => Nat.eqb x r) cand); [|exact (filter_single cand r NDc Rc)].
      apply filter_ext_in. intros x Hx.
      assert (Hxs : In x srcs) by (apply Ind; apply filter_In in Hx; tauto).
      destruct (Nat.eqb x r) eqn:E.
      + apply Nat.eqb_eq in E. subst x. apply negb_true_iff. apply not_true_is_false. intro Ex.
        apply existsb_exists in Ex as [y [Hy Cy]]. apply andb_true_iff in Cy as [Ne Ay].
        apply negb_true_iff, Nat.eqb_neq in Ne. apply anc_spec in Ay; [|exact W].
        assert (Hys : In y srcs) by (apply Ind; apply filter_In in Hy; tauto).
        pose proof (Anc_le _ _ _ W Ay). pose proof (Anc_le _ _ _ W (All y Hys)). lia.
      + apply negb_false_iff. apply existsb_exists. exists r. split; [exact Rc|].
        rewrite E. cbn. apply anc_spec; [exact W | exact (All x Hxs)]. }
    rewrite Red.
    apply (proj2 (anc_spec s W h r)) in Ahr. rewrite Ahr. reflexivity.
Qed.

Lemma lookups_all r srcs (P : cid -> Prop) :
  (forall s, In s srcs -> exists y, lookup r s = Some y /\ P y) ->
  exists ss, lookups r srcs = Some ss /\ (forall y, In y ss -> P y) /\
             (forall s y, In s srcs -> lookup r s = Some y -> In y ss).
Proof.
  induction srcs as [|s t IH]; intro H.
  - exists []. cbn. split; [reflexivity|]. split; [intros ? [] | intros ? ? []].
  - destruct (H s (or_introl eq_refl)) as (y & Ly & Py).
    destruct IH as (ss & Ls & Pss & Iss); [intros s' Hs'; apply H; right; exact Hs'|].
    exists (y :: ss). cbn. rewrite Ly, Ls. split; [reflexivity|]. split.
    + intros z [<-|Hz]; [exact Py | exact (Pss z Hz)].
    + intros s' z [<-|Hs'] Lz; [rewrite Ly in Lz; injection Lz as <-; left; reflexivity | right; exact (Iss s' z Hs' Lz)].
Qed.

(* one fast-forwarding merge of a branch: dst lands exactly on the tip of r, the store is unchanged *)
Lemma merge_into_ff c dst srcs r x :
  wf_clone c -> In r srcs -> lookup (refs c) r = Some x ->
  Below c dst r -> (forall s, In s srcs -> Below c s r) ->
  merge_into c dst srcs = Some (mkClone (st c) (update (refs c) dst x)).
Proof.
  intros [W B] Hr Lr (h & x' & Lh & Lr' & A) All. rewrite Lr in Lr'. injection Lr' as <-.
  unfold merge_into. rewrite Lh.
  destruct (lookups_all (refs c) srcs (fun y => Anc (st c) y x)) as (ss & Ls & Pss & Iss).
  { intros s Hs. destruct (All s Hs) as (y & x2 & Ly & Lx2 & Ay). rewrite Lr in Lx2. injection Lx2 as <-.
    exists y. split; assumption. }
  rewrite Ls. rewrite (apply_merge_ff_general (st c) h x ss W A (Iss r x Hr Lr) Pss). reflexivity.
Qed.

Lemma wf_clone_update c n x : wf_clone c -> x < length (st c) -> wf_clone (mkClone (st c) (update (refs c) n x)).
Proof.
  intros [W B] L. split; [exact W|]. intros m y H. cbn in H. destruct (Nat.eq_dec m n) as [->|Ne].
  - rewrite lookup_update_eq in H. injection H as <-. exact L.
  - rewrite lookup_update_neq in H by exact Ne. exact (B m y H).
Qed.

Lemma Below_update_other c n x a b : a <> n -> b <> n ->
  Below c a b -> Below (mkClone (st c) (update (refs c) n x)) a b.
Proof.
  intros Na Nb (u & v & La & Lb & A). exists u, v. cbn. rewrite !lookup_update_neq by assumption. tauto.
Qed.

(* The direct merge when the queue is skipped: targets t_i with integration branches w_i such that every w_i
   contains its target and the previous integration branch (in sync).  With the octopus strategy, or with
   consecutive merges that take the integration branch first, nothing new is created: t_i := tip w_i. *)
Definition ff_strategy (sg : strategy) : bool :=
  match sg with Octopus | OctopusRev | ConsecutiveRev => true | Consecutive => false end.

Lemma strategy_ff sg c t prev w xw :
  ff_strategy sg = true -> wf_clone c -> t <> prev -> t <> w ->
  lookup (refs c) w = Some xw -> Below c t w -> Below c prev w ->
  run_ops c (strategy_ops sg t prev w) = Some (mkClone (st c) (update (refs c) t xw)).
Proof.
  intros F W Ntp Ntw Lw Btw Bpw.
  assert (Bww : Below c w w).
  { exists xw, xw. split; [exact Lw|]. split; [exact Lw|]. apply Anc_refl. exact (proj2 W w xw Lw). }
  destruct sg; try discriminate F; cbn [strategy_ops run_ops op_dst op_srcs]; unfold name in *.
  - rewrite (merge_into_ff c t [prev; w] w xw W); [reflexivity | right; left; reflexivity | exact Lw | exact Btw |].
    intros s [<-|[<-|[]]]; assumption.
  - rewrite (merge_into_ff c t [w; prev] w xw W); [reflexivity | left; reflexivity | exact Lw | exact Btw |].
    intros s [<-|[<-|[]]]; assumption.
  - (* integration branch first (fast-forward), then the previous target: already contained *)
    rewrite (merge_into_ff c t [w] w xw W); [| left; reflexivity | exact Lw | exact Btw | intros s [<-|[]]; exact Bww].
    set (c1 := mkClone (st c) (update (refs c) t xw)).
    assert (W1 : wf_clone c1) by (apply wf_clone_update; [exact W | exact (proj2 W w xw Lw)]).
    destruct Bpw as (xp & xw' & Lp & Lw' & Apw). rewrite Lw in Lw'. injection Lw' as <-.
    assert (Lt1 : lookup (refs c1) t = Some xw) by (cbn; apply lookup_update_eq).
    assert (Lp1 : lookup (refs c1) prev = Some xp) by (cbn; rewrite lookup_update_neq by congruence; exact Lp).
    (* merging prev into t: prev is an ancestor of t's tip: up to date *)
    unfold merge_into. rewrite Lt1. cbn [lookups]. rewrite Lp1.
    assert (UD : apply_merge (st c1) xw [xp] = (st c1, xw)).
    { unfold apply_merge, git_merge. cbn [rev dedupe mem existsb app filter].
      apply (proj2 (anc_spec (st c) (proj1 W) xp xw)) in Apw. cbn [st c1]. rewrite Apw. reflexivity. }
    rewrite UD. cbn [fst snd]. f_equal. unfold c1. cbn [st refs]. f_equal.
    (* update twice with the same value *)
    clear. induction (refs c) as [|[k v] r IH]; cbn.
    + rewrite Nat.eqb_refl. reflexivity.
    + destruct (Nat.eqb k t) eqn:E; cbn; rewrite E; [reflexivity | rewrite IH; reflexivity].
Qed.

Theorem direct_merge_lands_on_built_commits pairs : forall sg c prev,
  wf_clone c -> Forall (fun s => ff_strategy s = true) sg -> length sg = length pairs ->
  NoDup (prev :: map fst pairs) ->
  (forall w, In w (map snd pairs) -> ~ In w (prev :: map fst pairs)) ->
  (* prev already sits on an integration commit contained in the next integration branch *)
  (forall t w, nth_error pairs 0 = Some (t, w) -> Below c prev w) ->
  (forall t w, In (t, w) pairs -> Below c t w) ->
  (forall i t1 w1 t2 w2, nth_error pairs i = Some (t1, w1) -> nth_error pairs (S i) = Some (t2, w2) -> Below c w1 w2) ->
  exists c', run_ops c (chain_ops sg prev pairs) = Some c' /\ st c' = st c /\
             (forall t w, In (t, w) pairs -> lookup (refs c') t = lookup (refs c) w) /\
             (forall n, ~ In n (map fst pairs) -> lookup (refs c') n = lookup (refs c) n).
Proof.
  induction pairs as [|[t w] rest IH]; intros sg c prev W Fs Len ND Dis B0 Btw Sync.
  - exists c. cbn. split; [reflexivity|]. split; [reflexivity|]. split; [intros ? ? []| reflexivity].
  - destruct sg as [|s0 sg']; [discriminate Len|]. cbn [chain_ops tl]. rewrite run_ops_app.
    assert (Ntp : t <> prev) by (inversion ND as [|? ? Hn _]; subst; intro; subst; apply Hn; left; reflexivity).
    assert (Ntw : t <> w) by (intro; subst; apply (Dis w); [left; reflexivity | right; left; reflexivity]).
    destruct (Btw t w (or_introl eq_refl)) as (xt & xw & Lt & Lw & Atw).
    assert (Btw0 : Below c t w) by (exists xt, xw; tauto).
    inversion Fs as [|? ? Fs0 Fs']; subst.
    rewrite (strategy_ff s0 c t prev w xw Fs0 W Ntp Ntw Lw Btw0 (B0 t w eq_refl)).
    set (c1 := mkClone (st c) (update (refs c) t xw)).
    assert (W1 : wf_clone c1) by (apply wf_clone_update; [exact W | exact (proj2 W w xw Lw)]).
    assert (ND' : NoDup (t :: map fst rest)) by (inversion ND; assumption).
    assert (Keep : forall a b, a <> t -> b <> t -> Below c a b -> Below c1 a b)
      by (intros a b Ha Hb; apply Below_update_other; assumption).
    assert (Wnot : forall w', In w' (map snd ((t, w) :: rest)) -> w' <> t).
    { intros w' Hw' E. subst. apply (Dis t Hw'). right; left; reflexivity. }
    destruct (IH sg' c1 t W1 Fs' ltac:(cbn in Len; lia) ND') as (c' & R & S & E & U).
    + intros w' Hw' Hin. apply (Dis w'); [right; exact Hw' | right; exact Hin].
    + intros t2 w2 H2. (* t now sits on tip w, and w is contained in the next integration branch *)
      destruct (Sync 0 t w t2 w2 eq_refl H2) as (a & b & La & Lb & Aab).
      rewrite Lw in La. injection La as <-.
      assert (w2 <> t) by (apply Wnot; right; apply in_map_iff; exists (t2, w2); split; [reflexivity | exact (nth_error_In _ _ H2)]).
      exists xw, b. cbn. rewrite lookup_update_eq, lookup_update_neq by assumption. tauto.
    + intros t2 w2 H2. apply Keep.
      * intro; subst. inversion ND' as [|? ? Hn _]; subst. apply Hn. apply in_map_iff. exists (t, w2). split; [reflexivity | exact H2].
      * apply Wnot. right. apply in_map_iff. exists (t2, w2). split; [reflexivity | exact H2].
      * apply Btw. right. exact H2.
    + intros i t1 w1 t2 w2 H1 H2. apply Keep.
      * apply Wnot. right. apply in_map_iff. exists (t1, w1). split; [reflexivity | exact (nth_error_In _ _ H1)].
      * apply Wnot. right. apply in_map_iff. exists (t2, w2). split; [reflexivity | exact (nth_error_In _ _ H2)].
      * exact (Sync (S i) t1 w1 t2 w2 H1 H2).
    + exists c'. split; [exact R|]. split; [rewrite S; reflexivity|]. split.
      * intros t2 w2 [Eq|H2].
        -- injection Eq as <- <-. rewrite U; [cbn; rewrite lookup_update_eq; symmetry; exact Lw|].
           inversion ND' as [|? ? Hn _]; exact Hn.
        -- rewrite (E t2 w2 H2). cbn. apply lookup_update_neq.
           apply Wnot. right. apply in_map_iff. exists (t2, w2). split; [reflexivity | exact H2].
      * intros n Hn. cbn in Hn. rewrite U by tauto. cbn. apply lookup_update_neq. intro; subst; tauto.
Qed.

(* the build table: commits for which the build key was reported SUCCESSFUL *)
Section Green.
  Variable green : cid -> Prop.

  Definition tip_green (c : clone) (n : name) : Prop := exists x, lookup (refs c) n = Some x /\ green x.

  (* queue merge: if every selected queue commit is green, every moved destination is on a green commit *)
  Theorem queue_merge_green (later : name -> name -> Prop) c sel c' :
    wf_clone c -> Incl later c -> NoDup (map fst sel) ->
    (forall q, In q (map snd sel) -> ~ In q (map fst sel)) ->
    upward_closed later c (map fst sel) -> in_order later (map fst sel) ->
    (forall d q, In (d, q) sel -> Below c d q) ->
    (forall d1 q1 d2 q2, In (d1, q1) sel -> In (d2, q2) sel -> later d1 d2 -> Below c q1 q2) ->
    (forall d q, In (d, q) sel -> tip_green c q) ->
    merge_queues c sel = Some c' ->
    (forall d q, In (d, q) sel -> tip_green c' d) /\
    (forall n, ~ In n (map fst sel) -> lookup (refs c') n = lookup (refs c) n).
  Proof.
    intros W I ND Dis Up Ord Ff Qq G H.
    destruct (merge_queues_incl later c sel c' W I ND Dis Up Ord Ff Qq H) as (_ & E & U & _).
    split; [|exact U]. intros d q Hin. destruct (G d q Hin) as (x & Lx & Gx).
    exists x. split; [rewrite (E d q Hin); exact Lx | exact Gx].
  Qed.
End Green.

(* non-vacuity: the F12 shape.  An in-sync, up-to-date pull request over three targets: with the integration
   branch merged first (ConsecutiveRev, what the repaired code does) or with the octopus strategy no commit is
   created; with the previous target first (Consecutive, the code before the repair) two unbuilt commits appear. *)
Example direct_merge_example :
  let s0 := [mkCommit [] false; mkCommit [0] false; mkCommit [1] false; mkCommit [2] false;
             mkCommit [1] false; mkCommit [2; 4] true; mkCommit [3; 5] true] in
  let c0 := mkClone s0 [(1, 1); (2, 2); (3, 3); (10, 4); (12, 5); (13, 6)] in
  let pairs := [(1, 10); (2, 12); (3, 13)] in
  (match merge_integration [ConsecutiveRev; ConsecutiveRev] c0 pairs with
   | Some c1 => length (st c1) = 7 /\ lookup (refs c1) 2 = Some 5 /\ lookup (refs c1) 3 = Some 6 | None => False end) /\
  (match merge_integration [Octopus; Octopus] c0 pairs with
   | Some c1 => length (st c1) = 7 /\ lookup (refs c1) 2 = Some 5 /\ lookup (refs c1) 3 = Some 6 | None => False end) /\
  (match merge_integration [Consecutive; Consecutive] c0 pairs with
   | Some c1 => length (st c1) = 11 /\ lookup (refs c1) 2 = Some 8 /\ lookup (refs c1) 3 = Some 10 | None => False end).
Proof. vm_compute. repeat split. Qed.
