(* Stickiness of a SUCCESSFUL verdict under interleaving at the hosts' I/O points (Model/IoCache.v). *)
From Coq Require Import List String Bool.
Require Import BertE.Model.IoCache.
Import ListNotations.
Open Scope string_scope.
Open Scope list_scope.

Definition all_guarded : guards := {| g_suite := true; g_poll := true |}.
Definition green : option string := Some "SUCCESSFUL".

Lemma store_guarded_green s : store true green s = green.
Proof. reflexivity. Qed.

Lemma io_step_keeps_green st : fst (io_step all_guarded green st) = green.
Proof. destruct st as [s | s | | [s|]]; reflexivity. Qed.

Lemma io_step_answers_green st a : snd (io_step all_guarded green st) = Some a -> a = "SUCCESSFUL".
Proof.
  destruct st as [s | s | | [s|]]; cbn; intros H; try discriminate; injection H as <-; reflexivity.
Qed.

(* once the cell is SUCCESSFUL, no interleaving of events, check_suite writes, polls and late host answers changes
   it, and every poll that answers, answers SUCCESSFUL *)
Theorem io_green_is_sticky : forall l,
  fst (io_run all_guarded green l) = green /\
  forall a, In (Some a) (snd (io_run all_guarded green l)) -> a = "SUCCESSFUL".
Proof.
  induction l as [|st t IH]; cbn [io_run].
  - split; [reflexivity | intros a []].
  - destruct (io_step all_guarded green st) as [c a0] eqn:E.
    pose proof (io_step_keeps_green st) as K. rewrite E in K. cbn in K. subst c.
    destruct (io_run all_guarded green t) as [c' al] eqn:R. cbn [fst snd] in *.
    destruct IH as [IH1 IH2]. split; [exact IH1|].
    intros a [H|H].
    + apply (io_step_answers_green st). rewrite E. exact H.
    + exact (IH2 a H).
Qed.

(* reaching SUCCESSFUL from any cell: after a step that stores SUCCESSFUL the theorem above applies *)
Corollary io_seen_green_stays : forall cell pre s post g,
  g = all_guarded ->
  fst (io_run g cell (pre ++ [Event s])) = green ->
  fst (io_run g cell (pre ++ Event s :: post)) = green.
Proof.
  intros cell pre s post g -> H.
  assert (A : forall l1 l2 c, fst (io_run all_guarded c (l1 ++ l2)) =
                              fst (io_run all_guarded (fst (io_run all_guarded c l1)) l2)).
  { induction l1 as [|x t IH]; intros l2 c; cbn [app io_run]; [reflexivity|].
    destruct (io_step all_guarded c x) as [c1 a1]. specialize (IH l2 c1).
    destruct (io_run all_guarded c1 (t ++ l2)) as [c2 al2]. destruct (io_run all_guarded c1 t) as [c3 al3].
    cbn [fst] in *. exact IH. }
  change (Event s :: post) with ([Event s] ++ post). rewrite app_assoc, A, H.
  exact (proj1 (io_green_is_sticky post)).
Qed.

(* without the guard on the late answer of a poll the verdict is lost: the witness the interleaving stream found
   on the Bitbucket client before its repair *)
Example io_unguarded_poll_downgrades :
  fst (io_run {| g_suite := true; g_poll := false |} None [PollBegin; Event "SUCCESSFUL"; PollEnd (Some "INPROGRESS")])
  = Some "INPROGRESS".
Proof. reflexivity. Qed.

Example io_guarded_poll_keeps :
  io_run all_guarded None [PollBegin; Event "SUCCESSFUL"; PollEnd (Some "INPROGRESS"); PollBegin]
  = (green, [None; None; Some "SUCCESSFUL"; Some "SUCCESSFUL"]).
Proof. reflexivity. Qed.
