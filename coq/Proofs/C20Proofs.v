(* Proofs/C20Proofs.v - lemmas and proofs of C20 (admin jobs keep the repository well-formed or do nothing). *)
From Coq Require Import List String Ascii Bool Arith NArith Lia Sorted.
Require Import BertE.Base.Str BertE.Model.Names BertE.Model.Git BertE.Model.Flow BertE.Model.AdminJobs.
Require Import BertE.Generated.Facts_C20 BertE.Spec.C20Spec.
Require Import BertE.Proofs.GitProofs BertE.Proofs.FlowProofs BertE.Proofs.C18Proofs.
Import ListNotations.
Open Scope string_scope.
Open Scope list_scope.

(* ================================================================== keys *)

Lemma c20_optN_eqb_eq a b : optN_eqb a b = true <-> a = b.
Proof.
  destruct a as [x|], b as [y|]; cbn; try (split; [discriminate | discriminate]); try tauto.
  - rewrite N.eqb_eq. split; [intros ->; reflexivity | intro H; injection H; auto].
Qed.

Lemma c20_key_eqb_eq a b : key_eqb a b = true <-> a = b.
Proof.
  destruct a as [x1 y1], b as [x2 y2]. unfold key_eqb. cbn [fst snd].
  rewrite andb_true_iff, N.eqb_eq, c20_optN_eqb_eq. split.
  - intros [-> ->]. reflexivity.
  - intro H. injection H. auto.
Qed.

Lemma c20_key_eqb_refl a : key_eqb a a = true.
Proof. apply c20_key_eqb_eq. reflexivity. Qed.

Lemma c20_key_lt_spec a b : key_lt a b = true <-> line_before a b.
Proof.
  destruct a as [x1 y1], b as [x2 y2]. unfold key_lt, line_before. cbn [fst snd].
  destruct (N.eqb_spec x1 x2) as [->|Hne].
  - destruct y1 as [m1|], y2 as [m2|].
    + rewrite N.ltb_lt. split; [intro H; right; split; [reflexivity | exact H]|].
      intros [H|[_ H]]; [lia | exact H].
    + split; [intros _; right; split; [reflexivity | exact I] | reflexivity].
    + split; [discriminate|]. intros [H|[_ H]]; [lia | contradiction].
    + split; [discriminate|]. intros [H|[_ H]]; [lia | contradiction].
  - rewrite N.ltb_lt. split; [intro H; left; exact H | intros [H|[H _]]; [exact H | contradiction]].
Qed.

Lemma c20_line_before_irrefl a : ~ line_before a a.
Proof.
  destruct a as [x y]. unfold line_before. cbn. intros [H|[_ H]]; [lia|]. destruct y; [lia | exact H].
Qed.

Lemma c20_line_before_trans a b c : line_before a b -> line_before b c -> line_before a c.
Proof.
  destruct a as [x1 y1], b as [x2 y2], c as [x3 y3]. unfold line_before. cbn.
  intros [H1|[E1 H1]] [H2|[E2 H2]]; try (left; lia).
  subst. right. split; [reflexivity|].
  destruct y1, y2, y3; try contradiction; try exact I. lia.
Qed.

Lemma c20_line_total a b : line_before a b \/ a = b \/ line_before b a.
Proof.
  destruct a as [x1 y1], b as [x2 y2]. unfold line_before. cbn [fst snd].
  destruct (N.lt_trichotomy x1 x2) as [H|[H|H]]; [left; left; exact H | | right; right; left; exact H].
  subst. destruct y1 as [m1|], y2 as [m2|].
  - destruct (N.lt_trichotomy m1 m2) as [H|[H|H]].
    + left. right. split; [reflexivity | exact H].
    + subst. right. left. reflexivity.
    + right. right. right. split; [reflexivity | exact H].
  - left. right. split; [reflexivity | exact I].
  - right. right. right. split; [reflexivity | exact I].
  - right. left. reflexivity.
Qed.

Definition ltk (a b : key) : Prop := key_lt a b = true.

Lemma c20_ltk_irrefl a : ~ ltk a a.
Proof. unfold ltk. rewrite c20_key_lt_spec. apply c20_line_before_irrefl. Qed.

Lemma c20_ltk_trans a b c : ltk a b -> ltk b c -> ltk a c.
Proof. unfold ltk. rewrite !c20_key_lt_spec. apply c20_line_before_trans. Qed.

Lemma c20_ltk_false a b : key_lt a b = false -> key_eqb a b = false -> ltk b a.
Proof.
  intros H1 H2. unfold ltk. rewrite c20_key_lt_spec.
  destruct (c20_line_total a b) as [H|[H|H]]; [|subst; rewrite c20_key_eqb_refl in H2; discriminate H2 | exact H].
  apply c20_key_lt_spec in H. rewrite H in H1. discriminate H1.
Qed.

(* ================================================================== sorted distinct keys *)

Lemma c20_insert_key_in k l x : In x (insert_key k l) <-> x = k \/ In x l.
Proof.
  induction l as [|h t IH]; cbn; [intuition congruence|].
  destruct (key_lt k h); cbn; [intuition congruence|].
  destruct (key_eqb k h) eqn:E.
  - apply c20_key_eqb_eq in E. subst h. cbn. intuition congruence.
  - cbn. rewrite IH. intuition congruence.
Qed.

Lemma c20_insert_key_sorted k l : StronglySorted ltk l -> StronglySorted ltk (insert_key k l).
Proof.
  induction l as [|h t IH]; intro S; cbn; [constructor; [constructor | constructor]|].
  inversion S as [|? ? St Fh]; subst.
  destruct (key_lt k h) eqn:L.
  - constructor; [exact S|]. constructor; [exact L|].
    rewrite Forall_forall in *. intros x Hx. exact (c20_ltk_trans _ _ _ L (Fh x Hx)).
  - destruct (key_eqb k h) eqn:E; [exact S|].
    constructor; [exact (IH St)|]. rewrite Forall_forall in *. intros x Hx.
    apply c20_insert_key_in in Hx as [->|Hx]; [exact (c20_ltk_false _ _ L E) | exact (Fh x Hx)].
Qed.

Lemma c20_sort_keys_in l x : In x (sort_keys l) <-> In x l.
Proof.
  induction l as [|h t IH]; cbn; [tauto|]. rewrite c20_insert_key_in, IH. intuition congruence.
Qed.

Lemma c20_sort_keys_sorted l : StronglySorted ltk (sort_keys l).
Proof. induction l as [|h t IH]; cbn; [constructor | exact (c20_insert_key_sorted _ _ IH)]. Qed.

(* ================================================================== destination heads *)

Lemma c20_dests_in heads d n c :
  In (d, n, c) (dests heads) <-> In (n, c) heads /\ parse_dest n = Some d.
Proof.
  unfold dests. rewrite in_flat_map. split.
  - intros [[n' c'] [Hin H]]. cbn [fst snd] in H. destruct (parse_dest n') as [d'|] eqn:P; [|destruct H].
    destruct H as [H|[]]. injection H as <- <- <-. split; assumption.
  - intros [Hin P]. exists (n, c). split; [exact Hin|]. cbn [fst snd]. rewrite P. left. reflexivity.
Qed.

Lemma c20_members_in ds x : In x (members ds) <-> In x ds /\ d_kind (fst (fst x)) <> KHotfix.
Proof.
  unfold members. rewrite filter_In. unfold cascade_member.
  destruct (d_kind (fst (fst x))); cbn; intuition discriminate.
Qed.

Lemma c20_dkind_eqb_eq a b : dkind_eqb a b = true <-> a = b.
Proof. destruct a, b; cbn; split; intro H; try reflexivity; discriminate H. Qed.

Lemma c20_slot_some k key0 ds x :
  slot k key0 ds = Some x -> In x (members ds) /\ d_kind (fst (fst x)) = k /\ dkey (fst (fst x)) = key0.
Proof.
  unfold slot. intro H. apply find_some in H as [Hin H]. apply andb_true_iff in H as [H1 H2].
  apply c20_dkind_eqb_eq in H1. apply c20_key_eqb_eq in H2. auto.
Qed.

Lemma c20_filter_two {A} (f : A -> bool) (l : list A) x y :
  In x l -> In y l -> x <> y -> f x = true -> f y = true -> (2 <= List.length (filter f l))%nat.
Proof.
  induction l as [|h t IH]; intros Hx Hy Ne Fx Fy; [destruct Hx|].
  assert (One : forall z, In z t -> f z = true -> (1 <= List.length (filter f t))%nat).
  { intros z Hz Fz. assert (Hin : In z (filter f t)) by (apply filter_In; split; assumption).
    destruct (filter f t); [destruct Hin | cbn; lia]. }
  cbn. destruct Hx as [->|Hx], Hy as [->|Hy].
  - contradiction.
  - rewrite Fx. cbn. specialize (One y Hy Fy). lia.
  - rewrite Fy. cbn. specialize (One x Hx Fx). lia.
  - specialize (IH Hx Hy Ne Fx Fy). destruct (f h); cbn; lia.
Qed.

Lemma c20_head_eq_dec (a b : dest * string * cid) : {a = b} + {a <> b}.
Proof.
  decide equality; [apply Nat.eq_dec|]. decide equality; [apply string_dec|].
  decide equality; try apply string_dec; try (decide equality; apply N.eq_dec); try apply N.eq_dec;
    try (decide equality).
Qed.

Lemma c20_same_slot_refl x : same_slot (fst (fst x)) x = true.
Proof. unfold same_slot. rewrite c20_key_eqb_refl. destruct (d_kind (fst (fst x))); reflexivity. Qed.

(* without a duplicate, the slot of a member's own class and line is that member *)
Lemma c20_slot_unique ds x :
  multiple ds = false -> In x (members ds) ->
  slot (d_kind (fst (fst x))) (dkey (fst (fst x))) ds = Some x.
Proof.
  intros M Hx. unfold slot.
  destruct (find _ (members ds)) as [y|] eqn:F.
  - apply find_some in F as [Hy Fy]. apply andb_true_iff in Fy as [K1 K2].
    destruct (c20_head_eq_dec y x) as [->|Ne]; [reflexivity|].
    exfalso. unfold multiple in M.
    assert (Hall : (1 <? List.length (filter (same_slot (fst (fst x))) (members ds)))%nat = false).
    { destruct (1 <? _)%nat eqn:E; [|reflexivity].
      assert (T : existsb (fun x0 => (1 <? List.length (filter (same_slot (fst (fst x0))) (members ds)))%nat)
                          (members ds) = true) by (apply existsb_exists; exists x; split; assumption).
      rewrite T in M. discriminate M. }
    apply Nat.ltb_ge in Hall.
    assert (Nxy : x <> y) by (intro; subst; apply Ne; reflexivity).
    assert (Sy : same_slot (fst (fst x)) y = true).
    { unfold same_slot. apply c20_dkind_eqb_eq in K1. apply c20_key_eqb_eq in K2. rewrite K1, K2.
      rewrite c20_key_eqb_refl. destruct (d_kind (fst (fst x))); reflexivity. }
    pose proof (c20_filter_two _ _ x y Hx Hy Nxy (c20_same_slot_refl x) Sy). lia.
  - exfalso. pose proof (find_none _ _ F x Hx) as H. cbn beta in H.
    rewrite c20_key_eqb_refl in H. destruct (d_kind (fst (fst x))); discriminate H.
Qed.

(* ================================================================== validate *)

Definition devtip (ds : list (dest * string * cid)) (k : key) : option cid :=
  option_map snd (slot KDev k ds).

Lemma c20_vl_cons s ds ts k rest prev :
  validate_loop s ds ts (k :: rest) prev = None ->
  exists x, slot KDev k ds = Some x /\
    (forall p, prev = Some p -> anc s p (snd x) = true) /\
    (forall y, slot KStab k ds = Some y ->
       next_micro k ts = opt_default (d_micro (fst (fst y))) /\ anc s (snd y) (snd x) = true) /\
    validate_loop s ds ts rest (Some (snd x)) = None.
Proof.
  cbn [validate_loop]. destruct (slot KDev k ds) as [[[dd dn] dc]|] eqn:SD; [|discriminate].
  intro H. exists (dd, dn, dc). split; [reflexivity|]. cbn [snd].
  destruct (slot KStab k ds) as [[[sd sn] sc]|] eqn:SS.
  - destruct (next_micro k ts =? opt_default (d_micro sd))%N eqn:EM; cbn [negb] in H; [|discriminate H].
    destruct (anc s sc dc) eqn:EA; cbn [negb] in H; [|discriminate H].
    destruct prev as [p|].
    + destruct (anc s p dc) eqn:EP; cbn [negb] in H; [|discriminate H].
      split; [intros p' E; injection E as <-; exact EP|]. split; [|exact H].
      intros y Ey. injection Ey as <-. cbn [fst snd]. apply N.eqb_eq in EM. split; assumption.
    + split; [intros p' E; discriminate E|]. split; [|exact H].
      intros y Ey. injection Ey as <-. cbn [fst snd]. apply N.eqb_eq in EM. split; assumption.
  - destruct prev as [p|].
    + destruct (anc s p dc) eqn:EP; cbn [negb] in H; [|discriminate H].
      split; [intros p' E; injection E as <-; exact EP|]. split; [intros y Ey; discriminate Ey | exact H].
    + split; [intros p' E; discriminate E|]. split; [intros y Ey; discriminate Ey | exact H].
Qed.

(* every line has a development branch, reached from the previous one *)
Lemma c20_vl_lines s ds ts : wf_store s -> forall ks prev,
  validate_loop s ds ts ks prev = None ->
  forall k, In k ks ->
    exists x, slot KDev k ds = Some x /\
      (forall p, prev = Some p -> anc s p (snd x) = true) /\
      (forall y, slot KStab k ds = Some y ->
         next_micro k ts = opt_default (d_micro (fst (fst y))) /\ anc s (snd y) (snd x) = true).
Proof.
  intros W. induction ks as [|k0 rest IH]; intros prev H k Hin; [destruct Hin|].
  destruct (c20_vl_cons _ _ _ _ _ _ H) as (x & Sx & Px & Stx & Hrest).
  destruct Hin as [->|Hin].
  - exists x. auto.
  - destruct (IH _ Hrest k Hin) as (y & Sy & Py & Sty). exists y. split; [exact Sy|]. split; [|exact Sty].
    intros p Ep. apply (anc_trans_b s p (snd x) (snd y) W); [exact (Px p Ep) | exact (Py _ eq_refl)].
Qed.

(* the development tips are ordered like the lines *)
Lemma c20_vl_chain s ds ts : wf_store s -> forall ks prev,
  StronglySorted ltk ks -> validate_loop s ds ts ks prev = None ->
  forall k1 k2 x1 x2, In k1 ks -> In k2 ks -> ltk k1 k2 ->
    slot KDev k1 ds = Some x1 -> slot KDev k2 ds = Some x2 -> anc s (snd x1) (snd x2) = true.
Proof.
  intros W. induction ks as [|k0 rest IH]; intros prev S H k1 k2 x1 x2 H1 H2 L S1 S2; [destruct H1|].
  inversion S as [|? ? Srest F0]; subst. rewrite Forall_forall in F0.
  destruct (c20_vl_cons _ _ _ _ _ _ H) as (x & Sx & _ & _ & Hrest).
  destruct H1 as [->|H1], H2 as [->|H2].
  - exfalso. exact (c20_ltk_irrefl _ L).
  - destruct (c20_vl_lines s ds ts W _ _ Hrest k2 H2) as (y & Sy & Py & _).
    rewrite Sx in S1. injection S1 as <-. rewrite Sy in S2. injection S2 as <-. exact (Py _ eq_refl).
  - exfalso. exact (c20_ltk_irrefl _ (c20_ltk_trans _ _ _ L (F0 k1 H1))).
  - exact (IH _ Srest Hrest k1 k2 x1 x2 H1 H2 L S1 S2).
Qed.

Lemma c20_line_keys_in ds k : In k (line_keys ds) <-> exists x, In x (members ds) /\ dkey (fst (fst x)) = k.
Proof.
  unfold line_keys. rewrite c20_sort_keys_in, in_map_iff. split; intros [x [A B]]; exists x; auto.
Qed.

(* ================================================================== released patches *)

Lemma c20_ptags_in tags p : In p (ptags tags) <-> exists t, In t tags /\ parse_tag t = Some p.
Proof.
  unfold ptags. rewrite in_flat_map. split.
  - intros [t [Hin H]]. destruct (parse_tag t) as [q|] eqn:P; [|destruct H]. destruct H as [<-|[]]. exists t. auto.
  - intros [t [Hin P]]. exists t. split; [exact Hin|]. rewrite P. left. reflexivity.
Qed.

Lemma c20_next_micro_spec k ts :
  (forall p, In p ts -> tag_on k p = true -> (snd p < next_micro k ts)%N) /\
  (next_micro k ts = 0%N \/ exists p, In p ts /\ tag_on k p = true /\ snd p = (next_micro k ts - 1)%N).
Proof.
  induction ts as [|q t [IH1 IH2]]; cbn [next_micro fold_right]; [split; [intros p [] | left; reflexivity]|].
  fold (next_micro k t). destruct (tag_on k q) eqn:T.
  - split.
    + intros p [<-|Hp] Tp; [lia|]. specialize (IH1 p Hp Tp). lia.
    + right. destruct (N.max_spec (snd q + 1) (next_micro k t)) as [[Hlt ->]|[Hle ->]].
      * destruct IH2 as [Z|(p & Hp & Tp & Ep)]; [lia|]. exists p. split; [right; exact Hp | split; assumption].
      * exists q. split; [left; reflexivity|]. split; [exact T | lia].
  - split.
    + intros p [<-|Hp] Tp; [rewrite T in Tp; discriminate Tp | exact (IH1 p Hp Tp)].
    + destruct IH2 as [Z|(p & Hp & Tp & Ep)]; [left; exact Z | right; exists p; split; [right; exact Hp | split; assumption]].
Qed.

Lemma c20_released_on_iff r k z :
  released_on r k z <-> exists p, In p (ptags (tag_names r)) /\ tag_on k p = true /\ snd p = z.
Proof.
  unfold released_on, tag_on. split.
  - intros (t & x & y & Hin & P & ->). exists (x, y, z). split; [apply c20_ptags_in; exists t; auto|].
    cbn [fst snd]. split; [apply c20_key_eqb_refl | reflexivity].
  - intros ([[x y] z'] & Hin & T & E). cbn [fst snd] in *. subst z'. apply c20_ptags_in in Hin as (t & Hin & P).
    apply c20_key_eqb_eq in T. exists t, x, y. auto.
Qed.

(* ================================================================== names: a destination name is not q/... *)

Lemma c20_first_some_in {A B} (l : list A) (f : A -> option B) y :
  first_some l f = Some y -> exists x, In x l /\ f x = Some y.
Proof.
  induction l as [|x r IH]; cbn; [discriminate|].
  destruct (f x) eqn:E.
  - intro H. injection H as ->. exists x. split; [left; reflexivity | exact E].
  - intro H. destruct (IH H) as [x' [Hin Hx]]. exists x'. split; [right; exact Hin | exact Hx].
Qed.

Lemma c20_queue_class k s a : match_class k s = Some a -> k = QueueBranch \/ k = QueueIntegrationBranch ->
  bi_class a = k.
Proof.
  intros H [->| ->]; cbn [match_class] in H.
  - unfold scan_versioned in H. destruct (strip_prefix "q/" s) as [r|]; [|discriminate H].
    cbv zeta in H. destruct (parse_version 1 4 (chomp r)) as [cs|]; [|discriminate H].
    cbn in H. injection H as <-. reflexivity.
  - destruct (strip_prefix "q/w/" s) as [r|]; [|discriminate H].
    destruct (split_first "/" r) as [[p rest]|]; [|discriminate H].
    destruct (is_num p); [|discriminate H].
    unfold scan_integration_tail in H.
    destruct (split_first "/" rest) as [[v rest']|]; [|discriminate H].
    destruct (parse_version 1 4 v) as [cs|]; [|discriminate H].
    destruct (scan_feature rest') as [f|]; [|discriminate H].
    injection H as <-. reflexivity.
Qed.

Lemma c20_prefix_app p : forall n, String.prefix p n = true -> exists r, n = (p ++ r)%string.
Proof.
  induction p as [|a p IH]; intros n H; [exists n; reflexivity|].
  destruct n as [|b n]; cbn [String.prefix] in H; [discriminate H|].
  destruct (Ascii.ascii_dec a b) as [<-|]; [|discriminate H].
  destruct (IH n H) as [r ->]. exists r. reflexivity.
Qed.

Lemma c20_prefix_of_app p : forall r, String.prefix p (p ++ r)%string = true.
Proof.
  induction p as [|a p IH]; intro r; [destruct r; reflexivity|].
  cbn [String.prefix append]. destruct (Ascii.ascii_dec a a) as [_|N]; [apply IH | contradiction].
Qed.

Lemma c20_prefix_q n : String.prefix "q/" n = true -> exists r, n = ("q/" ++ r)%string.
Proof. apply c20_prefix_app. Qed.

Lemma c20_dest_not_queue n d : parse_dest n = Some d -> String.prefix "q/" n = false.
Proof.
  unfold parse_dest. destruct (classify n) as [a|] eqn:C; [|discriminate]. intro D.
  destruct (String.prefix "q/" n) eqn:P; [|reflexivity]. exfalso.
  apply c20_prefix_q in P as [r ->].
  unfold classify in C. apply c20_first_some_in in C as [k [_ Hk]].
  destruct (match_class_needs_head _ _ _ Hk) as (h & rest & Sp & Hd).
  change ("q/" ++ r)%string with (String "q" (String "/" r)) in Sp. cbn in Sp. injection Sp as <- <-.
  assert (Kq : k = QueueBranch \/ k = QueueIntegrationBranch).
  { destruct k; cbn in Hd; try discriminate Hd; auto. }
  rewrite <- (c20_queue_class _ _ _ Hk Kq) in Kq. unfold dest_of in D.
  destruct Kq as [E|E]; rewrite E in D; discriminate D.
Qed.

(* ================================================================== what a built and validated cascade gives *)

Definition conforms (s : store) (heads : list (string * cid)) (tags : list string) : Prop :=
  build_error (dests heads) (ptags tags) = None /\ validate s (dests heads) (ptags tags) = None.

Definition bounded_heads (r : repo) : Prop := forall h, In h (r_heads r) -> (snd h < List.length (r_st r))%nat.

Lemma c20_build_error_none ds ts : build_error ds ts = None -> multiple ds = false.
Proof. unfold build_error. destruct (multiple ds); [discriminate | reflexivity]. Qed.

Section Conforms.
  Variable r : repo.
  Hypothesis W : wf_store (r_st r).
  Hypothesis C : conforms (r_st r) (r_heads r) (tag_names r).

  Let ds := dests (r_heads r).
  Let ts := ptags (tag_names r).

  Lemma c20_conf_multiple : multiple ds = false.
  Proof. destruct C as [B _]. exact (c20_build_error_none _ _ B). Qed.

  Lemma c20_conf_member n c d : In (n, c) (r_heads r) -> parse_dest n = Some d -> d_kind d <> KHotfix ->
    In (d, n, c) (members ds) /\ In (dkey d) (line_keys ds) /\ slot (d_kind d) (dkey d) ds = Some (d, n, c).
  Proof.
    intros Hin P K.
    assert (M : In (d, n, c) (members ds)).
    { apply c20_members_in. split; [apply c20_dests_in; split; assumption | exact K]. }
    split; [exact M|]. split.
    - apply c20_line_keys_in. exists (d, n, c). split; [exact M | reflexivity].
    - exact (c20_slot_unique ds (d, n, c) c20_conf_multiple M).
  Qed.

  Lemma c20_conf_lines k : In k (line_keys ds) ->
    exists x, slot KDev k ds = Some x /\
      (forall y, slot KStab k ds = Some y ->
         next_micro k ts = opt_default (d_micro (fst (fst y))) /\ anc (r_st r) (snd y) (snd x) = true).
  Proof.
    intro Hk. destruct C as [_ V]. unfold validate in V.
    destruct (c20_vl_lines _ _ _ W _ _ V k Hk) as (x & Sx & _ & St). exists x. split; assumption.
  Qed.

  Lemma c20_conf_chain k1 k2 x1 x2 : In k1 (line_keys ds) -> In k2 (line_keys ds) -> line_before k1 k2 ->
    slot KDev k1 ds = Some x1 -> slot KDev k2 ds = Some x2 -> anc (r_st r) (snd x1) (snd x2) = true.
  Proof.
    intros H1 H2 L S1 S2. destruct C as [_ V]. unfold validate in V.
    apply (c20_vl_chain _ _ _ W _ _ (c20_sort_keys_sorted _) V k1 k2 x1 x2 H1 H2); try assumption.
    apply c20_key_lt_spec. exact L.
  Qed.

  Theorem c20_conforms_incl : incl_names r.
  Proof.
    intros n1 c1 d1 n2 c2 d2 H1 H2 P1 P2 [K2 L].
    assert (NH2 : d_kind d2 <> KHotfix) by (rewrite K2; discriminate).
    destruct (c20_conf_member _ _ _ H2 P2 NH2) as (_ & Hk2 & S2). rewrite K2 in S2.
    destruct L as [[K1 L]|[K1 L]].
    - assert (NH1 : d_kind d1 <> KHotfix) by (rewrite K1; discriminate).
      destruct (c20_conf_member _ _ _ H1 P1 NH1) as (_ & Hk1 & S1). rewrite K1 in S1.
      apply (anc_spec _ W). exact (c20_conf_chain _ _ _ _ Hk1 Hk2 L S1 S2).
    - assert (NH1 : d_kind d1 <> KHotfix) by (rewrite K1; discriminate).
      destruct (c20_conf_member _ _ _ H1 P1 NH1) as (_ & Hk1 & S1). rewrite K1 in S1.
      destruct (c20_conf_lines _ Hk1) as (x & Sx & St). destruct (St _ S1) as [_ A1]. cbn [snd] in A1.
      apply (anc_spec _ W). destruct L as [E|L].
      + rewrite E in Sx. rewrite Sx in S2. injection S2 as ->. exact A1.
      + apply (anc_trans_b _ _ (snd x) _ W A1). exact (c20_conf_chain _ _ _ _ Hk1 Hk2 L Sx S2).
  Qed.

  Theorem c20_conforms_rules : cascade_rules r.
  Proof.
    split; [|split].
    - intros n c d Hin P K.
      assert (NH : d_kind d <> KHotfix) by (rewrite K; discriminate).
      destruct (c20_conf_member _ _ _ Hin P NH) as (_ & Hk & _).
      destruct (c20_conf_lines _ Hk) as ([[d' n'] c'] & Sx & _).
      destruct (c20_slot_some _ _ _ _ Sx) as (M & Kd & Kk). cbn [fst] in Kd, Kk.
      apply c20_members_in in M as [M _]. apply c20_dests_in in M as [Hin' P'].
      exists n', c', d'. auto.
    - intros [n1 c1] [n2 c2] d1 d2 H1 H2 P1 P2 NH K E. cbn [fst] in P1, P2.
      assert (NH2 : d_kind d2 <> KHotfix) by (rewrite <- K; exact NH).
      destruct (c20_conf_member _ _ _ H1 P1 NH) as (_ & _ & S1).
      destruct (c20_conf_member _ _ _ H2 P2 NH2) as (_ & _ & S2).
      rewrite K, E in S1. rewrite S1 in S2. injection S2 as _ -> ->. reflexivity.
    - intros n c d Hin P K.
      assert (NH : d_kind d <> KHotfix) by (rewrite K; discriminate).
      destruct (c20_conf_member _ _ _ Hin P NH) as (_ & Hk & S). rewrite K in S.
      destruct (c20_conf_lines _ Hk) as (x & _ & St). destruct (St _ S) as [E _]. cbn [fst] in E.
      destruct (c20_next_micro_spec (dkey d) ts) as [N1 N2]. fold ts in E. rewrite E in N1, N2. split.
      + intros z Rz. apply c20_released_on_iff in Rz as (p & Hp & Tp & <-). exact (N1 p Hp Tp).
      + destruct N2 as [Z|(p & Hp & Tp & Ep)]; [left; exact Z | right].
        apply c20_released_on_iff. exists p. auto.
  Qed.
End Conforms.

(* both statements survive the removal of heads that are not destination branches *)
Lemma c20_rules_subset r r' :
  r_st r' = r_st r -> r_tags r' = r_tags r ->
  (forall h, In h (r_heads r') -> In h (r_heads r)) ->
  (forall h d, In h (r_heads r) -> parse_dest (fst h) = Some d -> In h (r_heads r')) ->
  (incl_names r -> incl_names r') /\ (cascade_rules r -> cascade_rules r').
Proof.
  intros Es Et Sub Keep. split.
  - intros I n1 c1 d1 n2 c2 d2 H1 H2 P1 P2 L. rewrite Es. exact (I n1 c1 d1 n2 c2 d2 (Sub _ H1) (Sub _ H2) P1 P2 L).
  - intros (R1 & R2 & R3). split; [|split].
    + intros n c d Hin P K. destruct (R1 n c d (Sub _ Hin) P K) as (n' & c' & d' & Hin' & P' & K' & E').
      exists n', c', d'. split; [exact (Keep (n', c') d' Hin' P') | auto].
    + intros h1 h2 d1 d2 H1 H2. exact (R2 h1 h2 d1 d2 (Sub _ H1) (Sub _ H2)).
    + intros n c d Hin P K. unfold released_on, tag_names in *. rewrite Et. exact (R3 n c d (Sub _ Hin) P K).
Qed.

(* ================================================================== rebuild_queues / delete_queues *)

Lemma c20_prefixes_pinned : nth_prefix 0 = "q/" /\ nth_prefix 1 = "q/".
Proof. split; reflexivity. Qed.

Lemma c20_classify_all_nil ns : classify_all ns = Some [] -> ns = [].
Proof.
  destruct ns as [|n t]; [reflexivity|]. cbn [classify_all]. destruct (classify n); [|discriminate].
  destruct (classify_all t); discriminate.
Qed.

Definition qnames (heads : list (string * cid)) : list string := queue_names heads "q/".

Lemma c20_qnames_in heads n : In n (qnames heads) <-> In n (map fst heads) /\ String.prefix "q/" n = true.
Proof. unfold qnames, queue_names. apply filter_In. Qed.

(* how rebuild_queues can end *)
Lemma c20_rebuild_cases fails op uq heads qs ms o :
  rebuild_queues fails op uq heads qs = (ms, o) ->
  (o = JobSuccess /\ ms = [] /\ (uq = true -> qnames heads = [])) \/
  (o = JobSuccess /\ uq = true /\ fails op = false /\
   ms = MPushAllDel (qnames heads) :: map MEnqueue (queued_prs qs)) \/
  (ms = [] /\ (o = NotMyJob /\ uq = false \/ exists c, o = Crashed c)).
Proof.
  unfold rebuild_queues. destruct uq; cbn [negb].
  2:{ intro H. injection H as <- <-. right. right. split; [reflexivity | left; split; reflexivity]. }
  change (queue_names heads (nth_prefix 0)) with (qnames heads).
  destruct (classify_all (qnames heads)) as [[|first rest]|] eqn:CA.
  - intro H. injection H as <- <-. left. split; [reflexivity|]. split; [reflexivity|].
    intros _. exact (c20_classify_all_nil _ CA).
  - destruct (leave_queues heads first) as [c|].
    + intro H. injection H as <- <-. right. right. split; [reflexivity | right; eexists; reflexivity].
    + destruct (fails op) eqn:F.
      * intro H. injection H as <- <-. right. right. split; [reflexivity | right; eexists; reflexivity].
      * intro H. injection H as <- <-. right. left. auto.
  - intro H. injection H as <- <-. right. right. split; [reflexivity | right; eexists; reflexivity].
Qed.

Lemma c20_delete_queues_cases fails uq heads ms o :
  delete_queues fails uq heads = (ms, o) ->
  (o = JobSuccess /\ ms = [] /\ (uq = true -> qnames heads = [])) \/
  (o = JobSuccess /\ uq = true /\ ms = [MPushAllDel (qnames heads)]) \/
  (ms = [] /\ (o = NotMyJob /\ uq = false \/ exists c, o = Crashed c)).
Proof.
  unfold delete_queues. destruct uq; cbn [negb].
  2:{ intro H. injection H as <- <-. right. right. split; [reflexivity | left; split; reflexivity]. }
  change (queue_names heads (nth_prefix 1)) with (qnames heads).
  destruct (classify_all (qnames heads)) as [[|first rest]|] eqn:CA.
  - intro H. injection H as <- <-. left. split; [reflexivity|]. split; [reflexivity|].
    intros _. exact (c20_classify_all_nil _ CA).
  - destruct (leave_queues heads first) as [c|].
    + intro H. injection H as <- <-. right. right. split; [reflexivity | right; eexists; reflexivity].
    + destruct (fails 0).
      * intro H. injection H as <- <-. right. right. split; [reflexivity | right; eexists; reflexivity].
      * intro H. injection H as <- <-. right. left. auto.
  - intro H. injection H as <- <-. right. right. split; [reflexivity | right; eexists; reflexivity].
Qed.

(* what the atomic push with explicit deletions of the q/ names leaves *)
Lemma c20_apply_pushalldel r :
  only_queues_removed r (apply_mutation r (MPushAllDel (qnames (r_heads r)))) /\
  (forall h, In h (r_heads (apply_mutation r (MPushAllDel (qnames (r_heads r))))) -> ~ is_queue_name (fst h)).
Proof.
  cbn [apply_mutation r_heads r_tags r_st]. split; [split; [reflexivity|]; split; [reflexivity|]; split|].
  - intros h Hh. apply filter_In in Hh. tauto.
  - intros h Hh Nq. apply filter_In. split; [exact Hh|].
    destruct (mem_str (fst h) (qnames (r_heads r))) eqn:M; [|reflexivity].
    apply mem_str_In in M. apply c20_qnames_in in M as [_ P]. contradiction.
  - intros h Hh Q. apply filter_In in Hh as [Hin M].
    assert (In (fst h) (qnames (r_heads r))) as Hq.
    { apply c20_qnames_in. split; [apply in_map; exact Hin | exact Q]. }
    apply mem_str_In in Hq. rewrite Hq in M. discriminate M.
Qed.

Lemma c20_apply_enqueues r ps : apply_mutations r (map MEnqueue ps) = r.
Proof. induction ps as [|p t IH]; [reflexivity | exact IH]. Qed.

Lemma c20_enqueued_map ps : enqueued (map MEnqueue ps) = ps.
Proof. induction ps as [|p t IH]; [reflexivity | cbn; f_equal; exact IH]. Qed.

(* ================================================================== create_branch *)

Lemma c20_point_inl r d devs bf res : branching_point r d devs bf = inl res ->
  fst res = [] /\ (exists why, snd res = JobFailure why) \/ (fst res = [] /\ exists c, snd res = Crashed c).
Proof.
  unfold branching_point. intro H.
  assert (G : forall x : result, inl x = @inl result (option cid) res ->
              (snd x = JobFailure RBranchFromOutside \/ snd x = JobFailure RNoSupportingDev \/
               snd x = Crashed CIndexError) -> fst x = [] ->
              fst res = [] /\ (exists why, snd res = JobFailure why) \/ (fst res = [] /\ exists c, snd res = Crashed c)).
  { intros x E Hx Fx. injection E as <-. destruct Hx as [Hx|[Hx|Hx]]; rewrite Hx, Fx.
    - left. split; [reflexivity | eexists; reflexivity].
    - left. split; [reflexivity | eexists; reflexivity].
    - right. split; [reflexivity | eexists; reflexivity]. }
  destruct bf as [|n|c].
  - destruct (d_kind d).
    + destruct (auto_dev_point _ _); [discriminate H|]. apply (G _ H); cbn; auto.
    + destruct (existsb _ _); [discriminate H|]. apply (G _ H); cbn; auto.
    + discriminate H.
  - destruct (last_opt devs); [|apply (G _ H); cbn; auto].
    destruct (resolve r (BBranch n)); [|apply (G _ H); cbn; auto].
    destruct (anc _ _ _); [discriminate H | apply (G _ H); cbn; auto].
  - destruct (last_opt devs); [|apply (G _ H); cbn; auto].
    destruct (resolve r (BCommit c)); [|apply (G _ H); cbn; auto].
    destruct (anc _ _ _); [discriminate H | apply (G _ H); cbn; auto].
Qed.

Lemma c20_queued_refusal_some uq d devs qs res : queued_refusal uq d devs qs = Some res ->
  fst res = [] /\ (snd res = JobFailure RQueuedData \/ snd res = Crashed CIndexError).
Proof.
  unfold queued_refusal. destruct (uq && dkind_eqb (d_kind d) KDev); [|discriminate].
  destruct (last_opt devs).
  - destruct (_ && _); [|discriminate]. intro H. injection H as <-. cbn. auto.
  - intro H. injection H as <-. cbn. auto.
Qed.

Lemma c20_queued_refusal_none uq d devs qs : queued_refusal uq d devs qs = None ->
  uq = true -> d_kind d = KDev ->
  exists lastd, last_opt devs = Some lastd /\
    (key_lt (dkey d) (dkey (fst (fst lastd))) = true -> queued_prs qs = []).
Proof.
  unfold queued_refusal. intros H -> K. rewrite K in H. cbn in H.
  destruct (last_opt devs) as [lastd|]; [|discriminate H]. exists lastd. split; [reflexivity|].
  intro L. rewrite L in H. cbn in H. destruct (queued_prs qs); [reflexivity | discriminate H].
Qed.

Lemma c20_conformance_none s heads tags : conformance_error s heads tags = None -> conforms s heads tags.
Proof.
  unfold conformance_error, conforms. destruct (build_error _ _); [discriminate|]. intro V. split; [reflexivity | exact V].
Qed.

(* every way create_branch can end *)
Inductive create_end (fails : nat -> bool) (uq : bool) (r : repo) (qs : list qentry) (name : string)
  : list mutation -> outcome -> Prop :=
| CE_early o : o <> JobSuccess -> create_end fails uq r qs name [] o
| CE_pushed a d c :
    classify name = Some a -> dest_of a = Some d ->
    mem_str name (head_names r) = false -> ~ In (archive_tag d) (tag_names r) ->
    conforms (r_st r) (add_head (r_heads r) name c) (tag_names r) -> fails 0 = false ->
    (uq = false \/ d_kind d <> KDev) ->
    create_end fails uq r qs name [MPushNew name c] JobSuccess
| CE_chained a d c tail o :
    classify name = Some a -> dest_of a = Some d ->
    mem_str name (head_names r) = false -> ~ In (archive_tag d) (tag_names r) ->
    conforms (r_st r) (add_head (r_heads r) name c) (tag_names r) -> fails 0 = false ->
    uq = true -> d_kind d = KDev ->
    (exists lastd, last_opt (dev_branches (dests (r_heads r))) = Some lastd /\
       (key_lt (dkey d) (dkey (fst (fst lastd))) = true -> queued_prs qs = [])) ->
    rebuild_queues fails 1 true (add_head (r_heads r) name c) qs = (tail, o) ->
    create_end fails uq r qs name (MPushNew name c :: tail) o.

Lemma c20_archive_suffixes_agree : create_archive_hotfix_suffix = archive_hotfix_suffix.
Proof. reflexivity. Qed.

(* the tag create-branch looks for is the tag delete-branch leaves *)
Lemma c20_create_archive_tag tags d :
  mem_str (create_archive_tag tags d) tags = false -> ~ In (archive_tag d) tags.
Proof.
  unfold create_archive_tag, archive_tag. rewrite c20_archive_suffixes_agree. intros H Hin.
  apply mem_str_In in Hin. destruct (d_kind d); cbn [dkind_eqb andb] in H; try congruence.
  destruct (mem_str (d_version d ++ archive_hotfix_suffix) tags) eqn:M; congruence.
Qed.

Lemma c20_create_ends fails uq r qs name bf ms o :
  create_branch fails uq r qs name bf = (ms, o) -> create_end fails uq r qs name ms o.
Proof.
  unfold create_branch.
  destruct (mem_str name (head_names r)) eqn:Ex.
  { intro H. injection H as <- <-. constructor. discriminate. }
  destruct (classify name) as [a|] eqn:Cl.
  2:{ intro H. injection H as <- <-. constructor. discriminate. }
  destruct (dest_of a) as [d|] eqn:De.
  2:{ intro H. injection H as <- <-. constructor. discriminate. }
  destruct (create_requires_canonical && negb (canonical_version (d_version d))).
  { intro H. injection H as <- <-. constructor. discriminate. }
  destruct (mem_str (create_archive_tag (tag_names r) d) (tag_names r)) eqn:Tg.
  { intro H. injection H as <- <-. constructor. discriminate. }
  apply c20_create_archive_tag in Tg.
  destruct (build_error _ _) as [e|] eqn:B0.
  { intro H. injection H as <- <-. constructor. discriminate. }
  cbv zeta.
  destruct (branching_point r d _ bf) as [res|pt] eqn:BP.
  { intro H. subst res. destruct (c20_point_inl _ _ _ _ _ BP) as [[F [w S]]|[F [c S]]]; cbn in F, S; subst;
      constructor; discriminate. }
  destruct (queued_refusal uq d _ qs) as [res|] eqn:QR.
  { intro H. subst res. destruct (c20_queued_refusal_some _ _ _ _ _ QR) as [F [S|S]]; cbn in F, S; subst;
      constructor; discriminate. }
  destruct pt as [c|].
  2:{ intro H. injection H as <- <-. constructor. discriminate. }
  destruct (conformance_error _ _ _) as [e|] eqn:CE.
  { intro H. injection H as <- <-. constructor. discriminate. }
  apply c20_conformance_none in CE.
  destruct (fails 0) eqn:F0.
  { intro H. injection H as <- <-. constructor. discriminate. }
  destruct (negb uq || negb (dkind_eqb (d_kind d) KDev)) eqn:Ch.
  - intro H. injection H as <- <-. apply (CE_pushed _ _ _ _ _ a d c); try assumption.
    apply orb_true_iff in Ch as [Ch|Ch].
    + left. destruct uq; [discriminate Ch | reflexivity].
    + right. intro K. rewrite K in Ch. discriminate Ch.
  - apply orb_false_iff in Ch as [Ch1 Ch2].
    assert (Uq : uq = true) by (destruct uq; [reflexivity | discriminate Ch1]).
    assert (K : d_kind d = KDev).
    { apply negb_false_iff in Ch2. apply c20_dkind_eqb_eq in Ch2. exact Ch2. }
    intro H. injection H as <- <-.
    apply (CE_chained _ _ _ _ _ a d c); try assumption.
    + exact (c20_queued_refusal_none _ _ _ _ QR Uq K).
    + destruct (rebuild_queues _ _ _ _ _); reflexivity.
Qed.

Lemma c20_parse_dest_of name a d : classify name = Some a -> dest_of a = Some d -> parse_dest name = Some d.
Proof. intros C D. unfold parse_dest. rewrite C. exact D. Qed.

(* the remote after the push of the new branch *)
Definition pushed (r : repo) (name : string) (c : cid) : repo :=
  mkRepo (r_st r) (add_head (r_heads r) name c) (r_tags r).

Lemma c20_pushed_good r name c :
  wf_store (r_st r) -> conforms (r_st r) (add_head (r_heads r) name c) (tag_names r) ->
  incl_names (pushed r name c) /\ cascade_rules (pushed r name c).
Proof.
  intros W C. split; [apply c20_conforms_incl | apply c20_conforms_rules]; assumption.
Qed.

(* after the chained rebuild only q/ heads are gone: both statements still hold *)
Lemma c20_after_queue_removal r1 :
  let r2 := apply_mutation r1 (MPushAllDel (qnames (r_heads r1))) in
  (incl_names r1 -> incl_names r2) /\ (cascade_rules r1 -> cascade_rules r2).
Proof.
  cbv zeta. destruct (c20_apply_pushalldel r1) as [(Et & Es & Sub & Keep) _].
  apply c20_rules_subset; try assumption.
  intros h d Hin P. apply Keep; [exact Hin|]. unfold is_queue_name.
  rewrite (c20_dest_not_queue _ _ P). discriminate.
Qed.

(* the queued-data clause: no queued pull request is both below and above the new development line *)
Lemma c20_dev_branches_in ds x : In x (dev_branches ds) ->
  In x (members ds) /\ d_kind (fst (fst x)) = KDev /\ In (dkey (fst (fst x))) (line_keys ds).
Proof.
  unfold dev_branches. rewrite in_flat_map. intros [k [Hk H]].
  destruct (slot KDev k ds) as [y|] eqn:S; [|destruct H]. destruct H as [<-|[]].
  destruct (c20_slot_some _ _ _ _ S) as (M & K & E). rewrite E. auto.
Qed.

Lemma c20_last_in {A} (t : list A) : forall d, t <> [] -> In (last t d) t.
Proof.
  induction t as [|h t IH]; intros d Hne; [contradiction|].
  destruct t as [|h' t']; [left; reflexivity|]. right.
  change (last (h :: h' :: t') d) with (last (h' :: t') d). apply IH. discriminate.
Qed.

Lemma c20_last_opt_in {A} (l : list A) x : last_opt l = Some x -> In x l.
Proof.
  destruct l as [|h t]; cbn [last_opt]; [discriminate|]. intro H. injection H as <-.
  destruct t as [|h' t']; [left; reflexivity|]. right. apply c20_last_in. discriminate.
Qed.

Lemma c20_subseq_in a : forall b, subseq a b = true -> forall p, In p a -> In p b.
Proof.
  induction a as [|x a IH]; intros b H p Hp; [destruct Hp|].
  induction b as [|y b IHb]; [discriminate H|]. cbn [subseq] in H.
  destruct (N.eqb_spec x y) as [->|Ne].
  - destruct Hp as [->|Hp]; [left; reflexivity | right; exact (IH _ H p Hp)].
  - right. exact (IHb H).
Qed.

Lemma c20_queued_prs_nonempty qs e p :
  queues_coherent qs = true -> In e qs -> (qlen e <? 4)%nat = true -> In p (q_prs e) -> queued_prs qs <> [].
Proof.
  intros Co He Hl Hp. unfold queues_coherent in Co. apply andb_true_iff in Co as [_ Co].
  unfold queued_prs.
  destruct (find (fun e0 => (qlen e0 <? 4)%nat) (rev qs)) as [lastq|] eqn:F.
  - apply andb_true_iff in Co as [Sub Hf].
    rewrite forallb_forall in Sub. specialize (Sub e He).
    assert (E4 : (qlen e =? 4)%nat = false) by (apply Nat.ltb_lt in Hl; apply Nat.eqb_neq; lia).
    rewrite E4 in Sub. cbn [orb] in Sub.
    pose proof (c20_subseq_in _ _ Sub p Hp) as Hin.
    set (hf := fold_left _ (rev qs) []).
    (* p is not a hotfix pull request: it survives the filter *)
    assert (Nhf : memN p hf = false).
    { destruct (memN p hf) eqn:M; [|reflexivity]. exfalso.
      assert (G : forall l acc, memN p (fold_left (fun acc0 e0 =>
                   if (qlen e0 =? 4)%nat
                   then fold_left (fun a0 p0 => if memN p0 a0 then a0 else p0 :: a0) (q_prs e0) acc0
                   else acc0) l acc) = true ->
                 memN p acc = true \/ exists e0, In e0 l /\ (qlen e0 =? 4)%nat = true /\ In p (q_prs e0)).
      { induction l as [|e0 l IHl]; intros acc Hm; [left; exact Hm|]. cbn [fold_left] in Hm.
        destruct (IHl _ Hm) as [Hacc|(e1 & H1 & H2 & H3)]; [|right; exists e1; split; [right; exact H1 | auto]].
        destruct (qlen e0 =? 4)%nat eqn:E0; [|left; exact Hacc].
        assert (G2 : forall ps a0, memN p (fold_left (fun a1 p0 => if memN p0 a1 then a1 else p0 :: a1) ps a0) = true ->
                      memN p a0 = true \/ In p ps).
        { induction ps as [|q ps IHp]; intros a0 Hm2; [left; exact Hm2|]. cbn [fold_left] in Hm2.
          destruct (IHp _ Hm2) as [Ha|Hi]; [|right; right; exact Hi].
          destruct (memN q a0); [left; exact Ha|]. cbn in Ha. apply orb_true_iff in Ha as [Ha|Ha].
          - apply N.eqb_eq in Ha. subst. right. left. reflexivity.
          - left. exact Ha. }
        destruct (G2 _ _ Hacc) as [Ha|Hi]; [left; exact Ha|].
        right. exists e0. split; [left; reflexivity | auto]. }
      destruct (G _ _ M) as [Hn|(e0 & H0 & L0 & P0)]; [discriminate Hn|].
      apply in_rev in H0. rewrite forallb_forall in Hf. specialize (Hf e0 H0). rewrite L0 in Hf. cbn in Hf.
      rewrite forallb_forall in Hf. specialize (Hf p P0). rewrite forallb_forall in Hf. specialize (Hf e He).
      rewrite E4 in Hf. cbn in Hf. apply negb_true_iff in Hf.
      assert (memN p (q_prs e) = true) by (apply existsb_exists; exists p; split; [exact Hp | apply N.eqb_refl]).
      congruence. }
    intro Z. apply app_eq_nil in Z as [_ Z].
    assert (In p (filter (fun p0 => negb (memN p0 hf)) (rev (q_prs lastq)))).
    { apply filter_In. split; [apply in_rev; rewrite rev_involutive; exact Hin | rewrite Nhf; reflexivity]. }
    rewrite Z in H. destruct H.
  - exfalso. assert (In e (rev qs)) as Hr by (apply in_rev; rewrite rev_involutive; exact He).
    pose proof (find_none _ _ F e Hr) as Hn. cbn beta in Hn. congruence.
Qed.

(* ================================================================== C20_create *)

(* what the statement promises of a successful create-branch, with the archived clause as a parameter *)
Definition create_promise (arch : dest -> Prop) (r : repo) (qs : list qentry) (name : string)
           (ms : list mutation) : Prop :=
  let r' := apply_mutations r ms in
  exists d c, parse_dest name = Some d /\ In (name, c) (r_heads r') /\
    cascade_rules r' /\ incl_names r' /\ ~ arch d /\
    (d_kind d = KDev -> ~ needs_intermediate qs (dkey d)).

(* the hypotheses on the view: reachable states of one configuration *)
Definition view_ok (uq : bool) (r : repo) (qs : list qentry) : Prop :=
  wf_store (r_st r) /\ queues_coherent qs = true /\ queues_below_last (r_heads r) qs = true /\
  (uq = false -> qs = []).

Lemma c20_qlen_cases e : qlen e = 2%nat \/ qlen e = 3%nat \/ qlen e = 4%nat.
Proof. unfold qlen. destruct (q_micro e), (q_hfrev e); auto. Qed.

Lemma c20_no_intermediate r qs d lastd :
  queues_coherent qs = true -> queues_below_last (r_heads r) qs = true ->
  last_opt (dev_branches (dests (r_heads r))) = Some lastd ->
  (key_lt (dkey d) (dkey (fst (fst lastd))) = true -> queued_prs qs = []) ->
  ~ needs_intermediate qs (dkey d).
Proof.
  intros Co Bl La Hq (e1 & e2 & p & H1 & H2 & N1 & N2 & P1 & P2 & L1 & L2).
  assert (Lt2 : (qlen e2 <? 4)%nat = true).
  { unfold hotfix_queue in N2. apply Nat.ltb_lt. destruct (c20_qlen_cases e2) as [E|[E|E]]; lia. }
  pose proof (c20_queued_prs_nonempty qs e2 p Co H2 Lt2 P2) as Ne.
  unfold queues_below_last in Bl. rewrite La in Bl. rewrite forallb_forall in Bl. specialize (Bl e2 H2).
  assert (E4 : (qlen e2 =? 4)%nat = false) by (apply Nat.ltb_lt in Lt2; apply Nat.eqb_neq; lia).
  rewrite E4 in Bl. cbn [orb] in Bl. apply negb_true_iff in Bl. fold (qkey e2) in Bl.
  destruct (key_lt (dkey d) (dkey (fst (fst lastd)))) eqn:Lk; [exact (Ne (Hq eq_refl))|].
  (* last <= new < q2 <= last *)
  set (kl := dkey (fst (fst lastd))) in *.
  destruct (c20_line_total (dkey d) kl) as [T|[T|T]].
  - apply c20_key_lt_spec in T. congruence.
  - rewrite T in L2. apply c20_key_lt_spec in L2. congruence.
  - pose proof (c20_line_before_trans _ _ _ T L2) as T2. apply c20_key_lt_spec in T2. congruence.
Qed.

Lemma c20_in_add_head heads n c : In (n, c) (add_head heads n c).
Proof. unfold add_head. apply in_or_app. right. left. reflexivity. Qed.

Theorem c20_create_proof :
  forall fails uq r qs name bf ms, view_ok uq r qs ->
    create_branch fails uq r qs name bf = (ms, JobSuccess) ->
    create_promise (archived archive_tag r) r qs name ms.
Proof.
  intros fails uq r qs name bf ms (W & Co & Bl & Nq) H.
  apply c20_create_ends in H. unfold create_promise, archived.
  inversion H as [o No | a d c Cl De Ex Tg Cf F0 Ch | a d c tail o Cl De Ex Tg Cf F0 Uq K La Rb]; subst.
  - contradiction.
  - destruct (c20_pushed_good r name c W Cf) as [I R].
    exists d, c. cbn [apply_mutations fold_left apply_mutation].
    split; [exact (c20_parse_dest_of _ _ _ Cl De)|]. split; [apply c20_in_add_head|].
    split; [exact R|]. split; [exact I|]. split; [exact Tg|].
    intros K. destruct Ch as [->|Nk]; [|contradiction].
    rewrite (Nq eq_refl). intros (e1 & _ & _ & [] & _).
  - destruct La as (lastd & La & Hq).
    destruct (c20_pushed_good r name c W Cf) as [I R].
    assert (NI : ~ needs_intermediate qs (dkey d)) by exact (c20_no_intermediate r qs d lastd Co Bl La Hq).
    destruct (c20_rebuild_cases _ _ _ _ _ _ _ Rb) as [(_ & -> & _)|[(_ & _ & _ & ->)|(_ & [[Ho _]|[cr Ho]])]];
      try discriminate Ho.
    + exists d, c. cbn [apply_mutations fold_left apply_mutation].
      split; [exact (c20_parse_dest_of _ _ _ Cl De)|]. split; [apply c20_in_add_head|].
      split; [exact R|]. split; [exact I|]. split; [exact Tg | intros _; exact NI].
    + exists d, c. cbn [apply_mutations fold_left]. fold (apply_mutations).
      change (fold_left apply_mutation (map MEnqueue (queued_prs qs)) ?x) with
             (apply_mutations x (map MEnqueue (queued_prs qs))).
      rewrite c20_apply_enqueues.
      change (apply_mutation r (MPushNew name c)) with (pushed r name c).
      change (add_head (r_heads r) name c) with (r_heads (pushed r name c)).
      destruct (c20_after_queue_removal (pushed r name c)) as [KI KR].
      destruct (c20_apply_pushalldel (pushed r name c)) as [(_ & _ & _ & Keep) _].
      split; [exact (c20_parse_dest_of _ _ _ Cl De)|]. split.
      { apply Keep; [apply c20_in_add_head|]. unfold is_queue_name. cbn [fst].
        rewrite (c20_dest_not_queue _ _ (c20_parse_dest_of _ _ _ Cl De)). discriminate. }
      split; [exact (KR R)|]. split; [exact (KI I)|]. split; [exact Tg | intros _; exact NI].
Qed.

(* the former witness of F11 (the archive tag of a hotfix branch was not the tag create-branch looked for):
   now refused *)
Definition c20_f11_repo : repo :=
  mkRepo [mkCommit [] false]
         [("development/4.3", 0%nat)]
         [("4.3.17.0", 0%nat); ("4.3.17.archived_hotfix_branch", 0%nat)].

Lemma c20_wf_single : wf_store [mkCommit [] false].
Proof. intros i c H p Hp. destruct i as [|[|i]]; cbn in H; try discriminate H. injection H as <-. destruct Hp. Qed.

Example c20_f11_refused :
  create_branch no_fault false c20_f11_repo [] "hotfix/4.3.17" BNone = ([], JobFailure RArchiveTag) /\
  create_branch no_fault false (mkRepo (r_st c20_f11_repo) (r_heads c20_f11_repo) [("4.3.17.0", 0%nat)]) []
                "hotfix/4.3.17" BNone = ([MPushNew "hotfix/4.3.17" 0%nat], JobSuccess).
Proof. vm_compute. split; reflexivity. Qed.

(* ================================================================== C20_delete *)

Inductive delete_end (fails : nat -> bool) (uq : bool) (r : repo) (qs : list qentry) (name : string)
  : list mutation -> outcome -> Prop :=
| DE_early o : refused o -> delete_end fails uq r qs name [] o
| DE_late a d tip m0 o rest :
    classify name = Some a -> dest_of a = Some d -> assoc_str name (r_heads r) = Some tip ->
    (d_kind d <> KHotfix -> already_archived r (archive_tag d) tip = false ->
       mem_str (d_version d) (tag_names r) = false) ->
    (d_kind d = KDev -> existsb (stab_test d) (head_names r) = false) ->
    (uq = true -> has_version_queued_prs d qs = false) ->
    (m0 = [] \/ (m0 = [MDelete (queue_name_head ++ d_version d)%string] /\ uq = true /\ fails 0 = false /\
                 mem_str (queue_name_head ++ d_version d) (head_names r) = true)) ->
    (* then: tag exists / tag push refused / branch deletion refused / done; or the resumed deletion *)
    (rest = [] /\ o = JobFailure RTagFailed /\ already_archived r (archive_tag d) tip = false /\
       (mem_str (archive_tag d) (tag_names r) = true \/ exists i, fails i = true) \/
     rest = [MPushTag (archive_tag d) tip] /\ o = JobFailure RRemoveFailed /\ (exists i, fails i = true) \/
     rest = [MPushTag (archive_tag d) tip; MDelete name] /\ o = JobSuccess /\
       mem_str (archive_tag d) (tag_names r) = false \/
     rest = [] /\ o = JobFailure RRemoveFailed /\ (exists i, fails i = true) \/
     rest = [MDelete name] /\ o = JobSuccess /\ already_archived r (archive_tag d) tip = true) ->
    delete_end fails uq r qs name (m0 ++ rest) o.

Lemma c20_refused_failure why : refused (JobFailure why).
Proof. right. right. exists why. reflexivity. Qed.

Lemma c20_delete_ends fails uq r qs name ms o :
  delete_branch fails uq r qs name = (ms, o) -> delete_end fails uq r qs name ms o.
Proof.
  unfold delete_branch.
  destruct (classify name) as [a|] eqn:Cl.
  2:{ intro H. injection H as <- <-. constructor. apply c20_refused_failure. }
  destruct (dest_of a) as [d|] eqn:De.
  2:{ intro H. injection H as <- <-. constructor. apply c20_refused_failure. }
  destruct (assoc_str name (r_heads r)) as [tip|] eqn:Ex.
  2:{ intro H. injection H as <- <-. constructor. left. reflexivity. }
  cbv zeta.
  destruct (negb (dkind_eqb (d_kind d) KHotfix) && negb (already_archived r (archive_tag d) tip) &&
            mem_str (d_version d) (tag_names r)) eqn:Tg.
  { intro H. injection H as <- <-. constructor. apply c20_refused_failure. }
  destruct (dkind_eqb (d_kind d) KDev && existsb _ (head_names r)) eqn:St.
  { intro H. injection H as <- <-. constructor. apply c20_refused_failure. }
  destruct (uq && has_version_queued_prs d qs) eqn:Qd.
  { intro H. injection H as <- <-. constructor. apply c20_refused_failure. }
  assert (HTg : d_kind d <> KHotfix -> already_archived r (archive_tag d) tip = false ->
                mem_str (d_version d) (tag_names r) = false).
  { intros K R. rewrite R in Tg. destruct (d_kind d); try contradiction; cbn in Tg; exact Tg. }
  assert (HSt : d_kind d = KDev -> existsb (stab_test d) (head_names r) = false).
  { intro K. rewrite K in St. exact St. }
  assert (HQd : uq = true -> has_version_queued_prs d qs = false) by (intros ->; exact Qd).
  set (qn := (queue_name_head ++ d_version d)%string).
  destruct (uq && mem_str qn (head_names r)) eqn:Dq.
  - apply andb_true_iff in Dq as [Uq Mq]. cbn [andb].
    destruct (fails 0) eqn:F0.
    { intro H. injection H as <- <-. constructor. apply c20_refused_failure. }
    assert (HM : [MDelete qn] = [] \/ ([MDelete qn] = [MDelete qn] /\ uq = true /\ fails 0 = false /\
                   mem_str qn (head_names r) = true)) by (right; auto).
    destruct (already_archived r (archive_tag d) tip) eqn:Res.
    { destruct (fails 1) eqn:F1.
      - intro H. injection H as <- <-.
        apply (DE_late fails uq r qs name a d tip [MDelete qn] _ []); auto; try (intros K R; congruence); try (intros K R; apply HTg; [exact K | reflexivity]).
        right. right. right. left. split; [reflexivity|]. split; [reflexivity|]. exists 1%nat. exact F1.
      - intro H. injection H as <- <-.
        apply (DE_late fails uq r qs name a d tip [MDelete qn] _ [MDelete name]); auto; try (intros K R; congruence); try (intros K R; apply HTg; [exact K | reflexivity]).
        right. right. right. right. auto. }
    destruct (mem_str (archive_tag d) (tag_names r)) eqn:At.
    { intro H. injection H as <- <-.
      apply (DE_late fails uq r qs name a d tip [MDelete qn] _ []); auto; try (intros K R; congruence); try (intros K R; apply HTg; [exact K | reflexivity]).
      try (left; split; [reflexivity|]; split; [reflexivity|]; split; [exact Res|]; left; exact At). }
    destruct (fails 1) eqn:F1.
    { intro H. injection H as <- <-.
      apply (DE_late fails uq r qs name a d tip [MDelete qn] _ []); auto; try (intros K R; congruence); try (intros K R; apply HTg; [exact K | reflexivity]).
      left. split; [reflexivity|]. split; [reflexivity|]. split; [exact Res|]. right. exists 1%nat. exact F1. }
    destruct (fails 2) eqn:F2.
    { intro H. injection H as <- <-.
      apply (DE_late fails uq r qs name a d tip [MDelete qn] _ [MPushTag (archive_tag d) tip]); auto; try (intros K R; congruence); try (intros K R; apply HTg; [exact K | reflexivity]).
      right. left. split; [reflexivity|]. split; [reflexivity|]. exists 2%nat. exact F2. }
    intro H. injection H as <- <-.
    apply (DE_late fails uq r qs name a d tip [MDelete qn] _ [MPushTag (archive_tag d) tip; MDelete name]); auto; try (intros K R; congruence); try (intros K R; apply HTg; [exact K | reflexivity]).
    try (right; right; left; auto).
  - cbn [andb].
    destruct (already_archived r (archive_tag d) tip) eqn:Res.
    { destruct (fails 0) eqn:F0.
      - intro H. injection H as <- <-.
        apply (DE_late fails uq r qs name a d tip [] _ []); auto; try (intros K R; congruence); try (intros K R; apply HTg; [exact K | reflexivity]).
        right. right. right. left. split; [reflexivity|]. split; [reflexivity|]. exists 0%nat. exact F0.
      - intro H. injection H as <- <-.
        apply (DE_late fails uq r qs name a d tip [] _ [MDelete name]); auto; try (intros K R; congruence); try (intros K R; apply HTg; [exact K | reflexivity]).
        right. right. right. right. auto. }
    destruct (mem_str (archive_tag d) (tag_names r)) eqn:At.
    { intro H. injection H as <- <-.
      apply (DE_late fails uq r qs name a d tip [] _ []); auto; try (intros K R; congruence); try (intros K R; apply HTg; [exact K | reflexivity]).
      try (left; split; [reflexivity|]; split; [reflexivity|]; split; [exact Res|]; left; exact At). }
    destruct (fails 0) eqn:F0.
    { intro H. injection H as <- <-.
      apply (DE_late fails uq r qs name a d tip [] _ []); auto; try (intros K R; congruence); try (intros K R; apply HTg; [exact K | reflexivity]).
      left. split; [reflexivity|]. split; [reflexivity|]. split; [exact Res|]. right. exists 0%nat. exact F0. }
    destruct (fails 1) eqn:F1.
    { intro H. injection H as <- <-.
      apply (DE_late fails uq r qs name a d tip [] _ [MPushTag (archive_tag d) tip]); auto; try (intros K R; congruence); try (intros K R; apply HTg; [exact K | reflexivity]).
      right. left. split; [reflexivity|]. split; [reflexivity|]. exists 1%nat. exact F1. }
    intro H. injection H as <- <-.
    apply (DE_late fails uq r qs name a d tip [] _ [MPushTag (archive_tag d) tip; MDelete name]); auto; try (intros K R; congruence); try (intros K R; apply HTg; [exact K | reflexivity]).
    try (right; right; left; auto).
Qed.

(* what the statement promises of a successful delete-branch *)
Definition delete_promise (r : repo) (qs : list qentry) (name : string) (ms : list mutation) : Prop :=
  let r' := apply_mutations r ms in
  exists d tip, parse_dest name = Some d /\ assoc_str name (r_heads r) = Some tip /\
    In (archive_tag d, tip) (r_tags r') /\ ~ In name (head_names r') /\
    ~ has_queued_prs qs d /\ (d_kind d = KDev -> ~ live_stabilization r d).

Lemma c20_remove_head_names n heads : ~ In n (map fst (remove_head n heads)).
Proof.
  unfold remove_head. intro H. apply in_map_iff in H as [[n' c] [E Hin]]. cbn in E. subst n'.
  apply filter_In in Hin as [_ F]. cbn in F. rewrite String.eqb_refl in F. discriminate F.
Qed.

Lemma c20_has_version_spec d qs : has_version_queued_prs d qs = false -> ~ has_queued_prs qs d.
Proof.
  intros H (e & p & He & (Ma & Mi & Q) & _).
  assert (T : has_version_queued_prs d qs = true); [|congruence].
  unfold has_version_queued_prs. destruct (d_kind d); apply existsb_exists; exists e; (split; [exact He|]).
  - rewrite Q, Ma, Mi. rewrite N.eqb_refl. cbn. apply c20_optN_eqb_eq. reflexivity.
  - destruct Q as [Q1 Q2]. rewrite Q1, Ma, Mi, Q2. rewrite N.eqb_refl. cbn.
    rewrite (proj2 (c20_optN_eqb_eq _ _) eq_refl). apply c20_optN_eqb_eq. reflexivity.
  - destruct Q as [Q1 Q2]. rewrite Q1, Ma, Mi, Q2. rewrite N.eqb_refl. cbn.
    rewrite (proj2 (c20_optN_eqb_eq _ _) eq_refl). apply c20_optN_eqb_eq. reflexivity.
Qed.

Lemma c20_stab_head_pinned : stab_prefix_head = "stabilization/" /\ queue_name_head = "q/" /\ delete_stab_numeric = true.
Proof. repeat split; reflexivity. Qed.

(* the numeric test sees every stabilization branch of the line *)
Lemma c20_stab_test_live r d : existsb (stab_test d) (head_names r) = false -> ~ live_stabilization r d.
Proof.
  intros H (n & c & d' & Hin & P & K & E).
  assert (T : existsb (stab_test d) (head_names r) = true); [|congruence].
  apply existsb_exists. exists n. split; [apply in_map_iff; exists (n, c); split; [reflexivity | exact Hin]|].
  unfold stab_test. destruct c20_stab_head_pinned as (_ & _ & ->). cbn [andb].
  apply orb_true_iff. right. unfold is_stabilization_of. rewrite P, K. cbn [dkind_eqb andb].
  unfold dkey in E. injection E as E1 E2. rewrite E1, E2, N.eqb_refl. cbn [andb].
  apply c20_optN_eqb_eq. reflexivity.
Qed.

Lemma c20_assoc_str_in {A} n (l : list (string * A)) v : assoc_str n l = Some v -> In (n, v) l.
Proof.
  induction l as [|[k x] t IH]; cbn [assoc_str]; [discriminate|].
  destruct (String.eqb_spec k n) as [->|Ne]; intro H; [injection H as ->; left; reflexivity | right; exact (IH H)].
Qed.

Lemma c20_already_archived_in r tag tip : already_archived r tag tip = true -> In (tag, tip) (r_tags r).
Proof.
  unfold already_archived. destruct (assoc_str tag (r_tags r)) as [c|] eqn:E; [|discriminate].
  intro H. apply Nat.eqb_eq in H. subst c. exact (c20_assoc_str_in _ _ _ E).
Qed.

Theorem c20_delete_proof :
  forall fails uq r qs name ms, (uq = false -> qs = []) ->
    delete_branch fails uq r qs name = (ms, JobSuccess) ->
    delete_promise r qs name ms.
Proof.
  intros fails uq r qs name ms Nq H. apply c20_delete_ends in H.
  inversion H as [o Ro | a d tip m0 o rest Cl De Ex HTg HSt HQd Hm0 Hrest]; subst.
  - destruct Ro as [E|[E|[w E]]]; discriminate E.
  - assert (Q : ~ has_queued_prs qs d).
    { destruct uq; [exact (c20_has_version_spec _ _ (HQd eq_refl))|].
      rewrite (Nq eq_refl). intros (e & _ & [] & _). }
    assert (S : d_kind d = KDev -> ~ live_stabilization r d).
    { intros K. exact (c20_stab_test_live r d (HSt K)). }
    unfold delete_promise. exists d, tip.
    split; [exact (c20_parse_dest_of _ _ _ Cl De)|]. split; [exact Ex|].
    destruct Hrest as [(_ & E & _)|[(_ & E & _)|[(-> & _ & At)|[(_ & E & _)|(-> & _ & Res)]]]]; try discriminate E.
    + destruct Hm0 as [->|[-> _]]; cbn [app apply_mutations fold_left apply_mutation r_tags r_heads head_names].
      * split; [apply in_or_app; right; left; reflexivity|]. split; [apply c20_remove_head_names|]. auto.
      * split; [apply in_or_app; right; left; reflexivity|]. split; [apply c20_remove_head_names|]. auto.
    + (* resumed: the tag was already on the tip *)
      apply c20_already_archived_in in Res.
      destruct Hm0 as [->|[-> _]]; cbn [app apply_mutations fold_left apply_mutation r_tags r_heads head_names].
      * split; [exact Res|]. split; [apply c20_remove_head_names|]. auto.
      * split; [exact Res|]. split; [apply c20_remove_head_names|]. auto.
Qed.

(* the former witness: a stabilization branch whose name carries a leading zero was not seen by the string test *)
Definition c20_zero_repo : repo :=
  mkRepo [mkCommit [] false] [("development/4.3", 0%nat); ("stabilization/04.3.0", 0%nat)] [].

Example c20_zero_refused :
  delete_branch no_fault false c20_zero_repo [] "development/4.3" = ([], JobFailure RStabilization) /\
  delete_branch no_fault false c20_zero_repo [] "stabilization/04.3.0" =
    ([MPushTag "04.3.0" 0%nat; MDelete "stabilization/04.3.0"], JobSuccess).
Proof. vm_compute. split; reflexivity. Qed.

(* ================================================================== C20_refuse *)

Definition never_fails (fails : nat -> bool) : Prop := forall i, fails i = false.

(* create-branch, rebuild-queues, delete-queues: a refusal comes before any remote operation, whatever the
   server does *)
Theorem c20_refuse_create_proof fails uq r qs name bf ms o :
  create_branch fails uq r qs name bf = (ms, o) -> refused o -> ms = [].
Proof.
  intros H Ro. apply c20_create_ends in H.
  inversion H as [o' No | a d c Cl De Ex Tg Cf F0 Ch | a d c tail o' Cl De Ex Tg Cf F0 Uq K La Rb]; subst.
  - reflexivity.
  - destruct Ro as [E|[E|[w E]]]; discriminate E.
  - exfalso. destruct (c20_rebuild_cases _ _ _ _ _ _ _ Rb) as [(-> & _)|[(-> & _)|(_ & [[_ E]|[cr ->]])]];
      try discriminate E; destruct Ro as [E|[E|[w E]]]; discriminate E.
Qed.

(* when create-branch does not succeed after having pushed, it is the chained rebuild that crashed *)
Theorem c20_create_not_success_proof fails uq r qs name bf ms o :
  create_branch fails uq r qs name bf = (ms, o) -> o <> JobSuccess ->
  ms = [] \/ (exists c cr, ms = [MPushNew name c] /\ o = Crashed cr /\ uq = true).
Proof.
  intros H No. apply c20_create_ends in H.
  inversion H as [o' No' | a d c Cl De Ex Tg Cf F0 Ch | a d c tail o' Cl De Ex Tg Cf F0 Uq K La Rb]; subst.
  - left. reflexivity.
  - contradiction.
  - right. destruct (c20_rebuild_cases _ _ _ _ _ _ _ Rb) as [(E & _)|[(E & _)|(-> & [[_ E]|[cr ->]])]];
      try contradiction; try discriminate E. exists c, cr. auto.
Qed.

Theorem c20_refuse_queues_proof fails op uq heads qs ms o :
  (rebuild_queues fails op uq heads qs = (ms, o) \/ delete_queues fails uq heads = (ms, o)) ->
  o <> JobSuccess -> ms = [].
Proof.
  intros [H|H] No.
  - destruct (c20_rebuild_cases _ _ _ _ _ _ _ H) as [(E & _)|[(E & _)|(-> & _)]]; [contradiction..|reflexivity].
  - destruct (c20_delete_queues_cases _ _ _ _ _ H) as [(E & _)|[(E & _)|(-> & _)]]; [contradiction..|reflexivity].
Qed.

(* delete-branch: exactly what can precede a refusal *)
Theorem c20_refuse_delete_proof fails uq r qs name ms o :
  delete_branch fails uq r qs name = (ms, o) -> refused o ->
  exists d tip, (ms = [] \/ parse_dest name = Some d /\ assoc_str name (r_heads r) = Some tip) /\
    let q := MDelete ("q/" ++ d_version d)%string in
    let t := MPushTag (archive_tag d) tip in
    (ms = [] \/ ms = [q] \/ ms = [t] \/ ms = [q; t]) /\
    (* the destination branch itself is never deleted by a refusing job *)
    ~ In (MDelete name) ms /\
    (* without a refused remote operation only the q/<version> deletion can have happened, and only for a
       hotfix branch whose archive tag already exists while a branch q/<x.y.z> is there *)
    (never_fails fails -> ms = [] \/
       (ms = [q] /\ d_kind d = KHotfix /\ In (archive_tag d) (tag_names r) /\
        In ("q/" ++ d_version d)%string (head_names r))).
Proof.
  intros H Ro. apply c20_delete_ends in H.
  inversion H as [o' Ro' | a d tip m0 o' rest Cl De Ex HTg HSt HQd Hm0 Hrest]; subst.
  - exists (mkDest KDev 0 None None ""), 0%nat. cbv zeta. split; [left; reflexivity|].
    split; [left; reflexivity|]. split; [intros []|]. intros _. left. reflexivity.
  - exists d, tip. cbv zeta. split; [right; split; [exact (c20_parse_dest_of _ _ _ Cl De) | exact Ex]|].
    assert (Nn : MDelete name <> MDelete ("q/" ++ d_version d)%string).
    { intro E. injection E as E.
      assert (P : String.prefix "q/" name = false) by exact (c20_dest_not_queue _ _ (c20_parse_dest_of _ _ _ Cl De)).
      assert (T : String.prefix "q/" name = true) by (rewrite E; exact (c20_prefix_of_app "q/" (d_version d))).
      congruence. }
    destruct Hrest as [(-> & -> & Res & Why)|[(-> & -> & Why)|[(-> & -> & _)|[(-> & -> & Why)|(-> & -> & _)]]]].
    4:{ destruct Why as [i Fi]. rewrite app_nil_r. destruct Hm0 as [->|[-> _]].
        - split; [left; reflexivity|]. split; [intros []|]. intros _. left. reflexivity.
        - split; [right; left; reflexivity|]. split; [intros [E|[]]; exact (Nn (eq_sym E))|].
          intro NF. rewrite NF in Fi. discriminate Fi. }
    4:{ destruct Ro as [E|[E|[w E]]]; discriminate E. }
    + rewrite app_nil_r. destruct Hm0 as [->|[-> (Uq & F0 & Mq)]].
      * split; [left; reflexivity|]. split; [intros []|]. intros _. left. reflexivity.
      * split; [right; left; reflexivity|]. split; [intros [E|[]]; exact (Nn (eq_sym E))|].
        intro NF. destruct Why as [At|[i Fi]]; [|rewrite NF in Fi; discriminate Fi].
        right. split; [reflexivity|]. apply mem_str_In in Mq.
        assert (Kh : d_kind d = KHotfix).
        { destruct (d_kind d) eqn:K; [exfalso | exfalso | reflexivity]; unfold archive_tag in At; rewrite K in At;
            rewrite HTg in At by (first [discriminate | exact Res]); discriminate At. }
        apply mem_str_In in At. auto.
    + destruct Why as [i Fi]. destruct Hm0 as [->|[-> _]]; cbn [app].
      * split; [right; right; left; reflexivity|]. split; [intros [E|[]]; discriminate E|].
        intro NF. rewrite NF in Fi. discriminate Fi.
      * split; [right; right; right; reflexivity|].
        split; [intros [E|[E|[]]]; [exact (Nn (eq_sym E)) | discriminate E]|].
        intro NF. rewrite NF in Fi. discriminate Fi.
    + destruct Ro as [E|[E|[w E]]]; discriminate E.
Qed.

(* ================================================================== C20_queues *)

Lemma c20_only_queues_refl r : only_queues_removed r r.
Proof. split; [reflexivity|]. split; [reflexivity|]. split; auto. Qed.

Theorem c20_queues_rebuild_proof fails op uq r qs ms o :
  rebuild_queues fails op uq (r_heads r) qs = (ms, o) ->
  let r' := apply_mutations r ms in
  only_queues_removed r r' /\
  (o = JobSuccess ->
     uq = true /\ (forall h, In h (r_heads r') -> ~ is_queue_name (fst h)) /\
     (enqueued ms = queued_prs qs \/ (qnames (r_heads r) = [] /\ enqueued ms = []))) /\
  (o <> JobSuccess -> ms = []).
Proof.
  intro H. cbv zeta.
  destruct (c20_rebuild_cases _ _ _ _ _ _ _ H) as [(-> & -> & Hq)|[(-> & Uq & _ & ->)|(-> & Ho)]].
  - split; [apply c20_only_queues_refl|]. split; [|intro N; contradiction].
    intros _. destruct uq.
    + split; [reflexivity|]. split; [|right; split; [exact (Hq eq_refl) | reflexivity]].
      intros h Hh Q. cbn in Hh.
      assert (In (fst h) (qnames (r_heads r))) as Hin by (apply c20_qnames_in; split; [apply in_map; exact Hh | exact Q]).
      rewrite (Hq eq_refl) in Hin. destruct Hin.
    + exfalso. unfold rebuild_queues in H. cbn in H. discriminate H.
  - cbn [apply_mutations fold_left].
    change (fold_left apply_mutation (map MEnqueue (queued_prs qs)) ?x) with
           (apply_mutations x (map MEnqueue (queued_prs qs))).
    rewrite c20_apply_enqueues. destruct (c20_apply_pushalldel r) as [O N].
    split; [exact O|]. split; [|intro E; contradiction].
    intros _. split; [exact Uq|]. split; [exact N|]. left. cbn [enqueued flat_map app].
    exact (c20_enqueued_map _).
  - split; [apply c20_only_queues_refl|]. split; [|reflexivity].
    intro E. destruct Ho as [[E' _]|[c E']]; rewrite E in E'; discriminate E'.
Qed.

Theorem c20_queues_delete_proof fails uq r ms o :
  delete_queues fails uq (r_heads r) = (ms, o) ->
  let r' := apply_mutations r ms in
  only_queues_removed r r' /\ enqueued ms = [] /\
  (o = JobSuccess -> uq = true /\ forall h, In h (r_heads r') -> ~ is_queue_name (fst h)) /\
  (o <> JobSuccess -> ms = []).
Proof.
  intro H. cbv zeta.
  destruct (c20_delete_queues_cases _ _ _ _ _ H) as [(-> & -> & Hq)|[(-> & Uq & ->)|(-> & Ho)]].
  - split; [apply c20_only_queues_refl|]. split; [reflexivity|]. split; [|intro N; contradiction].
    intros _. destruct uq.
    + split; [reflexivity|]. intros h Hh Q. cbn in Hh.
      assert (In (fst h) (qnames (r_heads r))) as Hin by (apply c20_qnames_in; split; [apply in_map; exact Hh | exact Q]).
      rewrite (Hq eq_refl) in Hin. destruct Hin.
    + exfalso. unfold delete_queues in H. cbn in H. discriminate H.
  - destruct (c20_apply_pushalldel r) as [O N].
    split; [exact O|]. split; [reflexivity|]. split; [|intro E; contradiction]. intros _. split; assumption.
  - split; [apply c20_only_queues_refl|]. split; [reflexivity|]. split; [|reflexivity].
    intro E. destruct Ho as [[E' _]|[c E']]; rewrite E in E'; discriminate E'.
Qed.

(* ---- queue order of queued_prs ---- *)

Lemma c20_memN_in p l : memN p l = true <-> In p l.
Proof.
  unfold memN. rewrite existsb_exists. split.
  - intros [x [Hx E]]. apply N.eqb_eq in E. subst. exact Hx.
  - intro H. exists p. split; [exact H | apply N.eqb_refl].
Qed.

Lemma c20_nodupN_spec l : nodupN l = true -> NoDup l.
Proof.
  induction l as [|x t IH]; intro H; [constructor|]. cbn in H. apply andb_true_iff in H as [H1 H2].
  constructor; [|exact (IH H2)]. intro Hin. apply c20_memN_in in Hin. rewrite Hin in H1. discriminate H1.
Qed.

Lemma c20_subseq_cons x l : forall b, subseq (x :: l) b = true ->
  exists b1 b2, b = b1 ++ x :: b2 /\ subseq l b2 = true.
Proof.
  induction b as [|y b IH]; intro H; [discriminate H|]. cbn [subseq] in H.
  destruct (N.eqb_spec x y) as [->|Ne].
  - exists [], b. split; [reflexivity | exact H].
  - destruct (IH H) as (b1 & b2 & -> & S). exists (y :: b1), b2. split; [reflexivity | exact S].
Qed.

Lemma c20_subseq_app l1 l2 : forall b, subseq (l1 ++ l2) b = true ->
  exists b1 b2, b = b1 ++ b2 /\ subseq l2 b2 = true.
Proof.
  induction l1 as [|x l1 IH]; intros b H; [exists [], b; split; [reflexivity | exact H]|].
  cbn [app] in H. destruct (c20_subseq_cons _ _ _ H) as (c1 & c2 & -> & S).
  destruct (IH _ S) as (d1 & d2 & -> & S2). exists (c1 ++ x :: d1), d2.
  split; [rewrite <- app_assoc; reflexivity | exact S2].
Qed.

Lemma c20_subseq_before a b x y : subseq a b = true -> before_in x y a -> before_in x y b.
Proof.
  intros S (l1 & l2 & l3 & ->).
  destruct (c20_subseq_app _ _ _ S) as (b1 & b2 & -> & S1).
  destruct (c20_subseq_cons _ _ _ S1) as (c1 & c2 & -> & S2).
  destruct (c20_subseq_app _ _ _ S2) as (d1 & d2 & -> & S3).
  destruct (c20_subseq_cons _ _ _ S3) as (e1 & e2 & -> & _).
  exists (b1 ++ c1), (d1 ++ e1), e2. rewrite <- !app_assoc. reflexivity.
Qed.

Lemma c20_before_rev {A} (x y : A) l : before_in x y l -> before_in y x (rev l).
Proof.
  intros (l1 & l2 & l3 & ->). exists (rev l3), (rev l2), (rev l1).
  rewrite rev_app_distr. cbn [rev]. rewrite rev_app_distr. cbn [rev].
  rewrite <- !app_assoc. cbn [app]. reflexivity.
Qed.

Lemma c20_fold_hf_none (l : list qentry) acc :
  (forall e, In e l -> (qlen e =? 4)%nat = false) ->
  fold_left (fun acc0 e0 => if (qlen e0 =? 4)%nat
                            then fold_left (fun a0 p0 => if memN p0 a0 then a0 else p0 :: a0) (q_prs e0) acc0
                            else acc0) l acc = acc.
Proof.
  revert acc. induction l as [|e l IH]; intros acc H; [reflexivity|]. cbn [fold_left].
  rewrite (H e (or_introl eq_refl)). apply IH. intros e' He'. apply H. right. exact He'.
Qed.

Lemma c20_filter_all {A} (l : list A) : filter (fun _ => true) l = l.
Proof. induction l as [|x t IH]; [reflexivity | cbn; f_equal; exact IH]. Qed.

(* without hotfix queues: the pull requests of the last version, oldest first, is the queue order *)
Theorem c20_queue_order_proof qs :
  queues_coherent qs = true -> (forall e, In e qs -> ~ hotfix_queue e) ->
  queue_order qs (queued_prs qs).
Proof.
  intros Co Nh.
  assert (N4 : forall e, In e (rev qs) -> (qlen e =? 4)%nat = false).
  { intros e He. apply in_rev in He. apply Nat.eqb_neq. exact (Nh e He). }
  unfold queued_prs. rewrite (c20_fold_hf_none _ _ N4). cbn [app memN existsb negb].
  rewrite c20_filter_all.
  unfold queues_coherent in Co. apply andb_true_iff in Co as [Nd Co].
  destruct (find (fun e => (qlen e <? 4)%nat) (rev qs)) as [lastq|] eqn:F.
  - apply andb_true_iff in Co as [Sub _]. rewrite forallb_forall in Sub, Nd.
    apply find_some in F as [Hl _]. apply in_rev in Hl.
    assert (SubE : forall e, In e qs -> subseq (q_prs e) (q_prs lastq) = true).
    { intros e He. specialize (Sub e He). rewrite (proj2 (Nat.eqb_neq _ _) (Nh e He)) in Sub. exact Sub. }
    split; [|split].
    + apply NoDup_rev. apply c20_nodupN_spec. exact (Nd lastq Hl).
    + intro p. rewrite <- in_rev. split.
      * intro Hp. exists lastq. split; assumption.
      * intros (e & He & Hp). exact (c20_subseq_in _ _ (SubE e He) p Hp).
    + intros e p1 p2 He B. apply c20_before_rev. exact (c20_subseq_before _ _ _ _ (SubE e He) B).
  - assert (E : qs = []).
    { destruct qs as [|e t]; [reflexivity|]. exfalso.
      assert (Hin : In e (rev (e :: t))) by (apply in_rev; rewrite rev_involutive; left; reflexivity).
      pose proof (find_none _ _ F e Hin) as Hn. cbn beta in Hn. apply Nat.ltb_ge in Hn.
      specialize (Nh e (or_introl eq_refl)). unfold hotfix_queue in Nh.
      destruct (c20_qlen_cases e) as [Q|[Q|Q]]; lia. }
    subst qs. split; [constructor|]. split; [|intros e p1 p2 []].
    intro p. split; [intros [] | intros (e & [] & _)].
Qed.

(* with hotfix queues: exactly the queued pull requests are re-submitted *)
Theorem c20_queued_members_proof qs : queues_coherent qs = true ->
  forall p, In p (queued_prs qs) -> exists e, In e qs /\ In p (q_prs e).
Proof.
  intros _ p Hp. unfold queued_prs in Hp. apply in_app_or in Hp as [Hp|Hp].
  - assert (G : forall l acc, In p (fold_left (fun acc0 e0 =>
                   if (qlen e0 =? 4)%nat
                   then fold_left (fun a0 p0 => if memN p0 a0 then a0 else p0 :: a0) (q_prs e0) acc0
                   else acc0) l acc) -> In p acc \/ exists e0, In e0 l /\ In p (q_prs e0)).
    { induction l as [|e0 l IHl]; intros acc Hm; [left; exact Hm|]. cbn [fold_left] in Hm.
      destruct (IHl _ Hm) as [Hacc|(e1 & H1 & H3)]; [|right; exists e1; split; [right; exact H1 | exact H3]].
      destruct (qlen e0 =? 4)%nat; [|left; exact Hacc].
      assert (G2 : forall ps a0, In p (fold_left (fun a1 p0 => if memN p0 a1 then a1 else p0 :: a1) ps a0) ->
                    In p a0 \/ In p ps).
      { induction ps as [|q ps IHp]; intros a0 Hm2; [left; exact Hm2|]. cbn [fold_left] in Hm2.
        destruct (IHp _ Hm2) as [Ha|Hi]; [|right; right; exact Hi].
        destruct (memN q a0); [left; exact Ha|]. destruct Ha as [->|Ha]; [right; left; reflexivity | left; exact Ha]. }
      destruct (G2 _ _ Hacc) as [Ha|Hi]; [left; exact Ha | right; exists e0; split; [left; reflexivity | exact Hi]]. }
    destruct (G _ _ Hp) as [[]|(e0 & H0 & P0)]. exists e0. split; [apply in_rev; exact H0 | exact P0].
  - apply filter_In in Hp as [Hp _].
    destruct (find _ (rev qs)) as [lastq|] eqn:F; [|destruct Hp].
    apply find_some in F as [Hl _]. exists lastq. split; [apply in_rev; exact Hl | apply in_rev; exact Hp].
Qed.

(* ================================================================== the vocabulary of C01 *)

Lemma c20_lookup_combine (l : list cid) : forall s i,
  lookup (combine (seq s (List.length l)) l) i = if (i <? s)%nat then None else nth_error l (i - s).
Proof.
  induction l as [|x t IH]; intros s i; cbn [List.length seq combine lookup].
  - destruct (i <? s)%nat; [reflexivity|]. destruct (i - s)%nat; reflexivity.
  - destruct (Nat.eqb_spec s i) as [->|Ne].
    + rewrite Nat.ltb_irrefl, Nat.sub_diag. reflexivity.
    + rewrite IH. destruct (Nat.ltb_spec i s) as [L|G].
      * destruct (Nat.ltb_spec i (S s)); [reflexivity | lia].
      * destruct (Nat.ltb_spec i (S s)) as [L2|G2]; [lia|].
        replace (i - s)%nat with (S (i - S s)) by lia. reflexivity.
Qed.

Lemma c20_clone_lookup r i : lookup (refs (clone_of r)) i = option_map snd (nth_error (r_heads r) i).
Proof.
  unfold clone_of. cbn [refs]. rewrite <- (map_length snd (r_heads r)), c20_lookup_combine.
  cbn. rewrite Nat.sub_0_r. apply nth_error_map.
Qed.

(* forward-port inclusion by name is forward-port inclusion in the sense of C01 (Proofs/FlowProofs.v) *)
Theorem c20_incl_clone_proof r : incl_names r <-> Incl (later_ids r) (clone_of r).
Proof.
  split.
  - intros I a b x y (h1 & h2 & d1 & d2 & N1 & N2 & P1 & P2 & L) La Lb.
    rewrite c20_clone_lookup in La, Lb. rewrite N1 in La. rewrite N2 in Lb. cbn in La, Lb.
    injection La as <-. injection Lb as <-. destruct h1 as [n1 c1], h2 as [n2 c2].
    exact (I n1 c1 d1 n2 c2 d2 (nth_error_In _ _ N1) (nth_error_In _ _ N2) P1 P2 L).
  - intros I n1 c1 d1 n2 c2 d2 H1 H2 P1 P2 L.
    apply In_nth_error in H1 as [i N1]. apply In_nth_error in H2 as [j N2].
    apply (I i j c1 c2).
    + exists (n1, c1), (n2, c2), d1, d2. auto.
    + rewrite c20_clone_lookup, N1. reflexivity.
    + rewrite c20_clone_lookup, N2. reflexivity.
Qed.

(* ================================================================== data of the code the model rests on *)

Theorem c20_facts_pinned_proof :
  archive_hotfix_suffix = ".archived_hotfix_branch" /\ hotfix_start_suffix = ".0" /\
  stab_prefix_format = "stabilization/%s" /\ queue_name_format = "q/%s" /\
  supporting_dev_format = "development/%s.%s" /\ create_archive_hotfix_suffix = archive_hotfix_suffix /\
  queue_destination_formats = ["hotfix/%d.%d.%d"; "stabilization/%s"; "development/%s"] /\
  delete_stab_numeric = true /\
  queue_scan_prefixes = ["q/"; "q/"] /\
  raise_sites =
    [("create_branch", ["NothingToDo"; "JobFailure"; "JobFailure"; "JobFailure"; "JobFailure"; "JobFailure";
                        "JobFailure"; "JobFailure"; "JobFailure"; "JobSuccess"]);
     ("delete_branch", ["JobFailure"; "JobFailure"; "JobFailure"; "NothingToDo"; "JobFailure"; "JobFailure";
                        "JobFailure"; "JobFailure"; "JobSuccess"]);
     ("delete_queues", ["NotMyJob"; "JobSuccess"; "JobSuccess"]);
     ("rebuild_queues", ["NotMyJob"; "JobSuccess"; "JobSuccess"]);
     ("force_merge_queues", ["NotMyJob"])] /\
  outcome_kinds = [("NothingToDo", "silent"); ("JobFailure", "silent"); ("JobSuccess", "silent");
                   ("NotMyJob", "silent")].
Proof. repeat split; reflexivity. Qed.

(* the ordinal the model gives to an outcome is a raise statement of that exception class *)
Definition site_class (handler : string) (i : nat) : option string :=
  match assoc handler raise_sites with Some l => nth_error l i | None => None end.

Theorem c20_sites_agree_proof : forall o,
  (forall i, site_create o = Some i -> site_class "create_branch" i = Some (outcome_class o)) /\
  (forall i, site_delete o = Some i -> site_class "delete_branch" i = Some (outcome_class o)).
Proof.
  intro o. split; intros i H; destruct o as [|why| | |c]; try destruct why; cbn in H; try discriminate H;
    injection H as <-; reflexivity.
Qed.

(* ================================================================== non-vacuity *)

(* development/4.3 <- development/5.1 <- development/10.0 with a stabilization/5.1.4 and the release tag 5.1.3;
   pull request 7 queued on 5.1 and 10.0 *)
Definition c20_ex_repo : repo :=
  mkRepo [mkCommit [] false; mkCommit [0%nat] false; mkCommit [1%nat] false; mkCommit [2%nat] false;
          mkCommit [3%nat] false; mkCommit [3%nat] true; mkCommit [5%nat; 4%nat] true]
         [("development/10.0", 4%nat); ("development/4.3", 1%nat); ("development/5.1", 3%nat);
          ("q/10.0", 6%nat); ("q/5.1", 5%nat); ("q/w/7/10.0/bugfix/x", 6%nat); ("q/w/7/5.1/bugfix/x", 5%nat);
          ("stabilization/5.1.4", 2%nat)]
         [("5.1.3", 1%nat)].
Definition c20_ex_queues : list qentry :=
  [mkQ 5 (Some 1%N) None None true [7%N]; mkQ 10 (Some 0%N) None None true [7%N]].

Example c20_ex_create_newest :
  create_branch no_fault true c20_ex_repo c20_ex_queues "development/11.0" BNone =
  ([MPushNew "development/11.0" 4%nat;
    MPushAllDel ["q/10.0"; "q/5.1"; "q/w/7/10.0/bugfix/x"; "q/w/7/5.1/bugfix/x"]; MEnqueue 7%N], JobSuccess).
Proof. vm_compute. reflexivity. Qed.

Example c20_ex_create_between_refused :
  create_branch no_fault true c20_ex_repo c20_ex_queues "development/6.0" BNone = ([], JobFailure RQueuedData) /\
  create_branch no_fault false c20_ex_repo [] "development/6.0" BNone = ([MPushNew "development/6.0" 3%nat], JobSuccess) /\
  create_branch no_fault false c20_ex_repo [] "development/6.0" (BCommit (Some 4%nat)) =
    ([MPushNew "development/6.0" 4%nat], JobSuccess) /\
  create_branch no_fault false c20_ex_repo [] "development/6.0" (BCommit (Some 1%nat)) =
    ([], JobFailure (RNotConform DevBranchesNotSelfContained)) /\
  create_branch no_fault false c20_ex_repo [] "stabilization/4.3.0" BNone =
    ([MPushNew "stabilization/4.3.0" 1%nat], JobSuccess) /\
  create_branch no_fault false c20_ex_repo [] "stabilization/5.1.5" BNone =
    ([], JobFailure (RNotConform UnsupportedMultipleStabBranches)).
Proof. vm_compute. repeat split; reflexivity. Qed.

Example c20_ex_delete :
  delete_branch no_fault true c20_ex_repo c20_ex_queues "development/4.3" =
    ([MPushTag "4.3" 1%nat; MDelete "development/4.3"], JobSuccess) /\
  delete_branch no_fault true c20_ex_repo c20_ex_queues "development/5.1" = ([], JobFailure RStabilization) /\
  delete_branch no_fault true c20_ex_repo c20_ex_queues "development/10.0" = ([], JobFailure RQueuedData) /\
  delete_branch no_fault true c20_ex_repo c20_ex_queues "stabilization/5.1.4" =
    ([MPushTag "5.1.4" 2%nat; MDelete "stabilization/5.1.4"], JobSuccess).
Proof. vm_compute. repeat split; reflexivity. Qed.

Example c20_ex_view_ok : view_ok true c20_ex_repo c20_ex_queues /\ queues_cover_heads (r_heads c20_ex_repo) c20_ex_queues = true.
Proof.
  split; [|vm_compute; reflexivity]. split.
  - intros i c H p Hp. do 7 (destruct i as [|i]; [cbn in H; injection H as <-; cbn in Hp; intuition lia|]).
    destruct i; discriminate H.
  - split; [vm_compute; reflexivity|]. split; [vm_compute; reflexivity | discriminate].
Qed.

(* delete-branch resumed: the archive tag is already on the tip (an earlier run pushed it and was refused the
   deletion); a tag of that name on another commit still refuses *)
Example c20_ex_delete_resumes :
  let r1 := mkRepo (r_st c20_ex_repo) (r_heads c20_ex_repo) [("5.1.3", 1%nat); ("4.3", 1%nat)] in
  let r2 := mkRepo (r_st c20_ex_repo) (r_heads c20_ex_repo) [("5.1.3", 1%nat); ("4.3", 0%nat)] in
  delete_branch no_fault true r1 c20_ex_queues "development/4.3" = ([MDelete "development/4.3"], JobSuccess) /\
  delete_branch no_fault true r2 c20_ex_queues "development/4.3" = ([], JobFailure RArchiveTag) /\
  delete_branch (fun i => Nat.eqb i 1) true c20_ex_repo c20_ex_queues "development/4.3" =
    ([MPushTag "4.3" 1%nat], JobFailure RRemoveFailed).
Proof. vm_compute. repeat split; reflexivity. Qed.

Example c20_ex_canonical :
  canonical_version "4.3" = true /\ canonical_version "04.3" = false /\ canonical_version "10.0.0" = true /\
  canonical_version "4.3.017" = false.
Proof. vm_compute. repeat split; reflexivity. Qed.

Example c20_ex_rebuild_hotfix_first :
  rebuild_queues no_fault 0 true
    [("development/4.3", 1%nat); ("hotfix/4.3.17", 0%nat); ("q/4.3.17.1", 1%nat); ("q/w/1/4.3.17.1/bugfix/x", 1%nat)]
    [mkQ 4 (Some 3%N) (Some 17%N) (Some 1%N) true [1%N]] =
  ([MPushAllDel ["q/4.3.17.1"; "q/w/1/4.3.17.1/bugfix/x"]; MEnqueue 1%N], JobSuccess).
Proof. vm_compute. reflexivity. Qed.
