Require Extraction.
Require Import ExtrOcamlBasic.
Require Import BertE.Base.Anchors BertE.Base.Str BertE.Base.C07Str BertE.Generated.Facts_C07
               BertE.Model.Reactor BertE.Spec.C07Spec.
Extraction "../build/ocaml/C07/model.ml" anchor_types registry handle_comments options_result
  option_names command_names is_option option_keywords command_call
  request addressed names priv_witness auth_witness must_block expected_block
  privileged_keyword author_only_keyword.
