Require Extraction.
Require Import ExtrOcamlBasic.
Require Import BertE.Base.Anchors BertE.Base.Str BertE.Model.Names BertE.Spec.C18Spec.
Extraction "../build/ocaml/C18/model.ml" anchor_types classify match_class all_classes factory class_name
  class_has_group is_cascade_producer is_cascade_consumer can_be_destination print_w print_q print_qw
  get_parent_branch spec_classify pattern_written_against print_N dec_value.
