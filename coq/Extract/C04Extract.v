Require Extraction.
Require Import ExtrOcamlBasic.
Require Import BertE.Base.Anchors BertE.Model.Approvals BertE.Spec.C04Spec.
Extraction "../build/ocaml/C04/model.ml" anchor_types check_approvals spec_passb mkInputs.
