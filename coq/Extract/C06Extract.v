Require Extraction.
Require Import ExtrOcamlBasic.
Require Import BertE.Base.Anchors BertE.Model.BuildGate BertE.Spec.C06Spec.
Extraction "../build/ocaml/C06/model.ml" anchor_types check_build_status parse_status spec bypass_of.
