Require Extraction.
Require Import ExtrOcamlBasic.
Require Import BertE.Base.Anchors BertE.Model.QueueSel BertE.Spec.C05Spec.
Extraction "../build/ocaml/C05/model.ml" anchor_types add_versions evaluate failed_prs queued_prs
  extract_pr_ids get_merge_paths spec_prs spec_moves wf_b.
