Require Extraction.
Require Import ExtrOcamlBasic.
Require Import BertE.Base.Anchors BertE.Model.Git BertE.Model.Reset BertE.Spec.C15Spec.
Extraction "../build/ocaml/C15/model.ml" anchor_types anc code_variant reset classify log_set walk_of existing
  lossy_any spec manual_on holds_manual_b wname remove_allowed.
