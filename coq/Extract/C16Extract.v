Require Extraction.
Require Import ExtrOcamlBasic.
Require Import BertE.Base.Anchors BertE.Generated.Facts_C16 BertE.Model.Mask BertE.Model.Cmd BertE.Spec.C16Spec.
Extraction "../build/ocaml/C16/model.ml" anchor_types replace_all mask_pwd quote_plus job_emissions github_flow
  leaking robot_mask url_secret code_links repaired_links links_leaky token_flow_prints_headers.
