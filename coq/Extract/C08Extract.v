Require Extraction.
Require Import ExtrOcamlBasic.
Require Import BertE.Base.Anchors BertE.Model.Pipeline BertE.Model.Git BertE.Model.Flow BertE.Model.Gate BertE.Model.Owned.
Extraction "../build/ocaml/C08/model.ml" anchor_types git_merge anc push_all_atomic push_names
  merge_integration_ops merge_queues_ops merge_integration merge_queues add_to_queue add_to_queue_ops incl_b
  update_ops check_in_sync is_needed remove_guard run_handler.
