Require Extraction.
Require Import ExtrOcamlBasic.
Require Import BertE.Base.Anchors BertE.Model.Pipeline.
Extraction "../build/ocaml/Pipeline/model.ml" anchor_types run_handler.
