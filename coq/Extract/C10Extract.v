Require Extraction.
Require Import ExtrOcamlBasic.
Require Import BertE.Base.Anchors BertE.Generated.Facts_C10 BertE.Model.Notify BertE.Spec.C10Spec.
Extraction "../build/ocaml/C10/model.ml" anchor_types
  find_comment send_comment notify eval_step pending run_trace world0 step
  class_policy always_post reply_certain replies_always_posted bad_command bad_witness
  rest_classes unguarded_repeatable oracle_okb oracles_okb nodupb
  registry0 job_settings after_jobs init_settings_copies
  message_classes commands options
  twice_in_a_row repeats some_post_repeats executed_once_b quiet_b.
