Require Extraction.
Require Import ExtrOcamlBasic.
Require Import BertE.Base.Anchors BertE.Base.Str BertE.Model.Http BertE.Generated.Facts_C14 BertE.Spec.C14Spec.
Extraction "../build/ocaml/C14/model.ml" anchor_types
  handle_api handle_api_follow handle_form handle_bitbucket handle_github handle_authorize
  validate re_branch re_branch_from py_int print_Z dec_value route
  api_table form_table webhook_table other_routes
  api_monitor form_monitor bb_monitor gh_monitor oauth_spec branch_wf branch_from_wf valid_params.
