Require Extraction.
Require Import ExtrOcamlBasic.
Require Import BertE.Base.Anchors BertE.Model.Integration BertE.Spec.C19Spec.
Extraction "../build/ocaml/C19/model.ml" anchor_types step run evaluated_pr user_decline host_merged integration_gate
  one_to_one_b distinct_src_b well_formed_b no_user_w_b spec_after_decline.
