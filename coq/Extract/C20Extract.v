Require Extraction.
Require Import ExtrOcamlBasic.
Require Import BertE.Base.Anchors BertE.Base.Str BertE.Model.Names BertE.Model.Git BertE.Model.AdminJobs.
Extraction "../build/ocaml/C20/model.ml" anchor_types create_branch delete_branch rebuild_queues delete_queues
  force_merge_guard queued_prs has_version_queued_prs site_create site_delete outcome_class
  queues_cover_heads queues_coherent queues_below_last tips_bounded apply_mutations parse_dest print_N
  dev_branches dests validate build_error ptags.
