Require Extraction.
Require Import ExtrOcamlBasic.
Require Import BertE.Base.Anchors BertE.Model.Reactor BertE.Model.Holds BertE.Spec.C12Spec.
Extraction "../build/ocaml/C12/model.ml" anchor_types evaluate check_dependencies early_checks notified
  precedes_creating stop_call spec_verdict held held_in finished closed foreign foreign_stated
  step run quiet_while_queued clean_logb c12_h c12_w0 c12_witness_wait c12_witness_after.
