Require Extraction.
Require Import ExtrOcamlBasic.
Require Import BertE.Base.Anchors BertE.Model.Cascade BertE.Spec.C09Spec.
Extraction "../build/ocaml/C09/model.ml" anchor_types build build_parsed build_nodst parse_tag name_of
  print_version get_merge_paths validate compare_branches compare_queues dev_lt branch_eq
  spec release_tags observe.
