Require Extraction.
Require Import ExtrOcamlBasic.
Require Import BertE.Base.Anchors BertE.Model.Dispatcher BertE.Spec.C13Spec.
Extraction "../build/ocaml/C13/model.ml" anchor_types history final status_of escapes
  no_loss_b dedup_b worker_b served_b same_target job_eqb.
