Require Extraction.
Require Import ExtrOcamlBasic.
Require Import BertE.Base.Anchors BertE.Generated.Facts_C17 BertE.Model.CI BertE.Model.Lru BertE.Spec.C17Spec.
Extraction "../build/ocaml/C17/model.ml" anchor_types
  CI.state remove_unwanted norm_run status_state mkRun
  considered spec_green spec_green_ready spec_allows
  lru_get lru_set lru_default_size
  code_cfg mkCfg step run_seq eval_op cache_of lru_keys
  mkObs spec_trace_ok event_of poll_of host_report.
