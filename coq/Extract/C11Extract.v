Require Extraction.
Require Import ExtrOcamlBasic.
Require Import BertE.Base.Anchors BertE.Base.Str BertE.Model.Names BertE.Model.Jira BertE.Spec.C11Spec.
Extraction "../build/ocaml/C11/model.ml" anchor_types classify class_of_name ticketless
  jira_checks_flags jira_checks mkSettings mkIssue lookup spec
  vfilter_match hf_filter_match unsuffixedb hotfix_versionb versions_fitb fix_versions_wrong.
