(* Model of bert_e/workflow/gitwaterflow/branches.py: compare_branches / compare_queues (32-62), the
   ordering/equality of Development/Stabilization/Hotfix branches (131-227) and BranchCascade (804-1129).
   Hand-written executable mirror of the code; data (class flags, attribute defaults, the tag-regex
   literal) comes from Generated/Facts_C09.v, re-emitted from /repo on every run.  No proofs in this file.

   ------------------------------------------------------------------------------------------------
   INTERFACE (used by C09; meant to be reused by C11 (target_versions), C05/C20 (merge paths, ordering))

   types      branch            Dev maj (option min) | Stab maj min mic | Hotfix maj min mic   (parsed names)
              key               (major, option minor): the key of BranchCascade._cascade
              ptag              (major, minor, micro, option hfrev): a tag accepted by update_versions
              version           list Z; print_version renders it as '%d.%d.%d[.%d]'
              cerror            one constructor per exception class that can escape
              result A          Ok a | Err e
              cascade           list (key * slot), the OrderedDict in iteration order
              outcome           o_dst (dst_branches) / o_ignored (sorted names) / o_versions
                                (target_versions) / o_paths (get_merge_paths) / o_cascade (what is left in
                                _cascade after finalize; input of validate)
   names      name_of b         'development/4.0', 'development/4', 'stabilization/4.0.1', 'hotfix/4.0.1'
   ordering   compare_branches, compare_queues, dev_lt (DevelopmentBranch.__lt__), branch_eq (__eq__)
   tags       parse_tag s       the regex of update_versions as a deterministic ASCII scanner
   steps      add_branch b dst c / update_versions t c / update_major_versions c / get_merge_paths c /
              finalize c dst (fin_step = one pass of its loop body, fin_loop = the loop, slot_versions /
              set_target_versions = _set_target_versions) / validate includes c
                                                             (one function per method, same order of effects)
   entry      build order tags dst          = BranchCascade.build with a destination (tags are strings)
              build_parsed order ptags dst  = the same on already scanned tags (None = tag ignored)
              build_nodst order tags        = BranchCascade.build(repo) without destination, returns the
                                              cascade (get_merge_paths of it is what QueueCollection gets)
   The list [order] is the order in which build iterates its Python set of branch names.
   ------------------------------------------------------------------------------------------------ *)
From Coq Require Import List String Ascii Bool ZArith NArith DecimalString.
Require Import BertE.Generated.Facts_C09.
Import ListNotations.
Open Scope string_scope.
Open Scope list_scope.
Open Scope Z_scope.

(* ---------------------------------------------------------------------------------- basic types *)

Inductive branch :=
| Dev (maj : Z) (min : option Z)      (* development/x.y, development/x (min = None) *)
| Stab (maj min mic : Z)              (* stabilization/x.y.z *)
| Hotfix (maj min mic : Z).           (* hotfix/x.y.z *)

Inductive bclass := CDev | CStab | CHotfix.

Definition class_of (b : branch) : bclass :=
  match b with Dev _ _ => CDev | Stab _ _ _ => CStab | Hotfix _ _ _ => CHotfix end.

Definition bclass_eqb (a b : bclass) : bool :=
  match a, b with CDev, CDev | CStab, CStab | CHotfix, CHotfix => true | _, _ => false end.

Definition key := (Z * option Z)%type.

Definition major_of (b : branch) : Z :=
  match b with Dev x _ | Stab x _ _ | Hotfix x _ _ => x end.
Definition minor_of (b : branch) : option Z :=
  match b with Dev _ y => y | Stab _ y _ | Hotfix _ y _ => Some y end.
Definition key_of (b : branch) : key := (major_of b, minor_of b).

Definition optZ_eqb (a b : option Z) : bool :=
  match a, b with None, None => true | Some x, Some y => x =? y | _, _ => false end.
Definition key_eqb (a b : key) : bool := (fst a =? fst b) && optZ_eqb (snd a) (snd b).

(* the exception classes that can escape BranchCascade (bert_e/exceptions.py) plus the builtin ones the
   code can raise on inputs the model does not exclude by typing *)
Inductive cerror :=
| UnsupportedMultipleStabBranches | DeprecatedStabilizationBranch | DevBranchDoesNotExist
| NotASingleDevBranch | VersionMismatch | DevBranchesNotSelfContained
| AttributeError        (* None.major in _update_major_versions *)
| TypeError             (* '%d' % None *)
| KeyError.             (* self._cascade[(major, minor)] on a missing key *)

Inductive result (A : Type) := Ok (a : A) | Err (e : cerror).
Arguments Ok {A} a.
Arguments Err {A} e.

Definition bind {A B} (r : result A) (f : A -> result B) : result B :=
  match r with Ok a => f a | Err e => Err e end.

(* ---------------------------------------------------------------------------------- names *)

(* '%d' % n *)
Definition dec (z : Z) : string := NilZero.string_of_int (Z.to_int z).

Definition version := list Z.

Fixpoint print_version (v : version) : string :=
  match v with
  | [] => ""
  | [a] => dec a
  | a :: t => (dec a ++ "." ++ print_version t)%string
  end.

Definition name_of (b : branch) : string :=
  match b with
  | Dev x None => ("development/" ++ dec x)%string
  | Dev x (Some y) => ("development/" ++ dec x ++ "." ++ dec y)%string
  | Stab x y z => ("stabilization/" ++ dec x ++ "." ++ dec y ++ "." ++ dec z)%string
  | Hotfix x y z => ("hotfix/" ++ dec x ++ "." ++ dec y ++ "." ++ dec z)%string
  end.

(* list.sort() on str: code point order, a proper prefix first *)
Fixpoint insert_name (s : string) (l : list string) : list string :=
  match l with
  | [] => [s]
  | h :: t => if String.leb s h then s :: l else h :: insert_name s t
  end.
Definition sort_names (l : list string) : list string := fold_right insert_name [] l.

(* ---------------------------------------------------------------------------------- ordering *)

(* compare_branches(branch1, branch2) on the keys branchN[0][:2]; the sign is what cmp_to_key uses *)
Definition compare_branches (a b : key) : Z :=
  let '(major1, minor1) := a in
  let '(major2, minor2) := b in
  if major1 =? major2 then
    match minor1, minor2 with
    | None, None => 0
    | Some m1, Some m2 => m1 - m2          (* 0 exactly when minor1 == minor2 *)
    | None, Some _ => 1
    | Some _, None => -1
    end
  else major1 - major2.

(* compare_queues(version1, version2): version_t tuples are represented by their first two components
   and their length (2 development, 3 stabilization, 4 hotfix) *)
Definition compare_queues (a b : key * nat) : Z :=
  let '(k1, len1) := a in
  let '(k2, len2) := b in
  if key_eqb k1 k2 then
    if Nat.eqb len1 3 && Nat.eqb len2 2 then -1
    else if Nat.eqb len2 3 && Nat.eqb len1 2 then 1
    else compare_branches k1 k2
  else compare_branches k1 k2.

(* DevelopmentBranch.__lt__ on two branches of class DevelopmentBranch (keys) *)
Definition dev_lt (a b : key) : bool :=
  let '(major1, minor1) := a in
  let '(major2, minor2) := b in
  if negb (major1 =? major2) then major1 <? major2
  else match minor1, minor2 with
       | None, _ => false
       | Some _, None => true
       | Some m1, Some m2 => m1 <? m2
       end.

(* __eq__ of the three classes: self.__class__ == other.__class__ and the version components.  The
   mutable attributes are not part of a [branch]; HotfixBranch.__eq__ also compares hfrev, which is why
   the code never uses == on hotfix branches inside the cascade (it compares names) and neither does
   the model: branch_eq is only applied with a Dev / Stab on one side. *)
Definition branch_eq (a b : branch) : bool :=
  match a, b with
  | Dev x1 y1, Dev x2 y2 => (x1 =? x2) && optZ_eqb y1 y2
  | Stab x1 y1 z1, Stab x2 y2 z2 => (x1 =? x2) && (y1 =? y2) && (z1 =? z2)
  | _, _ => false
  end.

(* ---------------------------------------------------------------------------------- tags *)

Definition ptag := (Z * Z * Z * option Z)%type.

Definition is_digit (a : ascii) : bool :=
  let n := N_of_ascii a in (48 <=? n)%N && (n <=? 57)%N.
Definition digit_val (a : ascii) : Z := Z.of_N (N_of_ascii a) - 48.

(* \d+ is greedy and nothing after it in the pattern can match a digit: no backtracking *)
Fixpoint digits (s : string) (acc : Z) : Z * string :=
  match s with
  | String a t => if is_digit a then digits t (acc * 10 + digit_val a) else (acc, s)
  | EmptyString => (acc, s)
  end.
Definition number (s : string) : option (Z * string) :=
  match s with
  | String a _ => if is_digit a then Some (digits s 0) else None
  | EmptyString => None
  end.
Definition dot (s : string) : option string :=
  match s with String "."%char t => Some t | _ => None end.
(* '$' without re.MULTILINE: at the end, or before a final newline *)
Definition at_end (s : string) : bool :=
  match s with
  | EmptyString => true
  | String "010"%char EmptyString => true
  | _ => false
  end.

Definition obind {A B} (o : option A) (f : A -> option B) : option B :=
  match o with Some a => f a | None => None end.

(* re.match(r"^v?(\d+)\.(\d+)\.(\d+)(\.(\d+)|)$", tag) followed by int() of the groups *)
Definition parse_tag (s : string) : option ptag :=
  let s0 := match s with String "v"%char t => t | _ => s end in
  obind (number s0) (fun '(major, r1) =>
  obind (dot r1) (fun r1' =>
  obind (number r1') (fun '(minor, r2) =>
  obind (dot r2) (fun r2' =>
  obind (number r2') (fun '(micro, r3) =>
    if at_end r3 then Some (major, minor, micro, None)
    else obind (dot r3) (fun r3' =>
         obind (number r3') (fun '(hfrev, r4) =>
           if at_end r4 then Some (major, minor, micro, Some hfrev) else None))))))).

(* ---------------------------------------------------------------------------------- the cascade *)

(* the attributes update_versions / finalize mutate on a DevelopmentBranch object *)
Record devattrs := mkDA { da_micro : Z; da_latest_minor : Z; da_has_stab : bool;
                          da_stab_micro : option Z }.     (* stabilization_micro: None or an int *)
Definition dev_default : devattrs :=
  mkDA default_micro default_latest_minor default_has_stabilization default_stabilization_micro.

(* {DevelopmentBranch: ..., StabilizationBranch: ..., HotfixBranch: ...}; a hotfix carries its hfrev *)
Record slot := mkSlot {
  s_dev : option (branch * devattrs);
  s_stab : option branch;
  s_hf : option (branch * Z) }.
Definition empty_slot : slot := mkSlot None None None.

Definition cascade := list (key * slot).

(* micro of a stabilization / hotfix object (set from its name); a development branch has the class
   default until update_versions assigns it (kept in devattrs) *)
Definition micro_of (b : branch) : Z :=
  match b with Stab _ _ z | Hotfix _ _ z => z | Dev _ _ => default_micro end.

Fixpoint lookup (k : key) (c : cascade) : option slot :=
  match c with
  | [] => None
  | (k', s) :: t => if key_eqb k k' then Some s else lookup k t
  end.

(* self._cascade[k] = f(self._cascade[k]) (in-place mutation of the dict / object stored under k) *)
Definition set_slot (k : key) (f : slot -> slot) (c : cascade) : cascade :=
  map (fun e => if key_eqb k (fst e) then (fst e, f (snd e)) else e) c.

(* OrderedDict(sorted(items + [new], key=cmp_to_key(compare_branches))): the items are already sorted,
   sorted() is stable, so the new item lands before the first item that compares greater *)
Fixpoint insert_sorted (k : key) (s : slot) (c : cascade) : cascade :=
  match c with
  | [] => [(k, s)]
  | (k', s') :: t =>
      if compare_branches k k' <? 0 then (k, s) :: c else (k', s') :: insert_sorted k s t
  end.

Definition can_be_destination (c : bclass) : bool :=
  match c with
  | CDev => can_be_destination_development
  | CStab => can_be_destination_stabilization
  | CHotfix => can_be_destination_hotfix
  end.

(* the hotfix filter of add_branch: only the destination's own hotfix branch enters the cascade *)
Definition hotfix_discarded (b : branch) (dst : option branch) : bool :=
  match b with
  | Hotfix x y z =>
      match dst with
      | Some (Hotfix dx dy dz) => negb (x =? dx) || negb (y =? dy) || negb (z =? dz)
      | _ => true
      end
  | _ => false
  end.

Definition occupied (c : bclass) (s : slot) : bool :=
  match c with
  | CDev => match s_dev s with Some _ => true | None => false end
  | CStab => match s_stab s with Some _ => true | None => false end
  | CHotfix => match s_hf s with Some _ => true | None => false end
  end.

Definition put (b : branch) (s : slot) : slot :=
  match class_of b with
  | CDev => mkSlot (Some (b, dev_default)) (s_stab s) (s_hf s)
  | CStab => mkSlot (s_dev s) (Some b) (s_hf s)
  | CHotfix => mkSlot (s_dev s) (s_stab s) (Some (b, default_hfrev))
  end.

Definition add_branch (b : branch) (dst : option branch) (c : cascade) : result cascade :=
  if negb (can_be_destination (class_of b)) then Ok c
  else if hotfix_discarded b dst then Ok c
  else
    let k := key_of b in
    let c1 := match lookup k c with Some _ => c | None => insert_sorted k empty_slot c end in
    match lookup k c1 with
    | None => Err KeyError
    | Some s =>
        if occupied (class_of b) s then Err UnsupportedMultipleStabBranches
        else Ok (set_slot k (put b) c1)
    end.

Fixpoint add_all (bs : list branch) (dst : option branch) (c : cascade) : result cascade :=
  match bs with
  | [] => Ok c
  | b :: t => bind (add_branch b dst c) (add_all t dst)
  end.

(* update_versions(tag) after the regex matched *)
Definition set_hfrev (rev : Z) (s : slot) : slot :=
  match s_hf s with
  | Some (hb, _) => mkSlot (s_dev s) (s_stab s) (Some (hb, rev))
  | None => s
  end.
Definition upd_dev (f : devattrs -> devattrs) (s : slot) : slot :=
  match s_dev s with
  | Some (db, a) => mkSlot (Some (db, f a)) (s_stab s) (s_hf s)
  | None => s
  end.

Definition update_versions (t : ptag) (c : cascade) : result cascade :=
  let '(major, minor, micro, h) := t in
  let hfrev := match h with Some n => n | None => tag_default_hfrev end in
  let branches := lookup (major, Some minor) c in
  let major_branches := lookup (major, None) c in
  match branches, major_branches with
  | None, None => Ok c
  | _, _ =>
    let hf := obind branches s_hf in
    let stb := obind branches s_stab in
    let dev := obind branches s_dev in
    let major_branch := obind major_branches s_dev in
    (* if hf_branch: *)
    let c1 := match hf with
              | Some (hb, rev) =>
                  if micro_of hb =? micro
                  then set_slot (major, Some minor) (set_hfrev (Z.max (hfrev + 1) rev)) c
                  else c
              | None => c
              end in
    if match hf, stb with
       | Some (hb, _), Some sb => micro_of sb =? micro_of hb
       | _, _ => false
       end
    then Err DeprecatedStabilizationBranch
    else if match stb with Some sb => micro_of sb <=? micro | None => false end
    then Err DeprecatedStabilizationBranch
    else
      let c2 := match dev with
                | Some _ => set_slot (major, Some minor)
                              (upd_dev (fun a => mkDA (Z.max micro (da_micro a)) (da_latest_minor a)
                                                      (da_has_stab a) (da_stab_micro a))) c1
                | None => c1
                end in
      let c3 := match major_branch with
                | Some _ => set_slot (major, None)
                              (upd_dev (fun a => mkDA (da_micro a) (Z.max minor (da_latest_minor a))
                                                      (da_has_stab a) (da_stab_micro a))) c2
                | None => c2
                end in
      Ok c3
  end.

(* for tag in tags: self.update_versions(tag)   (None = the regex did not match: tag ignored) *)
Fixpoint update_all (ts : list (option ptag)) (c : cascade) : result cascade :=
  match ts with
  | [] => Ok c
  | None :: r => update_all r c
  | Some t :: r => bind (update_versions t c) (update_all r)
  end.

(* _update_major_versions *)
Definition max_list (d : Z) (l : list Z) : Z := fold_right Z.max d l.

Definition update_major_versions (c : cascade) : result cascade :=
  let keys := map fst c in
  let step (e : key * slot) : result (key * slot) :=
    let '(k, s) := e in
    match snd k with
    | Some _ => Ok e
    | None =>
        match s_dev s with
        | None => Err AttributeError
        | Some (db, a) =>
            let minors := flat_map (fun k' => if fst k' =? major_of db
                                              then match snd k' with Some m => [m] | None => [] end
                                              else []) keys in
            Ok (k, mkSlot (Some (db, mkDA (da_micro a) (max_list (da_latest_minor a) minors)
                                          (da_has_stab a) (da_stab_micro a))) (s_stab s) (s_hf s))
        end
    end in
  fold_right (fun e acc => bind (step e) (fun e' => bind acc (fun l => Ok (e' :: l)))) (Ok []) c.

(* get_merge_paths (first call; later calls return the cached list of the same branch objects) *)
Fixpoint merge_paths_loop (l : cascade) (ret : list (list branch)) : list (list branch) :=
  match l with
  | [] => ret
  | (_, s) :: t =>
      match s_dev s with
      | Some (db, _) =>
          let ret1 := match s_hf s with Some (hb, _) => ret ++ [[hb]] | None => ret end in
          let ret2 := match s_stab s with Some sb => ret1 ++ [[sb]] | None => ret1 end in
          merge_paths_loop t (map (fun p => p ++ [db]) ret2)
      | None => merge_paths_loop t ret
      end
  end.
Definition get_merge_paths (c : cascade) : list (list branch) := merge_paths_loop c [[]].

(* ---------------------------------------------------------------------------------- finalize *)

Record outcome := mkOutcome {
  o_dst : list branch;             (* dst_branches, in order *)
  o_ignored : list string;         (* ignored_branches, sorted names *)
  o_versions : list version;       (* target_versions *)
  o_paths : list (list branch);    (* get_merge_paths() *)
  o_cascade : cascade }.           (* what finalize leaves in self._cascade *)

(* what one pass of the for loop of finalize adds *)
Record fin_acc := mkFin {
  f_ignored : list string;         (* ignored_branches in append order *)
  f_dst : list branch;
  f_rem : cascade }.               (* the slots not deleted, as mutated *)

Definition fin_cons (ig : list string) (ds : list branch) (rm : cascade) (r : result (fin_acc * bool))
  : result (fin_acc * bool) :=
  bind r (fun '(a, last) => Ok (mkFin (ig ++ f_ignored a) (ds ++ f_dst a) (rm ++ f_rem a), last)).

Definition missing_dev_error (k : key) : cerror :=
  (* raise DevBranchDoesNotExist('development/%d.%d' % (major, minor)) *)
  match snd k with Some _ => DevBranchDoesNotExist | None => TypeError end.

(* what one pass of the loop body does: names appended to ignored_branches, branches appended to
   dst_branches, the slot as left in self._cascade (nothing when deleted), and the new values of
   ignore_stb_branches / include_dev_branches / "dev_branch is truthy" *)
Record fin_step_out := mkStep {
  st_ignored : list string; st_dst : list branch; st_rem : cascade;
  st_ign : bool; st_inc : bool; st_last : bool }.

(* the body of the for loop of finalize for the item (k, s) *)
Definition fin_step (dst : branch) (dst_hf : bool) (ign inc : bool) (k : key) (s : slot)
  : result fin_step_out :=
  let dev := s_dev s in
  let stb := s_stab s in
  let hf := s_hf s in
  match dev, hf with
  | None, None => Err (missing_dev_error k)
  | _, _ =>
    (* if stb_branch:
           if dev_branch is None: raise DevBranchDoesNotExist('development/%d.%d' % (major, minor))
           dev_branch.has_stabilization = True; dev_branch.stabilization_micro = stb_branch.micro *)
    match (match stb, dev with
           | Some _, None => Err (missing_dev_error k)
           | Some sb, Some (db, a) =>
               Ok (Some (db, mkDA (da_micro a) (da_latest_minor a) true (Some (micro_of sb))))
           | None, _ => Ok dev
           end) with
    | Err e => Err e
    | Ok dev1 =>
      let last1 := match dev1 with Some _ => true | None => false end in
      (* if dst_branch == dev_branch *)
      let m1 := match dev1 with Some (db, _) => branch_eq dst db | None => false end in
      let inc1 := inc || m1 in
      let ign1 := ign || m1 in
      (* if stb_branch and (ignore_stb_branches or dst_hf) *)
      let drop_stab := match stb with Some _ => ign1 || dst_hf | None => false end in
      let stab1 := if drop_stab then None else stb in
      let ig1 := match stb with Some sb => if drop_stab then [name_of sb] else [] | None => [] end in
      (* if dst_branch == stb_branch   (the local variable, removed or not) *)
      let m2 := match stb with Some sb => branch_eq dst sb | None => false end in
      let inc2 := inc1 || m2 in
      let ign2 := ign1 || m2 in
      if negb inc2 || dst_hf then
        let ig2 := match dev1 with Some (db, _) => [name_of db] | None => [] end in
        let ig3 := match stab1 with Some sb => [name_of sb] | None => [] end in
        if negb dst_hf then
          (* del self._cascade[(major, minor)]; continue *)
          Ok (mkStep (ig1 ++ ig2 ++ ig3) [] [] ign2 inc2 last1)
        else
          match hf with
          | Some (hb, rev) =>
              if negb (String.eqb (name_of hb) (name_of dst)) then
                (* hotfix removed, slot deleted, nothing appended to dst_branches *)
                Ok (mkStep (ig1 ++ ig2 ++ ig3 ++ [name_of hb]) [] [] ign2 inc2 last1)
              else
                Ok (mkStep (ig1 ++ ig2 ++ ig3) [hb] [(k, mkSlot None None hf)] ign2 inc2 last1)
          | None => Ok (mkStep (ig1 ++ ig2 ++ ig3) [] [] ign2 inc2 last1)
          end
      else
        (* not dst_hf: add to dst_branches in the correct order *)
        let ds := (match stab1 with Some sb => [sb] | None => [] end)
                  ++ (match dev1 with Some (db, _) => [db] | None => [] end) in
        Ok (mkStep ig1 ds [(k, mkSlot dev1 stab1 hf)] ign2 inc2 last1)
    end
  end.

(* the loop of finalize over list(self._cascade.items()); [ign]/[inc] are ignore_stb_branches /
   include_dev_branches, [last] says whether the variable dev_branch is truthy when the loop ends *)
Fixpoint fin_loop (dst : branch) (dst_hf : bool) (ign inc last : bool) (l : cascade)
  : result (fin_acc * bool) :=
  match l with
  | [] => Ok (mkFin [] [] [], last)
  | (k, s) :: t =>
      match fin_step dst dst_hf ign inc k s with
      | Err e => Err e
      | Ok o => fin_cons (st_ignored o) (st_dst o) (st_rem o)
                         (fin_loop dst dst_hf (st_ign o) (st_inc o) (st_last o) t)
      end
  end.

(* _set_target_versions over what is left of the cascade *)
Definition slot_versions (dst_hf : bool) (k : key) (s : slot) : result (list version) :=
  let '(major, minor) := k in
  let v1 := match s_hf s with
            | Some (hb, rev) =>
                if dst_hf then
                  match minor_of hb with
                  | Some hmin => Ok [[major_of hb; hmin; micro_of hb; rev]]
                  | None => Err TypeError
                  end
                else Ok []
            | None => Ok []
            end in
  let v2 := match s_stab s with
            | Some sb =>
                match minor with
                | Some mi => Ok [[major; mi; micro_of sb]]
                | None => Err TypeError
                end
            | None =>
                match s_dev s with
                | Some (db, a) =>
                    match minor_of db with
                    | Some _ =>             (* dev_branch.has_minor is True *)
                        (* micro = dev.micro + 1
                           if dev.has_stabilization and dev.stabilization_micro == micro: micro += 1 *)
                        let micro := da_micro a + 1 in
                        let held := match da_stab_micro a with
                                    | Some m => m =? micro
                                    | None => false          (* None == int *)
                                    end in
                        let micro' := if da_has_stab a && held then micro + 1 else micro in
                        match minor with
                        | Some mi => Ok [[major; mi; micro']]
                        | None => Err TypeError
                        end
                    | None => Ok [[major; da_latest_minor a + 1; da_micro a + 1]]
                    end
                | None => Ok []
                end
            end in
  bind v1 (fun l1 => bind v2 (fun l2 => Ok (l1 ++ l2))).

Fixpoint set_target_versions (dst_hf : bool) (c : cascade) : result (list version) :=
  match c with
  | [] => Ok []
  | (k, s) :: t =>
      bind (slot_versions dst_hf k s) (fun l => bind (set_target_versions dst_hf t) (fun r => Ok (l ++ r)))
  end.

Definition finalize (c : cascade) (dst : branch) : result outcome :=
  let paths := get_merge_paths c in              (* populated before removing data *)
  let dst_hf := String.prefix "hotfix/" (name_of dst) in
  bind (fin_loop dst dst_hf false false false c) (fun '(a, last) =>
    if negb last && negb dst_hf then Err NotASingleDevBranch
    else bind (set_target_versions dst_hf (f_rem a)) (fun vs =>
      Ok (mkOutcome (f_dst a) (sort_names (f_ignored a)) vs paths (f_rem a)))).

(* ---------------------------------------------------------------------------------- build *)

Definition build_parsed (order : list branch) (ptags : list (option ptag)) (dst : branch)
  : result outcome :=
  bind (add_all order (Some dst) []) (fun c0 =>
  bind (update_all ptags c0) (fun c1 =>
  bind (update_major_versions c1) (fun c2 =>
  finalize c2 dst))).

Definition build (order : list branch) (tags : list string) (dst : branch) : result outcome :=
  build_parsed order (map parse_tag tags) dst.

Definition build_nodst (order : list branch) (tags : list string) : result cascade :=
  bind (add_all order None []) (fun c0 =>
  bind (update_all (map parse_tag tags) c0) (fun c1 =>
  update_major_versions c1)).

(* ---------------------------------------------------------------------------------- validate *)

(* BranchCascade.validate(); [includes a b] stands for a.includes_commit(b) on the commit graph *)
Fixpoint validate_loop (includes : branch -> branch -> bool) (l : cascade) (prev : option branch)
  : option cerror :=
  match l with
  | [] => None
  | (k, s) :: t =>
      match s_dev s, s_stab s, s_hf s with
      | None, None, Some _ => validate_loop includes t prev       (* skip cascade validation for hf *)
      | None, _, _ => Some (missing_dev_error k)
      | Some (db, a), stb, _ =>
          let e1 := match stb with
                    | Some sb =>
                        if negb (da_micro a + 1 =? micro_of sb) then Some VersionMismatch
                        else if negb (includes db sb) then Some DevBranchesNotSelfContained
                        else None
                    | None => None
                    end in
          match e1 with
          | Some e => Some e
          | None =>
              match prev with
              | Some p => if negb (includes db p) then Some DevBranchesNotSelfContained
                          else validate_loop includes t (Some db)
              | None => validate_loop includes t (Some db)
              end
          end
      end
  end.
Definition validate (includes : branch -> branch -> bool) (c : cascade) : option cerror :=
  validate_loop includes c None.
