(* The branch-moving fragments of Bert-E's handlers as programs over a local clone (commit DAG + refs):
   merge_integration_branches (integration.py), add_to_queue / merge_queues (queueing.py), with the
   octopus / consecutive merge strategies of git_utils.py.  A failed `git merge` (conflict) is an input:
   [conflicts] tells which merges fail; a failure aborts the fragment (nothing is pushed).
   Each program also returns the list of merge operations it issued (dst, sources) so that the harness can
   compare it with the operations recorded on the real system.  No proofs here. *)
From Coq Require Import List Bool Arith.
Require Import BertE.Model.Git.
Import ListNotations.

Definition name := nat.
Record clone := mkClone { st : store; refs : refmap }.

(* one `git merge` as issued by lib/git.py Branch.merge: checkout dst, merge the named sources *)
Record mergeop := mkOp { op_dst : name; op_srcs : list name }.

Fixpoint lookups (r : refmap) (ns : list name) : option (list cid) :=
  match ns with
  | [] => Some []
  | n :: t => match lookup r n, lookups r t with Some c, Some cs => Some (c :: cs) | _, _ => None end
  end.

(* None = the merge could not be done (unknown branch) *)
Definition merge_into (c : clone) (dst : name) (srcs : list name) : option clone :=
  match lookup (refs c) dst, lookups (refs c) srcs with
  | Some h, Some ss =>
      let r := apply_merge (st c) h ss in
      Some (mkClone (fst r) (update (refs c) dst (snd r)))
  | _, _ => None
  end.

(* merge strategies; which one runs depends on options and on conflicts, never on the graph *)
Inductive strategy := Octopus | OctopusRev | Consecutive | ConsecutiveRev.

Definition strategy_ops (sg : strategy) (dst a b : name) : list mergeop :=
  match sg with
  | Octopus => [mkOp dst [a; b]]
  | OctopusRev => [mkOp dst [b; a]]
  | Consecutive => [mkOp dst [a]; mkOp dst [b]]
  | ConsecutiveRev => [mkOp dst [b]; mkOp dst [a]]
  end.

Fixpoint run_ops (c : clone) (ops : list mergeop) : option clone :=
  match ops with
  | [] => Some c
  | o :: t => match merge_into c (op_dst o) (op_srcs o) with Some c' => run_ops c' t | None => None end
  end.

(* merge_integration_branches: targets t0..tn with integration branches w0..wn (w0 = the source branch):
   t0 <- merge w0; t_i <- merge (t_{i-1}, w_i) *)
Fixpoint chain_ops (sg : list strategy) (prev : name) (pairs : list (name * name)) : list mergeop :=
  match pairs with
  | [] => []
  | (t, w) :: rest =>
      let s := match sg with x :: _ => x | [] => Octopus end in
      strategy_ops s t prev w ++ chain_ops (tl sg) t rest
  end.

Definition merge_integration_ops (sg : list strategy) (pairs : list (name * name)) : list mergeop :=
  match pairs with
  | [] => []
  | (t0, w0) :: rest => mkOp t0 [w0] :: chain_ops sg t0 rest
  end.

Definition merge_integration (sg : list strategy) (c : clone) (pairs : list (name * name)) : option clone :=
  run_ops c (merge_integration_ops sg pairs).

(* merge_queues: every selected version is merged with its newest selected queue-integration branch *)
Definition merge_queues_ops (sel : list (name * name)) : list mergeop :=
  map (fun p => mkOp (fst p) [snd p]) sel.
Definition merge_queues (c : clone) (sel : list (name * name)) : option clone :=
  run_ops c (merge_queues_ops sel).

(* add_to_queue: q0 <- merge w0 ; qint0 := q0 ; q_i <- merge (w_i, qint_{i-1}) ; qint_i := q_i.
   triples (q_i, w_i, qint_i); creating qint_i at q_i is a ref copy *)
Definition copy_ref (c : clone) (from to : name) : option clone :=
  match lookup (refs c) from with
  | Some x => Some (mkClone (st c) (update (refs c) to x))
  | None => None
  end.

Fixpoint add_to_queue_rest (sg : list strategy) (c : clone) (prev_qint : name) (rest : list (name * name * name))
  : option clone :=
  match rest with
  | [] => Some c
  | (q, w, qint) :: more =>
      let s := match sg with x :: _ => x | [] => Octopus end in
      match run_ops c (strategy_ops s q w prev_qint) with
      | Some c1 => match copy_ref c1 q qint with
                   | Some c2 => add_to_queue_rest (tl sg) c2 qint more
                   | None => None
                   end
      | None => None
      end
  end.

Definition add_to_queue (sg : list strategy) (c : clone) (triples : list (name * name * name)) : option clone :=
  match triples with
  | [] => Some c
  | (q0, w0, qint0) :: rest =>
      match merge_into c q0 [w0] with
      | Some c1 => match copy_ref c1 q0 qint0 with
                   | Some c2 => add_to_queue_rest sg c2 qint0 rest
                   | None => None
                   end
      | None => None
      end
  end.

(* the forward-port inclusion invariant over a list of (earlier, later) name pairs *)
Definition incl_b (c : clone) (pairs : list (name * name)) : bool :=
  forallb (fun p => match lookup (refs c) (fst p), lookup (refs c) (snd p) with
                    | Some a, Some b => anc (st c) a b
                    | _, _ => true
                    end) pairs.

(* the merges add_to_queue issues, for comparison with the recorded operations:
   q0 <- [w0]; q_i <- strategy (w_i, qint_{i-1}) *)
Fixpoint add_to_queue_ops_rest (sg : list strategy) (prev_qint : name) (rest : list (name * name * name))
  : list mergeop :=
  match rest with
  | [] => []
  | (q, w, qint) :: more =>
      let s := match sg with x :: _ => x | [] => Octopus end in
      strategy_ops s q w prev_qint ++ add_to_queue_ops_rest (tl sg) qint more
  end.

Definition add_to_queue_ops (sg : list strategy) (triples : list (name * name * name)) : list mergeop :=
  match triples with
  | [] => []
  | (q0, w0, qint0) :: rest => mkOp q0 [w0] :: add_to_queue_ops_rest sg qint0 rest
  end.
