(* Model/Http.v - the HTTP entry points of bert_e/server (property C14).

   Hand-written executable mirror of
     bert_e/server/auth.py         requires_auth, requires_basic_auth, check_basic_auth, _handle_authorize
     bert_e/server/api/base.py     BaseView.as_blueprint (through the generated tables), APIEndpoint.view,
                                   APIForm.view / _build_data
     bert_e/server/api/gwf/branches.py, pull_requests.py   the three validate_endpoint_data
     bert_e/server/webhook.py      parse_bitbucket_webhook, parse_github_webhook and their handlers
   and of the two library layers a request crosses before it reaches them:
     werkzeug 2.2 routing          converters <path:> <int:> <string:>, merge_slashes redirect (308),
                                   404 / 405, automatic OPTIONS
     wtforms / flask-wtf           StringField / IntegerField processing, DataRequired, Regexp,
                                   NumberRange (CSRF validation itself is an input bit: trusted)

   The route tables (rule, methods, decorators found in the closure chain, admin flag, job class,
   validator, form fields) are DATA: Generated/Facts_C14.v instantiates the record types below from
   the live Flask app on every run; every function here takes the tables as arguments.
   No proofs in this file. *)
From Coq Require Import List String Ascii Bool ZArith NArith.
Require Import BertE.Base.Str.
Import ListNotations.
Open Scope string_scope.

(* ------------------------------------------------------------------ values carried by requests and jobs *)

(* a JSON / URL value: a string, an integer, or anything else (kept as its canonical JSON text) *)
Inductive pval := PStr (s : string) | PInt (z : Z) | PRaw (json : string).
Definition params := list (string * pval).

Definition pval_eqb (a b : pval) : bool :=
  match a, b with
  | PStr x, PStr y => (x =? y)%string
  | PInt x, PInt y => (x =? y)%Z
  | PRaw x, PRaw y => (x =? y)%string
  | _, _ => false
  end.

Fixpoint lookup (k : string) (p : params) : option pval :=
  match p with
  | [] => None
  | (k', v) :: t => if (k' =? k)%string then Some v else lookup k t
  end.

Definition has_key (k : string) (p : params) : bool :=
  match lookup k p with Some _ => true | None => false end.

(* flask session: session.get('user'), session.get('admin') (absent / False / True) *)
Record session := mk_session { s_user : option string; s_admin : option bool }.

(* request.get_json(): Flask answers 400 by itself (no JSON content type, empty or unparsable body);
   a JSON object (falsy values become {} through "or {}"); any other truthy JSON value *)
Inductive body := BodyBad | BodyDict (d : params) | BodyNonDict (raw : string).

(* Job.settings.maps[0]: the JSON body updated with the URL kwargs *)
Inductive jsettings := SDict (p : params) | SNonDict (raw : string).
Record job := mk_job { j_kind : string; j_settings : jsettings; j_user : string }.

Record outcome := mk_out { o_status : Z; o_job : option job }.
Definition refuse (st : Z) : outcome := mk_out st None.

Record config := mk_config {
  c_login : string; c_pwd : string;                   (* app.config WEBHOOK_LOGIN / WEBHOOK_PWD *)
  c_owner : string; c_slug : string; c_full_name : string;   (* bert_e.project_repo *)
  c_host : string;                                    (* settings.repository_host *)
  c_known_jobs : list string }.                       (* ids get_job_as_json finds *)

(* ------------------------------------------------------------------ the two regular expressions
   BRANCH_REGEXP      ^development/(\d+)\.(\d+)\Z|^stabilization/(\d+)\.(\d+)\.(\d+)\Z|^hotfix/(\d+)\.(\d+)\.(\d+)\Z
   BRANCH_FROM_REGEXP ^[a-fA-F0-9]*\Z|^development/(\d+)\.(\d+)\Z
   used with re.match: left-to-right scanners; "\Z" matches at the very end of the string only.
   (\d+ is greedy and what follows it - "." or the end - is never a digit: no backtracking.) *)

Definition branch_regexp_modelled : string :=
  "^development/(\d+)\.(\d+)\Z|^stabilization/(\d+)\.(\d+)\.(\d+)\Z|^hotfix/(\d+)\.(\d+)\.(\d+)\Z".
Definition branch_from_regexp_modelled : string := "^[a-fA-F0-9]*\Z|^development/(\d+)\.(\d+)\Z".

Definition is_hex (c : ascii) : bool := is_digit c || in_range 97 102 c || in_range 65 70 c.

Definition scan_num (s : string) : option string :=
  let (d, r) := span is_digit s in if is_empty d then None else Some r.

Definition expect_char (c : ascii) (s : string) : option string :=
  match s with
  | String d t => if (d =? c)%char then Some t else None
  | EmptyString => None
  end.

(* "\Z" *)
Definition at_end (s : string) : bool := is_empty s.

(* (\d+)(\.(\d+)){n-1} *)
Fixpoint scan_dotted (n : nat) (s : string) : option string :=
  match n with
  | O => None
  | S k =>
      match scan_num s with
      | None => None
      | Some r =>
          match k with
          | O => Some r
          | S _ => match expect_char "." r with
                   | None => None
                   | Some r' => scan_dotted k r'
                   end
          end
      end
  end.

Definition re_alt (prefix : string) (n : nat) (s : string) : bool :=
  match strip_prefix prefix s with
  | None => false
  | Some r => match scan_dotted n r with
              | None => false
              | Some r' => at_end r'
              end
  end.

Definition re_branch (s : string) : bool :=
  re_alt "development/" 2 s || re_alt "stabilization/" 3 s || re_alt "hotfix/" 3 s.

Definition re_hex (s : string) : bool := let (_, r) := span is_hex s in at_end r.

Definition re_branch_from (s : string) : bool := re_hex s || re_alt "development/" 2 s.

(* ------------------------------------------------------------------ Python helpers *)

(* str.isspace on ASCII: \t \n \v \f \r, \x1c-\x1f, space *)
Definition is_space (c : ascii) : bool := in_range 9 13 c || in_range 28 32 c.

Fixpoint lstrip (s : string) : string :=
  match s with
  | String c t => if is_space c then lstrip t else s
  | EmptyString => EmptyString
  end.

Fixpoint rstrip (s : string) : string :=
  match s with
  | EmptyString => EmptyString
  | String c t => let t' := rstrip t in
                  if is_empty t' && is_space c then EmptyString else String c t'
  end.

Definition strip (s : string) : string := rstrip (lstrip s).

(* what int() strips: C isspace *)
Definition is_cspace (c : ascii) : bool := in_range 9 13 c || (c =? " ")%char.

Fixpoint lstrip_c (s : string) : string :=
  match s with
  | String c t => if is_cspace c then lstrip_c t else s
  | EmptyString => EmptyString
  end.

Fixpoint rstrip_c (s : string) : string :=
  match s with
  | EmptyString => EmptyString
  | String c t => let t' := rstrip_c t in
                  if is_empty t' && is_cspace c then EmptyString else String c t'
  end.

(* digits with single underscores between digits (PEP 515), as int() accepts them *)
Fixpoint digits_us (prev_digit : bool) (s : string) (acc : N) : option N :=
  match s with
  | EmptyString => if prev_digit then Some acc else None
  | String c t =>
      if is_digit c then digits_us true t (10 * acc + digit_val c)%N
      else if (c =? "_")%char && prev_digit then
        match t with
        | String d _ => if is_digit d then digits_us false t acc else None
        | EmptyString => None
        end
      else None
  end.

(* int(s) for a str (base 10): None is ValueError *)
Definition py_int (s : string) : option Z :=
  match rstrip_c (lstrip_c s) with
  | String c t =>
      if (c =? "-")%char then option_map (fun n => Z.opp (Z.of_N n)) (digits_us false t 0)
      else if (c =? "+")%char then option_map Z.of_N (digits_us false t 0)
      else option_map Z.of_N (digits_us false (String c t) 0)
  | EmptyString => None
  end.

Definition print_Z (z : Z) : string :=
  match z with
  | Zneg p => String "-" (print_N (Npos p))
  | _ => print_N (Z.to_N z)
  end.

Fixpoint lower (s : string) : string :=
  match s with
  | EmptyString => EmptyString
  | String c t => String (if is_upper c then ascii_of_N (code c + 32) else c) (lower t)
  end.

(* s.endswith(suf) *)
Fixpoint ends_with (suf s : string) : bool :=
  (s =? suf)%string || match s with String _ t => ends_with suf t | EmptyString => false end.

(* s.split('/')[-1] *)
Definition last_segment (s : string) : string := last (split_char "/" s) EmptyString.

(* ------------------------------------------------------------------ werkzeug routing *)

Inductive conv := CPath | CInt | CString.

(* does the converter's regular expression accept the (already percent-decoded) URL part?
   path "[^/].*?" ("." does not match LF), int "\d+", string "[^/]+" *)
Definition conv_ok (c : conv) (s : string) : bool :=
  match c with
  | CPath => match s with
             | EmptyString => false
             | String h t => negb (h =? "/")%char && negb (has_char LF t)
             end
  | CInt => is_num s
  | CString => negb (is_empty s) && negb (has_char "/" s)
  end.

(* re.sub("/{2,}?", "/", path): every pair of slashes becomes one, scanning left to right *)
Fixpoint merge2 (s : string) : string :=
  match s with
  | EmptyString => EmptyString
  | String a t1 =>
      match t1 with
      | EmptyString => s
      | String b t => if (a =? "/")%char && (b =? "/")%char then String "/" (merge2 t)
                      else String a (merge2 t1)
      end
  end.

Definition tail_str (s : string) : string := match s with String _ t => t | EmptyString => EmptyString end.

Inductive routed := RMatch (v : string) | RRedirect (v : string) | RNone.

(* the part of the path after the static prefix of the rule (which ends with "/"): matched as it is,
   or - when that fails - after merging slashes, in which case werkzeug redirects (308) *)
Definition route (c : conv) (s : string) : routed :=
  if conv_ok c s then RMatch s
  else let m := tail_str (merge2 (String "/" s)) in
       if conv_ok c m then RRedirect m else RNone.

(* ------------------------------------------------------------------ generated tables: record types *)

Inductive auth_wrap := WNone | WSession (admin : bool) | WBasic.
Inductive view_kind := VJob (job_cls : string) | VRead (name : string).
Inductive validator := ValNone | ValCreateBranch | ValDeleteBranch | ValEvalPullRequest.

Record api_entry := mk_api {
  ae_name : string;                     (* view class name *)
  ae_rule : string;                     (* full rule string, "/api/gwf/branches/<path:branch>" *)
  ae_method : string;                   (* cls.method *)
  ae_methods : list string;             (* rule.methods as registered (with HEAD / OPTIONS) *)
  ae_auto_options : bool;               (* rule.provide_automatic_options *)
  ae_conv : option (string * conv);     (* the URL argument, if any *)
  ae_cls_admin : bool;                  (* cls.admin *)
  ae_wrap : auth_wrap;                  (* what the closure chain of the registered view really holds *)
  ae_view : view_kind;                  (* APIEndpoint.view with cls.job, or the class's own read-only view *)
  ae_validator : validator }.

Inductive field_type := FString | FInteger.
Inductive fvalidator := FVRequired | FVBranch | FVBranchFrom | FVMin (m : Z).
Record form_field := mk_field { ff_name : string; ff_type : field_type; ff_validators : list fvalidator }.

Record form_entry := mk_form {
  fe_name : string;
  fe_rule : string;
  fe_methods : list string;
  fe_auto_options : bool;
  fe_cls_admin : bool;
  fe_wrap : auth_wrap;
  fe_endpoint : string;                 (* endpoint_cls.__name__ *)
  fe_form_cls : string;
  fe_fields : list form_field }.

Record hook_entry := mk_hook {
  he_rule : string;
  he_func : string;                     (* parse_bitbucket_webhook / parse_github_webhook *)
  he_methods : list string;
  he_auto_options : bool;
  he_wrap : auth_wrap }.

Record other_entry := mk_other {
  oe_rule : string;
  oe_endpoint : string;
  oe_methods : list string;
  oe_wrap : auth_wrap;
  oe_mentions_put_job : bool }.         (* "put_job" among the names of the view's code objects *)

(* ------------------------------------------------------------------ auth.requires_auth *)

Definition truthy_admin (s : session) : bool :=
  match s_admin s with Some true => true | _ => false end.

Definition requires_auth (admin : bool) (s : session) (k : option string -> outcome) : outcome :=
  match s_user s with
  | None => refuse 401
  | Some u =>
      if is_empty u then refuse 401
      else if admin && negb (truthy_admin s) then refuse 403
      else k (Some u)
  end.

(* an API / form / page request carries no Authorization header: a view wrapped by
   requires_basic_auth answers 401 *)
Definition with_wrap (w : auth_wrap) (s : session) (k : option string -> outcome) : outcome :=
  match w with
  | WSession a => requires_auth a s k
  | WNone => k (s_user s)
  | WBasic => refuse 401
  end.

(* ------------------------------------------------------------------ validate_endpoint_data *)

Inductive vresult := VOk | VInvalid | VCrash.   (* passes / ValueError -> 400 / other exception -> 500 *)

Definition validate (v : validator) (kw : params) (b : body) : vresult :=
  match v with
  | ValNone => VOk
  | ValCreateBranch =>
      match lookup "branch" kw with
      | Some (PStr br) =>
          if negb (re_branch br) then VInvalid
          else match b with
               | BodyDict d =>
                   match lookup "branch_from" d with
                   | None => VOk
                   | Some (PStr f) => if re_branch_from f then VOk else VInvalid
                   | Some _ => VCrash               (* re.match on a non-string: TypeError *)
                   end
               | _ => VOk                           (* a non-dict body fails later in any case *)
               end
      | _ => VCrash
      end
  | ValDeleteBranch =>
      match lookup "branch" kw with
      | Some (PStr br) => if re_branch br then VOk else VInvalid
      | _ => VCrash
      end
  | ValEvalPullRequest =>
      match lookup "pr_id" kw with
      | Some (PInt n) => if (n <? 1)%Z then VInvalid else VOk
      | _ => VCrash
      end
  end.

(* ------------------------------------------------------------------ APIEndpoint.view *)

Definition kwargs_of (e : api_entry) (v : string) : params :=
  match ae_conv e with
  | None => []
  | Some (name, CInt) => [(name, PInt (Z.of_N (dec_value v)))]
  | Some (name, _) => [(name, PStr v)]
  end.

(* SettingsDict(json, ...).update(kwargs): the kwargs win *)
Definition merge_settings (kw d : params) : params :=
  app kw (filter (fun kv => negb (has_key (fst kv) kw)) d).

Definition api_view (cfg : config) (e : api_entry) (v : string) (b : body) (user : option string) : outcome :=
  match ae_view e with
  | VRead name =>
      if (name =? "GetJob")%string then
        (if mem_str v (c_known_jobs cfg) then refuse 200 else refuse 404)
      else refuse 200
  | VJob cls =>
      match b with
      | BodyBad => refuse 400
      | _ =>
          match user with
          | None => refuse 500                       (* session['user']: KeyError *)
          | Some u =>
              let kw := kwargs_of e v in
              match validate (ae_validator e) kw b with
              | VInvalid => refuse 400
              | VCrash => refuse 500
              | VOk =>
                  match b with
                  | BodyDict d => mk_out 202 (Some (mk_job cls (SDict (merge_settings kw d)) u))
                  | BodyNonDict raw =>
                      match kw with
                      | [] => mk_out 500 (Some (mk_job cls (SNonDict raw) u))   (* put_job, then as_json fails *)
                      | _ => refuse 500                                          (* settings.update fails *)
                      end
                  | BodyBad => refuse 400
                  end
              end
          end
      end
  end.

Record request := mk_request {
  rq_rule : string;                     (* the rule string of the table the URL is built from *)
  rq_method : string;
  rq_param : option string;             (* the URL part filling the rule's argument *)
  rq_session : session;
  rq_body : body }.

Definition route_param (c : option (string * conv)) (p : option string) : routed :=
  match c, p with
  | None, None => RMatch EmptyString
  | Some (_, cv), Some s => route cv s
  | _, _ => RNone
  end.

Definition handle_api (tbl : list api_entry) (cfg : config) (rq : request) : outcome :=
  match filter (fun e => (ae_rule e =? rq_rule rq)%string) tbl with
  | [] => refuse 404
  | e0 :: rest =>
      match route_param (ae_conv e0) (rq_param rq) with
      | RNone => refuse 404
      | r =>
          match find (fun e => mem_str (rq_method rq) (ae_methods e)) (e0 :: rest) with
          | None => refuse 405
          | Some e =>
              match r with
              | RMatch v =>
                  if (rq_method rq =? "OPTIONS")%string && ae_auto_options e then refuse 200
                  else with_wrap (ae_wrap e) (rq_session rq) (api_view cfg e v (rq_body rq))
              | _ => refuse 308
              end
          end
      end
  end.

(* requests follows the 308 of the router once (same method, same body) *)
Definition redirected (tbl : list api_entry) (rq : request) : option request :=
  match filter (fun e => (ae_rule e =? rq_rule rq)%string) tbl with
  | e0 :: _ =>
      match route_param (ae_conv e0) (rq_param rq) with
      | RRedirect m => Some (mk_request (rq_rule rq) (rq_method rq) (Some m) (rq_session rq) (rq_body rq))
      | _ => None
      end
  | [] => None
  end.

Definition handle_api_follow (tbl : list api_entry) (cfg : config) (rq : request) : outcome :=
  let o := handle_api tbl cfg rq in
  if (o_status o =? 308)%Z then
    match redirected tbl rq with
    | Some rq' => handle_api tbl cfg rq'
    | None => o
    end
  else o.

(* ------------------------------------------------------------------ APIForm.view *)

Inductive fdata := DNone | DStr (s : string) | DInt (z : Z) | DBadInt.

Definition process_field (t : field_type) (raw : option string) : fdata :=
  match raw with
  | None => DNone
  | Some s =>
      match t with
      | FString => DStr s
      | FInteger => match py_int s with Some z => DInt z | None => DBadInt end
      end
  end.

Definition check_validator (v : fvalidator) (d : fdata) : bool :=
  match d with
  | DBadInt => false
  | DNone =>
      match v with
      | FVRequired => false
      | FVBranch => re_branch EmptyString            (* regex.match(field.data or "") *)
      | FVBranchFrom => re_branch_from EmptyString
      | FVMin _ => false
      end
  | DStr s =>
      match v with
      | FVRequired => negb (is_empty s) && negb (is_empty (strip s))
      | FVBranch => re_branch s
      | FVBranchFrom => re_branch_from s
      | FVMin _ => false
      end
  | DInt z =>
      match v with
      | FVRequired => negb (z =? 0)%Z
      | FVMin m => (m <=? z)%Z
      | _ => false
      end
  end.

Definition field_value (d : fdata) : pval :=
  match d with
  | DStr s => PStr s
  | DInt z => PInt z
  | _ => PRaw "null"
  end.

Definition raw_field (k : string) (fields : list (string * string)) : option string :=
  match find (fun kv => (fst kv =? k)%string) fields with Some kv => Some (snd kv) | None => None end.

(* form.validate() on the declared fields, then form.data (without csrf_token) *)
Fixpoint form_data (fs : list form_field) (fields : list (string * string)) : option params :=
  match fs with
  | [] => Some []
  | f :: t =>
      let d := process_field (ff_type f) (raw_field (ff_name f) fields) in
      if forallb (fun v => check_validator v d) (ff_validators f) then
        match form_data t fields with
        | Some r => Some ((ff_name f, field_value d) :: r)
        | None => None
        end
      else None
  end.

Definition url_text (v : pval) : option string :=
  match v with PStr s => Some s | PInt z => Some (print_Z z) | PRaw _ => None end.

(* url_for(endpoint, **url_data): None is werkzeug's BuildError *)
Definition build_param (ep : api_entry) (data : params) : option (option string) :=
  match ae_conv ep with
  | None => Some None
  | Some (name, _) =>
      match lookup name data with
      | Some v => match url_text v with Some s => Some (Some s) | None => None end
      | None => None
      end
  end.

Definition is_url_arg (ep : api_entry) (k : string) : bool :=
  match ae_conv ep with Some (name, _) => (name =? k)%string | None => false end.

Record form_request := mk_form_request {
  fq_rule : string;
  fq_method : string;
  fq_session : session;
  fq_csrf_ok : bool;                    (* flask-wtf accepts the csrf_token for this session (trusted) *)
  fq_fields : list (string * string) }. (* posted form data (first value of each name) *)

(* the request APIForm.view re-issues to the API with the caller's headers (hence the caller's session) *)
Definition form_nested (atbl : list api_entry) (f : form_entry) (fq : form_request) : option request :=
  if fq_csrf_ok fq then
    match form_data (fe_fields f) (fq_fields fq) with
    | None => None
    | Some data =>
        match find (fun e => (ae_name e =? fe_endpoint f)%string) atbl with
        | None => None
        | Some ep =>
            match build_param ep data with
            | None => None
            | Some p =>
                Some (mk_request (ae_rule ep) (ae_method ep) p (fq_session fq)
                        (BodyDict (filter (fun kv => negb (is_url_arg ep (fst kv))) data)))
            end
        end
    end
  else None.

(* does the form reach url_for without an exception?  (a missing endpoint or argument is a 500) *)
Definition form_crashes (atbl : list api_entry) (f : form_entry) (fq : form_request) : bool :=
  if fq_csrf_ok fq then
    match form_data (fe_fields f) (fq_fields fq) with
    | None => false
    | Some data =>
        match find (fun e => (ae_name e =? fe_endpoint f)%string) atbl with
        | None => true
        | Some ep => match build_param ep data with None => true | Some _ => false end
        end
    end
  else false.

Definition handle_form (ftbl : list form_entry) (atbl : list api_entry) (cfg : config)
                       (fq : form_request) : outcome :=
  match find (fun f => (fe_rule f =? fq_rule fq)%string) ftbl with
  | None => refuse 404
  | Some f =>
      if negb (mem_str (fq_method fq) (fe_methods f)) then refuse 405
      else if (fq_method fq =? "OPTIONS")%string && fe_auto_options f then refuse 200
      else with_wrap (fe_wrap f) (fq_session fq) (fun _ =>
             match form_nested atbl f fq with
             | Some rq => mk_out 302 (o_job (handle_api_follow atbl cfg rq))
             | None => if form_crashes atbl f fq then refuse 500 else refuse 302
             end)
  end.

(* ------------------------------------------------------------------ webhooks *)

Definition check_basic_auth (cfg : config) (creds : option (string * string)) : bool :=
  match creds with
  | Some (u, p) => (u =? c_login cfg)%string && (p =? c_pwd cfg)%string
  | None => false
  end.

Definition hook_job (kind key : string) (v : pval) : job := mk_job kind (SDict [(key, v)]) EmptyString.

(* what the handler computes: exception (500), no job (ignored), a job *)
Inductive hook_result := HCrash | HIgnored | HJob (j : job).

Record bb_request := mk_bb {
  bb_method : string;
  bb_creds : option (string * string);         (* Authorization: Basic user:password *)
  bb_event_key : option string;                (* X-Event-Key *)
  bb_repo : option (string * string);          (* repository.owner.username, repository.name; None: body is
                                                  not JSON or lacks one of them *)
  bb_commit_status : option (string * string); (* commit_status.state, .links.commit.href (with key, url) *)
  bb_pr_id : option Z }.                       (* pullrequest.id *)

Definition bb_dispatch (entity event : string) (rq : bb_request) : hook_result :=
  if (entity =? "repo")%string then
    if mem_str event ["commit_status_created"; "commit_status_updated"] then
      match bb_commit_status rq with
      | None => HCrash
      | Some (state, href) =>
          if (state =? "INPROGRESS")%string then HIgnored
          else HJob (hook_job "CommitJob" "commit" (PStr (last_segment href)))
      end
    else HIgnored
  else if (entity =? "pullrequest")%string then
    match bb_pr_id rq with
    | None => HCrash
    | Some n => HJob (hook_job "PullRequestJob" "pull_request" (PInt n))
    end
  else HIgnored.

Definition bitbucket_view (cfg : config) (rq : bb_request) : outcome :=
  match bb_event_key rq with
  | None => refuse 500
  | Some key =>
      match split_char ":" key with
      | [entity; event] =>
          match bb_repo rq with
          | None => refuse 500
          | Some (owner, slug) =>
              if negb (owner =? c_owner cfg)%string then refuse 500
              else if negb (slug =? c_slug cfg)%string then refuse 500
              else match bb_dispatch entity event rq with
                   | HCrash => refuse 500
                   | HIgnored => refuse 200
                   | HJob j => mk_out 200 (Some j)
                   end
          end
      | _ => refuse 500
      end
  end.

Definition hook_entry_for (htbl : list hook_entry) (func : string) : option hook_entry :=
  find (fun h => (he_func h =? func)%string) htbl.

Definition with_basic (cfg : config) (h : hook_entry) (method : string) (creds : option (string * string))
                      (k : outcome) : outcome :=
  if negb (mem_str method (he_methods h)) then refuse 405
  else if (method =? "OPTIONS")%string && he_auto_options h then refuse 200
  else match he_wrap h with
       | WBasic => if check_basic_auth cfg creds then k else refuse 401
       | WNone => k
       | WSession _ => refuse 401              (* a webhook call carries no session *)
       end.

Definition handle_bitbucket (htbl : list hook_entry) (cfg : config) (rq : bb_request) : outcome :=
  match hook_entry_for htbl "parse_bitbucket_webhook" with
  | None => refuse 404
  | Some h => with_basic cfg h (bb_method rq) (bb_creds rq) (bitbucket_view cfg rq)
  end.

Inductive gh_issue := IssueMissing | IssuePlain | IssuePR (remote : option Z).   (* remote: what the host
                                                   answers for issue.pull_request.url (None: HTTPError) *)
Inductive gh_state := StMissing | StNull | StStr (s : string).
Inductive gh_ci := CiInProgress | CiDone | CiError.      (* AggregatedWorkflowRuns.get(...).state *)

Record gh_request := mk_gh {
  gh_method : string;
  gh_creds : option (string * string);
  gh_event : option string;                    (* X-Github-Event *)
  gh_json_ok : bool;                           (* the body is a JSON object *)
  gh_full_name : option string;                (* repository.full_name *)
  gh_action : option string;
  gh_pr : option Z;                            (* pull_request.number *)
  gh_issue_f : gh_issue;
  gh_sha : option string;                      (* status event: sha (and context) present *)
  gh_status_state : gh_state;
  gh_check : option (string * gh_ci) }.        (* check_suite.head_sha with repository owner/name, remote state *)

Definition gh_dispatch (event : option string) (rq : gh_request) : hook_result :=
  match event with
  | None => HIgnored
  | Some ev =>
      if (ev =? "pull_request")%string then
        match gh_pr rq, gh_action rq with
        | Some n, Some a =>
            if (a =? "closed")%string then HIgnored
            else HJob (hook_job "PullRequestJob" "pull_request" (PInt n))
        | _, _ => HCrash
        end
      else if (ev =? "issue_comment")%string then
        match gh_issue_f rq with
        | IssueMissing => HCrash
        | IssuePlain => HIgnored
        | IssuePR None => HIgnored
        | IssuePR (Some n) => HJob (hook_job "PullRequestJob" "pull_request" (PInt n))
        end
      else if (ev =? "pull_request_review")%string then
        match gh_pr rq with
        | Some n => HJob (hook_job "PullRequestJob" "pull_request" (PInt n))
        | None => HCrash
        end
      else if (ev =? "status")%string then
        match gh_sha rq, gh_status_state rq with
        | Some sha, StNull => HJob (hook_job "CommitJob" "commit" (PStr sha))
        | Some sha, StStr st =>
            if (st =? "pending")%string then HIgnored
            else if mem_str st ["success"; "error"; "failure"] then
              HJob (hook_job "CommitJob" "commit" (PStr sha))
            else HCrash                                   (* KeyError in Status.state *)
        | _, _ => HCrash
        end
      else if (ev =? "check_suite")%string then
        match gh_check rq with
        | Some (sha, CiDone) => HJob (hook_job "CommitJob" "commit" (PStr sha))
        | Some (_, CiInProgress) => HIgnored
        | _ => HCrash
        end
      else HIgnored
  end.

Definition github_view (cfg : config) (rq : gh_request) : outcome :=
  if negb (c_host cfg =? "github")%string then refuse 500
  else if negb (gh_json_ok rq) then refuse 500
  else match gh_full_name rq with
       | None => refuse 500
       | Some fn =>
           if negb (fn =? c_full_name cfg)%string then refuse 500
           else match gh_dispatch (gh_event rq) rq with
                | HCrash => refuse 500
                | HIgnored => refuse 200
                | HJob j => mk_out 202 (Some j)
                end
       end.

Definition handle_github (htbl : list hook_entry) (cfg : config) (rq : gh_request) : outcome :=
  match hook_entry_for htbl "parse_github_webhook" with
  | None => refuse 404
  | Some h => with_basic cfg h (gh_method rq) (gh_creds rq) (github_view cfg rq)
  end.

(* ------------------------------------------------------------------ auth._handle_authorize
   post-condition on the session: None is the 403 answer (session untouched) *)
Definition handle_authorize (org : string) (admins : list string)
                            (username email : option string) : option session :=
  match username with
  | None => None
  | Some u0 =>
      if is_empty u0 then None
      else
        let u := lower u0 in
        let email_ok := match email with
                        | Some e => negb (is_empty e) && ends_with (String "@" org) e
                        | None => false
                        end in
        if negb (is_empty org) && negb email_ok then None
        else Some (mk_session (Some u) (Some (mem_str u admins)))
  end.
