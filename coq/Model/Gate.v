(* The decisions of _handle_pull_request (workflow/gitwaterflow/__init__.py) that precede the direct merge:
     in_sync = check_in_sync(job, wbranches)
     update_integration_branches(job, wbranches)            (integration.py)
     [queue mode and in_sync: the w branches are reset to origin]  push of the w branches
     check_build_status(job, wbranches)                     (Model/BuildGate.v)
     queueing.is_needed(job, wbranches, queues)             (queueing.py)
     merge_integration_branches / add_to_queue              (Model/Flow.v)
   over the clone of Model/Flow.v (commit DAG + refs).  `wbranches` is the list the code builds in
   create_integration_branches: its first element is the GhostIntegrationBranch that carries the NAME OF THE
   SOURCE BRANCH, the others are w/<version>/<source>, one per target beyond the first.
   Executable; no proofs here (see Proofs/GateProofs.v). *)
From Coq Require Import List Bool Arith.
Require Import BertE.Model.Git BertE.Model.Flow.
Import ListNotations.

(* b.includes_commit(a.get_latest_commit())   (lib/git.py: `git merge-base --is-ancestor <sha of a> b`).
   An unknown [b] makes the git command fail and includes_commit answers False; an unknown [a] makes
   get_latest_commit raise (the job aborts): the model answers false there as well, which is the conservative
   side for every theorem below (they all assume the check SUCCEEDED). *)
Definition includes_tip (c : clone) (b a : name) : bool :=
  match lookup (refs c) a, lookup (refs c) b with
  | Some x, Some y => anc (st c) x y
  | _, _ => false
  end.

(* check_in_sync(job, wbranches):
     prev = job.git.src_branch
     for branch in wbranches:
         if not branch.includes_commit(prev.get_latest_commit()): return False
         prev = branch
     return True
   [ws] is the whole list wbranches (so its first element is the source branch itself). *)
Fixpoint check_in_sync (c : clone) (prev : name) (ws : list name) : bool :=
  match ws with
  | [] => true
  | w :: t => if includes_tip c w prev then check_in_sync c w t else false
  end.

(* update_integration_branches, the part that moves branches:
     prev = feature_branch
     for branch in children: update(branch, prev); prev = branch
   with update(wbranch, source) = consecutive_merge / robust_merge (wbranch, wbranch.dst_branch, source).
   [pairs] = (w_i, dst_i) for the targets beyond the first; [sg] = the strategy each step ends up using (a
   function of the options and of conflicts, never of the graph - see Flow.strategy_ops).  The history checks
   before the loop only read; check_conflict works on the temporary branch w/<destination name>, which it removes
   again (the commit it may create stays unreachable); both can only abort the job. *)
Fixpoint update_ops (sg : list strategy) (prev : name) (pairs : list (name * name)) : list mergeop :=
  match pairs with
  | [] => []
  | (w, d) :: rest =>
      let s := match sg with x :: _ => x | [] => Octopus end in
      strategy_ops s w d prev ++ update_ops (tl sg) w rest
  end.

(* None = a merge failed (conflict, or a branch is missing): Conflict is raised, nothing below runs *)
Definition update_integration (sg : list strategy) (c : clone) (src : name) (pairs : list (name * name))
  : option clone := run_ops c (update_ops sg src pairs).

(* queueing.is_needed(job, wbranches, queues), line by line:
     if queues is None or job.settings.use_queue is False: return False
     if (job.settings.skip_queue_when_not_needed is False or already_in_queue(job, wbranches)
             or len(queues.queued_prs) > 0): return True
     if not job.git.src_branch.includes_commit(job.git.dst_branch.get_latest_commit()): return True
     for branch, dst_branch in zip(wbranches, job.git.cascade.dst_branches):
         if not branch.includes_commit(dst_branch.get_latest_commit()): return True
     return False
   (the caller builds `queues` exactly when use_queue is on).  [wds] = zip(wbranches, dst_branches): its first
   pair is (source branch, first target). *)
Fixpoint some_wbranch_behind (c : clone) (wds : list (name * name)) : bool :=
  match wds with
  | [] => false
  | (w, d) :: t => if negb (includes_tip c w d) then true else some_wbranch_behind c t
  end.

Definition is_needed (use_queue skip_queue_when_not_needed already_in_queue queued_prs_nonempty : bool)
  (c : clone) (src dst : name) (wds : list (name * name)) : bool :=
  if negb use_queue then false
  else if negb skip_queue_when_not_needed || already_in_queue || queued_prs_nonempty then true
  else if negb (includes_tip c src dst) then true
  else some_wbranch_behind c wds.

(* merge_integration_branches works on (target, integration branch) pairs (Flow.merge_integration) *)
Definition swap (p : name * name) : name * name := (snd p, fst p).

(* the git host's build table as the gate reads it: no entry = NOTSTARTED *)
Definition status_at {A : Type} (notstarted : A) (build : cid -> option A) (x : cid) : A :=
  match build x with Some s => s | None => notstarted end.

(* the statuses check_build_status reads: one per integration branch, on its tip in the clone *)
Definition statuses_read {A : Type} (notstarted : A) (build : cid -> option A) (c : clone) (ws : list name)
  : option (list A) :=
  match lookups (refs c) ws with
  | Some tips => Some (map (status_at notstarted build) tips)
  | None => None
  end.
