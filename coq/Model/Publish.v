(* The publication phase of a Bert-E job (C02): the list of REMOTE-MUTATING operations the job issues, executed
   against the remote heads under one fault.  The operations are exactly what harness/lib/sysworld.Recorder
   numbers on the real system:
     PNames local names    git push origin n1 n2 ...        (Repository.push; per ref, non-forced; atomic iff
                           the command carries --atomic: Facts_C02.named_push_atomic, read from lib/git.py)
     PDel names            git push origin :n1 ...          (Branch.remove(do_push=True), QueueCollection.delete)
     PAll local deleted    git push --atomic origin 'refs/heads/*:refs/heads/*' :d1 ...   (Repository.push_all)
     PHost                 a git-host call (comment, create pull request, decline, status) or a tag push:
                           no effect on the heads
   A failing git command ends the job (PushFailedException / RemoveFailedException are not caught by the
   handlers; workflow/git_utils.push retries the same command first, which changes nothing).
   Faults (quantifier of C02):
     CrashBefore i / CrashAfter i   Bert-E dies before / after its i-th operation: nothing later happens
     Reject i ref                   from operation i on the server refuses to update [ref]: a named push publishes
                                    its other names and fails, an atomic push that would update it is refused as
                                    a whole; the job stops there.  (The statement's "Reject ref" is Reject 0 ref.)
   No proofs in this file (Proofs/C02Proofs.v). *)
From Coq Require Import List Bool Arith.
Require Import BertE.Model.Git BertE.Generated.Facts_C02.
Import ListNotations.

Inductive pub :=
| PNames (local : refmap) (names : list nat)
| PDel (names : list nat)
| PAll (local : refmap) (deleted : list nat)
| PHost.

Inductive fault :=
| NoFault
| CrashBefore (i : nat)
| CrashAfter (i : nat)
| Reject (i : nat) (ref : nat).

Definition same_opt (a b : option cid) : bool :=
  match a, b with
  | Some x, Some y => Nat.eqb x y
  | None, None => true
  | _, _ => false
  end.

Definition del_names (r : refmap) (names : list nat) : refmap := fold_left remove names r.

(* one operation without interference: the new remote heads and whether the command succeeded.
   A named push succeeds iff afterwards every named ref has the local value; a deletion iff every name existed;
   the atomic push iff git accepts every update (Git.push_all_atomic). *)
Definition step (s : store) (r : refmap) (o : pub) : refmap * bool :=
  match o with
  | PNames local names =>
      let r' := push_names s r local names in
      let ok := forallb (fun n => match lookup local n with
                                  | Some c => same_opt (lookup r' n) (Some c)
                                  | None => false
                                  end) names in
      if named_push_atomic then (if ok then (r', true) else (r, false)) else (r', ok)
  | PDel names =>
      (del_names r names, forallb (fun n => match lookup r n with Some _ => true | None => false end) names)
  | PAll local deleted =>
      match push_all_atomic s r local deleted with
      | Some r' => (r', true)
      | None => (r, false)
      end
  | PHost => (r, true)
  end.

(* does the operation ask the server to update [ref]?  (git sends a ref only when it has to change: an
   up-to-date ref is not sent and cannot be refused.)  named push: listed and the local value differs from the
   remote one; deletion: listed and present; push of all heads: the local value differs, or the ref is one of
   the explicit deletions *)
Definition changes (r local : refmap) (ref : nat) : bool :=
  match lookup local ref with
  | Some c => negb (same_opt (lookup r ref) (Some c))
  | None => false
  end.

Definition mentions (r : refmap) (o : pub) (ref : nat) : bool :=
  match o with
  | PNames local names => mem ref names && changes r local ref
  | PDel names => mem ref names && match lookup r ref with Some _ => true | None => false end
  | PAll local deleted =>
      match lookup local ref with
      | Some c => negb (same_opt (lookup r ref) (Some c))
      | None => mem ref deleted
      end
  | PHost => false
  end.

Definition without (ref : nat) (names : list nat) : list nat := filter (fun n => negb (Nat.eqb n ref)) names.

(* the operation with [ref] refused by the server *)
Definition step_rejected (s : store) (r : refmap) (o : pub) (ref : nat) : refmap :=
  match o with
  | PNames local names => if named_push_atomic then r else push_names s r local (without ref names)
  | PDel names => del_names r (without ref names)
  | PAll _ _ => r
  | PHost => r
  end.

Inductive verdict := Stop (r : refmap) | Go (r : refmap).

Definition normal (s : store) (r : refmap) (o : pub) : verdict :=
  if snd (step s r o) then Go (fst (step s r o)) else Stop (fst (step s r o)).

(* operation number [i] of the job under fault [f] *)
Definition exec_one (s : store) (f : fault) (i : nat) (r : refmap) (o : pub) : verdict :=
  match f with
  | NoFault => normal s r o
  | CrashBefore k => if Nat.eqb i k then Stop r else normal s r o
  | CrashAfter k => if Nat.eqb i k then Stop (fst (step s r o)) else normal s r o
  | Reject k ref => if Nat.leb k i && mentions r o ref then Stop (step_rejected s r o ref) else normal s r o
  end.

Fixpoint run (s : store) (f : fault) (i : nat) (ops : list pub) (r : refmap) : refmap :=
  match ops with
  | [] => r
  | o :: rest =>
      match exec_one s f i r o with
      | Stop r' => r'
      | Go r' => run s f (S i) rest r'
      end
  end.

(* the remote heads a job leaves behind *)
Definition publish (s : store) (f : fault) (ops : list pub) (r : refmap) : refmap := run s f 0 ops r.

(* names a job publishes one by one (everything else can only change through the atomic push) *)
Definition named_of (o : pub) : list nat :=
  match o with
  | PNames _ names => names
  | PDel names => names
  | PAll _ _ => []
  | PHost => []
  end.
Definition named (ops : list pub) : list nat := flat_map named_of ops.

Definition is_pall (o : pub) : bool := match o with PAll _ _ => true | _ => false end.
Definition count_pall (ops : list pub) : nat := length (filter is_pall ops).

(* ---- the property's observables over the commit DAG ---- *)
(* the change whose tip is [c] is on target branch [t] *)
Definition landed (s : store) (r : refmap) (c : cid) (t : nat) : bool :=
  match lookup r t with
  | Some y => anc s c y
  | None => false
  end.

Definition all_or_none (s : store) (r : refmap) (c : cid) (ts : list nat) : bool :=
  forallb (landed s r c) ts || forallb (fun t => negb (landed s r c t)) ts.
