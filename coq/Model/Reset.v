(* The `reset` / `force_reset` commands (bert_e/workflow/gitwaterflow/commands.py, _reset) over the commit DAG of
   Model/Git.v.

     wbranches = the candidates "w/<version of a destination of the cascade>/<source>" that exist in the clone
     for each of them: feature := set(git log [--no-merges] dst..src)
                       for rev in reversed(git log [--no-merges] dst..w):
                           rev in feature            -> next
                           rev.author == robot       -> next
                           parent test               -> feature.add(rev), next
                           otherwise                 -> lossy
     lossy and not force -> LossyResetWarning (nothing done)
     otherwise: git branch -D each of them, ONE atomic push of all heads that also deletes the branches removed
     (Git.push_all_atomic, lib/git.py push_all(prune=True)), decline the open pull requests whose source is one of
     them, ResetComplete.

   Which `git log` calls hide merge commits and the shape of the parent test are DATA of the code
   (Generated/Facts_C15.v): a [variant].  The order in which `git log` lists commits is an input ([w_order]); the
   outcome of the author test `git show --pretty=%aN sha == robot` is an input too ([seen]: the commits for which
   it answers yes - measured by the harness with the literal command of the code), because that command prints the
   patch after the name: it is not the same thing as "authored by the robot".
   No proofs in this file (Proofs/C15Proofs.v). *)
From Coq Require Import List Bool Arith.
Require Import BertE.Model.Git BertE.Generated.Facts_C15.
Import ListNotations.

Definition name := nat.

Record variant := mkVariant {
  feature_merges : bool;     (* merge commits are part of the initial feature set *)
  walk_merges : bool;        (* merge commits of dst..w are examined *)
  all_parents : bool         (* parent test over all parents (false: exactly one parent) *)
}.

(* the code as it is in /repo *)
Definition code_variant : variant :=
  mkVariant (negb feature_ignore_merges) (negb walk_ignore_merges) parent_rule_all.

(* `--no-merges`: commits with more than one parent are not listed *)
Definition is_merge (s : store) (c : cid) : bool := Nat.leb 2 (length (parents_of s c)).

(* c is listed by `git log a..b`: reachable from b, not from a *)
Definition in_range (s : store) (a b c : cid) : bool := anc s c b && negb (anc s c a).
Definition kept (s : store) (merges : bool) (c : cid) : bool := merges || negb (is_merge s c).
Definition listed (s : store) (merges : bool) (a b c : cid) : bool := in_range s a b c && kept s merges c.

(* the set `git log [--no-merges] a..b` *)
Definition log_set (s : store) (merges : bool) (a b : cid) : list cid :=
  filter (listed s merges a b) (seq 0 (length s)).

(* `parent in feature or dst.includes_commit(parent)` *)
Definition parent_ok (s : store) (feature : list cid) (dst p : cid) : bool := mem p feature || anc s p dst.

Definition joins (v : variant) (s : store) (feature : list cid) (dst rev : cid) : bool :=
  if all_parents v then
    match parents_of s rev with
    | [] => false
    | ps => forallb (parent_ok s feature dst) ps
    end
  else
    match parents_of s rev with
    | [p] => parent_ok s feature dst p
    | _ => false
    end.

(* one iteration of `for rev in wcommits`; state = (feature, lossy) *)
Definition step (v : variant) (s : store) (seen : list cid) (dst : cid) (st : list cid * bool) (rev : cid)
  : list cid * bool :=
  if mem rev (fst st) then st
  else if mem rev seen then st
  else if joins v s (fst st) dst rev then (rev :: fst st, snd st)
  else (fst st, true).

Definition walk_of (v : variant) (s : store) (dst w : cid) (order : list cid) : list cid :=
  filter (listed s (walk_merges v) dst w) order.

(* the body of `for branch in wbranches`: final feature set and whether a lossy commit was met *)
Definition classify (v : variant) (s : store) (seen : list cid) (src dst w : cid) (order : list cid)
  : list cid * bool :=
  fold_left (step v s seen dst) (walk_of v s dst w order) (log_set s (feature_merges v) dst src, false).

(* ---- the command ---- *)
Record wbranch := mkW {
  w_name : name;             (* "w/<dst.version>/<src>" *)
  w_dst : name;              (* its destination branch *)
  w_order : list cid         (* reversed(git log dst..w): oldest first, as git printed it *)
}.

Record pullreq := mkPR { pr_id : nat; pr_src : name; pr_open : bool }.

Inductive outcome :=
| ResetComplete
| LossyResetWarning
| PushFailed                 (* the atomic push was refused: PushFailedException after the retries *)
| MissingRef.                (* a branch named by the loop does not exist in the clone: `git log` fails *)

Record result := mkRes {
  r_outcome : outcome;
  r_remote : refmap;         (* heads of the remote afterwards *)
  r_deleted : list name;     (* branches whose deletion was pushed *)
  r_pushes : nat;            (* number of pushes attempted *)
  r_declined : list nat      (* pull requests declined *)
}.

Definition has (r : refmap) (n : name) : bool := match lookup r n with Some _ => true | None => false end.

(* get_integration_branches: the candidates that exist in the clone, in cascade order *)
Definition existing (local : refmap) (cands : list wbranch) : list wbranch :=
  filter (fun w => has local (w_name w)) cands.

(* lossy verdict over all integration branches; None = some ref is missing *)
Fixpoint lossy_any (v : variant) (s : store) (seen : list cid) (local : refmap) (src : name) (ws : list wbranch)
  : option bool :=
  match ws with
  | [] => Some false
  | w :: rest =>
      match lookup local src, lookup local (w_dst w), lookup local (w_name w), lossy_any v s seen local src rest with
      | Some cs, Some cd, Some cw, Some l => Some (snd (classify v s seen cs cd cw (w_order w)) || l)
      | _, _, _, _ => None
      end
  end.

Definition remove_all (r : refmap) (ns : list name) : refmap := fold_left remove ns r.

Definition open_prs_of (prs : list pullreq) (names : list name) : list nat :=
  map pr_id (filter (fun p => pr_open p && mem (pr_src p) names) prs).

(* [snapshot] = heads of the clone (the remote when it was cloned); [remote] = heads of the remote when the push
   arrives.  [prune] is the keyword the code passes to push() (Facts_C15.push_prune). *)
Definition reset_with (prune : bool) (v : variant) (force : bool) (s : store) (seen : list cid)
    (snapshot remote : refmap) (src : name) (cands : list wbranch) (prs : list pullreq) : result :=
  let ws := existing snapshot cands in
  match ws with
  | [] => mkRes ResetComplete remote [] 0 []
  | _ =>
      match lossy_any v s seen snapshot src ws with
      | None => mkRes MissingRef remote [] 0 []
      | Some lossy =>
          if lossy && negb force then mkRes LossyResetWarning remote [] 0 []
          else
            let names := map w_name ws in
            let deleted := if prune then names else [] in
            match push_all_atomic s remote (remove_all snapshot names) deleted with
            | None => mkRes PushFailed remote [] 1 []
            | Some remote' => mkRes ResetComplete remote' deleted 1 (open_prs_of prs names)
            end
      end
  end.

Definition reset := reset_with push_prune.

(* ---- names (strings): "w/{}/{}".format(version, src) and the guard of Branch.remove ---- *)
From Coq Require Import String Ascii.
Open Scope string_scope.
Fixpoint format1 (fmt b : string) : string :=      (* str.format with one positional {} field left *)
  match fmt with
  | String "{"%char (String "}"%char rest) => b ++ rest
  | String c rest => String c (format1 rest b)
  | EmptyString => EmptyString
  end.
Fixpoint format2 (fmt a b : string) : string :=     (* str.format with two positional {} fields *)
  match fmt with
  | String "{"%char (String "}"%char rest) => a ++ format1 rest b
  | String c rest => String c (format2 rest a b)
  | EmptyString => EmptyString
  end.

Definition wname (version src : string) : string := format2 w_format version src.
Definition remove_allowed (n : string) : bool := existsb (fun p => prefix p n) remove_guard_prefixes.
