(* The control skeleton of the job handlers of workflow/gitwaterflow/__init__.py and queueing.py:

     handle_pull_request   (the registered handler: redirection of robot-authored pull requests, the
                            TemplateException -> notify_user wrapper)
     _handle_pull_request  (the whole pull-request evaluation: every gate, every step that writes)
     handle_commit         (dispatch of a build report: queue evaluation / parent pull request)
     handle_merge_queues   (the queue evaluation)

   Each handler is a PROGRAM: a tree whose nodes are the calls the handler makes ("stages", one constructor per
   call site) and whose edges are the answers of those calls (returned normally, returned a boolean, returned a
   count, raised an exception of some class).  What a stage DOES is modelled elsewhere (the gates in
   Model/Approvals.v, BuildGate.v, Jira.v, Holds.v, Reactor.v; the branch-moving steps in Model/Flow.v, Gate.v,
   Queues.v); this file models the ORDER in which they run, which answers stop the job, and which exception the
   job ends with - for every possible combination of answers.

   Tie to the code (harness/lib/pipeline.py): during every job of every system history each of these call sites
   is wrapped; the recorded sequence of (callee, answer) under each handler must be exactly the sequence [run]
   produces from the same answers, and the exception the real handler ends with must be [run]'s outcome.

   Executable; no proofs here (see Proofs/PipelineProofs.v). *)
From Coq Require Import List String Bool Arith.
Import ListNotations.
Open Scope string_scope.

(* how the code's except clauses classify an exception *)
Inductive ekind := ETemplate | ESilent | EInternal | EOther.

Inductive ans :=
| AOk                                   (* returned (value not used by the control flow) *)
| AB (b : bool)                         (* returned a value whose truth the handler tests *)
| AN (n : nat) (b : bool)               (* returned a collection: its size and one tested flag *)
| ARaise (k : ekind) (name : string)    (* raised; [name] = the class the handler's except clauses see *)
| AMissing.                             (* no such answer (the real trace is shorter than the model's) *)

Inductive stage :=
(* _handle_pull_request *)
| SEarlyChecks | SGreetings | SComments | SDependencies | SClone | SDeclined | SDstIncludesSrc | SSrcExists
| SCommitDiff | SBuildCascade | SValidate1 | SBranchCompat | SJira | SCheckIntegration | SCreateIntegration
| SAlreadyInQueue | SMergeQueuesNested | SInSync | SUpdate | SPushPartial | SResetW | SPushW
| SCreatePRs | SNewlyCreated | SSkew | SNotify | SApprovals | SBuildStatus | SBuildQueues | SIsNeeded
| SQueueValidate | SAddToQueue | SValidateQ | SQueuesDelete | SMergeIntegration | SAddMerged | SValidateM
(* handle_pull_request *)
| SParent | SInner | SNotifyUser
(* handle_commit *)
| SBranchesOfCommit | SGetPRs | SHandlePR
(* handle_merge_queues *)
| SCascadeBuild | SUpdateQueueStatus | SSelection | SNotifyQueueFailed | SMergeQueues | SCloseQueued
| SAddMergedQ | SPushPrune.

(* the callee the harness wraps for each call site (several sites may call the same function) *)
Definition stage_name (s : stage) : string :=
  match s with
  | SEarlyChecks => "early_checks" | SGreetings => "send_greetings" | SComments => "handle_comments"
  | SDependencies => "check_dependencies" | SClone => "clone_git_repo"
  | SDeclined => "handle_declined_pull_request" | SDstIncludesSrc => "Branch.includes_commit"
  | SSrcExists => "Branch.exists" | SCommitDiff => "check_commit_diff"
  | SBuildCascade => "build_branch_cascade" | SValidate1 => "BranchCascade.validate"
  | SBranchCompat => "check_branch_compatibility" | SJira => "jira_checks"
  | SCheckIntegration => "check_integration_branches" | SCreateIntegration => "create_integration_branches"
  | SAlreadyInQueue => "already_in_queue" | SMergeQueuesNested => "handle_merge_queues"
  | SInSync => "check_in_sync" | SUpdate => "update_integration_branches" | SPushPartial => "push"
  | SResetW => "Branch.reset" | SPushW => "push" | SCreatePRs => "create_integration_pull_requests"
  | SNewlyCreated => "newly_created?" | SSkew => "check_pull_request_skew"
  | SNotify => "notify_integration_data" | SApprovals => "check_approvals"
  | SBuildStatus => "check_build_status" | SBuildQueues => "build_queue_collection"
  | SIsNeeded => "is_needed" | SQueueValidate => "QueueCollection.validate" | SAddToQueue => "add_to_queue"
  | SValidateQ => "BranchCascade.validate" | SQueuesDelete => "QueueCollection.delete"
  | SMergeIntegration => "merge_integration_branches" | SAddMerged => "BertE.add_merged_pr"
  | SValidateM => "BranchCascade.validate"
  | SParent => "handle_parent_pull_request" | SInner => "_handle_pull_request" | SNotifyUser => "notify_user"
  | SBranchesOfCommit => "branches_of_commit?" | SGetPRs => "get_pull_requests?"
  | SHandlePR => "handle_pull_request"
  | SCascadeBuild => "BranchCascade.build" | SUpdateQueueStatus => "BertE.update_queue_status"
  | SSelection => "mergeable?" | SNotifyQueueFailed => "notify_queue_build_failed"
  | SMergeQueues => "merge_queues" | SCloseQueued => "close_queued_pull_request"
  | SAddMergedQ => "BertE.add_merged_pr" | SPushPrune => "push"
  end.

Inductive outcome :=
| ORaise (name : string)    (* the handler ends with this exception *)
| OReturn                   (* the handler returns normally *)
| OBad.                     (* an answer of a shape the call site cannot produce *)

Inductive prog :=
| Done (o : outcome)
| Ask (s : stage) (k : ans -> prog).

(* a call whose value the handler ignores: an exception propagates *)
Definition call (s : stage) (k : prog) : prog :=
  Ask s (fun a => match a with AOk => k | ARaise _ n => Done (ORaise n) | _ => Done OBad end).

(* a call whose boolean value the handler tests *)
Definition callb (s : stage) (k : bool -> prog) : prog :=
  Ask s (fun a => match a with AB b => k b | ARaise _ n => Done (ORaise n) | _ => Done OBad end).

Definition when (b : bool) (f : prog -> prog) (k : prog) : prog := if b then f k else k.

Fixpoint times (n : nat) (body : prog -> prog) (k : prog) : prog :=
  match n with O => k | S m => body (times m body k) end.

(* what a handler reads from its job before its first call *)
Record cfg := { use_queue : bool;          (* job.settings.use_queue *)
                declined : bool;           (* job.pull_request.status == 'DECLINED' *)
                robot_authored : bool }.         (* job.pull_request.author == job.settings.robot *)

(* ---- _handle_pull_request -------------------------------------------------------------------------- *)

(* from `queues = build_queue_collection(job) if use_queue else None` to the end *)
Definition pr_decide (c : cfg) : prog :=
  when (use_queue c) (call SBuildQueues) (
  callb SIsNeeded (fun needed =>
    if needed then
      Ask SQueueValidate (fun a =>
        match a with
        | AOk => call SAddToQueue (call SValidateQ (Done (ORaise "Queued")))
        | ARaise _ n => if String.eqb n "IncoherentQueues" then Done (ORaise "QueueOutOfOrder") else Done (ORaise n)
        | _ => Done OBad
        end)
    else
      when (use_queue c) (call SQueuesDelete) (
      call SMergeIntegration (call SAddMerged (call SValidateM (Done (ORaise "SuccessMessage"))))))).

(* from create_integration_pull_requests to the two gates *)
Definition pr_after_push (c : cfg) : prog :=
  callb SCreatePRs (fun children =>
  callb SNewlyCreated (fun newly =>
  when children (call SSkew) (
  when newly (call SNotify) (
  call SApprovals (
  call SBuildStatus (
  pr_decide c)))))).

(* in_sync = check_in_sync(...); try: update_integration_branches(...) except Conflict: push(partial); raise
   else: [reset the w branches]; push(wbranches[1:]) *)
Definition pr_update (c : cfg) : prog :=
  callb SInSync (fun insync =>
  Ask SUpdate (fun a =>
    match a with
    | AOk => when (use_queue c && insync) (call SResetW) (call SPushW (pr_after_push c))
    | ARaise _ n => if String.eqb n "Conflict" then call SPushPartial (Done (ORaise n)) else Done (ORaise n)
    | _ => Done OBad
    end)).

Definition pr_inner (c : cfg) : prog :=
  call SEarlyChecks (
  call SGreetings (
  call SComments (
  call SDependencies (
  call SClone (
  when (declined c) (call SDeclined) (
  callb SDstIncludesSrc (fun merged =>
    if merged then Done (ORaise "NothingToDo") else
  callb SSrcExists (fun there =>
    if negb there then Done (ORaise "NothingToDo") else
  call SCommitDiff (
  call SBuildCascade (
  call SValidate1 (
  call SBranchCompat (
  call SJira (
  call SCheckIntegration (
  call SCreateIntegration (
  when (use_queue c) (fun k => callb SAlreadyInQueue (fun q => when q (call SMergeQueuesNested) k)) (
  pr_update c)))))))))))))))).

(* ---- handle_pull_request (the registered handler) --------------------------------------------------- *)
Definition pr_outer (c : cfg) : prog :=
  if robot_authored c then call SParent (Done OReturn)
  else Ask SInner (fun a =>
         match a with
         | AOk => Done OReturn
         | ARaise ETemplate n => call SNotifyUser (Done (ORaise n))
         | ARaise _ n => Done (ORaise n)
         | _ => Done OBad
         end).

(* ---- handle_commit ---------------------------------------------------------------------------------- *)
(* SBranchesOfCommit answers AN (number of branches holding the commit) (one of them is a queue branch) *)
Definition commit_prog (c : cfg) : prog :=
  Ask SBranchesOfCommit (fun a =>
    match a with
    | AN n anyq =>
        if Nat.eqb n 0 then Done (ORaise "NothingToDo")
        else if use_queue c && anyq then call SMergeQueuesNested (Done OReturn)
        else callb SGetPRs (fun found =>
               if found then call SHandlePR (Done OReturn) else Done (ORaise "NothingToDo"))
    | ARaise _ n => Done (ORaise n)
    | _ => Done OBad
    end).

(* ---- handle_merge_queues ---------------------------------------------------------------------------- *)
(* SSelection answers AN (len(queues.mergeable_prs)) (bool(queues.failed_prs)) *)
Definition queues_prog : prog :=
  call SClone (
  call SCascadeBuild (
  call SBuildQueues (
  call SQueueValidate (
  call SUpdateQueueStatus (
  Ask SSelection (fun a =>
    match a with
    | AN n failed =>
        if Nat.eqb n 0 then
          if failed then call SNotifyQueueFailed (Done (ORaise "QueueBuildFailed"))
          else Done (ORaise "NothingToDo")
        else call SMergeQueues (
             times n (fun k => call SCloseQueued (call SAddMergedQ k)) (
             call SPushPrune (Done (ORaise "Merged"))))
    | ARaise _ n => Done (ORaise n)
    | _ => Done OBad
    end)))))).

(* ---- running a program -------------------------------------------------------------------------------- *)

(* against an oracle that may answer differently at every position *)
Fixpoint exec (o : nat -> stage -> ans) (pos : nat) (p : prog) : list (stage * ans) * outcome :=
  match p with
  | Done r => ([], r)
  | Ask s k => let a := o pos s in
               let (tr, r) := exec o (S pos) (k a) in ((s, a) :: tr, r)
  end.

(* against the list of answers recorded on the real handler *)
Definition run (p : prog) (answers : list ans) : list (stage * ans) * outcome :=
  exec (fun pos _ => nth pos answers AMissing) 0 p.

Inductive handler := HOuter | HInner | HCommit | HQueues.

Definition prog_of (h : handler) (c : cfg) : prog :=
  match h with
  | HOuter => pr_outer c | HInner => pr_inner c | HCommit => commit_prog c | HQueues => queues_prog
  end.

Definition run_handler (h : handler) (c : cfg) (answers : list ans) : list string * outcome :=
  let (tr, r) := run (prog_of h c) answers in (map (fun sa => stage_name (fst sa)) tr, r).

(* ---- vocabulary of the theorems ----------------------------------------------------------------------- *)

(* steps of _handle_pull_request that change the git repository on the remote *)
Definition writes_repo (s : stage) : bool :=
  match s with
  | SDeclined | SMergeQueuesNested | SPushPartial | SPushW | SAddToQueue | SQueuesDelete | SMergeIntegration => true
  | _ => false
  end.

(* steps that move a destination branch or put the pull request on the way to it *)
Definition lands (s : stage) : bool :=
  match s with SAddToQueue | SMergeIntegration => true | _ => false end.

(* steps that talk to the pull request (comments, child pull requests) *)
Definition speaks (s : stage) : bool :=
  match s with
  | SGreetings | SComments | SDeclined | SCreatePRs | SNotify | SNotifyUser | SMergeQueuesNested => true
  | _ => false
  end.

Definition stage_eqb (a b : stage) : bool :=
  match a, b with
  | SEarlyChecks, SEarlyChecks | SGreetings, SGreetings | SComments, SComments | SDependencies, SDependencies
  | SClone, SClone | SDeclined, SDeclined | SDstIncludesSrc, SDstIncludesSrc | SSrcExists, SSrcExists
  | SCommitDiff, SCommitDiff | SBuildCascade, SBuildCascade | SValidate1, SValidate1
  | SBranchCompat, SBranchCompat | SJira, SJira | SCheckIntegration, SCheckIntegration
  | SCreateIntegration, SCreateIntegration | SAlreadyInQueue, SAlreadyInQueue
  | SMergeQueuesNested, SMergeQueuesNested | SInSync, SInSync | SUpdate, SUpdate | SPushPartial, SPushPartial
  | SResetW, SResetW | SPushW, SPushW | SCreatePRs, SCreatePRs | SNewlyCreated, SNewlyCreated | SSkew, SSkew
  | SNotify, SNotify | SApprovals, SApprovals | SBuildStatus, SBuildStatus | SBuildQueues, SBuildQueues
  | SIsNeeded, SIsNeeded | SQueueValidate, SQueueValidate | SAddToQueue, SAddToQueue | SValidateQ, SValidateQ
  | SQueuesDelete, SQueuesDelete | SMergeIntegration, SMergeIntegration | SAddMerged, SAddMerged
  | SValidateM, SValidateM | SParent, SParent | SInner, SInner | SNotifyUser, SNotifyUser
  | SBranchesOfCommit, SBranchesOfCommit | SGetPRs, SGetPRs | SHandlePR, SHandlePR
  | SCascadeBuild, SCascadeBuild | SUpdateQueueStatus, SUpdateQueueStatus | SSelection, SSelection
  | SNotifyQueueFailed, SNotifyQueueFailed | SMergeQueues, SMergeQueues | SCloseQueued, SCloseQueued
  | SAddMergedQ, SAddMergedQ | SPushPrune, SPushPrune => true
  | _, _ => false
  end.
