(* Model of the integration branch / integration pull request bookkeeping of Bert-E (property C19).

   Mirrors, over an abstract world (pull requests of the git host + set of branch names of the remote):
     bert_e/workflow/gitwaterflow/integration.py   get_integration_branches, create_integration_branches,
                                                   check_integration_branches, create_integration_pull_requests,
                                                   merge_integration_branches (removal part)
     bert_e/workflow/gitwaterflow/branches.py      IntegrationBranch.get_pull_request_from_list,
                                                   get_or_create_pull_request, GhostIntegrationBranch
     bert_e/workflow/gitwaterflow/__init__.py      handle_pull_request, handle_parent_pull_request, handle_commit,
                                                   handle_declined_pull_request, the stages of _handle_pull_request
     bert_e/workflow/gitwaterflow/queueing.py      close_queued_pull_request (removal part)
     bert_e/workflow/gitwaterflow/commands.py      _reset (removal / decline part)
     bert_e/git_host/mock.py                       get_pull_requests (status filter), get_pull_request, ids

   Names are structured (no string parsing here: name parsing is property C18).  The gates the evaluation of a
   pull request goes through (approvals, builds, conflicts, queue...) are NOT decided here: the [outcome] of an
   evaluation is an input (any outcome is allowed by the theorems); only the gate of
   check_integration_branches, which belongs to integration.py, is modelled.  Data of the code that the
   theorems depend on (description template, title format, default status filter of the host) comes from
   Generated/Facts_C19.v.  No proofs in this file. *)
From Coq Require Import List String Bool ZArith.
Require Import BertE.Generated.Facts_C19.
Import ListNotations.
Open Scope Z_scope.

(* ------------------------------------------------------------------------------------------ names *)

Inductive name :=
| Src (s : string)            (* a feature branch: the source of a user pull request *)
| W (v s : string)            (* w/<v>/<s>: integration branch of source s for the target of version v *)
| Dst (v : string)            (* the destination branch of version v (development/, stabilization/, hotfix/) *)
| Q (v : string)              (* q/<v>: a queue branch (the only class handle_commit treats as "queue") *)
| Other (n : string).         (* anything else, q/w/... included *)

Definition name_eqb (a b : name) : bool :=
  match a, b with
  | Src s, Src t => String.eqb s t
  | W v s, W u t => String.eqb v u && String.eqb s t
  | Dst v, Dst u => String.eqb v u
  | Q v, Q u => String.eqb v u
  | Other n, Other m => String.eqb n m
  | _, _ => false
  end.

Definition mem_name (n : name) (l : list name) : bool := existsb (name_eqb n) l.
Definition count_name (n : name) (l : list name) : nat := List.length (filter (name_eqb n) l).
Definition mem_Z (z : Z) (l : list Z) : bool := existsb (Z.eqb z) l.

(* ------------------------------------------------------------------------------------------ world *)

Inductive pstate := OPEN | DECLINED | MERGED.

Record pr := mkPr {
  pid : Z;
  probot : bool;               (* author == settings.robot *)
  psrc : name;
  pdst : name;
  pst : pstate;
  pparent : option Z;          (* first number of the description: re.findall(r'\d+', description)[0] *)
  ptitle : option Z }.         (* the number after "PR#" when the title is an INTEGRATION title *)

Record world := mkWorld { prs : list pr; branches : list name }.

Definition is_open (c : pr) : bool := match pst c with OPEN => true | _ => false end.
Definition set_st (st : pstate) (c : pr) : pr :=
  mkPr (pid c) (probot c) (psrc c) (pdst c) st (pparent c) (ptitle c).

(* mock host: id = number of pull requests + 1 (ids are 1..n); real hosts: a fresh id *)
Definition max_id (ps : list pr) : Z := fold_right (fun c m => Z.max (pid c) m) 0 ps.
Definition next_id (ps : list pr) : Z := max_id ps + 1.

(* get_pull_request(id): first item with that id *)
Definition find_pr (id : Z) (ps : list pr) : option pr := find (fun c => Z.eqb (pid c) id) ps.

(* Repository.get_pull_requests(src_branch=[...]) with its default status filter *)
Definition host_listed (c : pr) : bool := if get_pull_requests_default_open then is_open c else true.

(* ------------------------------------------------------------------------------------------ settings, context *)

Record cfg := mkCfg {
  always_prs : bool;           (* always_create_integration_pull_requests *)
  always_branches : bool;      (* always_create_integration_branches *)
  use_queue : bool }.

(* how far one evaluation went (decided by gates that are not part of this model) *)
Inductive outcome :=
| OBefore                      (* stopped before anything this property observes: no effect *)
| ORequestIntegration          (* check_integration_branches raised RequestIntegrationBranches *)
| OReset                       (* the reset / force_reset command ran to completion *)
| ODeclined                    (* the pull request is DECLINED and handle_declined_pull_request ran *)
| OConflict (k : nat)          (* update_integration_branches failed on the (k+1)-th integration branch:
                                  the first k ones were pushed *)
| OCreated                     (* integration branches pushed, create_integration_pull_requests ran;
                                  a later gate stopped the evaluation, or the pull request was queued *)
| OMerged                      (* merge_integration_branches ran (direct merge) *)
| OQueue (merged : list Z).    (* handle_merge_queues ran and closed these pull requests *)

Record ectx := mkCtx {
  cascade : list (string * list string);   (* destination version -> versions of the targets, first = itself *)
  opt_prs : bool;                          (* option create_pull_requests *)
  opt_branches : bool;                     (* option create_integration_branches *)
  approved : bool;                         (* approved by the author (approval or the approve option) *)
  oc : outcome }.

Fixpoint targets_for (d : string) (c : list (string * list string)) : option (list string) :=
  match c with
  | [] => None
  | (k, ts) :: r => if String.eqb k d then Some ts else targets_for d r
  end.

Inductive err :=
| PrNotFound                   (* get_pull_request raises *)
| ParentNotFound               (* ParentPullRequestNotFound: no number in the child's description *)
| OutOfFuel                    (* chain of robot pull requests naming each other: Python's RecursionError *)
| NoCascade                    (* destination without a cascade entry *)
| NotAFeature                  (* source / destination of the wrong kind: NotMyJob stops the evaluation earlier *)
| GateClosed                   (* outcome past check_integration_branches although it raises *)
| GateOpen                     (* outcome RequestIntegrationBranches although the check passes *)
| BadOutcome.                  (* outcome impossible for the state of the pull request / kind of event *)

Inductive result (A : Type) := Ok (a : A) | Err (e : err).
Arguments Ok {A} a.
Arguments Err {A} e.

(* ------------------------------------------------------------------------------------------ integration.py *)

Definition w_names (s : string) (vs : list string) : list name := map (fun v => W v s) vs.

(* check_integration_branches: the evaluation goes on iff ... *)
Definition integration_gate (c : cfg) (x : ectx) (ts : list string) : bool :=
  always_branches c || opt_branches x || always_prs c || opt_prs x || approved x
  || Nat.leb (List.length ts) 1.

(* branch.create(dst) only `if not branch.exists()` (then pushed with the other integration branches) *)
Definition add_branch (n : name) (bs : list name) : list name := if mem_name n bs then bs else bs ++ [n].

(* create_integration_branches: the first target gets a GhostIntegrationBranch (the source branch itself,
   nothing is created); one w/<v>/<src> per further target *)
Definition create_integration_branches (s : string) (beyond : list string) (bs : list name) : list name :=
  fold_left (fun b v => add_branch (W v s) b) beyond bs.

(* IntegrationBranch.get_pull_request_from_list: first listed pull request with that source and destination *)
Definition child_match (v s : string) (c : pr) : bool :=
  name_eqb (psrc c) (W v s) && name_eqb (pdst c) (Dst v).
Definition find_child (listed : list pr) (v s : string) : option pr := find (child_match v s) listed.

(* the pull request get_or_create_pull_request creates: title 'INTEGRATION [PR#%s > %s] %s' % (parent id, ...),
   description = template pull_request_description.md *)
Definition mk_child (id parent : Z) (v s : string) : pr :=
  mkPr id true (W v s) (Dst v) OPEN
       (Some (match description_leading_number with Some n => n | None => parent end))
       (if title_first_arg_is_parent_id then Some parent else None).

Fixpoint number_children (id parent : Z) (s : string) (vs : list string) : list pr :=
  match vs with
  | [] => []
  | v :: t => mk_child id parent v s :: number_children (id + 1) parent s t
  end.

(* create_integration_pull_requests: open_prs is read once (OPEN, source among the integration names, any
   author); each integration branch beyond the ghost reuses its match in that list or creates a pull request *)
Definition create_integration_pull_requests (c : cfg) (x : ectx) (parent : Z) (s : string)
           (ts : list string) (ps : list pr) : list pr :=
  if always_prs c || opt_prs x then
    let listed := filter (fun q => is_open q && mem_name (psrc q) (Src s :: w_names s (tl ts))) ps in
    let missing := filter (fun v => match find_child listed v s with Some _ => false | None => true end) (tl ts) in
    ps ++ number_children (next_id ps) parent s missing
  else ps.

(* wbranch.remove() for the given versions, then push --prune *)
Definition remove_w (s : string) (vs : list string) (bs : list name) : list name :=
  filter (fun n => negb (mem_name n (w_names s vs))) bs.

(* ------------------------------------------------------------------------------------------ handle_declined *)

Fixpoint decline_first (f : pr -> bool) (ps : list pr) : list pr :=
  match ps with
  | [] => []
  | c :: t => if f c then set_st DECLINED c :: t else c :: decline_first f t
  end.

(* for name, dst in zip(w names of ALL targets, targets): decline the first listed OPEN pull request with that
   source and destination (break), remove the branch if it exists *)
Definition handle_declined (s : string) (ts : list string) (w : world) : world :=
  mkWorld
    (fold_left (fun ps v => decline_first (fun c => host_listed c && is_open c && child_match v s c) ps) ts (prs w))
    (remove_w s ts (branches w)).

(* ------------------------------------------------------------------------------------------ reset command *)

(* _reset: the existing w/<v>/<src> of ALL targets are removed; every listed pull request whose source is one of
   them is declined (whatever its destination or author) *)
Definition reset (s : string) (ts : list string) (w : world) : world :=
  let existing := filter (fun n => mem_name n (branches w)) (w_names s ts) in
  mkWorld
    (map (fun c => if host_listed c && is_open c && mem_name (psrc c) existing then set_st DECLINED c else c) (prs w))
    (filter (fun n => negb (mem_name n existing)) (branches w)).

(* ------------------------------------------------------------------------------------------ queue merge *)

(* close_queued_pull_request for every merged id: get_integration_branches (ALL targets) are removed *)
Definition close_one (x : ectx) (ps : list pr) (bs : list name) (id : Z) : list name :=
  match find_pr id ps with
  | Some p =>
      match psrc p, pdst p with
      | Src s, Dst d => match targets_for d (cascade x) with Some ts => remove_w s ts bs | None => bs end
      | _, _ => bs
      end
  | None => bs
  end.

Definition queue_merge (x : ectx) (merged : list Z) (w : world) : world :=
  mkWorld (prs w) (fold_left (close_one x (prs w)) merged (branches w)).

Definition queue_eval (c : cfg) (x : ectx) (w : world) : result world :=
  match oc x with
  | OBefore => Ok w
  | OQueue merged => if use_queue c then Ok (queue_merge x merged w) else Err BadOutcome
  | _ => Err BadOutcome
  end.

(* ------------------------------------------------------------------------------------------ one evaluation *)

(* the stages of _handle_pull_request that touch branches / pull requests, for a user pull request *)
Definition eval_user (c : cfg) (x : ectx) (w : world) (p : pr) : result world :=
  match oc x with
  | OBefore => Ok w
  | o =>
    match pst p with
    | MERGED => Err BadOutcome                        (* early_checks: NothingToDo *)
    | st =>
      match psrc p, pdst p with
      | Src s, Dst d =>
        match targets_for d (cascade x) with
        | None => Err NoCascade
        | Some ts =>
          let created := mkWorld (create_integration_pull_requests c x (pid p) s ts (prs w))
                                 (create_integration_branches s (tl ts) (branches w)) in
          match o, st with
          | OReset, _ => Ok (reset s ts w)              (* handle_comments runs before the DECLINED test *)
          | ODeclined, DECLINED => Ok (handle_declined s ts w)
          | ORequestIntegration, OPEN => if integration_gate c x ts then Err GateOpen else Ok w
          | OConflict k, OPEN =>
              if integration_gate c x ts
              then Ok (mkWorld (prs w) (create_integration_branches s (firstn k (tl ts)) (branches w)))
              else Err GateClosed
          | OCreated, OPEN => if integration_gate c x ts then Ok created else Err GateClosed
          | OMerged, OPEN =>
              if integration_gate c x ts
              then Ok (mkWorld (prs created) (remove_w s (tl ts) (branches created)))
              else Err GateClosed
          | OQueue merged, OPEN =>                      (* already_in_queue: nested handle_merge_queues *)
              if integration_gate c x ts then queue_eval c x w else Err GateClosed
          | _, _ => Err BadOutcome
          end
        end
      | _, _ => Err NotAFeature
      end
    end
  end.

(* handle_pull_request: author == robot => handle_parent_pull_request (first number of the description,
   get_pull_request, handle_pull_request again) *)
Fixpoint resolve (fuel : nat) (ps : list pr) (id : Z) : result pr :=
  match fuel with
  | O => Err OutOfFuel
  | S f =>
    match find_pr id ps with
    | None => Err PrNotFound
    | Some p =>
      if probot p then
        match pparent p with
        | None => Err ParentNotFound
        | Some i => resolve f ps i
        end
      else Ok p
    end
  end.

Definition eval_pr (c : cfg) (x : ectx) (w : world) (id : Z) : result world :=
  match resolve (S (List.length (prs w))) (prs w) id with
  | Err e => Err e
  | Ok p => eval_user c x w p
  end.

(* handle_commit *)
Definition is_queue_name (n : name) : bool := match n with Q _ => true | _ => false end.
Definition parent_name (n : name) : name := match n with W _ s => Src s | other => other end.

Fixpoint min_by_id (l : list pr) : option pr :=
  match l with
  | [] => None
  | c :: t => match min_by_id t with
              | Some m => if Z.leb (pid c) (pid m) then Some c else Some m
              | None => Some c
              end
  end.

Definition handle_commit (c : cfg) (x : ectx) (w : world) (at_commit : list name) : result world :=
  match at_commit with
  | [] => match oc x with OBefore => Ok w | _ => Err BadOutcome end          (* NothingToDo *)
  | _ =>
    if use_queue c && existsb is_queue_name at_commit then queue_eval c x w
    else
      let cands := map parent_name at_commit in
      match min_by_id (filter (fun q => host_listed q && mem_name (psrc q) cands) (prs w)) with
      | None => match oc x with OBefore => Ok w | _ => Err BadOutcome end    (* NothingToDo *)
      | Some p => eval_pr c x w (pid p)
      end
  end.

(* ------------------------------------------------------------------------------------------ events *)

Inductive event :=
| EvalPR (id : Z) (x : ectx)                         (* a pull request event, on a parent or on a child *)
| EvalCommit (at_commit : list name) (x : ectx)      (* a commit event; the branches whose tip is that commit *)
| QueueJob (x : ectx)                                (* a queue evaluation started by an admin job *)
| UserOpen (s d : string) (par tit : option Z)       (* somebody opens a pull request s -> destination d *)
| UserDecline (id : Z)                               (* somebody declines a pull request on the host *)
| HostMerged (ids : list Z).                         (* the host reports these OPEN pull requests as MERGED *)

Definition user_open (s d : string) (par tit : option Z) (w : world) : world :=
  mkWorld (prs w ++ [mkPr (next_id (prs w)) false (Src s) (Dst d) OPEN par tit]) (branches w).

Definition user_decline (id : Z) (w : world) : world :=
  mkWorld (map (fun c => if is_open c && Z.eqb (pid c) id then set_st DECLINED c else c) (prs w)) (branches w).

Definition host_merged (ids : list Z) (w : world) : world :=
  mkWorld (map (fun c => if is_open c && mem_Z (pid c) ids then set_st MERGED c else c) (prs w)) (branches w).

Definition step (c : cfg) (w : world) (e : event) : result world :=
  match e with
  | EvalPR id x => eval_pr c x w id
  | EvalCommit names x => handle_commit c x w names
  | QueueJob x => queue_eval c x w
  | UserOpen s d par tit => Ok (user_open s d par tit w)
  | UserDecline id => Ok (user_decline id w)
  | HostMerged ids => Ok (host_merged ids w)
  end.

(* the user pull request an evaluation event ends up evaluating (observable of the redirection) *)
Definition evaluated_pr (c : cfg) (w : world) (e : event) : option Z :=
  let res id := match resolve (S (List.length (prs w))) (prs w) id with Ok p => Some (pid p) | Err _ => None end in
  match e with
  | EvalPR id _ => res id
  | EvalCommit at_commit _ =>
      match at_commit with
      | [] => None
      | _ => if use_queue c && existsb is_queue_name at_commit then None
             else match min_by_id (filter (fun q => host_listed q && mem_name (psrc q) (map parent_name at_commit))
                                          (prs w)) with
                  | Some p => res (pid p)
                  | None => None
                  end
      end
  | _ => None
  end.

Fixpoint run (c : cfg) (w : world) (es : list event) : result world :=
  match es with
  | [] => Ok w
  | e :: t => match step c w e with Ok w' => run c w' t | Err x => Err x end
  end.
