(* One pull-request evaluation as a whole: the control skeleton of Model/Pipeline.v driving the branch-moving
   fragments of Model/Flow.v and Model/Gate.v over the job's local clone.

     stage                         effect on the clone
     update_integration_branches   Gate.update_integration   (merges into the w/ branches)
     add_to_queue                  Flow.add_to_queue         (merges into q/<v>, creates q/w/<pr>/<v>/...)
     merge_integration_branches    Flow.merge_integration    (merges into the destination branches)
     every other step              [other s]: whatever it does (create / reset / delete w/ and q/ branches, nothing
                                   at all, ...) - a parameter; the theorems constrain it only on destination names

   A step that raises ends the evaluation (Pipeline: refusal is final); the clone is then thrown away - what is
   published was published by an earlier step.  No proofs here (see Proofs/JobProofs.v). *)
From Coq Require Import List Bool Arith.
Require Import BertE.Model.Git BertE.Model.Flow BertE.Model.Gate BertE.Model.Pipeline.
Import ListNotations.

Record jobdata := mkJob {
  j_src : name;                               (* the source branch *)
  j_wds : list (name * name);                 (* (w_i, dst_i) for the targets beyond the first *)
  j_pairs : list (name * name);               (* (t_i, w_i) for every target; w_0 is the source branch *)
  j_triples : list (name * name * name);      (* (q_i, w_i, qint_i) for every target *)
  j_sg_update : list strategy;                (* the merge strategy each step ends up using *)
  j_sg_merge : list strategy;
  j_sg_queue : list strategy }.

Definition stage_effect (d : jobdata) (other : stage -> clone -> option clone) (s : stage) (c : clone)
  : option clone :=
  match s with
  | SUpdate => update_integration (j_sg_update d) c (j_src d) (j_wds d)
  | SAddToQueue => add_to_queue (j_sg_queue d) c (j_triples d)
  | SMergeIntegration => merge_integration (j_sg_merge d) c (j_pairs d)
  | _ => other s c
  end.

(* the clone after the steps of a trace, up to the first step that raised (None: a step that answered "returned"
   has no successful run in the model - e.g. a merge of an unknown branch) *)
Fixpoint job_clone (d : jobdata) (other : stage -> clone -> option clone) (tr : list (stage * ans)) (c : clone)
  : option clone :=
  match tr with
  | [] => Some c
  | (s, ARaise _ _) :: _ => Some c
  | (s, _) :: t => match stage_effect d other s c with
                   | Some c' => job_clone d other t c'
                   | None => None
                   end
  end.
