(* lib/git.py Branch.remove: the security guard on local/remote branch deletion.  The prefix list comes from
   Generated/Facts_C08.v (read from the AST of Branch.remove on every run).  No proofs. *)
From Coq Require Import List String Bool.
Require Import BertE.Generated.Facts_C08.
Import ListNotations.
Open Scope string_scope.

(* name.startswith(p) *)
Definition starts_with (p name : string) : bool := String.prefix p name.

(* True = the deletion goes ahead, False = ForbiddenOperation is raised *)
Definition remove_guard (name : string) (force : bool) : bool :=
  existsb (fun p => starts_with p name) owned_prefixes || force.
