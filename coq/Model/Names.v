(* Model/Names.v - branch names of GitWaterFlow: bert_e/workflow/gitwaterflow/branches.py
   (GWFBranch subclasses, branch_factory, is_cascade_producer/consumer), the names the robot derives
   (integration.py "w/{}/{}", queueing.py "q/{}" and "q/w/{}/{}/{}") and handle_commit.get_parent_branch.

   HOW TO USE THIS FILE FROM ANOTHER PROPERTY
   ------------------------------------------
     classify : string -> option branch_info        branch_factory(None, name); None = UnrecognizedBranchPattern
     bi_class                                        the Python class (constructors are named like the classes)
     bi_prefix bi_label bi_version                   str attributes (raw text of the named group)
     bi_major bi_minor bi_micro bi_hfrev bi_pr_id    int(group) - leading zeros vanish here, not in bi_version
     bi_feature_branch                               the source branch name embedded in w/ and q/w/ names
     bi_jira_issue_key bi_jira_project               ticket key / project at the start of the label;
                                                     UPPER-CASED for FeatureBranch only (FeatureBranch.__init__),
                                                     raw for IntegrationBranch and QueueIntegrationBranch
   A field is [None] when the named group did not take part in the match (Python None) or when the
   pattern of the class has no such group; [class_has_group] tells the two apart (in the second case
   the Python object shows the class default: major = 0, minor = 0, micro = -1, hfrev = -1, no other
   attribute).  Flags are read from the generated facts: [cascade_producer], [cascade_consumer],
   [can_be_destination], [allow_ticketless_pr], [allow_prefixes]; [is_cascade_producer] /
   [is_cascade_consumer] mirror the functions on names (None = the factory raises).
   Printers: [print_w version src], [print_q version], [print_qw pr version src] ([None] = the format
   has more fields than arguments).  [get_parent_branch] is the redirect used by handle_commit.

   REGULAR EXPRESSIONS.  Each class is a hand-written scanner of its pattern (re.match, so anchored at
   the start; every pattern ends with "$", which also matches before one final LF; "." and the
   character classes never match LF).  ASCII only: \d is [0-9] here (DESIGN 4.1).  The literals the
   scanners were written against are kept in [pattern_written_against]; Facts_C18.class_patterns holds
   the live ones - the harness compares the two texts (tripwire), no proof does.
   Data taken from Generated/Facts_C18.v: factory order, all_prefixes, flags, formats, instance test.
   No proofs in this file. *)
From Coq Require Import List String Ascii Bool Arith NArith.
Require Import BertE.Base.Str BertE.Generated.Facts_C18.
Import ListNotations.
Open Scope string_scope.

(* ------------------------------------------------------------------ classes *)

Inductive bclass :=
| StabilizationBranch | DevelopmentBranch | ReleaseBranch | QueueBranch | QueueIntegrationBranch
| FeatureBranch | HotfixBranch | LegacyHotfixBranch | IntegrationBranch | UserBranch.

Definition all_classes : list bclass :=
  [StabilizationBranch; DevelopmentBranch; ReleaseBranch; QueueBranch; QueueIntegrationBranch;
   FeatureBranch; HotfixBranch; LegacyHotfixBranch; IntegrationBranch; UserBranch].

Definition class_name (k : bclass) : string :=
  match k with
  | StabilizationBranch => "StabilizationBranch" | DevelopmentBranch => "DevelopmentBranch"
  | ReleaseBranch => "ReleaseBranch" | QueueBranch => "QueueBranch"
  | QueueIntegrationBranch => "QueueIntegrationBranch" | FeatureBranch => "FeatureBranch"
  | HotfixBranch => "HotfixBranch" | LegacyHotfixBranch => "LegacyHotfixBranch"
  | IntegrationBranch => "IntegrationBranch" | UserBranch => "UserBranch"
  end.

Definition bclass_eqb (a b : bclass) : bool := (class_name a =? class_name b)%string.

Definition class_of_name (n : string) : option bclass :=
  find (fun k => (class_name k =? n)%string) all_classes.

(* the classes branch_factory tries, in its order (a name that is not one of the ten is dropped
   here; Proofs/C18Proofs.v shows that none is) *)
Definition factory : list bclass :=
  flat_map (fun n => match class_of_name n with Some k => [k] | None => [] end) factory_order.

(* ------------------------------------------------------------------ attributes *)

Record branch_info := {
  bi_class : bclass;
  bi_prefix : option string;
  bi_label : option string;
  bi_version : option string;
  bi_major : option N;
  bi_minor : option N;
  bi_micro : option N;
  bi_hfrev : option N;
  bi_pr_id : option N;
  bi_feature_branch : option string;
  bi_jira_issue_key : option string;
  bi_jira_project : option string
}.

Definition assoc {A} (key : string) (l : list (string * A)) : option A :=
  option_map snd (find (fun p => (fst p =? key)%string) l).

(* does the pattern of the class have this named group (i.e. does __init__ set the attribute)? *)
Definition class_has_group (k : bclass) (g : string) : bool :=
  match assoc (class_name k) class_groups with Some gs => mem_str g gs | None => false end.

(* ------------------------------------------------------------------ flags (from the facts) *)

Definition flags_of (k : bclass) : option (bool * bool * bool * bool) := assoc (class_name k) class_flags.

Definition flag (sel : bool * bool * bool * bool -> bool) (k : bclass) : bool :=
  match flags_of k with Some t => sel t | None => false end.   (* never None: C18Proofs.flags_total *)

Definition cascade_producer : bclass -> bool := flag (fun t => fst (fst (fst t))).
Definition cascade_consumer : bclass -> bool := flag (fun t => snd (fst (fst t))).
Definition can_be_destination : bclass -> bool := flag (fun t => snd (fst t)).
Definition allow_ticketless_pr : bclass -> bool := flag (fun t => snd t).
(* None = the class has no such attribute (AttributeError) *)
Definition allow_prefixes (k : bclass) : option (list string) :=
  match assoc (class_name k) class_allow_prefixes with Some o => o | None => None end.

(* ------------------------------------------------------------------ pieces shared by the scanners *)

(* (\d+)(\.(\d+))? ... between [lo] and [hi] dot-separated numbers, nothing else *)
Definition parse_version (lo hi : nat) (v : string) : option (list string) :=
  let cs := split_char "." v in
  if forallb is_num cs && (lo <=? List.length cs)%nat && (List.length cs <=? hi)%nat then Some cs else None.

Definition comp (cs : list string) (i : nat) : option N := option_map dec_value (nth_error cs i).

Definition mk_versioned (k : bclass) (v : string) (cs : list string) : branch_info :=
  {| bi_class := k; bi_prefix := None; bi_label := None; bi_version := Some v;
     bi_major := comp cs 0; bi_minor := comp cs 1; bi_micro := comp cs 2; bi_hfrev := comp cs 3;
     bi_pr_id := None; bi_feature_branch := None; bi_jira_issue_key := None; bi_jira_project := None |}.

Definition mk_labelled (k : bclass) (l : string) : branch_info :=
  {| bi_class := k; bi_prefix := None; bi_label := Some l; bi_version := None;
     bi_major := None; bi_minor := None; bi_micro := None; bi_hfrev := None;
     bi_pr_id := None; bi_feature_branch := None; bi_jira_issue_key := None; bi_jira_project := None |}.

(* "^<head>(?P<version>...)$" *)
Definition scan_versioned (k : bclass) (head : string) (lo hi : nat) (s : string) : option branch_info :=
  match strip_prefix head s with
  | Some r => let v := chomp r in option_map (mk_versioned k v) (parse_version lo hi v)
  | None => None
  end.

(* ".+$" : a non-empty LF-free text up to the end of the line *)
Definition scan_line (r : string) : option string :=
  let l := chomp r in if is_empty l || has_char LF l then None else Some l.

(* "^<head>(?P<label>.+)$" *)
Definition scan_labelled (k : bclass) (head : string) (s : string) : option branch_info :=
  match strip_prefix head s with
  | Some r => option_map (mk_labelled k) (scan_line r)
  | None => None
  end.

(* (?P<jira_issue_key>(?P<jira_project>[a-zA-Z0-9_]+)-[0-9]+)? at the start of the label: the longest
   word run, a dash, the longest digit run; backtracking cannot produce any other key *)
Definition scan_ticket (l : string) : option (string * string) :=
  let (proj, r1) := span is_word l in
  if is_empty proj then None else
  match r1 with
  | String c r2 =>
      if (c =? "-")%char then
        let (num, _) := span is_digit r2 in
        if is_empty num then None else Some (proj ++ "-" ++ num, proj)
      else None
  | EmptyString => None
  end.

Record feature_parts := {
  fp_prefix : string; fp_label : string; fp_ticket : option (string * string) }.

(* FeatureBranch.pattern[1:] : (?P<feature_branch>(?P<prefix>(p1|p2|...))/(?P<label>...))$
   no prefix contains "/", so the prefix is the text before the first "/" *)
Definition scan_feature (r : string) : option feature_parts :=
  match split_first "/" r with
  | Some (p, rest) =>
      if mem_str p all_prefixes then
        match scan_line rest with
        | Some l => Some {| fp_prefix := p; fp_label := l; fp_ticket := scan_ticket l |}
        | None => None
        end
      else None
  | None => None
  end.

Definition mk_feature_like (k : bclass) (pr : option N) (ver : option (string * list string))
           (up : bool) (f : feature_parts) : branch_info :=
  let cs := match ver with Some (_, cs) => cs | None => [] end in
  let cv := fun s => if up then upper s else s in
  {| bi_class := k; bi_prefix := Some (fp_prefix f); bi_label := Some (fp_label f);
     bi_version := option_map fst ver;
     bi_major := comp cs 0; bi_minor := comp cs 1; bi_micro := comp cs 2; bi_hfrev := comp cs 3;
     bi_pr_id := pr;
     bi_feature_branch := Some (fp_prefix f ++ "/" ++ fp_label f);
     bi_jira_issue_key := option_map (fun t => cv (fst t)) (fp_ticket f);
     bi_jira_project := option_map (fun t => cv (snd t)) (fp_ticket f) |}.

(* IntegrationBranch.pattern[3:] : "<version>/" + FeatureBranch.pattern[1:] ; the version cannot
   cross a "/", so it is the text before the first one *)
Definition scan_integration_tail (k : bclass) (pr : option N) (r : string) : option branch_info :=
  match split_first "/" r with
  | Some (v, rest) =>
      match parse_version 1 4 v, scan_feature rest with
      | Some cs, Some f => Some (mk_feature_like k pr (Some (v, cs)) false f)
      | _, _ => None
      end
  | None => None
  end.

(* ------------------------------------------------------------------ the ten classes *)

(* cls(repo, name): Some = the object is built, None = BranchNameInvalid *)
Definition match_class (k : bclass) (s : string) : option branch_info :=
  match k with
  | StabilizationBranch => scan_versioned k "stabilization/" 3 3 s
  | DevelopmentBranch => scan_versioned k "development/" 1 2 s
  | ReleaseBranch => scan_versioned k "release/" 2 2 s
  | QueueBranch => scan_versioned k "q/" 1 4 s
  | QueueIntegrationBranch =>
      match strip_prefix "q/w/" s with
      | Some r =>
          match split_first "/" r with
          | Some (p, rest) =>
              if is_num p then scan_integration_tail k (Some (dec_value p)) rest else None
          | None => None
          end
      | None => None
      end
  | FeatureBranch => option_map (mk_feature_like k None None true) (scan_feature s)
  | HotfixBranch => scan_versioned k "hotfix/" 3 3 s
  | LegacyHotfixBranch => scan_labelled k "hotfix/" s
  | IntegrationBranch =>
      match strip_prefix "w/" s with
      | Some r => scan_integration_tail k None r
      | None => None
      end
  | UserBranch => scan_labelled k "user/" s
  end.

Fixpoint first_some {A B} (l : list A) (f : A -> option B) : option B :=
  match l with
  | [] => None
  | x :: r => match f x with Some y => Some y | None => first_some r f end
  end.

(* branch_factory(None, name): the first class, in factory order, whose constructor accepts *)
Definition classify (s : string) : option branch_info := first_some factory (fun k => match_class k s).

(* is_cascade_producer(name) / is_cascade_consumer(name); None = UnrecognizedBranchPattern *)
Definition is_cascade_producer (s : string) : option bool :=
  option_map (fun a => cascade_producer (bi_class a)) (classify s).
Definition is_cascade_consumer (s : string) : option bool :=
  option_map (fun a => cascade_consumer (bi_class a)) (classify s).

(* ------------------------------------------------------------------ names the robot derives *)

Definition format_of (key : string) : option string := assoc key name_formats.

Definition render (key : string) (args : list string) : option string :=
  match format_of key with Some f => fmt_apply f args | None => None end.

(* integration.py: "w/{}/{}".format(dst.version, src) *)
Definition print_w (version src : string) : option string := render "w" [version; src].
(* queueing.py: 'q/{}'.format(dev_branch.version) *)
Definition print_q (version : string) : option string := render "q" [version].
(* queueing.py: 'q/w/{}/{}/{}'.format(pr_id, wbranch_version, src_branch) *)
Definition print_qw (pr : N) (version src : string) : option string :=
  render "qw" [print_N pr; version; src].

(* handle_commit.get_parent_branch(branch_factory(repo, name)):
   isinstance(branch, IntegrationBranch) ? branch.feature_branch : branch.name *)
Definition get_parent_branch (s : string) : option string :=
  match classify s with
  | Some a =>
      if mem_str (class_name (bi_class a)) integration_instances then bi_feature_branch a else Some s
  | None => None
  end.

(* ------------------------------------------------------------------ tripwire literals *)

Definition feature_pattern_tail : string :=
  "(?P<feature_branch>(?P<prefix>(improvement|bugfix|feature|project|documentation|design|dependabot|epic|bug))/(?P<label>(?P<jira_issue_key>(?P<jira_project>[a-zA-Z0-9_]+)-[0-9]+)?(?(jira_issue_key).*|.+)))$".
Definition version4_pattern : string :=
  "(?P<version>(?P<major>\d+)(\.(?P<minor>\d+))?(\.(?P<micro>\d+)(\.(?P<hfrev>\d+))?)?)".

(* the regex text each scanner above was written against *)
Definition pattern_written_against (k : bclass) : string :=
  match k with
  | StabilizationBranch => "^stabilization/(?P<version>(?P<major>\d+)\.(?P<minor>\d+)\.(?P<micro>\d+))$"
  | DevelopmentBranch => "^development/(?P<version>(?P<major>\d+)(\.(?P<minor>\d+))?)$"
  | ReleaseBranch => "^release/(?P<version>(?P<major>\d+)\.(?P<minor>\d+))$"
  | QueueBranch => "^q/" ++ version4_pattern ++ "$"
  | QueueIntegrationBranch => "^q/w/(?P<pr_id>\d+)/" ++ version4_pattern ++ "/" ++ feature_pattern_tail
  | FeatureBranch => "^" ++ feature_pattern_tail
  | HotfixBranch => "^hotfix/(?P<version>(?P<major>\d+)\.(?P<minor>\d+)\.(?P<micro>\d+))$"
  | LegacyHotfixBranch => "^hotfix/(?P<label>.+)$"
  | IntegrationBranch => "^w/" ++ version4_pattern ++ "/" ++ feature_pattern_tail
  | UserBranch => "^user/(?P<label>.+)$"
  end.
