(* The state of the merge queues as Bert-E's own operations build it (queueing.py add_to_queue /
   get_queue_branch / merge_queues, branches.py QueueCollection).  Per destination branch ("version"): the
   master queue branch q/<version> and the queue-integration branches q/w/<pr>/<version>/<src>, newest
   first (the order QueueCollection.finalize sorts them into).  The key of an entry is the rank of its pull
   request in the order of queueing (what _extract_pr_ids reads back from the last version's list); the
   number the git host gave the pull request plays no role.  Executable helpers only, no proofs. *)
From Coq Require Import List Bool Arith.
Require Import BertE.Model.Git BertE.Model.Flow.
Import ListNotations.

Definition qentry := (nat * name)%type.                       (* queueing rank, queue-integration branch *)
Definition qversion := (name * name * list qentry)%type.      (* destination, master queue, entries newest first *)
Definition qstate := list qversion.                           (* in forward-port order (compare_queues) *)

Definition vdest (v : qversion) : name := fst (fst v).
Definition vmaster (v : qversion) : name := snd (fst v).
Definition ventries (v : qversion) : list qentry := snd v.

(* what one pull request asks add_to_queue to do, per target in cascade order:
   (destination, integration branch w - the source branch itself on the first target -, new q/w/ branch) *)
Definition addreq := (name * name * name)%type.
Definition ad (a : addreq) : name := fst (fst a).
Definition aw (a : addreq) : name := snd (fst a).
Definition ai (a : addreq) : name := snd a.

Definition find_version (qs : qstate) (d : name) : option qversion := find (fun v => Nat.eqb (vdest v) d) qs.
Definition find_add (adds : list addreq) (d : name) : option addreq := find (fun a => Nat.eqb (ad a) d) adds.

(* qbranches = [get_queue_branch(job, w.dst_branch) for w in wbranches] zipped with the integration branches:
   the (q, w, qint) triples Flow.add_to_queue runs on.  None = a target without master queue. *)
Fixpoint triples_of (qs : qstate) (adds : list addreq) : option (list (name * name * name)) :=
  match adds with
  | [] => Some []
  | a :: t => match find_version qs (ad a), triples_of qs t with
              | Some v, Some r => Some ((vmaster v, aw a, ai a) :: r)
              | _, _ => None
              end
  end.

(* the queue description after pull request [p] was added: a new newest entry on each of its targets *)
Definition enqueue_version (p : nat) (adds : list addreq) (v : qversion) : qversion :=
  match find_add adds (vdest v) with
  | Some a => (vdest v, vmaster v, (p, ai a) :: ventries v)
  | None => v
  end.
Definition enqueue (p : nat) (adds : list addreq) (qs : qstate) : qstate := map (enqueue_version p adds) qs.

(* get_queue_branch(create=True) on a destination without queue: q/<version> is created at the destination tip *)
Definition create_queue (c : clone) (d q : name) : option clone := copy_ref c d q.

(* one whole add_to_queue of pull request [p] on a (clone, queue description) pair *)
Definition queue_add (sg : list strategy) (p : nat) (adds : list addreq) (s : clone * qstate)
  : option (clone * qstate) :=
  match triples_of (snd s) adds with
  | Some tr => match add_to_queue sg (fst s) tr with
               | Some c' => Some (c', enqueue p adds (snd s))
               | None => None
               end
  | None => None
  end.

(* the selection merge_queues works on when the pull requests of rank <= k are merged (_remove_unmergeable
   pops the entries of the others from the head of every list; merge_queues takes element 0 of what remains;
   a version where nothing remains is not merged) *)
Definition newest_upto (k : nat) (es : list qentry) : option qentry := find (fun e => Nat.leb (fst e) k) es.
Definition select_version (k : nat) (v : qversion) : list (name * name) :=
  match newest_upto k (ventries v) with Some e => [(vdest v, snd e)] | None => [] end.
Definition sel_of (k : nat) (qs : qstate) : list (name * name) := flat_map (select_version k) qs.

(* every robot-owned name of the description, and every rank *)
Definition queue_names (qs : qstate) : list name :=
  map vmaster qs ++ flat_map (fun v => map snd (ventries v)) qs.
Definition all_keys (qs : qstate) : list nat := flat_map (fun v => map fst (ventries v)) qs.

(* the empty queues over (destination, master queue) pairs *)
Definition empty_queues (dqs : list (name * name)) : qstate := map (fun dq => (fst dq, snd dq, [])) dqs.
