(* Model of bert_e/git_host/github/__init__.py: AggregatedWorkflowRuns.remove_unwanted_workflows,
   is_pending, is_queued, branch_state, state; and of Status.state.
   Data (conclusion_ranking, the literals compared against, the priority chain of `state`, the table
   of Status.state) comes from Generated/Facts_C17.v, re-emitted from /repo on every run.
   No proofs in this file. *)
From Coq Require Import List String Bool ZArith.
Require Import BertE.Generated.Facts_C17.
Import ListNotations.
Open Scope string_scope.
Open Scope list_scope.

(* a Python call either returns or raises KeyError (the only exception these functions can raise on
   dicts that carry the five fields) *)
Inductive result (A : Type) : Type := Ok (a : A) | KeyError.
Arguments Ok {A} a.
Arguments KeyError {A}.

(* one element of data['workflow_runs'], restricted to the fields the code reads.
   conclusion None is JSON null; workflow_id is a Python int *)
Record run := mkRun {
  r_event : string;
  r_status : string;
  r_conclusion : option string;
  r_wid : Z;
  r_branch : string }.

Definition oeqb (a b : option string) : bool :=
  match a, b with
  | Some x, Some y => x =? y
  | None, None => true
  | _, _ => false
  end.

(* conclusion_ranking[c]: KeyError (None here) when c is not a key of the dict *)
Fixpoint lookup_rank (c : option string) (tbl : list (option string * Z)) : option Z :=
  match tbl with
  | [] => None
  | (k, v) :: t => if oeqb k c then Some v else lookup_rank c t
  end.
Definition rank (c : option string) : option Z := lookup_rank c conclusion_ranking.

Definition is_dispatch (r : run) : bool := r_event r =? dispatch_event.

(* One iteration of `for run in self._workflow_runs:` on the dict best_runs, kept as an association
   list in insertion order (a Python dict iterates in first-insertion order; assigning to an existing
   key replaces the value and keeps the position).
     if (workflow_id not in best_runs or
             conclusion_ranking[conclusion] > conclusion_ranking[best_runs[workflow_id]['conclusion']]):
         best_runs[workflow_id] = run
   `or` short-circuits: the ranking is only consulted when the workflow id is already present. *)
Fixpoint upsert (best : list (Z * run)) (r : run) : result (list (Z * run)) :=
  match best with
  | [] => Ok [(r_wid r, r)]
  | (w, b) :: t =>
      if (w =? r_wid r)%Z then
        match rank (r_conclusion r), rank (r_conclusion b) with
        | Some x, Some y => Ok (if (y <? x)%Z then (w, r) :: t else (w, b) :: t)
        | _, _ => KeyError
        end
      else match upsert t r with
           | Ok t' => Ok ((w, b) :: t')
           | KeyError => KeyError
           end
  end.

Fixpoint best_runs (best : list (Z * run)) (rs : list run) : result (list (Z * run)) :=
  match rs with
  | [] => Ok best
  | r :: t => match upsert best r with
              | Ok b => best_runs b t
              | KeyError => KeyError
              end
  end.

(* remove_unwanted_workflows: the new value of self._workflow_runs (the early return on an empty list
   gives the same value as the general path) *)
Definition remove_unwanted (rs : list run) : result (list run) :=
  match best_runs [] (filter (fun r => negb (is_dispatch r)) rs) with
  | Ok b => Ok (map snd b)
  | KeyError => KeyError
  end.

Definition is_pending (g : list run) : bool := existsb (fun r => r_status r =? pending_status) g.
Definition is_queued (g : list run) : bool := existsb (fun r => r_status r =? queued_status) g.
Definition all_complete (g : list run) : bool :=
  forallb (fun r => match r_conclusion r with Some _ => true | None => false end) g.
Definition all_success (g : list run) : bool :=
  forallb (fun r => oeqb (r_conclusion r) (Some success_conclusion)) g.

Definition branch_state (g : list run) : string :=
  match g with
  | [] => "NOTSTARTED"
  | _ => if is_pending g || is_queued g || negb (all_complete g) then "INPROGRESS"
         else if all_complete g && all_success g then "SUCCESSFUL"
         else "FAILED"
  end.

(* [list(v) for i, v in itertools.groupby(runs, lambda elem: elem['head_branch'])]: maximal blocks of
   CONSECUTIVE runs with equal head_branch, in order.  (The second case cannot occur: no group is empty.) *)
Fixpoint groups (l : list run) : list (list run) :=
  match l with
  | [] => []
  | r :: t =>
      match groups t with
      | [] => [[r]]
      | [] :: gs => [r] :: gs
      | (r' :: g) :: gs =>
          if r_branch r =? r_branch r' then (r :: r' :: g) :: gs else [r] :: (r' :: g) :: gs
      end
  end.

(* if 'SUCCESSFUL' in status: return 'SUCCESSFUL' elif ... else: return 'NOTSTARTED' *)
Fixpoint pick (chain : list string) (sts : list string) : string :=
  match chain with
  | [] => state_default
  | x :: t => if existsb (String.eqb x) sts then x else pick t sts
  end.

(* the `state` property *)
Definition state (rs : list run) : result string :=
  match remove_unwanted rs with
  | KeyError => KeyError
  | Ok s => Ok (pick state_chain (map branch_state (groups s)))
  end.

(* Status.state: trans[self.data['state']] *)
Fixpoint lookup_trans (raw : option string) (tbl : list (option string * string)) : result string :=
  match tbl with
  | [] => KeyError
  | (k, v) :: t => if oeqb k raw then Ok v else lookup_trans raw t
  end.
Definition status_state (raw : option string) : result string := lookup_trans raw status_trans.

(* The two normalisations behind the reduced enumeration alphabet (lemmas in Proofs/C17Proofs.v):
   the event matters only as dispatch / not, the status only as pending / queued / anything else. *)
Definition norm_event (e : string) : string := if e =? dispatch_event then dispatch_event else "push".
Definition norm_status (s : string) : string :=
  if s =? pending_status then pending_status
  else if s =? queued_status then queued_status else "completed".
Definition norm_run (r : run) : run :=
  mkRun (norm_event (r_event r)) (norm_status (r_status r)) (r_conclusion r) (r_wid r) (r_branch r).
