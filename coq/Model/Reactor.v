(* Model of bert_e/reactor.py (Reactor.init_settings, handle_options, handle_commands, dispatch) and of
   bert_e/workflow/gitwaterflow/__init__.py:handle_comments, with the handlers registered by
   bert_e/workflow/gitwaterflow/commands.py.  The registry (keyword -> option/command, privileged,
   authored, default, handler, arity) and the except -> message tables come from
   Generated/Facts_C07.v, re-emitted from the live objects / AST of /repo on every run.
   ASCII strings (DESIGN 4.1).  No proofs in this file. *)
From Coq Require Import List String Ascii Bool Arith NArith.
Require Import BertE.Base.Str BertE.Base.C07Str BertE.Generated.Facts_C07.
Import ListNotations.
Open Scope string_scope.

Record comment := mk_comment { c_author : string; c_text : string }.

(* job.settings.maps[0]: option key -> value, in insertion order *)
Definition settings := list (string * value).

Fixpoint get_setting (k : string) (s : settings) : option value :=
  match s with
  | [] => None
  | (k', v) :: t => if (k' =? k)%string then Some v else get_setting k t
  end.

Fixpoint set_setting (k : string) (v : value) (s : settings) : settings :=
  match s with
  | [] => [(k, v)]
  | (k', v') :: t => if (k' =? k)%string then (k, v) :: t else (k', v') :: set_setting k v t
  end.

(* what reactor.py / a handler raises *)
Inductive rerror :=
| RNotFound (kw : string)
| RNotPrivileged (kw : string)
| RNotAuthored (kw : string)
| RTypeError                  (* handler called with too many positional arguments *)
| RAttributeError             (* job.settings.after_pull_request is not a set *)
| RBadRegistry                (* a handler registered under the wrong kind: excluded by reg_ok (Proofs) *)
| RRaised (cls : string).     (* a message raised by the handler itself *)

Definition rname (r : rerror) : string :=
  match r with
  | RNotFound _ => "NotFound" | RNotPrivileged _ => "NotPrivileged" | RNotAuthored _ => "NotAuthored"
  | RTypeError => "TypeError" | RAttributeError => "AttributeError" | RBadRegistry => "BadRegistry"
  | RRaised c => c
  end.

(* what handle_comments ends in when it raises: a message class of bert_e/exceptions.py, or an
   exception that no except clause of the loop catches *)
Inductive error := EMsg (cls : string) | EUncaught (name : string).

(* Outcomes carry job.settings.maps[0] as it stands when the call returns or raises: what was applied
   before an exception stays there and is what the message's active_options footer is computed from. *)
Inductive result := Ok (s : settings) | Err (e : error) (s : settings).
Inductive rresult := ROk (s : settings) | RErr (r : rerror) (s : settings).

Definition settings_of (r : result) : settings := match r with Ok s => s | Err _ s => s end.
Definition error_of (r : result) : option error := match r with Ok _ => None | Err e _ => Some e end.

(* Job.active_options: [key for key, val in self.settings.maps[0].items() if val] *)
Definition truthy (v : value) : bool :=
  match v with
  | VBool b => b | VNone => false | VStr s => negb (is_empty s)
  | VSet l => match l with [] => false | _ => true end
  end.
Definition active_options (s : settings) : list string := map fst (filter (fun kv => truthy (snd kv)) s).

(* try: ... except X as err: raise messages.Y(...) from err   (first matching clause) *)
Definition translate (table : list (string * (string * bool))) (r : rerror) : error :=
  match r with
  | RRaised cls => EMsg cls
  | _ => match find (fun p => (fst p =? rname r)%string) table with
         | Some (_, (cls, renders)) =>
             (* TemplateException.__init__ renders the template: a variable the except clause does
                not pass is a jinja2 UndefinedError raised in place of the message *)
             if renders then EMsg cls else EUncaught "UndefinedError"
         | None => EUncaught (rname r)
         end
  end.

(* ------------------------------------------------------------------ registry *)

Definition is_option (e : entry) : bool := match e_kind e with KOption => true | KCommand => false end.

(* Dispatcher.dispatch(key): self.dispatcher.get(key) *)
Definition dispatch (reg : list entry) (key : string) : option entry :=
  find (fun e => (e_key e =? key)%string) reg.

Definition option_names (reg : list entry) : list string := map e_key (filter is_option reg).
Definition command_names (reg : list entry) : list string :=
  map e_key (filter (fun e => negb (is_option e)) reg).

(* gwf.setup(defaults) registers every generic option with default=defaults.get(key, False) and
   bert_e.py calls it with {key: True for key in settings.cmd_line_options}; Facts holds the registry
   of setup({}).  Reactor.init_settings: job.settings[key] = copy(option.default) for every option. *)
Definition default_of (cmdline : list string) (e : entry) : value :=
  match e_handler e with
  | HSetOption => if mem_str (e_key e) cmdline then VBool true else e_default e
  | _ => e_default e
  end.

Fixpoint init_settings (reg : list entry) (cmdline : list string) : settings :=
  match reg with
  | [] => []
  | e :: t => if is_option e then set_setting (e_key e) (default_of cmdline e) (init_settings t cmdline)
              else init_settings t cmdline
  end.

(* ------------------------------------------------------------------ option handlers *)

Definition set_add (a : string) (l : list string) : list string := if mem_str a l then l else l ++ [a].

(* option.handler(job, *args) *)
Definition run_option (e : entry) (args : list string) (s : settings) : rresult :=
  match e_handler e with
  | HSetOption =>
      (* def set_option(job, arg=True): job.settings[key] = arg *)
      match args with
      | [] => ROk (set_setting (e_key e) (VBool true) s)
      | [a] => ROk (set_setting (e_key e) (VStr a) s)
      | _ => RErr RTypeError s
      end
  | HAfterPullRequest =>
      (* def after_pull_request(job, pr_id=None, **kwargs) *)
      match args with
      | [] => RErr (RRaised "IncorrectCommandSyntax") s
      | [a] => if py_int_ok a then
                 match get_setting "after_pull_request" s with
                 | Some (VSet l) => ROk (set_setting "after_pull_request" (VSet (set_add a l)) s)
                 | _ => RErr RAttributeError s
                 end
               else ROk s
      | _ => RErr RTypeError s
      end
  | _ => RErr RBadRegistry s
  end.

(* ------------------------------------------------------------------ Reactor.handle_options *)

Inductive sl_state := SlStart | SlSlash | SlWord | SlSep (allws : bool) | SlFail.

(* separators between two "/keyword" items: [\s,.\-:;|+] *)
Definition is_sep2 (c : ascii) : bool := is_space c || has_char c ",.-:;|+".

(* ^/[\w=]+([\s,.\-:;|+]+/[\w=]+)*\s*$  as a deterministic scanner; SlSep remembers whether the
   separator run read so far is white space only (it may then be the final white space) *)
Definition sl_step (st : sl_state) (c : ascii) : sl_state :=
  match st with
  | SlStart => if (c =? "/")%char then SlSlash else SlFail
  | SlSlash => if is_kw c then SlWord else SlFail
  | SlWord => if is_kw c then SlWord else if is_sep2 c then SlSep (is_space c) else SlFail
  | SlSep b => if is_sep2 c then SlSep (b && is_space c) else if (c =? "/")%char then SlSlash else SlFail
  | SlFail => SlFail
  end.

Fixpoint sl_run (st : sl_state) (s : string) : sl_state :=
  match s with
  | EmptyString => st
  | String c t => sl_run (sl_step st c) t
  end.

Definition sl_accept (st : sl_state) : bool :=
  match st with SlWord => true | SlSep b => b | _ => false end.

Definition slash_syntax (raw : string) : bool := sl_accept (sl_run SlStart raw).

(* re.sub(r'[,.\-/:;|+]', ' ', ...) *)
Definition clean_char (c : ascii) : ascii := if has_char c ",.-/:;|+" then " "%char else c.

(* re.match(r'\s*(?P<keywords>(\s+[\w=]+)+)\s*$', cleaned): at least one white space first, then only
   white space and [\w=], with at least one [\w=] *)
Definition kw_regex (cleaned : string) : bool :=
  head_is is_space cleaned && str_forall (fun c => is_space c || is_kw c) cleaned
  && negb (str_forall is_space cleaned).

(* the keyword list of a comment, None when the comment is ignored for options *)
Definition option_keywords (prefix text : string) : option (list string) :=
  let raw := strip text in
  let body :=
    match strip_prefix prefix raw with
    | Some rest => Some rest                                   (* canonical_raw[len(prefix):] *)
    | None => if slash_syntax raw then Some (String " " raw)   (* canonical_raw = " " + raw, prefix "" *)
              else None
    end in
  match body with
  | None => None
  | Some b => let cleaned := smap clean_char b in
              if kw_regex cleaned then Some (split_ws cleaned) else None
  end.

(* key, *args = kwd.split('=') *)
Definition kw_key (kwd : string) : string := hd "" (split_char "=" kwd).
Definition kw_args (kwd : string) : list string := tl (split_char "=" kwd).

(* for idx, kwd in enumerate(keywords): ...   [first] is idx == 0 *)
Fixpoint apply_keywords (reg : list entry) (privileged authored : bool) (first : bool)
         (kws : list string) (s : settings) : rresult :=
  match kws with
  | [] => ROk s
  | kwd :: rest =>
      let key := kw_key kwd in
      match dispatch reg key with
      | None => RErr (RNotFound key) s
      | Some e =>
          if is_option e then
            if e_priv e && negb privileged then RErr (RNotPrivileged key) s
            else if e_auth e && negb authored then RErr (RNotAuthored key) s
            else match run_option e (kw_args kwd) s with
                 | ROk s' => apply_keywords reg privileged authored false rest s'
                 | RErr r s' => RErr r s'
                 end
          else if first then ROk s       (* it's a command, ignore the whole comment *)
          else RErr (RNotFound key) s
      end
  end.

Definition handle_options (reg : list entry) (prefix : string) (privileged authored : bool)
           (text : string) (s : settings) : rresult :=
  match option_keywords prefix text with
  | None => ROk s
  | Some kws => apply_keywords reg privileged authored true kws s
  end.

(* ------------------------------------------------------------------ Reactor.handle_commands *)

(* re.match(regex, canonical_raw) with regex = prefix + the second literal of
   Facts_C07.regex_handle_commands (white space or colons, then the command group: letters/underscores
   and one more character not in "= ,", then the args group: the rest of the line), applied to what
   follows the (literal) prefix: returns (command, args string).  The greedy run of letters is tried
   first followed by one more character not in "= ,"; otherwise the last letter of the run plays
   that role (the run must then have two letters). *)
Definition cmd_regex (rest : string) : option (string * string) :=
  let r1 := drop_while (fun c => is_space c || (c =? ":")%char) rest in
  let (run, r2) := span is_alpha_ r1 in
  if is_empty run then None else
  let alt := if (2 <=? String.length run)%nat && dotstar_end r2 then Some (run, r2) else None in
  match r2 with
  | String c r3 => if negb (has_char c "= ,") && dotstar_end r3
                   then Some (run ++ String c EmptyString, r3) else alt
  | EmptyString => alt
  end.

(* the command call of a comment: (key, args), None when the comment is ignored for commands *)
Definition command_call (prefix text : string) : option (string * list string) :=
  let raw := strip text in
  let rest :=
    match strip_prefix prefix raw with
    | Some r => Some r
    | None =>                                    (* re.match(r'^/\w', raw) *)
        match raw with
        | String c0 (String c1 t) =>
            if (c0 =? "/")%char && is_word c1
            then Some (String " " (String c1 t))   (* raw.replace("/", "/ ", 1) after the prefix "/" *)
            else None
        | _ => None
        end
    end in
  match rest with
  | None => None
  | Some r => match cmd_regex r with
              | Some (key, args) => Some (key, split_ws args)
              | None => None
              end
  end.

Definition too_many (args : list string) (maxargs : option nat) : bool :=
  match maxargs with None => false | Some n => (n <? List.length args)%nat end.

(* command.handler(job, *args): every registered command raises *)
Definition run_command (e : entry) (args : list string) : rerror :=
  if too_many args (e_maxargs e) then RTypeError else
  match e_handler e with
  | HHelp => RRaised "HelpMessage"
  | HStatus => RRaised "StatusReport"
  | HNotImplemented => RRaised "CommandNotImplemented"
  | HReset => RRaised "Reset"                (* _reset(job, force=False): stubbed, see C15 *)
  | HForceReset => RRaised "ForceReset"      (* _reset(job, force=True) *)
  | _ => RBadRegistry
  end.

(* None: returned normally *)
Definition handle_commands (reg : list entry) (prefix : string) (privileged : bool) (text : string)
  : option rerror :=
  match command_call prefix text with
  | None => None
  | Some (key, args) =>
      match dispatch reg key with
      | None => Some (RNotFound key)
      | Some e =>
          if is_option e then None
          else if e_priv e && negb privileged then Some (RNotPrivileged key)
          else Some (run_command e args)
      end
  end.

(* ------------------------------------------------------------------ gitwaterflow.handle_comments *)

Definition is_privileged (admins : list string) (pr_author author : string) : bool :=
  mem_str author admins && negb (author =? pr_author)%string.

(* first loop: options in every comment, oldest first *)
Fixpoint options_phase (reg : list entry) (prefix : string) (admins : list string) (pr_author : string)
         (cs : list comment) (s : settings) : result :=
  match cs with
  | [] => Ok s
  | c :: t =>
      let author := c_author c in
      match handle_options reg prefix (is_privileged admins pr_author author)
                           (author =? pr_author)%string (c_text c) s with
      | ROk s' => options_phase reg prefix admins pr_author t s'
      | RErr r s' => Err (translate options_except r) s'
      end
  end.

(* second loop: commands, newest first, until a comment of the robot *)
Fixpoint commands_scan (reg : list entry) (prefix robot : string) (admins : list string)
         (pr_author : string) (cs : list comment) : option error :=
  match cs with
  | [] => None
  | c :: t =>
      let author := c_author c in
      if (author =? robot)%string then None else
      match handle_commands reg prefix (is_privileged admins pr_author author) (c_text c) with
      | Some r => Some (translate commands_except r)
      | None => commands_scan reg prefix robot admins pr_author t
      end
  end.

Definition options_result (reg : list entry) (cmdline : list string) (robot : string)
           (admins : list string) (pr_author : string) (cs : list comment) : result :=
  options_phase reg ("@" ++ robot) admins pr_author cs (init_settings reg cmdline).

Definition handle_comments (reg : list entry) (cmdline : list string) (robot : string)
           (admins : list string) (pr_author : string) (cs : list comment) : result :=
  match options_result reg cmdline robot admins pr_author cs with
  | Err e s => Err e s
  | Ok s => match commands_scan reg ("@" ++ robot) robot admins pr_author (rev cs) with
            | Some e => Err e s
            | None => Ok s
            end
  end.
