(* Model of the comment side of a pull-request evaluation (C10):
     bert_e/workflow/pr_utils.py          find_comment, _send_comment, notify_user
     bert_e/workflow/gitwaterflow/__init__.py
                                          handle_pull_request (notify on TemplateException), early_checks,
                                          send_greetings, handle_comments (command loop)
     bert_e/reactor.py                    Reactor.init_settings (copy of the option defaults), option handlers
   Data (message classes with kind and dont_repeat_if_in_history, the command registry with the classes each
   command raises, option defaults, where classes are constructed, the copy in init_settings) comes from
   Generated/Facts_C10.v, re-emitted from /repo on every run.  No proofs in this file.

   Message identity is abstract: a robot message is (class, key, argument id) - everything that determines the
   rendered text; two messages are "the same text" iff these are equal (the code uses str.startswith; see the
   trusted base of C10). *)
From Coq Require Import List String Bool Arith ZArith.
Require Import BertE.Generated.Facts_C10.
Import ListNotations.
Open Scope string_scope.
Open Scope list_scope.

(* ------------------------------------------------------------------------------------------ comments *)

Inductive author := Robot | User (u : nat).

Record msg := mk_msg { m_cls : string; m_key : string; m_arg : nat }.

(* text of a user comment, as far as the command loop can tell: a call "@robot <kw>" or anything else *)
Inductive utext := UPlain (t : nat) | UCall (kw : string).

Inductive body := BMsg (m : msg) | BUser (x : utext).

(* c_id: the identity the git host gives a comment (never reused) *)
Record comment := mk_comment { c_id : nat; c_author : author; c_body : body }.

Definition author_eqb (a b : author) : bool :=
  match a, b with
  | Robot, Robot => true
  | User x, User y => Nat.eqb x y
  | _, _ => false
  end.

Definition msg_eqb (a b : msg) : bool :=
  String.eqb (m_cls a) (m_cls b) && String.eqb (m_key a) (m_key b) && Nat.eqb (m_arg a) (m_arg b).

Definition utext_eqb (a b : utext) : bool :=
  match a, b with
  | UPlain x, UPlain y => Nat.eqb x y
  | UCall x, UCall y => String.eqb x y
  | _, _ => false
  end.

Definition body_eqb (a b : body) : bool :=
  match a, b with
  | BMsg x, BMsg y => msg_eqb x y
  | BUser x, BUser y => utext_eqb x y
  | _, _ => false
  end.

Definition is_robot (c : comment) : bool := author_eqb (c_author c) Robot.

(* ------------------------------------------------------------------------------------- find_comment *)

(* what find_comment returns; islice(..., 0, n) with n < 0 (other than the special -1) is a ValueError *)
Inductive fc_result := FcFound (c : comment) | FcNone | FcValueError.

(* `comment.author != username` with username=None is true for every comment *)
Definition username_matches (username : option author) (c : comment) : bool :=
  match username with
  | None => false
  | Some a => author_eqb (c_author c) a
  end.

(* the for loop over the (already reversed and possibly truncated) comments:
     if comment.author != username: continue
     if startswith and not comment.text.startswith(startswith):
         if max_history == -1: return
         continue
     return comment *)
Fixpoint fc_scan (stop_at_first : bool) (username : option author) (sw : option body)
         (newest_first : list comment) : option comment :=
  match newest_first with
  | [] => None
  | c :: t =>
    if negb (username_matches username c) then fc_scan stop_at_first username sw t
    else match sw with
         | None => Some c
         | Some b => if body_eqb (c_body c) b then Some c
                     else if stop_at_first then None
                     else fc_scan stop_at_first username sw t
         end
  end.

Definition of_option (o : option comment) : fc_result :=
  match o with Some c => FcFound c | None => FcNone end.

(* max_history: None (Python None) = whole history; Some (-1) = stop at the first comment of `username` that
   does not match; Some n (n >= 0) = the n newest comments only *)
Definition find_comment (cs : list comment) (username : option author) (sw : option body)
           (max_history : option Z) : fc_result :=
  let newest := rev cs in
  match max_history with
  | None => of_option (fc_scan false username sw newest)
  | Some z =>
    if Z.eqb z (-1) then of_option (fc_scan true username sw newest)
    else if Z.ltb z 0 then FcValueError
    else of_option (fc_scan false username sw (firstn (Z.to_nat z) newest))
  end.

(* ------------------------------------------------------------------------------------ _send_comment *)

Inductive send_result :=
| Posted (c : comment)       (* pull_request.add_comment(msg) *)
| Suppressed                 (* CommentAlreadyExists *)
| NotSent                    (* settings.no_comment *)
| SendValueError.

(* `if dont_repeat_if_in_history:` - Python truthiness: None and 0 are false, every other int is true *)
Definition truthy (p : option Z) : bool :=
  match p with
  | None => false
  | Some z => negb (Z.eqb z 0)
  end.

(* settings.interactive is false (server mode) *)
Definition send_comment (no_comment : bool) (cs : list comment) (next : nat) (m : msg) (p : option Z)
  : send_result :=
  if no_comment then NotSent
  else
    let c := mk_comment next Robot (BMsg m) in
    if truthy p then
      match find_comment cs (Some Robot) (Some (BMsg m)) p with
      | FcFound _ => Suppressed
      | FcValueError => SendValueError
      | FcNone => Posted c
      end
    else Posted c.

(* ---------------------------------------------------------------------------------- message classes *)

Definition class_entry (cls : string) : option (string * Z * string * option Z) :=
  find (fun e => String.eqb (fst (fst (fst e))) cls) message_classes.

(* dont_repeat_if_in_history of a class that notify_user can be given (a TemplateException subclass) *)
Definition class_policy (cls : string) : option (option Z) :=
  match class_entry cls with
  | Some (_, _, k, p) => if String.eqb k "template" then Some p else None
  | None => None
  end.

(* notify_user: CommentAlreadyExists is caught; (the bot status is not a comment and is not modelled) *)
Inductive notify_result := NPosted (c : comment) | NQuiet | NError.

Definition notify (no_comment : bool) (cs : list comment) (next : nat) (m : msg) : notify_result :=
  match class_policy (m_cls m) with
  | None => NError
  | Some p =>
    match send_comment no_comment cs next m p with
    | Posted c => NPosted c
    | Suppressed | NotSent => NQuiet
    | SendValueError => NError
    end
  end.

(* ------------------------------------------------------------------------------- the command registry *)

Definition command_entry (kw : string) : option (bool * list string * bool) :=
  match find (fun e => String.eqb (fst e) kw) commands with
  | Some (_, d) => Some d
  | None => None
  end.

Definition is_command (kw : string) : bool :=
  match command_entry kw with Some _ => true | None => false end.

Definition is_option (kw : string) : bool :=
  existsb (fun e => String.eqb (fst (fst e)) kw) options.

Definition command_classes (kw : string) : list string :=
  match command_entry kw with Some (_, cl, _) => cl | None => [] end.

Definition command_always_raises (kw : string) : bool :=
  match command_entry kw with Some (_, _, a) => a | None => false end.

Definition command_privileged (kw : string) : bool :=
  match command_entry kw with Some (p, _, _) => p | None => false end.

(* ------------------------------------------------------------------------ one evaluation (comments) *)

(* What the rest of the system contributes to one evaluation of a pull request (the world at that moment). *)
Record oracle := mk_oracle {
  o_early : option (option msg);        (* early_checks: None = proceeds; Some None = silent stop (NothingToDo,
                                           NotMyJob); Some (Some m) = raises the template message m *)
  o_opt   : option msg;                 (* message raised by the option loop of handle_comments, if any *)
  o_reply : list (string * msg);        (* command keyword -> message its handler raises in this world;
                                           absent = the handler returns *)
  o_rest  : list msg                    (* notifications of the rest of the evaluation, in order
                                           (IntegrationDataCreated ..., then the final template message) *)
}.

Definition reply_of (o : oracle) (kw : string) : option msg :=
  match find (fun e => String.eqb (fst e) kw) (o_reply o) with
  | Some (_, m) => Some m
  | None => None
  end.

(* comments posted after the robot's last one, newest first:
     for comment in reversed(comments): if author == robot: return *)
Fixpoint pending_from (newest_first : list comment) : list comment :=
  match newest_first with
  | [] => []
  | c :: t => if is_robot c then [] else c :: pending_from t
  end.

Definition pending (cs : list comment) : list comment := pending_from (rev cs).

Inductive scan_result :=
| ScanDone (executed : list nat)                 (* the loop ended; ids of the comments whose handler ran *)
| ScanRaise (executed : list nat) (m : msg).     (* a handler (or the dispatch) raised m *)

(* Reactor.handle_commands on each pending comment: a registered command runs its handler; an option keyword
   is ignored; an unknown keyword is NotFound -> UnknownCommand(command, author, comment). *)
Fixpoint scan_commands (o : oracle) (l : list comment) (ex : list nat) : scan_result :=
  match l with
  | [] => ScanDone ex
  | c :: t =>
    match c_author c, c_body c with
    | User u, BUser (UCall kw) =>
      if is_command kw then
        match reply_of o kw with
        | Some m => ScanRaise (ex ++ [c_id c]) m
        | None => scan_commands o t (ex ++ [c_id c])
        end
      else if is_option kw then scan_commands o t ex
      else ScanRaise ex (mk_msg "UnknownCommand" kw u)
    | _, _ => scan_commands o t ex
    end
  end.

(* comment list, next comment id, comments appended so far *)
Record run := mk_run { r_cs : list comment; r_next : nat; r_app : list comment }.

Definition do_notify (nc : bool) (r : run) (m : msg) : option run :=
  match notify nc (r_cs r) (r_next r) m with
  | NPosted c => Some (mk_run (r_cs r ++ [c]) (S (r_next r)) (r_app r ++ [c]))
  | NQuiet => Some r
  | NError => None
  end.

Fixpoint do_notify_all (nc : bool) (r : run) (ms : list msg) : option run :=
  match ms with
  | [] => Some r
  | m :: t => match do_notify nc r m with
              | Some r' => do_notify_all nc r' t
              | None => None
              end
  end.

Definition init_message : msg := mk_msg "InitMessage" "" 0.

(* send_greetings: if find_comment(pull_request, username=robot): return; notify_user(InitMessage) *)
Definition greet (nc : bool) (r : run) : option run :=
  match find_comment (r_cs r) (Some Robot) None None with
  | FcFound _ => Some r
  | FcNone => do_notify nc r init_message
  | FcValueError => None
  end.

(* handle_pull_request on a pull request not authored by the robot.  Result: ids of the command comments whose
   handler was entered, and the comments appended (None: the oracle supplied something that is not a postable
   message class). *)
Definition eval_step (nc : bool) (o : oracle) (cs : list comment) (next : nat)
  : option (list nat * list comment) :=
  let r0 := mk_run cs next [] in
  match o_early o with
  | Some None => Some ([], [])
  | Some (Some m) => match do_notify nc r0 m with Some r => Some ([], r_app r) | None => None end
  | None =>
    match greet nc r0 with
    | None => None
    | Some r1 =>
      match o_opt o with
      | Some m => match do_notify nc r1 m with Some r => Some ([], r_app r) | None => None end
      | None =>
        match scan_commands o (pending (r_cs r1)) [] with
        | ScanRaise ex m => match do_notify nc r1 m with Some r => Some (ex, r_app r) | None => None end
        | ScanDone ex => match do_notify_all nc r1 (o_rest o) with
                         | Some r => Some (ex, r_app r)
                         | None => None
                         end
        end
      end
    end
  end.

(* ------------------------------------------------------------------------ histories of a pull request *)

Inductive event :=
| EvComment (u : nat) (x : utext)       (* a user posts a comment *)
| EvDelete (i : nat)                    (* a user deletes his comment i (the robot's comments stay) *)
| EvEval (o : oracle).                  (* Bert-E evaluates the pull request in the world described by o *)

Record world := mk_world {
  w_cs   : list comment;
  w_next : nat;
  w_log  : list nat;                               (* ids of executed command comments, in order *)
  w_evals : list (list nat * list comment)          (* (executed, appended) of every evaluation so far *)
}.

Definition world0 : world := mk_world [] 0 [] [].

Definition keep_on_delete (i : nat) (c : comment) : bool := is_robot c || negb (Nat.eqb (c_id c) i).

Definition step (nc : bool) (w : world) (e : event) : option world :=
  match e with
  | EvComment u x =>
    Some (mk_world (w_cs w ++ [mk_comment (w_next w) (User u) (BUser x)]) (S (w_next w)) (w_log w) (w_evals w))
  | EvDelete i =>
    Some (mk_world (filter (keep_on_delete i) (w_cs w)) (w_next w) (w_log w) (w_evals w))
  | EvEval o =>
    match eval_step nc o (w_cs w) (w_next w) with
    | Some (ex, app) =>
      Some (mk_world (w_cs w ++ app) (w_next w + List.length app) (w_log w ++ ex) (w_evals w ++ [(ex, app)]))
    | None => None
    end
  end.

Fixpoint run_trace (nc : bool) (w : world) (tr : list event) : option world :=
  match tr with
  | [] => Some w
  | e :: t => match step nc w e with
              | Some w' => run_trace nc w' t
              | None => None
              end
  end.

(* --------------------------------------------------- which classes are posted unconditionally (Facts) *)

(* _send_comment posts without looking at the history iff the policy is falsy *)
Definition always_post (cls : string) : bool :=
  match class_policy cls with
  | Some p => negb (truthy p)
  | None => false
  end.

(* the reply to a command is certain to be posted (the newest comment is then the user's command):
   falsy policy, or policy 1 (only the newest comment is looked at) *)
Definition reply_certain (cls : string) : bool :=
  match class_policy cls with
  | Some None => true
  | Some (Some z) => Z.eqb z 0 || Z.eqb z 1
  | None => false
  end.

Definition command_ok (e : string * (bool * list string * bool)) : bool :=
  let '(_, (_, classes, always)) := e in always && forallb reply_certain classes.

(* the switch: every registered command always raises a message that is certain to be posted *)
Definition replies_always_posted : bool := forallb command_ok commands.

(* (searched from the end of the registry: `reset` / ResetComplete is the shape seen in production) *)
Definition bad_command : option (string * (bool * list string * bool)) :=
  find (fun e => negb (command_ok e)) (rev commands).

(* classes constructed outside the command handlers and outside send_greetings *)
Definition rest_classes : list string :=
  map fst (filter (fun e => negb (forallb (fun f => String.eqb f "bert_e.workflow.gitwaterflow:send_greetings")
                                          (snd e))) noncommand_sites).

(* ... of which those that are posted unconditionally: nothing in pr_utils prevents these from being posted
   twice in a row; only the state of the repository does *)
Definition unguarded_repeatable : list string := filter always_post rest_classes.

(* an oracle that respects the Facts *)
Definition oracle_okb (o : oracle) : bool :=
  forallb (fun e => is_command (fst e) && existsb (String.eqb (m_cls (snd e))) (command_classes (fst e)))
          (o_reply o)
  && forallb (fun e => negb (command_always_raises (fst e))
                       || match reply_of o (fst e) with Some _ => true | None => false end) commands
  && forallb (fun m => existsb (String.eqb (m_cls m)) rest_classes)
             (o_rest o ++ match o_opt o with Some m => [m] | None => [] end
                       ++ match o_early o with Some (Some m) => [m] | _ => [] end).

Fixpoint oracles_okb (tr : list event) : bool :=
  match tr with
  | [] => true
  | EvEval o :: t => oracle_okb o && oracles_okb t
  | _ :: t => oracles_okb t
  end.

Fixpoint nodupb (l : list nat) : bool :=
  match l with
  | [] => true
  | x :: t => negb (existsb (Nat.eqb x) t) && nodupb t
  end.

(* -------------------------------------------- witnesses computed from the Facts (F4 shape, if present) *)

Definition witness_oracle (kw : string) (reply : option msg) : oracle :=
  mk_oracle None None
            (map (fun e => (fst e, match command_classes (fst e) with
                                   | c :: _ => mk_msg c "" 0
                                   | [] => mk_msg "" "" 0
                                   end))
                 (filter (fun e => negb (String.eqb (fst e) kw)) commands)
             ++ match reply with Some m => [(kw, m)] | None => [] end)
            [].

(* greeting; the command; its evaluation (reply posted); the same command again; two evaluations *)
Definition witness_trace (kw : string) (reply : option msg) : list event :=
  let o := witness_oracle kw reply in
  [EvEval o; EvComment 1 (UCall kw); EvEval o; EvComment 1 (UCall kw); EvEval o; EvEval o].

Definition bad_witness : option (list event) :=
  match bad_command with
  | None => None
  | Some (kw, (_, classes, always)) =>
    if negb always then Some (witness_trace kw None)
    else match find (fun c => negb (reply_certain c)) (rev classes) with
         | Some c => Some (witness_trace kw (Some (mk_msg c "" 0)))
         | None => None
         end
  end.

(* ------------------------------------------------- Reactor.init_settings and the option handlers *)

(* value of an option default in Reactor.__callbacks__ *)
Inductive dval := DBool (b : bool) | DNone | DSet (l : list string).

(* value of job.settings[key]: a set is either the job's own object or the very object stored as the
   default in the registry (when init_settings does not copy) *)
Inductive sval := SBool (b : bool) | SNone | SOwn (l : list string) | SShared.

Inductive vval := VBool (b : bool) | VNone | VSet (l : list string).   (* what the job reads *)

Definition registry := list (string * dval).

Definition dval_of_shape (s : string) : option dval :=
  if String.eqb s "bool:true" then Some (DBool true)
  else if String.eqb s "bool:false" then Some (DBool false)
  else if String.eqb s "none" then Some DNone
  else if String.eqb s "emptyset" then Some (DSet [])
  else None.

(* the registry right after gwf.setup({}) *)
Fixpoint registry_of (l : list (string * string * bool)) : option registry :=
  match l with
  | [] => Some []
  | (k, s, _) :: t => match dval_of_shape s, registry_of t with
                      | Some d, Some r => Some ((k, d) :: r)
                      | _, _ => None
                      end
  end.

Definition mutates_in_place (k : string) : bool :=
  existsb (fun e => String.eqb (fst (fst e)) k && snd e) options.

(* for key, option in get_options().items(): job.settings[key] = copy(option.default)   /   = option.default *)
Definition init_settings (copies : bool) (reg : registry) : list (string * sval) :=
  map (fun e => (fst e, match snd e with
                        | DBool b => SBool b
                        | DNone => SNone
                        | DSet l => if copies then SOwn l else SShared
                        end)) reg.

Fixpoint lookup {A} (k : string) (l : list (string * A)) : option A :=
  match l with
  | [] => None
  | (k', v) :: t => if String.eqb k' k then Some v else lookup k t
  end.

Fixpoint update {A} (k : string) (v : A) (l : list (string * A)) : list (string * A) :=
  match l with
  | [] => []
  | (k', v') :: t => if String.eqb k' k then (k', v) :: t else (k', v') :: update k v t
  end.

Definition set_add (x : string) (l : list string) : list string :=
  if existsb (String.eqb x) l then l else l ++ [x].

(* one option call `key` / `key=arg` found in a comment (who may use it is C07's subject) *)
Definition opt_call := (string * string)%type.

(* set_option: job.settings[key] = arg (a new binding);  a handler that mutates in place (after_pull_request):
   job.settings.<key>.add(arg) *)
Definition apply_call (s : list (string * sval)) (reg : registry) (c : opt_call)
  : option (list (string * sval) * registry) :=
  let (k, x) := c in
  if mutates_in_place k then
    match lookup k s with
    | Some (SOwn l) => Some (update k (SOwn (set_add x l)) s, reg)
    | Some SShared =>
      match lookup k reg with
      | Some (DSet l) => Some (s, update k (DSet (set_add x l)) reg)
      | _ => None
      end
    | _ => None       (* AttributeError: not a set *)
    end
  else match lookup k s with
       | Some _ => Some (update k (SBool true) s, reg)
       | None => None
       end.

Fixpoint apply_calls (s : list (string * sval)) (reg : registry) (cl : list opt_call)
  : option (list (string * sval) * registry) :=
  match cl with
  | [] => Some (s, reg)
  | c :: t => match apply_call s reg c with
              | Some (s', reg') => apply_calls s' reg' t
              | None => None
              end
  end.

Definition view (s : list (string * sval)) (reg : registry) : list (string * vval) :=
  map (fun e => (fst e, match snd e with
                        | SBool b => VBool b
                        | SNone => VNone
                        | SOwn l => VSet l
                        | SShared => match lookup (fst e) reg with Some (DSet l) => VSet l | _ => VNone end
                        end)) s.

(* the settings one job ends up with, and the registry it leaves behind in the long-lived process *)
Definition job_settings (copies : bool) (reg : registry) (cl : list opt_call)
  : option (list (string * vval) * registry) :=
  match apply_calls (init_settings copies reg) reg cl with
  | Some (s, reg') => Some (view s reg', reg')
  | None => None
  end.

(* a sequence of jobs on one instance *)
Fixpoint after_jobs (copies : bool) (reg : registry) (jobs : list (list opt_call)) : option registry :=
  match jobs with
  | [] => Some reg
  | cl :: t => match job_settings copies reg cl with
               | Some (_, reg') => after_jobs copies reg' t
               | None => None
               end
  end.

Definition registry0 : option registry := registry_of options.
