(* Per-author grants: bert_e/settings.py (PrAuthorsOptions.deserialize, the loader of the `pr_author_options`
   section) and bert_e/job.py (PullRequestJob.author_bypass, read through `.get(name, False)` by
   workflow/gitwaterflow/utils.py).  This is where the input "granted by per-author settings" of the gate models
   (Approvals, BuildGate, Jira, Reactor) comes from.

     names   PrAuthorsOptions.BYPASS_LIST (Generated/Facts_C07.v)
     cfg     the section as written: (user, listed bypass names) in file order; a mapping, so users are distinct

   The loader walks the users in order and raises IncorrectSettingsFile at the first listed name that is not in
   BYPASS_LIST; otherwise every user gets a row {name: name in listed} over BYPASS_LIST.
   Executable; no proofs here (Proofs/AuthorOptsProofs.v). *)
From Coq Require Import List String Bool.
Import ListNotations.
Open Scope string_scope.

Definition mem_str (k : string) (l : list string) : bool := existsb (String.eqb k) l.

Fixpoint assoc {A : Type} (k : string) (l : list (string * A)) : option A :=
  match l with
  | [] => None
  | (k', v) :: t => if String.eqb k k' then Some v else assoc k t
  end.

Definition ao_row (names listed : list string) : list (string * bool) :=
  map (fun k => (k, mem_str k listed)) names.

Inductive load_result :=
| LoadError (elem : string)
| Loaded (table : list (string * list (string * bool))).

Fixpoint ao_load (names : list string) (cfg : list (string * list string)) : load_result :=
  match cfg with
  | [] => Loaded []
  | (u, l) :: t =>
      match find (fun e => negb (mem_str e names)) l with
      | Some e => LoadError e
      | None => match ao_load names t with
                | LoadError e => LoadError e
                | Loaded tb => Loaded ((u, ao_row names l) :: tb)
                end
      end
  end.

(* job.author_bypass.get(key, False) *)
Definition ao_granted (tb : list (string * list (string * bool))) (author key : string) : bool :=
  match assoc author tb with
  | Some r => match assoc key r with Some b => b | None => false end
  | None => false
  end.

(* what the harness compares: the error, or for each asked author the granted names in BYPASS_LIST order *)
Definition ao_outcome (names : list string) (cfg : list (string * list string)) (authors : list string)
  : string + list (list string) :=
  match ao_load names cfg with
  | LoadError e => inl e
  | Loaded tb => inr (map (fun a => filter (ao_granted tb a) names) authors)
  end.
