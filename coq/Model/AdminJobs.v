(* Model/AdminJobs.v - the decision logic of the five admin jobs
     bert_e/jobs/create_branch.py  delete_branch.py  delete_queues.py  rebuild_queues.py  force_merge_queues.py
   and what they use of bert_e/workflow/gitwaterflow/branches.py (BranchCascade.build / validate /
   get_development_branches without destination, DevelopmentBranch ordering, QueueCollection.queued_prs /
   has_version_queued_prs), as pure functions over a repository view:

     repo      the commit DAG of Model/Git.v, the remote heads (name, tip) in `git ls-remote` order, the tags
     qentry    one item of QueueCollection._queues after build(): version_t, "a q/<version> branch exists",
               the pull request ids of the q/w/<id>/<version>/... branches, newest first (finalize)
     bfrom     settings.branch_from: absent/empty, a branch name, a sha (None = git does not know it)
     fails     which remote operation of the job is refused by the server (index = order of issue)

   Every function returns the remote mutations it issued, in order, and how the job ended:
   NothingToDo | JobFailure <raise site> | JobSuccess | NotMyJob | Crashed <exception class> - the last one
   stands for the exceptions that are not caught by the handler (IndexError on an empty list of development
   branches, BranchCreationFailedException, PushFailedException after the retries, ...); nothing is silently
   totalised.  The checks are in the order of the code.  Names are classified by Model/Names.v (C18).
   Data taken from Generated/Facts_C20.v: archive tag suffix, start tag suffix, name heads, raise-site table.
   The cascade is computed from the *set* of branches (sorted distinct lines, slot lookup): the discovery order
   of BranchCascade.build never matters (C09_order_indep_nodst) and the only error of add_branch is the same
   whichever duplicate is met first.  No proofs in this file. *)
From Coq Require Import List String Ascii Bool Arith NArith.
Require Import BertE.Base.Str BertE.Model.Names BertE.Model.Git BertE.Generated.Facts_C20.
Import ListNotations.
Open Scope string_scope.

(* ------------------------------------------------------------------ destination branches *)

Inductive dkind := KDev | KStab | KHotfix.

Definition dkind_eqb (a b : dkind) : bool :=
  match a, b with KDev, KDev | KStab, KStab | KHotfix, KHotfix => true | _, _ => false end.

(* what the handlers read from branch_factory(repo, name): class, int(major) ..., the raw version text *)
Record dest := mkDest {
  d_kind : dkind; d_major : N; d_minor : option N; d_micro : option N; d_version : string }.

Definition key := (N * option N)%type.          (* the key of BranchCascade._cascade *)
Definition dkey (d : dest) : key := (d_major d, d_minor d).

Definition optN_eqb (a b : option N) : bool :=
  match a, b with None, None => true | Some x, Some y => (x =? y)%N | _, _ => false end.
Definition key_eqb (a b : key) : bool := (fst a =? fst b)%N && optN_eqb (snd a) (snd b).

(* compare_branches(a, b) < 0, and DevelopmentBranch.__lt__: development/<major> after every
   development/<major>.<minor> *)
Definition key_lt (a b : key) : bool :=
  if (fst a =? fst b)%N then
    match snd a, snd b with
    | Some m1, Some m2 => (m1 <? m2)%N
    | Some _, None => true
    | None, _ => false
    end
  else (fst a <? fst b)%N.

Definition opt_default (o : option N) : N := match o with Some n => n | None => 0%N end.

(* isinstance(branch, DevelopmentBranch | StabilizationBranch | HotfixBranch) on a classified name;
   None = another class.  (StabilizationBranch is a subclass of DevelopmentBranch in the code: every test
   of the handlers that means "plain development branch" excludes it explicitly, as [d_kind] does.) *)
Definition dest_of (a : branch_info) : option dest :=
  let mk k := Some (mkDest k (opt_default (bi_major a)) (bi_minor a) (bi_micro a)
                           (match bi_version a with Some v => v | None => "" end)) in
  match bi_class a with
  | DevelopmentBranch => mk KDev
  | StabilizationBranch => mk KStab
  | HotfixBranch => mk KHotfix
  | _ => None
  end.

Definition parse_dest (name : string) : option dest :=
  match classify name with Some a => dest_of a | None => None end.

(* ------------------------------------------------------------------ repository view *)

Record repo := mkRepo {
  r_st : store;
  r_heads : list (string * cid);
  r_tags : list (string * cid) }.

Fixpoint assoc_str {A} (n : string) (l : list (string * A)) : option A :=
  match l with
  | [] => None
  | (k, v) :: t => if (k =? n)%string then Some v else assoc_str n t
  end.

Definition head_names (r : repo) : list string := map fst (r_heads r).
Definition tag_names (r : repo) : list string := map fst (r_tags r).

(* the destination heads, as (parsed name, name, tip) *)
Definition dests (heads : list (string * cid)) : list (dest * string * cid) :=
  flat_map (fun h => match parse_dest (fst h) with Some d => [(d, fst h, snd h)] | None => [] end) heads.

(* BranchCascade.build(repo) without destination: hotfix branches never enter the cascade *)
Definition cascade_member (x : dest * string * cid) : bool :=
  negb (dkind_eqb (d_kind (fst (fst x))) KHotfix).

Definition same_slot (d : dest) (x : dest * string * cid) : bool :=
  dkind_eqb (d_kind d) (d_kind (fst (fst x))) && key_eqb (dkey d) (dkey (fst (fst x))).

(* ------------------------------------------------------------------ the cascade *)

Inductive verr :=
| UnsupportedMultipleStabBranches | DeprecatedStabilizationBranch
| DevBranchDoesNotExist | VersionMismatch | DevBranchesNotSelfContained.

(* sorted distinct keys: OrderedDict(sorted(items, key=cmp_to_key(compare_branches))) *)
Fixpoint insert_key (k : key) (l : list key) : list key :=
  match l with
  | [] => [k]
  | h :: t => if key_lt k h then k :: l else if key_eqb k h then l else h :: insert_key k t
  end.
Definition sort_keys (l : list key) : list key := fold_right insert_key [] l.

Definition members (ds : list (dest * string * cid)) := filter cascade_member ds.

Definition line_keys (ds : list (dest * string * cid)) : list key :=
  sort_keys (map (fun x => dkey (fst (fst x))) (members ds)).

Definition slot (k : dkind) (key0 : key) (ds : list (dest * string * cid)) : option (dest * string * cid) :=
  find (fun x => dkind_eqb (d_kind (fst (fst x))) k && key_eqb (dkey (fst (fst x))) key0) (members ds).

(* add_branch: a second branch of the same class on the same line *)
Definition multiple (ds : list (dest * string * cid)) : bool :=
  existsb (fun x => (1 <? List.length (filter (same_slot (fst (fst x))) (members ds)))%nat) (members ds).

(* update_versions: r"^v?(\d+)\.(\d+)\.(\d+)(\.(\d+)|)$" on one line of `git tag` *)
Definition parse_tag (t : string) : option (N * N * N) :=
  let t0 := match t with String "v"%char r => r | _ => t end in
  match parse_version 3 4 t0 with
  | Some cs => match comp cs 0, comp cs 1, comp cs 2 with
               | Some x, Some y, Some z => Some (x, y, z)
               | _, _, _ => None
               end
  | None => None
  end.

Definition ptags (tags : list string) : list (N * N * N) :=
  flat_map (fun t => match parse_tag t with Some p => [p] | None => [] end) tags.

Definition tag_on (k : key) (p : N * N * N) : bool := key_eqb k (fst (fst p), Some (snd (fst p))).

(* a tag x.y.z[.n] with z >= the micro of stabilization/x.y.* *)
Definition deprecated (ds : list (dest * string * cid)) (ts : list (N * N * N)) : bool :=
  existsb (fun x => dkind_eqb (d_kind (fst (fst x))) KStab &&
                    existsb (fun p => tag_on (dkey (fst (fst x))) p &&
                                      (opt_default (d_micro (fst (fst x))) <=? snd p)%N) ts) (members ds).

(* dev_branch.micro + 1 after all tags: class default -1, then max(micro, ...) *)
Definition next_micro (k : key) (ts : list (N * N * N)) : N :=
  fold_right (fun p acc => if tag_on k p then N.max (snd p + 1) acc else acc) 0%N ts.

(* cascade.build(): the two exceptions it can raise without a destination *)
Definition build_error (ds : list (dest * string * cid)) (ts : list (N * N * N)) : option verr :=
  if multiple ds then Some UnsupportedMultipleStabBranches
  else if deprecated ds ts then Some DeprecatedStabilizationBranch
  else None.

(* BranchCascade.validate() over the lines in order *)
Fixpoint validate_loop (s : store) (ds : list (dest * string * cid)) (ts : list (N * N * N))
         (ks : list key) (prev : option cid) : option verr :=
  match ks with
  | [] => None
  | k :: rest =>
      match slot KDev k ds with
      | None => Some DevBranchDoesNotExist
      | Some (_, _, dc) =>
          let stab_err :=
            match slot KStab k ds with
            | Some (sd, _, sc) =>
                if negb (next_micro k ts =? opt_default (d_micro sd))%N then Some VersionMismatch
                else if negb (anc s sc dc) then Some DevBranchesNotSelfContained
                else None
            | None => None
            end in
          match stab_err with
          | Some e => Some e
          | None =>
              match prev with
              | Some p => if negb (anc s p dc) then Some DevBranchesNotSelfContained
                          else validate_loop s ds ts rest (Some dc)
              | None => validate_loop s ds ts rest (Some dc)
              end
          end
      end
  end.

Definition validate (s : store) (ds : list (dest * string * cid)) (ts : list (N * N * N)) : option verr :=
  validate_loop s ds ts (line_keys ds) None.

(* cascade.get_development_branches(): in cascade order *)
Definition dev_branches (ds : list (dest * string * cid)) : list (dest * string * cid) :=
  flat_map (fun k => match slot KDev k ds with Some x => [x] | None => [] end) (line_keys ds).

(* ------------------------------------------------------------------ the queue collection *)

Record qentry := mkQ {
  q_major : N; q_minor : option N; q_micro : option N; q_hfrev : option N;
  q_master : bool;            (* _queues[v][QueueBranch] is not None *)
  q_prs : list N }.           (* pr_id of _queues[v][QueueIntegrationBranch], in list order *)

(* len(version_t) *)
Definition qlen (e : qentry) : nat :=
  match q_micro e, q_hfrev e with
  | None, _ => 2
  | Some _, None => 3
  | Some _, Some _ => 4
  end.

Definition memN (x : N) (l : list N) : bool := existsb (N.eqb x) l.

(* QueueCollection.queued_prs *)
Definition queued_prs (qs : list qentry) : list N :=
  let rq := rev qs in
  let pr_ids := match find (fun e => (qlen e <? 4)%nat) rq with
                | Some e => rev (q_prs e)
                | None => []
                end in
  let pr_hf := fold_left (fun acc e =>
                 if (qlen e =? 4)%nat
                 then fold_left (fun a p => if memN p a then a else p :: a) (q_prs e) acc
                 else acc) rq [] in
  (pr_hf ++ filter (fun p => negb (memN p pr_hf)) pr_ids)%list.

(* QueueCollection.has_version_queued_prs(del_branch.version_t): `.get(QueueIntegrationBranch) is not None`
   holds as soon as the version has an entry, even with an empty list *)
Definition has_version_queued_prs (d : dest) (qs : list qentry) : bool :=
  match d_kind d with
  | KHotfix =>      (* version_t = (major, minor, micro, -1): match on the first three *)
      existsb (fun e => (qlen e =? 4)%nat && (q_major e =? d_major d)%N &&
                        optN_eqb (q_minor e) (d_minor d) && optN_eqb (q_micro e) (d_micro d)) qs
  | KStab =>
      existsb (fun e => (qlen e =? 3)%nat && (q_major e =? d_major d)%N &&
                        optN_eqb (q_minor e) (d_minor d) && optN_eqb (q_micro e) (d_micro d)) qs
  | KDev =>
      existsb (fun e => (qlen e =? 2)%nat && (q_major e =? d_major d)%N &&
                        optN_eqb (q_minor e) (d_minor d)) qs
  end.

(* ------------------------------------------------------------------ outcomes *)

(* the `raise exceptions.JobFailure` statements, named; [site_*] gives their ordinal among the raise
   statements of the handler (Facts_C20.raise_sites) *)
Inductive reason :=
| RNotGWF | RNotDestination | RArchiveTag | RBranchFromOutside | RNoSupportingDev | RQueuedData
| RNotConform (e : verr) | RPushRefused            (* create_branch; RPushRefused is dead code, see below *)
| RRemoveFailed | RStabilization | RTagFailed.     (* delete_branch *)

Inductive crash :=
| CIndexError                      (* dev_branches[-1] / dev_branches[0] on an empty list *)
| CBranchCreationFailed            (* git checkout -b <new> <branching point> *)
| CCascade (e : verr)              (* the first cascade.build(), outside any try *)
| CPushFailed                      (* PushFailedException after the retries: not a CommandError *)
| CUnrecognizedBranchPattern       (* branch_factory on a q/ name or on 'development/<queue version>' *)
| CCheckoutFailed.

Inductive outcome := NothingToDo | JobFailure (r : reason) | JobSuccess | NotMyJob | Crashed (c : crash).

Inductive mutation :=
| MPushNew (name : string) (c : cid)       (* git push --set-upstream origin '<name>' *)
| MDelete (name : string)                  (* git push --set-upstream origin ':<name>' *)
| MPushTag (tag : string) (c : cid)        (* git tag <tag>; git push origin <tag> *)
| MPushAllDel (names : list string)        (* git push --atomic origin 'refs/heads/*:refs/heads/*' ':refs/heads/<n>'... *)
| MEnqueue (pr : N).                       (* bert_e.put_job(PullRequestJob(pr)) *)

Definition result := (list mutation * outcome)%type.

(* ordinal of the raise statement that ends the job, per handler (None: no raise statement of the handler) *)
Definition site_create (o : outcome) : option nat :=
  match o with
  | NothingToDo => Some 0
  | JobFailure RNotGWF => Some 1
  | JobFailure RNotDestination => Some 2
  | JobFailure RArchiveTag => Some 3
  | JobFailure RBranchFromOutside => Some 4
  | JobFailure RNoSupportingDev => Some 5
  | JobFailure RQueuedData => Some 6
  | JobFailure (RNotConform _) => Some 7
  | JobFailure RPushRefused => Some 8
  | JobSuccess => Some 9
  | _ => None
  end.

Definition site_delete (o : outcome) : option nat :=
  match o with
  | JobFailure RRemoveFailed => Some 0
  | JobFailure RNotGWF => Some 1
  | JobFailure RNotDestination => Some 2
  | NothingToDo => Some 3
  | JobFailure RArchiveTag => Some 4
  | JobFailure RStabilization => Some 5
  | JobFailure RQueuedData => Some 6
  | JobFailure RTagFailed => Some 7
  | JobSuccess => Some 8
  | _ => None
  end.

Definition outcome_class (o : outcome) : string :=
  match o with
  | NothingToDo => "NothingToDo" | JobFailure _ => "JobFailure" | JobSuccess => "JobSuccess"
  | NotMyJob => "NotMyJob" | Crashed _ => "Crashed"
  end.

(* ------------------------------------------------------------------ rebuild_queues / delete_queues *)

Definition queue_names (heads : list (string * cid)) (pre : string) : list string :=
  filter (String.prefix pre) (map fst heads).

Definition nth_prefix (i : nat) : string := nth i queue_scan_prefixes "q/".

(* [branch_factory(repo, b) for b in ... if b.startswith('q/')]: the first unrecognised name raises *)
Fixpoint classify_all (ns : list string) : option (list branch_info) :=
  match ns with
  | [] => Some []
  | n :: t => match classify n, classify_all t with
              | Some a, Some l => Some (a :: l)
              | _, _ => None
              end
  end.

Definition version_text (a : branch_info) : string := match bi_version a with Some v => v | None => "" end.

(* queue_destination(repo, queue_branch) of rebuild_queues.py: the name of the destination branch of a
   q/<version> or q/w/<pr>/<version>/... branch *)
Definition queue_destination (a : branch_info) : string :=
  match bi_hfrev a with
  | Some _ => "hotfix/" ++ print_N (opt_default (bi_major a)) ++ "." ++ print_N (opt_default (bi_minor a)) ++ "." ++
              print_N (opt_default (bi_micro a))
  | None =>
      match bi_micro a with
      | Some _ => "stabilization/" ++ version_text a
      | None => "development/" ++ version_text a
      end
  end.

(* queue_destination(repo, queue_branches[0]).checkout(): branch_factory may reject the name, the checkout fails
   when the branch does not exist; None = done *)
Definition leave_queues (heads : list (string * cid)) (first : branch_info) : option crash :=
  let co := queue_destination first in
  match classify co with
  | None => Some CUnrecognizedBranchPattern
  | Some _ => if mem_str co (map fst heads) then None else Some CCheckoutFailed
  end.

(* rebuild_queues; [op] is the index of its first remote operation (it runs after the push of create_branch
   when chained) *)
Definition rebuild_queues (fails : nat -> bool) (op : nat) (use_queue : bool)
           (heads : list (string * cid)) (qs : list qentry) : result :=
  if negb use_queue then ([], NotMyJob) else
  let prs := queued_prs qs in
  let names := queue_names heads (nth_prefix 0) in
  match classify_all names with
  | None => ([], Crashed CUnrecognizedBranchPattern)
  | Some [] => ([], JobSuccess)
  | Some (first :: _) =>
      match leave_queues heads first with
      | Some c => ([], Crashed c)
      | None =>
          if fails op then ([], Crashed CPushFailed)
          else (MPushAllDel names :: map MEnqueue prs, JobSuccess)
      end
  end.

Definition delete_queues (fails : nat -> bool) (use_queue : bool) (heads : list (string * cid)) : result :=
  if negb use_queue then ([], NotMyJob) else
  let names := queue_names heads (nth_prefix 1) in
  match classify_all names with
  | None => ([], Crashed CUnrecognizedBranchPattern)
  | Some [] => ([], JobSuccess)
  | Some (first :: _) =>
      match leave_queues heads first with
      | Some c => ([], Crashed c)
      | None =>
          if fails 0 then ([], Crashed CPushFailed)
          else ([MPushAllDel names], JobSuccess)
      end
  end.

(* force_merge_queues: only its guard belongs here; the merge itself is handle_merge_queues (C03, C05) *)
Definition force_merge_guard (use_queue : bool) : option outcome :=
  if negb use_queue then Some NotMyJob else None.

(* ------------------------------------------------------------------ create_branch *)

Inductive bfrom := BNone | BBranch (name : string) | BCommit (c : option cid).

(* what git resolves the branching point to *)
Definition resolve (r : repo) (b : bfrom) : option cid :=
  match b with
  | BNone => None
  | BBranch n => assoc_str n (r_heads r)
  | BCommit c => c
  end.

(* new_branch > dev_branch through functools.total_ordering: not (a < b) and a != b *)
Definition key_gt (a b : key) : bool := negb (key_lt a b) && negb (key_eqb a b).

(* branch_from = dev_branches[0]; for d in dev_branches: if new > d: branch_from = d *)
Definition auto_dev_point (newk : key) (devs : list (dest * string * cid)) : option (dest * string * cid) :=
  match devs with
  | [] => None
  | d0 :: _ => Some (fold_left (fun acc d => if key_gt newk (dkey (fst (fst d))) then d else acc) devs d0)
  end.

Definition is_nil {A} (l : list A) : bool := match l with [] => true | _ => false end.

Definition last_opt {A} (l : list A) : option A :=
  match l with [] => None | x :: t => Some (List.last t x) end.

Definition add_head (heads : list (string * cid)) (n : string) (c : cid) : list (string * cid) :=
  (heads ++ [(n, c)])%list.

(* the branching point: inl = the job ends here; inr (Some c) = a commit, inr None = git cannot check it out *)
Definition branching_point (r : repo) (d : dest) (devs : list (dest * string * cid)) (bf : bfrom)
  : result + option cid :=
  match bf with
  | BBranch _ | BCommit _ =>
      (* dev_branches[-1].includes_commit(branch_from) *)
      match last_opt devs with
      | None => inl ([], Crashed CIndexError)
      | Some lastd =>
          match resolve r bf with
          | Some c => if anc (r_st r) c (snd lastd) then inr (Some c)
                      else inl ([], JobFailure RBranchFromOutside)
          | None => inl ([], JobFailure RBranchFromOutside)
          end
      end
  | BNone =>
      match d_kind d with
      | KStab =>
          (* DevelopmentBranch(repo, 'development/%s.%s' % (major, minor)) in dev_branches, by __eq__ *)
          if existsb (fun x => key_eqb (dkey (fst (fst x))) (dkey d)) devs
          then inr (assoc_str ("development/" ++ print_N (d_major d) ++ "." ++
                               print_N (opt_default (d_minor d))) (r_heads r))
          else inl ([], JobFailure RNoSupportingDev)
      | KHotfix => inr (assoc_str (d_version d ++ hotfix_start_suffix) (r_tags r))
      | KDev =>
          match auto_dev_point (dkey d) devs with
          | None => inl ([], Crashed CIndexError)
          | Some x => inr (Some (snd x))
          end
      end
  end.

(* queued data: use_queue and plain development branch and new_branch < dev_branches[-1] and queued_prs *)
Definition queued_refusal (use_queue : bool) (d : dest) (devs : list (dest * string * cid)) (qs : list qentry)
  : option result :=
  if use_queue && dkind_eqb (d_kind d) KDev then
    match last_opt devs with
    | None => Some ([], Crashed CIndexError)
    | Some lastd =>
        if key_lt (dkey d) (dkey (fst (fst lastd))) && negb (is_nil (queued_prs qs))
        then Some ([], JobFailure RQueuedData) else None
    end
  else None.

(* build + validate of the cascade including the new branch, inside the try block *)
Definition conformance_error (s : store) (heads : list (string * cid)) (tags : list string) : option verr :=
  match build_error (dests heads) (ptags tags) with
  | Some e => Some e
  | None => validate s (dests heads) (ptags tags)
  end.

(* archive_tag = new_branch.version; for a hotfix branch whose '<version>.archived_hotfix_branch' tag exists it is
   that tag: the tag looked for in `git tag` *)
Definition create_archive_tag (tags : list string) (d : dest) : string :=
  if dkind_eqb (d_kind d) KHotfix && mem_str (d_version d ++ create_archive_hotfix_suffix) tags
  then d_version d ++ create_archive_hotfix_suffix
  else d_version d.

(* is_canonical_version: all(part == str(int(part)) for part in version.split('.')) on a version of digits *)
Definition canonical_version (v : string) : bool :=
  forallb (fun p => (p =? print_N (dec_value p))%string) (split_char "." v).

Definition create_branch (fails : nat -> bool) (use_queue : bool) (r : repo) (qs : list qentry)
           (name : string) (bf : bfrom) : result :=
  (* if branch already is there, do nothing *)
  if mem_str name (head_names r) then ([], NothingToDo) else
  match classify name with
  | None => ([], JobFailure RNotGWF)
  | Some a =>
  match dest_of a with
  | None => ([], JobFailure RNotDestination)
  | Some d =>
  (* ... or not is_canonical_version(new_branch.version) *)
  if create_requires_canonical && negb (canonical_version (d_version d)) then ([], JobFailure RNotDestination) else
  if mem_str (create_archive_tag (tag_names r) d) (tag_names r) then ([], JobFailure RArchiveTag) else
  match build_error (dests (r_heads r)) (ptags (tag_names r)) with
  | Some e => ([], Crashed (CCascade e))
  | None =>
  let devs := dev_branches (dests (r_heads r)) in
  match branching_point r d devs bf with
  | inl res => res
  | inr pt =>
  match queued_refusal use_queue d devs qs with
  | Some res => res
  | None =>
  match pt with
  | None => ([], Crashed CBranchCreationFailed)
  | Some c =>
  (* create the branch locally, build and validate the new cascade *)
  let heads' := add_head (r_heads r) name c in
  match conformance_error (r_st r) heads' (tag_names r) with
  | Some e => ([], JobFailure (RNotConform e))
  | None =>
  if fails 0 then ([], Crashed CPushFailed) else
  if negb use_queue || negb (dkind_eqb (d_kind d) KDev) then ([MPushNew name c], JobSuccess)
  else
    (* RebuildQueuesJob processed in line; it raises JobSuccess for us *)
    let res := rebuild_queues fails 1 true heads' qs in
    (MPushNew name c :: fst res, snd res)
  end end end end end end end.

(* ------------------------------------------------------------------ delete_branch *)

Definition archive_tag (d : dest) : string :=
  match d_kind d with
  | KHotfix => d_version d ++ archive_hotfix_suffix
  | _ => d_version d
  end.

(* is_stabilization_of(repo, name, dev_branch): a StabilizationBranch with the same major and minor numbers *)
Definition is_stabilization_of (n : string) (d : dest) : bool :=
  match parse_dest n with
  | Some d' => dkind_eqb (d_kind d') KStab && (d_major d' =? d_major d)%N && optN_eqb (d_minor d') (d_minor d)
  | None => false
  end.

Definition stab_test (d : dest) (n : string) : bool :=
  String.prefix (stab_prefix_head ++ d_version d) n || (delete_stab_numeric && is_stabilization_of n d).

(* already_archived(repo, archive_tag, branch): the tag exists and points at the tip of the branch *)
Definition already_archived (r : repo) (tag : string) (tip : cid) : bool :=
  match assoc_str tag (r_tags r) with Some c => Nat.eqb c tip | None => false end.

Definition delete_branch (fails : nat -> bool) (use_queue : bool) (r : repo) (qs : list qentry)
           (name : string) : result :=
  match classify name with
  | None => ([], JobFailure RNotGWF)
  | Some a =>
  match dest_of a with
  | None => ([], JobFailure RNotDestination)
  | Some d =>
  match assoc_str name (r_heads r) with
  | None => ([], NothingToDo)
  | Some tip =>
  let tag := archive_tag d in
  (* a previous run pushed the archive tag and did not delete the branch: only the deletion is left *)
  let resuming := already_archived r tag tip in
  if negb (dkind_eqb (d_kind d) KHotfix) && negb resuming && mem_str (d_version d) (tag_names r)
  then ([], JobFailure RArchiveTag) else
  (* any(b.startswith('stabilization/%s' % version) or is_stabilization_of(repo, b, del_branch) for b in ...) *)
  if dkind_eqb (d_kind d) KDev && existsb (stab_test d) (head_names r)
  then ([], JobFailure RStabilization) else
  if use_queue && has_version_queued_prs d qs then ([], JobFailure RQueuedData) else
  (* do_delete(QueueBranch('q/<version>')): only when the branch can be checked out *)
  let qname := queue_name_head ++ d_version d in
  let delq := use_queue && mem_str qname (head_names r) in
  if delq && fails 0 then ([], JobFailure RRemoveFailed) else
  let m0 := if delq then [MDelete qname] else [] in
  let op := if delq then 1 else 0 in
  if resuming then
    if fails op then (m0, JobFailure RRemoveFailed) else ((m0 ++ [MDelete name])%list, JobSuccess)
  else
  (* git tag <tag> fails locally when the tag exists; git push origin <tag> is the remote operation *)
  if mem_str tag (tag_names r) then (m0, JobFailure RTagFailed) else
  if fails op then (m0, JobFailure RTagFailed) else
  if fails (S op) then ((m0 ++ [MPushTag tag tip])%list, JobFailure RRemoveFailed) else
  ((m0 ++ [MPushTag tag tip; MDelete name])%list, JobSuccess)
  end end end.

(* ------------------------------------------------------------------ effect of the mutations on the remote *)

Definition remove_head (n : string) (heads : list (string * cid)) : list (string * cid) :=
  filter (fun h => negb (fst h =? n)%string) heads.

Definition apply_mutation (r : repo) (m : mutation) : repo :=
  match m with
  | MPushNew n c => mkRepo (r_st r) (add_head (r_heads r) n c) (r_tags r)
  | MDelete n => mkRepo (r_st r) (remove_head n (r_heads r)) (r_tags r)
  | MPushTag t c => mkRepo (r_st r) (r_heads r) (r_tags r ++ [(t, c)])%list
  | MPushAllDel ns => mkRepo (r_st r) (filter (fun h => negb (mem_str (fst h) ns)) (r_heads r)) (r_tags r)
  | MEnqueue _ => r
  end.

Definition apply_mutations (r : repo) (ms : list mutation) : repo := fold_left apply_mutation ms r.

Definition enqueued (ms : list mutation) : list N :=
  flat_map (fun m => match m with MEnqueue p => [p] | _ => [] end) ms.

Definition no_fault : nat -> bool := fun _ => false.

(* ------------------------------------------------------------------ hypotheses on the view, as checkers *)

(* every q/<version> and q/w/<id>/<version>/<src> head is represented in the queue view *)
Definition qentry_of (a : branch_info) (e : qentry) : bool :=
  (q_major e =? opt_default (bi_major a))%N && optN_eqb (q_minor e) (bi_minor a) &&
  optN_eqb (q_micro e) (bi_micro a) && optN_eqb (q_hfrev e) (bi_hfrev a).

Definition queues_cover_heads (heads : list (string * cid)) (qs : list qentry) : bool :=
  forallb (fun h =>
    match classify (fst h) with
    | Some a =>
        match bi_class a with
        | QueueBranch => existsb (fun e => qentry_of a e && q_master e) qs
        | QueueIntegrationBranch =>
            existsb (fun e => qentry_of a e && memN (opt_default (bi_pr_id a)) (q_prs e)) qs
        | _ => true
        end
    | None => true
    end) heads.

(* the pull requests of every non-hotfix version are among those of the last non-hotfix version, in the same
   relative order (what QueueCollection.validate checks vertically) *)
Fixpoint subseq (a b : list N) : bool :=
  match a, b with
  | [], _ => true
  | _ :: _, [] => false
  | x :: a', y :: b' => if (x =? y)%N then subseq a' b' else subseq a b'
  end.

Fixpoint nodupN (l : list N) : bool :=
  match l with [] => true | x :: t => negb (memN x t) && nodupN t end.

Definition queues_coherent (qs : list qentry) : bool :=
  forallb (fun e => nodupN (q_prs e)) qs &&
  match find (fun e => (qlen e <? 4)%nat) (rev qs) with
  | Some lastq =>
      forallb (fun e => (qlen e =? 4)%nat || subseq (q_prs e) (q_prs lastq)) qs &&
      (* a pull request queued on a hotfix version is queued nowhere else *)
      forallb (fun e => negb (qlen e =? 4)%nat ||
                        forallb (fun p => forallb (fun e' => (qlen e' =? 4)%nat || negb (memN p (q_prs e'))) qs)
                                (q_prs e)) qs
  | None => true
  end.

(* every non-hotfix queue version is at most the last development branch *)
Definition queues_below_last (heads : list (string * cid)) (qs : list qentry) : bool :=
  match last_opt (dev_branches (dests heads)) with
  | Some lastd =>
      forallb (fun e => (qlen e =? 4)%nat ||
                        negb (key_lt (dkey (fst (fst lastd))) (q_major e, q_minor e))) qs
  | None => forallb (fun e => (qlen e =? 4)%nat) qs
  end.

(* tips are commits of the store *)
Definition tips_bounded (r : repo) : bool :=
  forallb (fun h => (snd h <? List.length (r_st r))%nat) (r_heads r) &&
  forallb (fun h => (snd h <? List.length (r_st r))%nat) (r_tags r).
