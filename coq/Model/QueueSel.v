(* Model of the queue selection of bert_e/workflow/gitwaterflow/branches.py:
     compare_branches / compare_queues, QueueCollection._add_branch (ordering of _queues),
     _extract_pr_ids, _recursive_lookup, _remove_unmergeable, _process, failed_prs, queued_prs,
     BranchCascade.get_merge_paths, and what queueing.merge_queues does with mergeable_queues.
   _process is the REPAIRED one (fixes/C05_F1.diff): the per-merge-path lookups are repeated on the
   queues truncated to the shortest list until the list stops shrinking.
   Data (status literals, sentinel, version lengths) comes from Generated/Facts_C05.v.
   No proofs in this file. *)
From Coq Require Import String List Bool Arith ZArith.
Require Import BertE.Generated.Facts_C05.
Import ListNotations.
Open Scope list_scope.
Open Scope Z_scope.

(* version_t: (major, minor) for development/x.y, minor = None for development/x,
   (major, minor, micro) for stabilization, (major, minor, micro, hfrev) for hotfix queues *)
Definition version := list (option Z).

Inductive error :=
| OutOfFuel        (* the explicit fuel of a Python recursion / while loop ran out *)
| BadVersion       (* compare_branches / compare_queues on a tuple they cannot unpack or subtract *)
| MasterMissing.   (* merge_queues: branches[QueueBranch] is None -> AttributeError *)

Inductive result (A : Type) := Ok (a : A) | Err (e : error).
Arguments Ok {A} a.
Arguments Err {A} e.

Definition oz_eqb (a b : option Z) : bool :=
  match a, b with
  | Some x, Some y => x =? y
  | None, None => true
  | _, _ => false
  end.

Fixpoint version_eqb (a b : version) : bool :=
  match a, b with
  | [], [] => true
  | x :: a', y :: b' => oz_eqb x y && version_eqb a' b'
  | _, _ => false
  end.

(* ---------------------------------------------------------------- ordering of the versions *)

(* compare_branches(branch1, branch2) on branch[0][:2] = (major, minor) *)
Definition compare_branches (v1 v2 : version) : result Z :=
  match v1, v2 with
  | Some major1 :: minor1 :: _, Some major2 :: minor2 :: _ =>
      if major1 =? major2 then
        match minor1, minor2 with
        | None, None => Ok 0
        | None, Some _ => Ok 1
        | Some _, None => Ok (-1)
        | Some a, Some b => Ok (a - b)
        end
      else Ok (major1 - major2)
  | _, _ => Err BadVersion
  end.

Definition compare_queues (v1 v2 : version) : result Z :=
  match v1, v2 with
  | a0 :: a1 :: _, b0 :: b1 :: _ =>
      if oz_eqb a0 b0 && oz_eqb a1 b1 then
        if (length v1 =? cmpq_stab_len)%nat && (length v2 =? cmpq_dev_len)%nat then Ok (-1)
        else if (length v2 =? cmpq_stab_len)%nat && (length v1 =? cmpq_dev_len)%nat then Ok 1
        else compare_branches v1 v2
      else compare_branches v1 v2
  | _, _ => Err BadVersion
  end.

(* cmp_to_key(compare_queues): K(x) < K(y)  iff  compare_queues(x, y) < 0 *)
Definition key_lt (x y : version) : result bool :=
  match compare_queues x y with Ok c => Ok (c <? 0) | Err e => Err e end.

Record qint := { q_pr : Z; q_commit : Z }.          (* q/w/<pr>/<version>/...  and its tip commit *)
Record queue := { q_master : bool; q_ints : list qint }.  (* QueueBranch present?, [QueueIntegrationBranch] newest first *)
Definition queues := list (version * queue).         (* the OrderedDict _queues *)

(* sorted(items, key=cmp_to_key(compare_queues)) when items = (already sorted) + [new]:
   CPython's list.sort on fewer than 64 elements = initial run + binary insertion of the rest. *)
Fixpoint bsearch (fuel : nat) (x : version) (l : queues) (lo hi : nat) : result nat :=
  match fuel with
  | O => Err OutOfFuel
  | S f =>
      if (lo <? hi)%nat then
        let p := (lo + (hi - lo) / 2)%nat in
        match nth_error l p with
        | None => Err OutOfFuel
        | Some (y, _) =>
            match key_lt x y with
            | Err e => Err e
            | Ok true => bsearch f x l lo p
            | Ok false => bsearch f x l (S p) hi
            end
        end
      else Ok lo
  end.

Definition add_version (v : version) (qu : queue) (l : queues) : result queues :=
  match rev l with
  | [] => Ok [(v, qu)]
  | (y, _) :: _ =>
      match key_lt v y with
      | Err e => Err e
      | Ok false => Ok (l ++ [(v, qu)])                       (* the whole list is one ascending run *)
      | Ok true =>
          match bsearch (S (length l)) v l 0 (length l) with
          | Err e => Err e
          | Ok i => Ok (firstn i l ++ (v, qu) :: skipn i l)
          end
      end
  end.

(* the versions are added in the order in which _add_branch first meets them *)
Fixpoint add_versions (todo : queues) (acc : queues) : result queues :=
  match todo with
  | [] => Ok acc
  | (v, qu) :: t =>
      match add_version v qu acc with
      | Err e => Err e
      | Ok acc' => add_versions t acc'
      end
  end.

(* ---------------------------------------------------------------- _extract_pr_ids *)

Definition mem_z (x : Z) (l : list Z) : bool := existsb (Z.eqb x) l.

(* for qint in ints: if qint.pr_id not in other + acc: acc.insert(0, qint.pr_id) *)
Definition push_front_new (other : list Z) (ints : list qint) (acc : list Z) : list Z :=
  fold_left (fun acc e => if mem_z (q_pr e) (other ++ acc) then acc else q_pr e :: acc) ints acc.

Definition extract_pr_ids (qs : queues) : list Z :=
  let r := rev qs in
  let prs_hf := fold_left (fun acc (vq : version * queue) =>
                             if (length (fst vq) =? extract_hf_len)%nat
                             then push_front_new [] (q_ints (snd vq)) acc else acc) r [] in
  let prs := match find (fun vq : version * queue => (length (fst vq) =? extract_dev_len)%nat) r with
             | Some (_, qu) => push_front_new prs_hf (q_ints qu) []
             | None => []
             end in
  prs_hf ++ prs.

(* ---------------------------------------------------------------- _recursive_lookup *)

Definition status_bad (st : Z -> string) (e : qint) : bool :=
  negb (String.eqb (st (q_commit e)) lookup_green_literal).

Fixpoint first_failed (st : Z -> string) (qs : queues) : Z :=
  match qs with
  | [] => no_failure_sentinel
  | (_, qu) :: t =>
      match q_ints qu with
      | e :: _ => if status_bad st e then q_pr e else first_failed st t
      | [] => first_failed st t
      end
  end.

(* while intqs: intq = intqs.pop(0); if intq.pr_id == first_failed_pr: break *)
Fixpoint drop_through (pr : Z) (ints : list qint) : list qint :=
  match ints with
  | [] => []
  | e :: t => if q_pr e =? pr then t else drop_through pr t
  end.

Definition set_ints (qu : queue) (l : list qint) : queue := {| q_master := q_master qu; q_ints := l |}.

Definition pop_failed (pr : Z) (qs : queues) : queues :=
  map (fun vq : version * queue =>
         let ints := q_ints (snd vq) in
         if forallb (fun e => negb (q_pr e =? pr)) ints then vq
         else (fst vq, set_ints (snd vq) (drop_through pr ints))) qs.

(* fuel = number of further recursive calls allowed *)
Fixpoint recursive_lookup (fuel : nat) (st : Z -> string) (qs : queues) : result queues :=
  let f := first_failed st qs in
  if f =? no_failure_sentinel then Ok qs
  else match fuel with
       | O => Err OutOfFuel
       | S fuel' => recursive_lookup fuel' st (pop_failed f qs)
       end.

(* ---------------------------------------------------------------- _remove_unmergeable *)

Fixpoint drop_unlisted (prs : list Z) (ints : list qint) : list qint :=
  match ints with
  | [] => []
  | e :: t => if mem_z (q_pr e) prs then ints else drop_unlisted prs t
  end.

Definition remove_unmergeable (prs : list Z) (qs : queues) : queues :=
  map (fun vq : version * queue => (fst vq, set_ints (snd vq) (drop_unlisted prs (q_ints (snd vq))))) qs.

(* ---------------------------------------------------------------- _process (repaired) *)

(* stack.pop(version) if version not in versions and len(version) < 4 *)
Definition on_path (versions : list version) (v : version) : bool :=
  existsb (version_eqb v) versions || negb (length v <? process_hf_len)%nat.

Definition path_stack (versions : list version) (qs : queues) : queues :=
  filter (fun vq : version * queue => on_path versions (fst vq)) qs.

Definition path_prs (fuel : nat) (st : Z -> string) (qs : queues) (versions : list version)
  : result (list Z) :=
  match recursive_lookup fuel st (path_stack versions qs) with
  | Ok s => Ok (extract_pr_ids s)
  | Err e => Err e
  end.

(* for merge_path in self.merge_paths: ... if len(path_mergeable_prs) < len(mergeable_prs): ... *)
Fixpoint one_pass (fuel : nat) (st : Z -> string) (qs : queues) (paths : list (list version))
         (mergeable : list Z) : result (list Z) :=
  match paths with
  | [] => Ok mergeable
  | p :: t =>
      match path_prs fuel st qs p with
      | Err e => Err e
      | Ok pm => one_pass fuel st qs t (if (length pm <? length mergeable)%nat then pm else mergeable)
      end
  end.

(* while nb_prs != len(mergeable_prs): nb_prs = len(mergeable_prs); <one pass>;
                                        self._remove_unmergeable(mergeable_prs, queues)
   n = number of further iterations allowed after the current one (the list can only shrink
   len(list) times) *)
Fixpoint process_loop (n fuel : nat) (st : Z -> string) (paths : list (list version))
         (qs : queues) (mergeable : list Z) : result (list Z) :=
  match one_pass fuel st qs paths mergeable with
  | Err e => Err e
  | Ok m' =>
      if (length m' =? length mergeable)%nat then Ok m'
      else match n with
           | O => Err OutOfFuel
           | S n' => process_loop n' fuel st paths (remove_unmergeable m' qs) m'
           end
  end.

Definition process_fuel (fuel : nat) (st : Z -> string) (paths : list (list version)) (force : bool)
           (qs : queues) : result (list Z * queues) :=
  let every := extract_pr_ids qs in
  match (if force then Ok every else process_loop (length every) fuel st paths qs every) with
  | Ok m => Ok (m, remove_unmergeable m qs)        (* (_mergeable_prs, _mergeable_queues) *)
  | Err e => Err e
  end.

Definition entries (qs : queues) : nat :=
  fold_right (fun (vq : version * queue) n => (length (q_ints (snd vq)) + n)%nat) O qs.

Definition process (st : Z -> string) (paths : list (list version)) (force : bool) (qs : queues)
  : result (list Z * queues) :=
  process_fuel (entries qs) st paths force qs.

(* queueing.merge_queues(mergeable_queues): destination of each version is merged with the first
   remaining queue-integration branch, when there is one *)
Fixpoint moves (mq : queues) : result (list (version * option qint)) :=
  match mq with
  | [] => Ok []
  | (v, qu) :: t =>
      if q_master qu then
        match moves t with
        | Ok r => Ok ((v, hd_error (q_ints qu)) :: r)
        | Err e => Err e
        end
      else Err MasterMissing
  end.

(* handle_merge_queues: (queues.mergeable_prs, what merge_queues(queues.mergeable_queues) moves) *)
Definition evaluate (st : Z -> string) (paths : list (list version)) (force : bool) (qs : queues)
  : result (list Z * list (version * option qint)) :=
  match process st paths force qs with
  | Err e => Err e
  | Ok (prs, mq) =>
      match moves mq with
      | Err e => Err e
      | Ok mv => Ok (prs, mv)
      end
  end.

(* ---------------------------------------------------------------- failed_prs, queued_prs *)

Definition failed_prs (st : Z -> string) (qs : queues) : list Z :=
  flat_map (fun vq : version * queue =>
              match q_ints (snd vq) with
              | e :: _ => if String.eqb (st (q_commit e)) failed_literal then [q_pr e] else []
              | [] => []
              end) qs.

Definition queued_prs (qs : queues) : list Z :=
  let r := rev qs in
  let pr_ids := match find (fun vq : version * queue => (length (fst vq) <? queued_nonhf_below)%nat) r with
                | Some (_, qu) => rev (map q_pr (q_ints qu))
                | None => []
                end in
  let pr_hf_ids := fold_left (fun acc (vq : version * queue) =>
                                if (length (fst vq) =? queued_hf_len)%nat
                                then push_front_new [] (q_ints (snd vq)) acc else acc) r [] in
  pr_hf_ids ++ filter (fun p => negb (mem_z p pr_hf_ids)) pr_ids.

(* ---------------------------------------------------------------- BranchCascade.get_merge_paths *)

(* one value of BranchCascade._cascade, as the version_t of the branches it holds *)
Record cascade_entry := { c_dev : option version; c_stab : option version; c_hf : option version }.

Fixpoint merge_paths_from (c : list cascade_entry) (ret : list (list version)) : list (list version) :=
  match c with
  | [] => ret
  | b :: t =>
      match c_dev b with
      | None => merge_paths_from t ret
      | Some dev =>
          let ret1 := match c_hf b with Some hf => ret ++ [[hf]] | None => ret end in
          let ret2 := match c_stab b with Some stab => ret1 ++ [[stab]] | None => ret1 end in
          merge_paths_from t (map (fun path => path ++ [dev]) ret2)
      end
  end.

Definition get_merge_paths (c : list cascade_entry) : list (list version) := merge_paths_from c [[]].
