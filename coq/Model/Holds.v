(* Model/Holds.v - the gates of bert_e/workflow/gitwaterflow/__init__.py that leave a pull request alone:

     handle_pull_request -> _handle_pull_request:
         early_checks(job)            status in ('OPEN','DECLINED') else NothingToDo; producer / consumer names
                                      else NotMyJob (UnrecognizedBranchPattern from branch_factory); destination
                                      exists on the remote else WrongDestination
         send_greetings(job)          InitMessage unless the robot already commented
         branch_factory x 2           cannot fail after early_checks
         handle_comments(job)         Model/Reactor.v (C07): options, then commands
         check_dependencies(job)      wait => NothingToDo; after_pull_request ids: unknown => IncorrectPullRequestNumber
                                      at the first failing id in the iteration order of a Python set (an INPUT here),
                                      all must be MERGED else AfterPullRequest
         clone_git_repo(job)          first step that works on the repository
         if status == 'DECLINED': handle_declined_pull_request(job)      every path raises

   and a small history model used by C12_full: user comments added and deleted, evaluations of a pull request,
   queue evaluations (handle_merge_queues), with "approvals and builds let it through" and "the queue finds these
   pull requests mergeable" as inputs.

   Data from Generated/Facts_C12.v (status tuple and literals, guard and always-raises flag of the DECLINED branch,
   exception kinds, what is notified, whether the queue code looks at holds), Generated/Facts_C07.v (registry) and
   Generated/Facts_C18.v (class flags, through Model/Names.v).  The order of the calls of _handle_pull_request is
   compared with [gate_prefix] in Proofs/C12Proofs.v.  No proofs in this file. *)
From Coq Require Import List String Ascii Bool Arith NArith.
Require Import BertE.Base.Str BertE.Base.C07Str BertE.Generated.Facts_C07 BertE.Generated.Facts_C12
               BertE.Model.Names BertE.Model.Reactor.
Import ListNotations.
Open Scope string_scope.

(* ------------------------------------------------------------------ data *)

Record pull_request := mk_pr {
  pr_status : string; pr_src : string; pr_dst : string; pr_author : string; pr_comments : list comment }.

Record config := mk_cfg { cf_robot : string; cf_admins : list string; cf_cmdline : list string }.

(* kind of an exception class of bert_e/exceptions.py (None: not a class this model knows) *)
Definition kind_of (cls : string) : option string := assoc cls exception_kind.
(* does handle_pull_request post the exception as a comment (notify_user) before re-raising it? *)
Definition notified (cls : string) : option bool :=
  option_map (fun k => (k =? notify_kind)%string) (kind_of cls).

(* ------------------------------------------------------------------ early_checks *)

(* Some cls: the exception class that leaves early_checks; None: it returns.
   `not is_cascade_producer(src) or not is_cascade_consumer(dst)` evaluates the source first and the
   destination only for a producer source; branch_factory raises UnrecognizedBranchPattern *)
Definition early_checks (dst_exists : bool) (status src dst : string) : option string :=
  if negb (mem_str status early_status_ok) then Some "NothingToDo" else
  match is_cascade_producer src with
  | None => Some "UnrecognizedBranchPattern"
  | Some false => Some "NotMyJob"
  | Some true =>
      match is_cascade_consumer dst with
      | None => Some "UnrecognizedBranchPattern"
      | Some false => Some "NotMyJob"
      | Some true => if dst_exists then None else Some "WrongDestination"
      end
  end.

(* ------------------------------------------------------------------ send_greetings *)

(* find_comment(pull_request, username=robot): any comment of the robot *)
Definition greets (robot : string) (cs : list comment) : bool :=
  negb (existsb (fun c => (c_author c =? robot)%string) cs).

(* the text of the InitMessage is not modelled; it does not start like a message to the robot *)
Definition greeting_text : string := "Hello".

(* the comment list handle_comments reads (the host is asked again: the greeting is in it) *)
Definition visible_comments (robot : string) (cs : list comment) : list comment :=
  if greets robot cs then cs ++ [mk_comment robot greeting_text] else cs.

(* ------------------------------------------------------------------ check_dependencies *)

(* int(pr_id) of an id the option handler let through: [0-9]+(_[0-9]+)*  (underscores are dropped) *)
Fixpoint drop_underscores (s : string) : string :=
  match s with
  | EmptyString => EmptyString
  | String c t => if (c =? "_")%char then drop_underscores t else String c (drop_underscores t)
  end.
Definition py_int_value (s : string) : N := dec_value (drop_underscores s).

Inductive dep_result :=
| DReturn                       (* the function returns *)
| DRaise (cls : string)         (* a message class *)
| DError (name : string).       (* AttributeError / TypeError: settings of an unexpected shape *)

(* job.project_repo.get_pull_request(int(pr_id)).status; None: the host raises *)
Definition dep_status (lookup : N -> option string) (d : string) : option string := lookup (py_int_value d).

(* the loop stops at the first id the host does not know *)
Fixpoint first_unknown (lookup : N -> option string) (ids : list string) : option string :=
  match ids with
  | [] => None
  | d :: t => match dep_status lookup d with None => Some d | Some _ => first_unknown lookup t end
  end.

Definition is_merged (lookup : N -> option string) (d : string) : bool :=
  match dep_status lookup d with Some st => (st =? dep_merged_status)%string | None => false end.

(* [order]: the elements of the set in the order Python iterates over them *)
Definition check_dependencies (lookup : N -> option string) (s : settings) (order : list string) : dep_result :=
  match get_setting "wait" s with
  | None => DError "AttributeError"
  | Some w =>
      if truthy w then DRaise "NothingToDo" else
      match get_setting "after_pull_request" s with
      | None => DError "AttributeError"
      | Some v =>
          if negb (truthy v) then DReturn else
          match v with
          | VSet l =>
              match first_unknown lookup order with
              | Some _ => DRaise "IncorrectPullRequestNumber"
              | None => if Nat.eqb (List.length l) (List.length (filter (is_merged lookup) order))
                        then DReturn else DRaise "AfterPullRequest"
              end
          | _ => DError "TypeError"       (* a truthy value that is not a set of ids *)
          end
      end
  end.

(* the id named by IncorrectPullRequestNumber (the only part of the outcome that depends on the order) *)
Definition reported_id (lookup : N -> option string) (order : list string) : option string :=
  first_unknown lookup order.

Definition after_ids (s : settings) : list string :=
  match get_setting "after_pull_request" s with Some (VSet l) => l | _ => [] end.

(* ------------------------------------------------------------------ the gate prefix of _handle_pull_request *)

Inductive fate :=
| Stopped (call cls : string)   (* exception [cls] leaves the top-level call [call]; nothing after it runs *)
| StoppedDeclined               (* handle_declined_pull_request runs: clean-up, then PullRequestDeclined / NothingToDo *)
| Continues (s : settings).     (* the repository is cloned and the rest of the program runs with settings [s] *)

Record evaluation := mk_eval { ev_greeted : bool; ev_fate : fate }.

Definition after_clone (status : string) (s : settings) : fate :=
  if (status =? declined_guard_status)%string then
    (if declined_always_raises then StoppedDeclined else Continues s)
  else Continues s.

(* [order l]: iteration order of the set whose elements were inserted in the order l *)
Definition evaluate (cf : config) (dst_exists : bool) (lookup : N -> option string)
           (order : list string -> list string) (p : pull_request) : evaluation :=
  match early_checks dst_exists (pr_status p) (pr_src p) (pr_dst p) with
  | Some cls => mk_eval false (Stopped "early_checks" cls)
  | None =>
      mk_eval (greets (cf_robot cf) (pr_comments p))
        match handle_comments registry (cf_cmdline cf) (cf_robot cf) (cf_admins cf) (pr_author p)
                              (visible_comments (cf_robot cf) (pr_comments p)) with
        | Err (EMsg cls) _ => Stopped "handle_comments" cls
        | Err (EUncaught n) _ => Stopped "handle_comments" n
        | Ok s =>
            match check_dependencies lookup s (order (after_ids s)) with
            | DRaise cls => Stopped "check_dependencies" cls
            | DError n => Stopped "check_dependencies" n
            | DReturn => after_clone (pr_status p) s
            end
        end
  end.

(* the calls of _handle_pull_request this model is about, in the order it assumes (compared with
   Facts_C12.hpr_calls in Proofs/C12Proofs.v): (callee, inside an if / try / loop) *)
Definition gate_prefix : list (string * bool) :=
  [("early_checks", false); ("send_greetings", false); ("branch_factory", false); ("branch_factory", false);
   ("handle_comments", false); ("check_dependencies", false); ("clone_git_repo", false);
   ("handle_declined_pull_request", true)].

(* top-level calls that can give the pull request an integration branch, an integration pull request, a
   queue entry or a merge (or push anything) *)
Definition creating_calls : list string :=
  ["create_integration_branches"; "update_integration_branches"; "push"; "create_integration_pull_requests";
   "handle_merge_queues"; "add_to_queue"; "merge_integration_branches"; "add_merged_pr"; "delete"].
Definition is_creating (c : string) : bool := mem_str c creating_calls.

Definition relevant_call (c : string) : bool := mem_str c (map fst gate_prefix) || is_creating c.

(* position of the first call named [c] among the relevant calls of the function *)
Fixpoint index_of (c : string) (l : list (string * bool)) : option nat :=
  match l with
  | [] => None
  | (x, _) :: t => if (x =? c)%string then Some 0%nat else option_map S (index_of c t)
  end.
Definition relevant_calls : list (string * bool) := filter (fun cb => relevant_call (fst cb)) hpr_calls.

(* every occurrence of a creating call comes after the first occurrence of [c] *)
Fixpoint all_creating_after (seen : bool) (c : string) (l : list (string * bool)) : bool :=
  match l with
  | [] => seen
  | (x, _) :: t => if is_creating x then seen && all_creating_after seen c t
                   else all_creating_after (seen || (x =? c)%string) c t
  end.
Definition precedes_creating (c : string) : bool := all_creating_after false c relevant_calls.

(* the call in which a fate ends *)
Definition stop_call (f : fate) : option string :=
  match f with
  | Stopped c _ => Some c
  | StoppedDeclined => Some "handle_declined_pull_request"
  | Continues _ => None
  end.

(* ------------------------------------------------------------------ history model (C12_full) *)

Record sys := mk_sys { s_prs : list (N * pull_request); s_queued : list N }.

Record hconfig := mk_hcfg {
  h_cf : config;
  h_use_queue : bool;
  h_order : list string -> list string;
  h_exists : string -> bool }.      (* remote_branch_exists *)

Inductive event :=
| EComment (id : N) (c : comment)                  (* somebody comments on pull request id *)
| EDelete (id : N) (k : nat)                       (* the k-th comment of pull request id is deleted *)
| EEvalPR (id : N) (ready direct : bool) (green : list N)
                                                   (* a job evaluates the pull request; [ready]: the rest of the
                                                      program (approvals, builds, ...) lets it through; [direct]:
                                                      queueing.is_needed says no queue is needed (skip-queue mode);
                                                      [green]: see EEvalQueue (used when it is already queued) *)
| EEvalQueue (green : list N).                     (* handle_merge_queues; [green]: the pull requests its selection
                                                      (C05) finds mergeable *)

Fixpoint find_pr (prs : list (N * pull_request)) (id : N) : option pull_request :=
  match prs with
  | [] => None
  | (i, p) :: t => if (i =? id)%N then Some p else find_pr t id
  end.

Definition mem_N (x : N) (l : list N) : bool := existsb (N.eqb x) l.

Definition lookup_of (w : sys) (id : N) : option string := option_map pr_status (find_pr (s_prs w) id).

Definition update_pr (f : pull_request -> pull_request) (id : N) (prs : list (N * pull_request))
  : list (N * pull_request) :=
  map (fun ip => if (fst ip =? id)%N then (fst ip, f (snd ip)) else ip) prs.

Definition with_comments (cs : list comment) (p : pull_request) : pull_request :=
  mk_pr (pr_status p) (pr_src p) (pr_dst p) (pr_author p) cs.
Definition with_status (st : string) (p : pull_request) : pull_request :=
  mk_pr st (pr_src p) (pr_dst p) (pr_author p) (pr_comments p).

Fixpoint remove_nth {A} (k : nat) (l : list A) : list A :=
  match l, k with
  | [], _ => []
  | _ :: t, O => t
  | x :: t, S k' => x :: remove_nth k' t
  end.

Definition merge_one (w : sys) (id : N) : sys :=
  mk_sys (update_pr (with_status dep_merged_status) id (s_prs w))
         (filter (fun q => negb (q =? id)%N) (s_queued w)).

(* handle_merge_queues: builds the queue from the q/ branches, selects from build statuses, merges.  Nothing in
   queueing.py / QueueCollection mentions comments or options (Facts_C12.queue_reads_holds = false, required by
   Proofs/C12Proofs.v): the pull requests' comments are not an input *)
Definition queue_selection (w : sys) (green : list N) : list N :=
  filter (fun id => mem_N id green) (s_queued w).

Definition eval_queue (w : sys) (green : list N) : sys * list N :=
  let sel := queue_selection w green in (fold_left merge_one sel w, sel).

(* one event: new state and the pull requests merged by it *)
Definition step (h : hconfig) (w : sys) (e : event) : sys * list N :=
  match e with
  | EComment id c =>
      (mk_sys (update_pr (fun p => with_comments (pr_comments p ++ [c]) p) id (s_prs w)) (s_queued w), [])
  | EDelete id k =>
      (mk_sys (update_pr (fun p => with_comments (remove_nth k (pr_comments p)) p) id (s_prs w)) (s_queued w), [])
  | EEvalPR id ready direct green =>
      match find_pr (s_prs w) id with
      | None => (w, [])
      | Some p =>
          match ev_fate (evaluate (h_cf h) (h_exists h (pr_dst p)) (lookup_of w) (h_order h) p) with
          | Continues _ =>
              if h_use_queue h && mem_N id (s_queued w) then eval_queue w green   (* already_in_queue *)
              else if negb ready then (w, [])
              else if h_use_queue h && negb direct then (mk_sys (s_prs w) (s_queued w ++ [id]), [])   (* add_to_queue, Queued *)
              else (merge_one w id, [id])                                              (* merge_integration_branches *)
          | _ => (w, [])
          end
      end
  | EEvalQueue green => eval_queue w green
  end.

(* log of a history: every merged pull request with the state the merging job started from *)
Fixpoint run (h : hconfig) (w : sys) (evs : list event) : list (N * sys) :=
  match evs with
  | [] => []
  | e :: t => let (w', merged) := step h w e in
              map (fun id => (id, w)) merged ++ run h w' t
  end.

(* no comment is added to or deleted from a pull request while it sits in the queue *)
Fixpoint quiet_while_queued (h : hconfig) (w : sys) (evs : list event) : bool :=
  match evs with
  | [] => true
  | e :: t =>
      match e with
      | EComment id _ | EDelete id _ => negb (mem_N id (s_queued w))
      | _ => true
      end && quiet_while_queued h (fst (step h w e)) t
  end.

(* ------------------------------------------------------------------ the witness histories of C12_refuted (F5) *)

(* queued, then held, then evaluated (nothing happens), then a queue evaluation triggered by a build report *)
Definition c12_cf : config := mk_cfg "bert-e" ["admin"] [].
Definition c12_h : hconfig := mk_hcfg c12_cf true (fun l => l) (fun _ => true).
Definition c12_pr1 : pull_request := mk_pr "OPEN" "bugfix/TEST-1" "development/4.3" "author" [].
Definition c12_pr2 : pull_request := mk_pr "OPEN" "bugfix/TEST-2" "development/4.3" "author" [].
Definition c12_w0 : sys := mk_sys [(1%N, c12_pr1); (2%N, c12_pr2)] [].
Definition c12_witness_wait : list event :=
  [EEvalPR 1 true false []; EComment 1 (mk_comment "author" "@bert-e wait"); EEvalPR 1 true false [1%N]; EEvalQueue [1%N]].
Definition c12_witness_after : list event :=
  [EEvalPR 1 true false []; EComment 1 (mk_comment "author" "@bert-e after_pull_request=2"); EEvalPR 1 true false [1%N];
   EEvalQueue [1%N]].

