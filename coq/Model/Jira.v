(* Model/Jira.v - the ticket gate: bert_e/workflow/gitwaterflow/jira.py (jira_checks, check_issue_reference,
   get_jira_issue, check_project, check_issue_type, check_fix_versions), utils.bypass_jira_check, and how
   the values they read get into job.settings / job.author_bypass (Reactor.init_settings + option handler,
   gwf.setup defaults, PrAuthorsOptions.deserialize).
   The source branch is a [branch_info] of Model/Names.v (FeatureBranch upper-cases jira_issue_key and
   jira_project there).  Data (option registry, command-line wiring, BYPASS_LIST, allow_ticketless_pr
   flags) comes from Generated/Facts_C11.v, re-emitted from /repo on every run.  No proofs in this file.

   Python -> Gallina here:
   * [return] of jira_checks is [Ok]; each [raise exceptions.X] is the constructor [X]; a JIRAError whose
     status is not 404 propagates unchanged: [JIRAErrorReraised]; reading an attribute that does not
     exist (an option gwf.setup did not register, [prefix] / [jira_issue_key] / [jira_project] of a branch
     class whose pattern has no such group) is an AttributeError: [AttributeErr], never a silent default;
   * the Jira server is a table [key -> Found issue | Failure status]; a key that is not in the table
     answers 404 (bert_e.lib.jira.JiraIssue raises jira.exceptions.JIRAError);
   * Python sets are duplicate-free lists; the code observes only [len], membership and [==] / [!=] of
     its sets (and the single element of a one-element set), never their iteration order;
   * dict [prefixes]: a list of (issue type, branch prefix) pairs; only its keys and its emptiness are read;
   * [re.compile(p).match(v)]: one left-to-right scanner per pattern; [\d+] takes the longest digit run
     (what follows it in both patterns is never a digit, so backtracking cannot find another match);
     ["$"] matches at the end or before one final line feed; ASCII only (DESIGN 4.1). *)
From Coq Require Import List String Ascii Bool Arith NArith ZArith.
Require Import BertE.Base.Str BertE.Model.Names BertE.Generated.Facts_C11.
Import ListNotations.
Open Scope string_scope.

Inductive outcome :=
| Ok                                  (* the gate lets the pull request through *)
| MissingJiraId (target : nat)        (* index, in dst_branches, of the target named in the message *)
| JiraIssueNotFound
| IncorrectJiraProject
| IssueTypeNotSupported
| IncorrectFixVersion
| JIRAErrorReraised
| AttributeErr.

(* ------------------------------------------------------------------ the Jira server *)

Record issue := mkIssue {
  iss_key : string;                   (* issue.key (only rendered in messages) *)
  iss_type : string;                  (* issue.fields.issuetype.name *)
  iss_fix_versions : list string      (* [v.name for v in issue.fields.fixVersions] *)
}.

Inductive answer := Found (i : issue) | Failure (status : Z).

Fixpoint lookup (key : string) (db : list (string * answer)) : answer :=
  match db with
  | [] => Failure 404
  | (k, a) :: t => if (k =? key)%string then a else lookup key t
  end.

(* ------------------------------------------------------------------ settings *)

Record settings := mkSettings {
  s_bypass_comment : bool;            (* an accepted `bypass_jira_check` comment (set_option stores True) *)
  s_bypass_cmdline : bool;            (* the option is listed on the command line *)
  s_bypass_author : bool;             (* pr_author_options lists it for the author *)
  s_bypass_prefixes : list string;
  s_jira_keys : list string;
  s_jira_email : string;
  s_jira_account_url : string;
  s_prefixes : list (string * string);
  s_disable_version_checks : bool
}.

Fixpoint assoc_s {A} (k : string) (l : list (string * A)) : option A :=
  match l with
  | [] => None
  | (k', v) :: t => if (k' =? k)%string then Some v else assoc_s k t
  end.

Definition option_name : string := "bypass_jira_check".

(* job.settings.bypass_jira_check after handle_comments: Reactor.init_settings installs the default
   registered by gwf.setup (Facts [cmdline_wiring]); an accepted comment stores True.  None = the option
   is not registered: AttributeError *)
Definition settings_value (comment cmdline : bool) : option bool :=
  match assoc_s option_name option_registry, assoc_s option_name cmdline_wiring with
  | Some _, Some (d_off, d_on) => Some (if comment then true else if cmdline then d_on else d_off)
  | _, _ => None
  end.

(* job.author_bypass.get('bypass_jira_check', False): PrAuthorsOptions.deserialize builds
   {key: key in listed for key in BYPASS_LIST} and refuses a name outside BYPASS_LIST *)
Definition author_bypass_get (listed : bool) : bool := mem_str option_name bypass_list && listed.

(* utils.bypass_jira_check(job) *)
Definition bypass_jira_check (cfg : settings) : option bool :=
  match settings_value (s_bypass_comment cfg) (s_bypass_cmdline cfg) with
  | Some v => Some (v || author_bypass_get (s_bypass_author cfg))
  | None => None
  end.

(* all([jira_keys, jira_email, jira_account_url]): truthiness of a list and of two strings *)
Definition jira_configured (cfg : settings) : bool :=
  negb (match s_jira_keys cfg with [] => true | _ => false end)
  && negb (is_empty (s_jira_email cfg)) && negb (is_empty (s_jira_account_url cfg)).

(* ------------------------------------------------------------------ attributes of the source branch *)

(* branch.<g>: None = the class pattern has no such group (AttributeError); Some None = Python None *)
Definition attr (a : branch_info) (g : string) (v : option string) : option (option string) :=
  if class_has_group (bi_class a) g then Some v else None.

(* x in l for x a str or None and l a list of str *)
Definition opt_in (x : option string) (l : list string) : bool :=
  match x with Some s => mem_str s l | None => false end.

(* dst_branch.allow_ticketless_pr, a class attribute *)
Definition ticketless (k : bclass) : bool :=
  match assoc_s (class_name k) ticketless_flags with Some b => b | None => false end.
  (* never None: Proofs/C11Proofs.v ticketless_total *)

(* ------------------------------------------------------------------ check_issue_reference *)

(* for dst_branch in dst_branches: if not dst_branch.allow_ticketless_pr: raise MissingJiraId(dst_branch) *)
Fixpoint first_refusing (flags : list bool) (i : nat) : option nat :=
  match flags with
  | [] => None
  | b :: t => if b then first_refusing t (S i) else Some i
  end.

Definition no_reference (flags : list bool) : outcome :=
  match first_refusing flags 0 with Some i => MissingJiraId i | None => Ok end.

(* ------------------------------------------------------------------ the two regular expressions *)

(* \d+ : the longest non-empty digit run; the rest *)
Definition scan_number (s : string) : option string :=
  let (d, r) := span is_digit s in if is_empty d then None else Some r.

(* a literal character *)
Definition scan_lit (c : ascii) (s : string) : option string :=
  match s with String d r => if (d =? c)%char then Some r else None | EmptyString => None end.

(* "$" *)
Definition at_end (s : string) : bool :=
  match s with
  | EmptyString => true
  | String c EmptyString => (c =? LF)%char
  | _ => false
  end.

Definition bind {A B} (x : option A) (f : A -> option B) : option B :=
  match x with Some y => f y | None => None end.

(* ^\d+\.\d+\.\d+ *)
Definition scan_xyz (s : string) : option string :=
  bind (scan_number s) (fun r1 => bind (scan_lit "." r1) (fun r2 =>
  bind (scan_number r2) (fun r3 => bind (scan_lit "." r3) scan_number))).

(* vfilter = ^\d+\.\d+\.\d+(\.0|)$ : first alternative ".0" then "$", else the empty one then "$" *)
Definition vfilter_match (s : string) : bool :=
  match scan_xyz s with
  | Some r =>
      (match strip_prefix ".0" r with Some r' => at_end r' | None => false end) || at_end r
  | None => false
  end.

(* hf_filter = ^\d+\.\d+\.\d+\.\d+$ *)
Definition hf_filter_match (s : string) : bool :=
  match bind (scan_xyz s) (fun r => bind (scan_lit "." r) scan_number) with
  | Some r => at_end r
  | None => false
  end.

(* ------------------------------------------------------------------ check_fix_versions *)

(* set(l) *)
Fixpoint to_set (l : list string) : list string :=
  match l with
  | [] => []
  | x :: t => if mem_str x t then to_set t else x :: to_set t
  end.

(* a == b for two sets *)
Definition set_eqb (a b : list string) : bool :=
  forallb (fun x => mem_str x b) a && forallb (fun x => mem_str x a) b.

(* hf_target: None, or the single expected version when it looks like a hotfix version *)
Definition hf_target (expected_versions : list string) : option string :=
  match expected_versions with
  | [v] => if hf_filter_match v then Some v else None       (* len(expected_versions) == 1 *)
  | _ => None
  end.

(* true = IncorrectFixVersion is raised *)
Definition fix_versions_wrong (fix_versions target_versions : list string) : bool :=
  let issue_versions := to_set fix_versions in
  let expected_versions := to_set target_versions in
  let checked_versions := filter vfilter_match issue_versions in
  match hf_target expected_versions with
  | Some v =>
      if negb (is_empty v)                                   (* if hf_target: *)
      then negb (mem_str v issue_versions)
      else negb (set_eqb checked_versions expected_versions)
  | None => negb (set_eqb checked_versions expected_versions)
  end.

(* ------------------------------------------------------------------ jira_checks *)

(* get_jira_issue .. check_fix_versions, once the branch is known to carry the key [key] *)
Definition with_reference (cfg : settings) (a : branch_info) (key : string)
           (target_versions : list string) (db : list (string * answer)) : outcome :=
  match lookup key db with
  | Failure status => if (status =? 404)%Z then JiraIssueNotFound else JIRAErrorReraised
  | Found i =>
      match attr a "jira_project" (bi_jira_project a) with
      | None => AttributeErr
      | Some proj =>
          if negb (opt_in proj (s_jira_keys cfg)) then IncorrectJiraProject
          else if negb (match s_prefixes cfg with [] => true | _ => false end)
                  && negb (mem_str (iss_type i) (map fst (s_prefixes cfg)))
          then IssueTypeNotSupported
          else if s_disable_version_checks cfg then Ok
          else if fix_versions_wrong (iss_fix_versions i) target_versions then IncorrectFixVersion
          else Ok
      end
  end.

(* [flags]: allow_ticketless_pr of each element of job.git.cascade.dst_branches, in order *)
Definition jira_checks_flags (cfg : settings) (a : branch_info) (flags : list bool)
           (target_versions : list string) (db : list (string * answer)) : outcome :=
  match bypass_jira_check cfg with
  | None => AttributeErr
  | Some true => Ok
  | Some false =>
      match attr a "prefix" (bi_prefix a) with
      | None => AttributeErr
      | Some p =>
          if opt_in p (s_bypass_prefixes cfg) then Ok
          else if negb (jira_configured cfg) then Ok
          else
            match attr a "jira_issue_key" (bi_jira_issue_key a) with
            | None => AttributeErr
            | Some None => no_reference flags                       (* not None *)
            | Some (Some key) =>
                if is_empty key then no_reference flags             (* not "" *)
                else with_reference cfg a key target_versions db
            end
      end
  end.

(* the destination branches by their classes *)
Definition jira_checks (cfg : settings) (a : branch_info) (targets : list bclass)
           (target_versions : list string) (db : list (string * answer)) : outcome :=
  jira_checks_flags cfg a (map ticketless targets) target_versions db.

(* from the name of the source branch: branch_factory, then the gate.  None = UnrecognizedBranchPattern
   (raised by _handle_pull_request before the gate is reached) *)
Definition jira_checks_name (cfg : settings) (src : string) (targets : list bclass)
           (target_versions : list string) (db : list (string * answer)) : option outcome :=
  option_map (fun a => jira_checks cfg a targets target_versions db) (classify src).
