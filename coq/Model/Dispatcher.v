(* Model of the job dispatcher of the Bert-E server: bert_e/bert_e.py (BertE.put_job, process_task,
   process), the worker loop of bert_e/server/__init__.py and the job equality of bert_e/job.py, as a
   small-step transition system over threads.  Data (which collections put_job looks at, what process_task
   catches and what sits in its finally block, how __eq__ compares, ...) comes from Generated/Facts_C13.v,
   re-emitted from /repo's AST on every run.  No proofs in this file.

   Threads: 0 is the worker (`while True: bert_e.process_task()`), 1..N are request threads (webhook or API
   views: build the job, call put_job, answer 2xx; an exception escaping put_job is a 5xx).  A schedule is
   any list of thread ids; the turn of a thread that is blocked, finished or does not exist is a no-op.

   Step granularity (what one turn of a thread does) - see harness/props/c13.py for the stops of the real code:
     request thread   arrive | begin the deque scan | finish the comparison with ONE element (Python-level
                      __eq__), check for mutation, fetch the next one | Queue.put | return (accepted)
     worker           Queue.get + status['current job'] = job | tasks_done.appendleft | status.pop |
                      return from process_task (finish)                                                  *)
From Coq Require Import List String Bool Arith.
Require Import BertE.Generated.Facts_C13.
Import ListNotations.
Open Scope string_scope.

(* ---------------------------------------------------------------------------------- jobs *)

Inductive jkind := KPull | KCommit | KApi.          (* PullRequestJob | CommitJob | any APIJob subclass *)
Inductive outcome := ORet | OSilent | OTemplate | OInternal | OJobFailure | OOther.

(* jrepo: project_repo.full_name; jkey: pull_request.id / commit; juid: object identity;
   jout: what the handler of this job does when the worker evaluates it *)
Record job := mkJob { jk : jkind; jrepo : nat; jkey : nat; juid : nat; jout : outcome }.

Definition kind_eqb (a b : jkind) : bool :=
  match a, b with KPull, KPull | KCommit, KCommit | KApi, KApi => true | _, _ => false end.

Definition kind_name (k : jkind) : string :=
  match k with KPull => "PullRequestJob" | KCommit => "CommitJob" | KApi => "APIJob" end.

Fixpoint assoc {A} (k : string) (l : list (string * A)) : option A :=
  match l with
  | [] => None
  | (k', v) :: t => if k =? k' then Some v else assoc k t
  end.

Definition mem (x : string) (l : list string) : bool := existsb (String.eqb x) l.

(* the class of kind k defines __eq__ (Facts), else object identity *)
Definition eq_defined (k : jkind) : bool :=
  match assoc (kind_name k) c13_eq_fields with Some _ => true | None => false end.
Definition eq_uses (f : string) (k : jkind) : bool :=
  match assoc (kind_name k) c13_eq_fields with Some l => mem f l | None => false end.

(* a.__eq__(b) for a class that defines it: isinstance(b, type(a)) and the listed attributes *)
Definition py_eq (a b : job) : bool :=
  (if eq_uses "isinstance" (jk a) then kind_eqb (jk a) (jk b) else true)
  && (if eq_uses "repo" (jk a) then Nat.eqb (jrepo a) (jrepo b) else true)
  && (if eq_uses "key" (jk a) then Nat.eqb (jkey a) (jkey b) else true).

(* PyObject_RichCompareBool(item, sought, Py_EQ): identity first; then item.__eq__(sought) when item's class
   defines it, else the reflected sought.__eq__(item), else (both compare by identity) False *)
Definition same_obj (a b : job) : bool := Nat.eqb (juid a) (juid b).
Definition needs_py (item sought : job) : bool := eq_defined (jk item) || eq_defined (jk sought).
Definition job_eqb (item sought : job) : bool :=
  same_obj item sought
  || (if eq_defined (jk item) then py_eq item sought
      else if eq_defined (jk sought) then py_eq sought item else false).

(* ---------------------------------------------------------------------------------- job status *)

Inductive status_kind := SUnchanged | STypeName.          (* job.status: left alone | type(err).__name__ *)
Inductive details_kind := DUnchanged | DNone | DStr.      (* job.details: left alone | None | str(err) *)
Definition jstatus := (status_kind * details_kind)%type.

Definition outcome_key (o : outcome) : string :=
  match o with
  | ORet => "" | OSilent => "silent" | OTemplate => "template" | OInternal => "internal"
  | OJobFailure => "jobfailure" | OOther => "other"
  end.
Definition mro (o : outcome) : list string :=
  match assoc (outcome_key o) c13_outcome_mro with Some l => l | None => [] end.
Definition isinst (o : outcome) (bases : list string) : bool := existsb (fun b => mem b (mro o)) bases.

(* BertE.process: what leaves it.  Silent/Template go through _process_error, which re-raises iff
   settings.backtrace (set by the server); everything else is re-raised or not caught at all. *)
Definition leaves_process (backtrace : bool) (o : outcome) : outcome :=
  match o with
  | ORet => ORet
  | _ => if isinst o c13_process_to_error && negb backtrace then ORet else o
  end.

Definition effective (o : outcome) : outcome := leaves_process c13_server_backtrace o.

(* the except clause of process_task *)
Definition caught (o : outcome) : bool := isinst o c13_caught.
Definition escapes (o : outcome) : bool :=
  match effective o with ORet => false | o' => negb (caught o') end.
Definition status_of (o : outcome) : jstatus :=
  match effective o with
  | ORet => (SUnchanged, DUnchanged)
  | o' => if caught o'
          then (STypeName,
                if negb (isinst o' c13_details_none_bases) then DStr
                else if isinst o' c13_details_str_bases then DStr else DNone)
          else (SUnchanged, DUnchanged)
  end.

(* the calls of the finally block that change shared state, in the order of the code *)
Inductive fin_op := FRecord | FClear.
Fixpoint fin_ops_of (l : list string) : list fin_op :=
  match l with
  | [] => []
  | x :: t => if x =? "record" then FRecord :: fin_ops_of t
              else if x =? "clear" then FClear :: fin_ops_of t else fin_ops_of t
  end.
Definition fin_ops : list fin_op := fin_ops_of c13_finally.

Definition dedup_current : bool := mem "current" c13_dedup_scope.
Definition dedup_done : bool := mem "done" c13_dedup_scope.
Definition dedup_pending : bool := mem "pending" c13_dedup_scope.

(* ---------------------------------------------------------------------------------- state *)

(* request thread: [a] is the index (in the run) of the step at which the request arrived *)
Inductive hpc :=
| HIdle (todo : list job)
| HLine (a : nat) (e : job) (todo : list job)                       (* at `if job not in ...queue:` *)
| HCmp (a : nat) (e : job) (todo : list job) (i : nat) (item : job) (start : nat)
                                                                    (* inside the __eq__ call for element i *)
| HPut (a : nat) (e : job) (todo : list job)                        (* at `self.task_queue.put(job)` *)
| HPutLog (a : nat) (e : job) (todo : list job)                     (* after the put *)
| HSkipLog (a : nat) (e : job) (todo : list job).                   (* in the else branch *)

Inductive wpc :=
| WGet                                   (* at / blocked in task_queue.get() *)
| WFin (j : job) (ops : list fin_op)     (* job obtained; [ops] = state-changing calls of `finally` still to run *)
| WDead.                                 (* an exception escaped process_task: the thread is gone *)

Record state := mkState {
  pending : list job;          (* task_queue.queue, left = next to be served *)
  mut : nat;                   (* deque->state: bumped by every append / popleft *)
  current : option job;        (* status['current job'] *)
  done : list (job * jstatus); (* tasks_done, most recent first *)
  worker : wpc;
  hooks : list hpc;
  clock : nat                  (* number of turns so far *)
}.

Inductive mark :=
| MArrive (e : job)            (* a request for e arrived (put_job entered) at this step *)
| MPut (a : nat)               (* the request that arrived at step a enqueued its job *)
| MSkip (a : nat)              (* ... found an equal job and will not enqueue *)
| MAccepted (a : nat)          (* ... returned normally: 2xx *)
| MRejected (a : nat)          (* ... put_job raised: 5xx *)
| MStart (j : job)             (* the worker took j and starts evaluating it *)
| MFinish (j : job) (st : jstatus)   (* process_task returned for j *)
| MDied (j : job).             (* an exception escaped process_task while handling j *)

Inductive wflag := WAtGet | WBusy | WIsDead.

(* what can be observed after a step *)
Record entry := mkEntry {
  e_mark : option mark;
  e_pending : list job;
  e_current : option job;
  e_done : list (job * jstatus);
  e_worker : wflag
}.

(* ---------------------------------------------------------------------------------- the deque scan *)

Inductive scan_res := SNone | SFound (it : job) | SCmp (i : nat) (it : job).

(* deque_contains from element i on, up to the next Python-level __eq__ call: elements that compare without
   Python code (identity, or two classes without __eq__) cannot be interleaved with anything *)
Fixpoint scan_from (i : nat) (q : list job) (e : job) : scan_res :=
  match q with
  | [] => SNone
  | it :: rest => if same_obj it e then SFound it
                  else if needs_py it e then SCmp i it
                  else scan_from (S i) rest e
  end.

(* the rest of put_job's test once the pending queue has no equal job (Facts: nothing else) *)
Definition extra_dedup (s : state) (e : job) : bool :=
  (dedup_current && match current s with Some c => job_eqb c e | None => false end)
  || (dedup_done && existsb (fun d => job_eqb (fst d) e) (done s)).

Definition after_scan (s : state) (a : nat) (e : job) (todo : list job) (r : scan_res) : hpc * option mark :=
  match r with
  | SFound _ => (HSkipLog a e todo, Some (MSkip a))
  | SCmp i it => (HCmp a e todo i it (mut s), None)
  | SNone => if extra_dedup s e then (HSkipLog a e todo, Some (MSkip a)) else (HPut a e todo, None)
  end.

(* ---------------------------------------------------------------------------------- steps *)

Fixpoint upd {A} (l : list A) (n : nat) (x : A) : list A :=
  match l, n with
  | [], _ => []
  | _ :: t, O => x :: t
  | y :: t, S m => y :: upd t m x
  end.

Definition set_hook (s : state) (t : nat) (pc : hpc) : state :=
  mkState (pending s) (mut s) (current s) (done s) (worker s) (upd (hooks s) t pc) (clock s).

Definition push (s : state) (e : job) : state :=
  mkState (pending s ++ [e]) (S (mut s)) (current s) (done s) (worker s) (hooks s) (clock s).

(* one turn of request thread number t (0-based in [hooks]) whose program counter is pc *)
Definition step_hook (s : state) (t : nat) (pc : hpc) : state * option mark :=
  match pc with
  | HIdle [] => (s, None)
  | HIdle (e :: todo) => (set_hook s t (HLine (clock s) e todo), Some (MArrive e))
  | HLine a e todo =>
      let '(pc', m) := after_scan s a e todo
                         (if dedup_pending then scan_from 0 (pending s) e else SNone) in
      (set_hook s t pc', m)
  | HCmp a e todo i item start =>
      if job_eqb item e then (set_hook s t (HSkipLog a e todo), Some (MSkip a))
      else if negb (Nat.eqb (mut s) start) then (set_hook s t (HIdle todo), Some (MRejected a))
      else let '(pc', m) := after_scan s a e todo (scan_from (S i) (skipn (S i) (pending s)) e) in
           (set_hook s t pc', m)
  | HPut a e todo => (set_hook (push s e) t (HPutLog a e todo), Some (MPut a))
  | HPutLog a e todo => (set_hook s t (HIdle todo), Some (MAccepted a))
  | HSkipLog a e todo => (set_hook s t (HIdle todo), Some (MAccepted a))
  end.

Definition record_done (d : list (job * jstatus)) (x : job * jstatus) : list (job * jstatus) :=
  match c13_done_maxlen with Some n => firstn n (x :: d) | None => x :: d end.

Definition step_worker (s : state) : state * option mark :=
  match worker s with
  | WGet =>
      match pending s with
      | [] => (s, None)                                          (* blocked in get() *)
      | j :: rest => (mkState rest (S (mut s)) (Some j) (done s) (WFin j fin_ops) (hooks s) (clock s),
                      Some (MStart j))
      end
  | WFin j (FRecord :: ops) =>
      (mkState (pending s) (mut s) (current s) (record_done (done s) (j, status_of (jout j)))
               (WFin j ops) (hooks s) (clock s), None)
  | WFin j (FClear :: ops) =>
      (mkState (pending s) (mut s) None (done s) (WFin j ops) (hooks s) (clock s), None)
  | WFin j [] =>
      if escapes (jout j)
      then (mkState (pending s) (mut s) (current s) (done s) WDead (hooks s) (clock s), Some (MDied j))
      else (mkState (pending s) (mut s) (current s) (done s) WGet (hooks s) (clock s),
            Some (MFinish j (status_of (jout j))))
  | WDead => (s, None)
  end.

Definition tick (s : state) : state :=
  mkState (pending s) (mut s) (current s) (done s) (worker s) (hooks s) (S (clock s)).

Definition step (s : state) (tid : nat) : state * option mark :=
  let '(s', m) :=
    match tid with
    | O => step_worker s
    | S t => match nth_error (hooks s) t with
             | Some pc => step_hook s t pc
             | None => (s, None)
             end
    end in
  (tick s', m).

Definition wflag_of (w : wpc) : wflag :=
  match w with WGet => WAtGet | WFin _ _ => WBusy | WDead => WIsDead end.

Definition observe (m : option mark) (s : state) : entry :=
  mkEntry m (pending s) (current s) (done s) (wflag_of (worker s)).

Fixpoint run (s : state) (sch : list nat) : list entry * state :=
  match sch with
  | [] => ([], s)
  | t :: rest => let '(s', m) := step s t in
                 let '(h, sf) := run s' rest in
                 (observe m s' :: h, sf)
  end.

(* the server at start-up: empty queue, worker at get(); request thread t will deliver [nth t events] *)
Definition init (events : list (list job)) : state :=
  mkState [] 0 None [] WGet (map HIdle events) 0.

Definition history (events : list (list job)) (sch : list nat) : list entry := fst (run (init events) sch).
Definition final (events : list (list job)) (sch : list nat) : state := snd (run (init events) sch).
