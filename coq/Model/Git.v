(* Git as a commit DAG (DESIGN 4.4): commits are numbered by creation order, every parent has a smaller
   number.  [anc] (ancestor-or-equal) is computed from per-commit ancestor sets; [git_merge] mirrors what
   `git merge [--no-edit] A B ...` does to the commit graph (head reduction, up-to-date, fast-forward,
   true merge, octopus with HEAD omitted when subsumed).  Validated against real git on every merge
   recorded by the system harness.  No proofs in this file (see Proofs/GitProofs.v). *)
From Coq Require Import List Bool Arith.
Import ListNotations.

Definition cid := nat.
Record commit := mkCommit { parents : list cid; by_robot : bool }.
Definition store := list commit.

Definition parents_of (s : store) (b : cid) : list cid :=
  match nth_error s b with Some c => parents c | None => [] end.

(* ancestor sets, index-aligned with the store; built oldest first *)
Fixpoint build_ancs (todo : list commit) (acc : list (list cid)) : list (list cid) :=
  match todo with
  | [] => acc
  | c :: t => build_ancs t (acc ++ [length acc :: flat_map (fun p => nth p acc []) (parents c)])
  end.
Definition ancs (s : store) : list (list cid) := build_ancs s [].

Definition mem (a : cid) (l : list cid) : bool := existsb (Nat.eqb a) l.

(* a is b or an ancestor of b *)
Definition anc (s : store) (a b : cid) : bool := mem a (nth b (ancs s) []).

Fixpoint dedupe (l : list cid) : list cid :=
  match l with
  | [] => []
  | x :: t => if mem x t then dedupe t else x :: dedupe t
  end.

(* keep the heads that are not ancestors of another (different) head of the list *)
Definition reduce (s : store) (l : list cid) : list cid :=
  filter (fun h => negb (existsb (fun h' => negb (Nat.eqb h h') && anc s h h') l)) l.

Inductive merge_res :=
| UpToDate
| FastForward (c : cid)
| Merged (ps : list cid).     (* a new commit with these parents, in this order *)

Definition git_merge (s : store) (head : cid) (srcs : list cid) : merge_res :=
  let remotes := reduce s (filter (fun r => negb (anc s r head)) (rev (dedupe (rev srcs)))) in
  match remotes with
  | [] => UpToDate
  | [r] => if anc s head r then FastForward r else Merged [head; r]
  | _ => if existsb (fun r => anc s head r) remotes then Merged remotes else Merged (head :: remotes)
  end.

(* the resulting tip and store; the merging identity is the robot *)
Definition apply_merge (s : store) (head : cid) (srcs : list cid) : store * cid :=
  match git_merge s head srcs with
  | UpToDate => (s, head)
  | FastForward c => (s, c)
  | Merged ps => (s ++ [mkCommit ps true], length s)
  end.

(* ---- refs ---- *)
Definition refmap := list (nat * cid).     (* branch names are abstract ids here; Names.v gives them meaning *)

Fixpoint lookup (r : refmap) (n : nat) : option cid :=
  match r with [] => None | (k, v) :: t => if Nat.eqb k n then Some v else lookup t n end.

Fixpoint update (r : refmap) (n : nat) (c : cid) : refmap :=
  match r with
  | [] => [(n, c)]
  | (k, v) :: t => if Nat.eqb k n then (k, c) :: t else (k, v) :: update t n c
  end.

Fixpoint remove (r : refmap) (n : nat) : refmap :=
  match r with [] => [] | (k, v) :: t => if Nat.eqb k n then remove t n else (k, v) :: remove t n end.

(* ---- push semantics (validated against real `git push` by the harness) ----
   non-forced: a ref is accepted iff it is new on the remote or a fast-forward of the remote value. *)
Definition ref_acceptable (s : store) (remote : refmap) (n : nat) (c : cid) : bool :=
  match lookup remote n with None => true | Some old => anc s old c end.

(* `git push --atomic origin 'refs/heads/*:refs/heads/*' :refs/heads/d1 :refs/heads/d2 ...` (lib/git.py
   push_all): every local head plus the explicit deletion of the branches this clone removed itself; all or
   nothing.  A deletion of a ref the remote does not have makes the push fail.  With [deleted] = [] this is
   `git push --all --atomic`. *)
Definition push_all_atomic (s : store) (remote local : refmap) (deleted : list nat) : option refmap :=
  if forallb (fun kv => ref_acceptable s remote (fst kv) (snd kv)) local
     && forallb (fun n => match lookup remote n with Some _ => true | None => false end) deleted then
    Some (fold_left (fun r kv => update r (fst kv) (snd kv)) local
            (filter (fun kv => negb (mem (fst kv) deleted)) remote))
  else None.

(* git push origin a b ...: each named ref independently *)
Definition push_names (s : store) (remote local : refmap) (names : list nat) : refmap :=
  fold_left (fun r n => match lookup local n with
                        | Some c => if ref_acceptable s r n c then update r n c else r
                        | None => r
                        end) names remote.
