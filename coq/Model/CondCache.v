(* The conditional-request cache of the GitHub client (bert_e/git_host/github/__init__.py: Client._mk_key,
   _cache_value, _get_cached_value, _get) in front of a host that serves validators.

     resource r     what a GET addresses: URL and query parameters (a natural number here)
     keyf r         the cache key the client derives from the request (Client._mk_key)
     host           per resource: content and the logical time of its last change
     hmode          which validators the host sends: none, Last-Modified only, ETag (a hash of the content)

   A GET for r looks the entry of (keyf r) up.  With an entry, the request carries If-None-Match (the entry's ETag, if
   it has one) or else If-Modified-Since (its date); the host answers 304 when the resource r itself has that ETag /
   has not changed since that date, and the client then returns the entry's object.  Otherwise the host answers 200
   and the client stores the response under (keyf r) when it carries a validator.  Forget is an eviction of the LRU
   store.  Executable; no proofs here (Proofs/CondCacheProofs.v). *)
From Coq Require Import List Arith Bool.
Import ListNotations.

Record hres := { h_mtime : nat; h_content : nat }.
Definition host := nat -> hres.

Inductive hmode := HNone | HDate | HTag.

Record centry := { e_obj : nat; e_tag : option nat; e_date : option nat }.
Definition ccache := list (nat * centry).

Fixpoint lookup (k : nat) (c : ccache) : option centry :=
  match c with
  | [] => None
  | (k', e) :: t => if Nat.eqb k k' then Some e else lookup k t
  end.

Fixpoint remove_key (k : nat) (c : ccache) : ccache :=
  match c with
  | [] => []
  | (k', e) :: t => if Nat.eqb k k' then remove_key k t else (k', e) :: remove_key k t
  end.

Definition store (k : nat) (e : centry) (c : ccache) : ccache := (k, e) :: remove_key k c.

Inductive cop :=
| Get (r : nat)
| Change (r : nat) (content : nat)
| Forget (k : nat).

Record cstate := { s_host : host; s_clock : nat; s_cache : ccache }.

Definition init_host : host := fun _ => {| h_mtime := 0; h_content := 0 |}.
Definition init_state : cstate := {| s_host := init_host; s_clock := 0; s_cache := [] |}.

Definition set_host (h : host) (r : nat) (v : hres) : host := fun x => if Nat.eqb x r then v else h x.

(* the host's decision on a conditional request for resource r *)
Definition not_modified (cur : hres) (e : centry) : bool :=
  match e_tag e, e_date e with
  | Some t, _ => Nat.eqb t (h_content cur)
  | None, Some d => Nat.leb (h_mtime cur) d
  | None, None => false
  end.

(* what a 200 leaves in the cache *)
Definition after_200 (m : hmode) (k : nat) (cur : hres) (c : ccache) : ccache :=
  match m with
  | HNone => c
  | HDate => store k {| e_obj := h_content cur; e_tag := None; e_date := Some (h_mtime cur) |} c
  | HTag => store k {| e_obj := h_content cur; e_tag := Some (h_content cur); e_date := None |} c
  end.

(* one operation: new state and, for a Get, the content the client returns *)
Definition cstep (keyf : nat -> nat) (m : hmode) (s : cstate) (o : cop) : cstate * option nat :=
  match o with
  | Change r c =>
      if Nat.eqb c (h_content (s_host s r)) then (s, None)
      else ({| s_host := set_host (s_host s) r {| h_mtime := S (s_clock s); h_content := c |};
               s_clock := S (s_clock s); s_cache := s_cache s |}, None)
  | Forget k => ({| s_host := s_host s; s_clock := s_clock s; s_cache := remove_key k (s_cache s) |}, None)
  | Get r =>
      let k := keyf r in
      let cur := s_host s r in
      match lookup k (s_cache s) with
      | Some e =>
          if not_modified cur e then (s, Some (e_obj e))
          else ({| s_host := s_host s; s_clock := s_clock s; s_cache := after_200 m k cur (s_cache s) |},
                Some (h_content cur))
      | None => ({| s_host := s_host s; s_clock := s_clock s; s_cache := after_200 m k cur (s_cache s) |},
                 Some (h_content cur))
      end
  end.

Fixpoint crun (keyf : nat -> nat) (m : hmode) (s : cstate) (ops : list cop) : cstate * list (option nat) :=
  match ops with
  | [] => (s, [])
  | o :: t => let '(s1, a) := cstep keyf m s o in
              let '(s2, l) := crun keyf m s1 t in (s2, a :: l)
  end.

(* the answers of the Gets of a run from the empty cache, in order *)
Definition answers (keyf : nat -> nat) (m : hmode) (ops : list cop) : list nat :=
  flat_map (fun a => match a with Some x => [x] | None => [] end) (snd (crun keyf m init_state ops)).

(* the specification: every Get returns what the host holds for that resource at that moment *)
Fixpoint spec_answers (h : host) (ops : list cop) : list nat :=
  match ops with
  | [] => []
  | Get r :: t => h_content (h r) :: spec_answers h t
  | Change r c :: t => spec_answers (set_host h r {| h_mtime := 0; h_content := c |}) t
  | Forget _ :: t => spec_answers h t
  end.

(* the key of the code as it is: injective (one key per resource); and a key that forgets part of the request *)
Definition key_id (r : nat) : nat := r.
Definition key_lossy (r : nat) : nat := r / 2.
