(* QueueCollection.validate (workflow/gitwaterflow/branches.py) over the commit DAG.
   The collection is what QueueCollection.build leaves in `_queues`: per version (in the order of the
   OrderedDict, compare_queues) the tip of the destination branch, the tip of the master queue q/<v> when that
   ref exists, and the queue-integration branches q/w/<pr>/<v>/... as (pull request id, tip), newest first
   (`finalize` sorts them by content; Python's sort is observed by the harness, not modelled).
   [hval] mirrors _horizontal_validation, [vval] mirrors _vertical_validation on one merge path (a list of
   version ids, oldest first), [validate] the whole method: the list of errors it would put in
   IncoherentQueues, [] = accepted.  No proofs here (Proofs/C02Proofs.v). *)
From Coq Require Import List Bool Arith.
Require Import BertE.Model.Git.
Import ListNotations.

Inductive vkind := VDev | VStab | VHot.       (* len(version_t) = 2 / 3 / 4 *)

Record qentry := mkQ {
  q_ver : nat;                      (* version id (abstract) *)
  q_kind : vkind;
  q_dst : cid;                      (* tip of the destination branch of this version *)
  q_master : option cid;            (* tip of q/<v>, None when the ref is missing *)
  q_ints : list (nat * cid)         (* (pr id, tip of q/w/<pr>/<v>/...), newest first *)
}.
Definition qcoll := list qentry.

Inductive qerr :=
| EMasterMissing | ELateVsDev | ENotInSync | ELateVsInt | EYoungerThanInt | EDiverged | EInclusion | EOrder
| EEmptyPath.    (* versions[-1] on an empty merge path: IndexError in the code *)

Definition is_hot (k : vkind) : bool := match k with VHot => true | _ => false end.
Definition is_dev (k : vkind) : bool := match k with VDev => true | _ => false end.

(* each integration queue contains the next (older) one, the oldest contains the destination *)
Fixpoint incl_chain (s : store) (next : cid) (ints : list (nat * cid)) (d : cid) : list qerr :=
  match ints with
  | [] => if anc s d next then [] else [EInclusion]
  | (_, t) :: rest => (if anc s t next then [] else [EInclusion]) ++ incl_chain s t rest d
  end.

Definition hval (s : store) (e : qentry) : list qerr :=
  match q_master e with
  | None => [EMasterMissing]
  | Some m =>
      (if anc s (q_dst e) m then [] else [ELateVsDev]) ++
      (match q_ints e with
       | [] => if Nat.eqb m (q_dst e) then [] else [ENotInSync]
       | (_, g) :: _ =>
           if Nat.eqb g m then []
           else if anc s m g then [ELateVsInt]
           else if anc s g m then [EYoungerThanInt]
           else [EDiverged]
       end) ++
      incl_chain s m (q_ints e) (q_dst e)
  end.

(* ---- the per-merge-path stack ---- *)
Fixpoint get (v : nat) (st : qcoll) : option qentry :=
  match st with
  | [] => None
  | e :: t => if Nat.eqb (q_ver e) v then Some e else get v t
  end.

Definition set_ints (v : nat) (ints : list (nat * cid)) (st : qcoll) : qcoll :=
  map (fun e => if Nat.eqb (q_ver e) v then mkQ (q_ver e) (q_kind e) (q_dst e) (q_master e) ints else e) st.

Fixpoint remove_first (p : nat) (l : list nat) : list nat :=
  match l with
  | [] => []
  | x :: t => if Nat.eqb x p then t else x :: remove_first p t
  end.

(* _extract_pr_ids: hotfix queues first (walking the versions newest first), then the greatest development
   version; every id is inserted in front unless already present *)
Definition add_front (acc : list nat) (p : nat) : list nat := if mem p acc then acc else p :: acc.

Definition extract_prs (st : qcoll) : list nat :=
  let rst := rev st in
  let prs_hf := fold_left (fun acc e => if is_hot (q_kind e) then fold_left add_front (map fst (q_ints e)) acc else acc)
                          rst [] in
  let greatest := find (fun e => is_dev (q_kind e)) rst in
  let prs := match greatest with
             | Some e => fold_left (fun acc p => if mem p (prs_hf ++ acc) then acc else p :: acc) (map fst (q_ints e)) []
             | None => []
             end in
  prs_hf ++ prs.

(* "check all subsequent versions have a master queue" *)
Fixpoint vmissing (hf : bool) (has_queues : bool) (versions : list nat) (st : qcoll) : list qerr :=
  match versions with
  | [] => []
  | v :: rest =>
      match get v st with
      | None => (if has_queues && negb hf then [EMasterMissing] else []) ++ vmissing hf has_queues rest st
      | Some e => (match q_master e with None => [EMasterMissing] | Some _ => [] end) ++ vmissing hf true rest st
      end
  end.

(* the inner `for version in reversed(versions[:-1])` for pull request [pr]; [next] is the tip of the queue
   integration branch of [pr] on the previous (higher) version *)
Fixpoint vdown (s : store) (rvers : list nat) (pr : nat) (next : cid) (st : qcoll) : qcoll * list qerr :=
  match rvers with
  | [] => (st, [])
  | v :: rest =>
      match get v st with
      | None => (st, [])                                          (* supposedly finished *)
      | Some e =>
          if is_hot (q_kind e) then vdown s rest pr next st       (* skip hf from check loop *)
          else match q_ints e with
               | (p, t) :: ints' =>
                   if Nat.eqb p pr then
                     let errs := if anc s t next then [] else [EInclusion] in
                     let res := vdown s rest pr t (set_ints v ints' st) in
                     (fst res, errs ++ snd res)
                   else (st, [])
               | [] => (st, [])
               end
      end
  end.

(* the `while stack[last_version][QueueIntegrationBranch]` loop over the (popped) list [l];
   returns what is left of that list, the stack, the remaining ids, the errors *)
Fixpoint vloop (s : store) (rvers : list nat) (l : list (nat * cid)) (st : qcoll) (prs : list nat)
  : list (nat * cid) * qcoll * list nat * list qerr :=
  match l with
  | [] => ([], st, prs, [])
  | (pr, tip) :: l' =>
      if negb (mem pr prs) then (l', st, prs, [])                 (* early fail *)
      else
        let d := vdown s rvers pr tip st in
        match vloop s rvers l' (fst d) (remove_first pr prs) with
        | (lr, st', prs', errs) => (lr, st', prs', snd d ++ errs)
        end
  end.

(* "skip hf from stack and prs before final checks" *)
Fixpoint skip_hot (versions : list nat) (st : qcoll) (prs : list nat) : qcoll * list nat :=
  match versions with
  | [] => (st, prs)
  | v :: rest =>
      match get v st with
      | Some e =>
          if is_hot (q_kind e) then
            skip_hot rest (set_ints v [] st)
                     (fold_left (fun acc p => if mem p acc then remove_first p acc else acc) (map fst (q_ints e)) prs)
          else skip_hot rest st prs
      | None => skip_hot rest st prs
      end
  end.

Definition vval (s : store) (versions : list nat) (qc : qcoll) : list qerr :=
  let st := filter (fun e => mem (q_ver e) versions) qc in
  let prs := extract_prs st in
  let hf := match st with [e] => is_hot (q_kind e) | _ => false end in
  match rev versions with
  | [] => [EEmptyPath]
  | lastv :: rvers =>
      let e1 := vmissing hf false versions st in
      match get lastv st with
      | None => e1
      | Some el =>
          match vloop s rvers (q_ints el) st prs with
          | (lr, st1, prs1, e2) =>
              let st2 := set_ints lastv lr st1 in
              let sk := skip_hot versions st2 prs1 in
              e1 ++ e2 ++
              (match snd sk with
               | _ :: _ => [EOrder]
               | [] => flat_map (fun v => match get v (fst sk) with
                                          | Some e => match q_ints e with _ :: _ => [EOrder] | [] => [] end
                                          | None => []
                                          end) versions
               end)
          end
      end
  end.

Definition validate (s : store) (paths : list (list nat)) (qc : qcoll) : list qerr :=
  match qc with
  | [] => []                                                      (* no queues, cool stuff *)
  | _ => flat_map (hval s) qc ++ flat_map (fun p => vval s p qc) paths
  end.

(* ---- add_to_queue seen at the level of the collection ----
   [newtip v] = Some t when the pull request [p] targets version v and its queue commit there is t.
   The one named push of add_to_queue writes, for every such version, q/<v> := t and the new ref q/w/<p>/<v> := t. *)
Definition queued (p : nat) (newtip : nat -> option cid) (qc : qcoll) : qcoll :=
  map (fun e => match newtip (q_ver e) with
                | Some t => mkQ (q_ver e) (q_kind e) (q_dst e) (Some t) ((p, t) :: q_ints e)
                | None => e
                end) qc.

(* the same push with the update of q/<j> refused (the ref keeps its old value) *)
Definition half_master (p : nat) (newtip : nat -> option cid) (j : nat) (qc : qcoll) : qcoll :=
  map (fun e => match newtip (q_ver e) with
                | Some t => mkQ (q_ver e) (q_kind e) (q_dst e)
                                (if Nat.eqb (q_ver e) j then q_master e else Some t) ((p, t) :: q_ints e)
                | None => e
                end) qc.

(* the same push with the creation of q/w/<p>/<j> refused (the ref is missing) *)
Definition half_int (p : nat) (newtip : nat -> option cid) (j : nat) (qc : qcoll) : qcoll :=
  map (fun e => match newtip (q_ver e) with
                | Some t => mkQ (q_ver e) (q_kind e) (q_dst e) (Some t)
                                (if Nat.eqb (q_ver e) j then q_ints e else (p, t) :: q_ints e)
                | None => e
                end) qc.
