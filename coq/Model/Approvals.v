(* Model of bert_e/workflow/gitwaterflow/__init__.py:check_approvals, of the three helpers
   utils.bypass_{author,peer,leader}_approval it calls, and of how the values it reads get into
   job.settings / job.author_bypass (Reactor.init_settings + option handlers, gwf.setup defaults,
   PrAuthorsOptions.deserialize, PullRequestJob.author_bypass).
   Data (option registry, command-line wiring, BYPASS_LIST) comes from Generated/Facts_C04.v, re-emitted
   from /repo on every run.  No proofs in this file.

   Python -> Gallina here:
   * users are compared by equality only: [user := N] (the harness maps names to ids injectively);
   * the host lists (get_participants / get_approvals / get_change_requests, settings.project_leaders)
     are ARBITRARY lists, duplicates allowed; Python's [set(l)] is [to_set l] (first occurrences dropped,
     so the result is duplicate free); a Python set is a duplicate-free list; the code only observes
     membership, [len] and [<=] of its sets, never their iteration order, and so does the model;
   * required counts are [Z] (settings are ints; nothing in check_approvals restricts their sign);
   * [return] is [Pass], [raise messages.ApprovalRequired] is [ApprovalRequired];
     [job.settings.<option>] of an option that gwf.setup did not register is an AttributeError in
     Python: [AttributeErr] here, never a silent default. *)
From Coq Require Import List String Bool NArith ZArith.
Require Import BertE.Generated.Facts_C04.
Import ListNotations.
Open Scope string_scope.

Definition user := N.

Inductive outcome := Pass | ApprovalRequired | AttributeErr.

(* ---------------------------------------------------------------- Python sets as duplicate-free lists *)
Definition mem (x : user) (s : list user) : bool := existsb (N.eqb x) s.           (* x in s *)
Fixpoint to_set (l : list user) : list user :=                                     (* set(l) *)
  match l with
  | [] => []
  | x :: t => if mem x t then to_set t else x :: to_set t
  end.
Definition set_add (x : user) (s : list user) : list user := if mem x s then s else x :: s.   (* s.add(x) *)
Definition set_sub1 (s : list user) (x : user) : list user :=                      (* s - {x} *)
  filter (fun y => negb (N.eqb y x)) s.
Definition set_inter (a b : list user) : list user := filter (fun y => mem y b) a. (* a.intersection(b) *)
Definition set_le (a b : list user) : bool := forallb (fun y => mem y b) a.        (* a <= b *)
Definition len (s : list user) : Z := Z.of_nat (List.length s).                         (* len(s) *)

(* ---------------------------------------------------------------- where the option values come from *)
Fixpoint assoc {A} (k : string) (l : list (string * A)) : option A :=
  match l with
  | [] => None
  | (k', v) :: t => if k' =? k then Some v else assoc k t
  end.

(* job.settings.<name> after handle_comments: Reactor.init_settings installs the default registered
   by gwf.setup (False, or True when the command line lists the option: Facts [cmdline_wiring]); a
   comment accepted by handle_options runs set_option, which stores True. *)
Definition settings_value (name : string) (comment cmdline : bool) : option bool :=
  match assoc name option_registry, assoc name cmdline_wiring with
  | Some _, Some (d_off, d_on) => Some (if comment then true else if cmdline then d_on else d_off)
  | _, _ => None
  end.

(* job.author_bypass.get(name, False): PrAuthorsOptions.deserialize builds, for a user of
   pr_author_options, {key: key in listed for key in BYPASS_LIST} (and rejects the settings file when a
   listed name is not in BYPASS_LIST, so a name outside it can never be on). *)
Definition author_bypass_get (name : string) (listed : bool) : bool :=
  existsb (String.eqb name) bypass_list && listed.

(* utils.bypass_X(job) = job.settings.X or job.author_bypass.get('X', False) *)
Definition bypass (name : string) (comment cmdline per_author : bool) : option bool :=
  match settings_value name comment cmdline with
  | Some v => Some (v || author_bypass_get name per_author)
  | None => None
  end.

(* ---------------------------------------------------------------- inputs of one call *)
Record inputs := mkInputs {
  i_required_peer : Z;            (* job.settings.required_peer_approvals *)
  i_required_leader : Z;          (* job.settings.required_leader_approvals *)
  i_need_author : bool;           (* job.settings.need_author_approval *)
  (* each bypass: admin comment / command line / per-author setting *)
  i_bypass_author_comment : bool; i_bypass_author_cmdline : bool; i_bypass_author_setting : bool;
  i_bypass_peer_comment : bool;   i_bypass_peer_cmdline : bool;   i_bypass_peer_setting : bool;
  i_bypass_leader_comment : bool; i_bypass_leader_cmdline : bool; i_bypass_leader_setting : bool;
  i_approve : bool;               (* the author's `approve` comment *)
  i_unanimity : bool;             (* a `unanimity` comment *)
  i_robot : user;                 (* job.settings.robot *)
  i_author : user;                (* job.pull_request.author *)
  i_leaders : list user;          (* job.settings.project_leaders *)
  i_participants : list user;     (* job.pull_request.get_participants() *)
  i_approvals : list user;        (* job.pull_request.get_approvals() *)
  i_change_requests : list user   (* job.pull_request.get_change_requests() *)
}.

(* the part of check_approvals below the early return; the names are those of the Python locals *)
Definition check_tail (i : inputs) (approve requires_unanimity : bool)
    (approved_by_author0 : bool) (current_peer0 current_leader0 : Z) : outcome :=
  let required_peer_approvals := i_required_peer i in
  let required_leader_approvals := i_required_leader i in
  let username := i_robot i in
  let author := i_author i in
  let participants := to_set (i_participants i) in
  let approvals := to_set (i_approvals i) in
  let approvals := if approve then set_add author approvals else approvals in
  let participants := set_sub1 participants username in
  let leaders := to_set (i_leaders i) in
  let is_unanimous := set_le participants approvals in
  let approved_by_author := approved_by_author0 || mem author approvals in
  let current_leader_approvals := (current_leader0 + len (set_inter approvals leaders))%Z in
  let current_leader_approvals :=
    if mem author leaders && negb (mem author approvals)
    then (current_leader_approvals + 1)%Z else current_leader_approvals in
  let missing_leader_approvals := (required_leader_approvals - current_leader_approvals)%Z in
  let peer_approvals := set_sub1 approvals author in
  let current_peer_approvals := (current_peer0 + len peer_approvals)%Z in
  let missing_peer_approvals := (required_peer_approvals - current_peer_approvals)%Z in
  let change_requests := to_set (i_change_requests i) in
  if negb approved_by_author
     || (missing_leader_approvals >? 0)%Z
     || (missing_peer_approvals >? 0)%Z
     || (requires_unanimity && negb is_unanimous)
     || (len change_requests >? 0)%Z
  then ApprovalRequired else Pass.

Definition check_approvals (i : inputs) : outcome :=
  match bypass "bypass_peer_approval" (i_bypass_peer_comment i) (i_bypass_peer_cmdline i) (i_bypass_peer_setting i),
        bypass "bypass_leader_approval" (i_bypass_leader_comment i) (i_bypass_leader_cmdline i) (i_bypass_leader_setting i),
        bypass "bypass_author_approval" (i_bypass_author_comment i) (i_bypass_author_cmdline i) (i_bypass_author_setting i),
        settings_value "approve" (i_approve i) false,
        settings_value "unanimity" (i_unanimity i) false with
  | Some bypass_peer, Some bypass_leader, Some bypass_author, Some approve, Some requires_unanimity =>
      let required_peer_approvals := i_required_peer i in
      let current_peer_approvals := if bypass_peer then required_peer_approvals else 0%Z in
      let required_leader_approvals := i_required_leader i in
      let current_leader_approvals := if bypass_leader then required_leader_approvals else 0%Z in
      let approved_by_author := negb (i_need_author i) || bypass_author || approve in
      if approved_by_author
         && (current_peer_approvals >=? required_peer_approvals)%Z
         && (current_leader_approvals >=? required_leader_approvals)%Z
         && negb requires_unanimity
      then Pass
      else check_tail i approve requires_unanimity approved_by_author
                      current_peer_approvals current_leader_approvals
  | _, _, _, _, _ => AttributeErr
  end.

(* SettingsSchema.validate_inter_settings (Facts [settings_rule], pinned in Proofs/C04Proofs.v):
   a settings file is rejected when leaders > peers or leaders > len(project_leaders). *)
Definition settings_valid (i : inputs) : Prop :=
  (i_required_leader i <= i_required_peer i)%Z /\
  (i_required_leader i <= Z.of_nat (List.length (i_leaders i)))%Z.
