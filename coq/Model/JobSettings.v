(* Where a job reads its settings from: bert_e/job.py (Job.__init__: `settings = settings or {}`,
   SettingsDict(settings, bert_e.settings)), bert_e/lib/settings_dict.py (a ChainMap: reads look in the job's own map
   first, then in the instance's; writes go to the job's own map) and Reactor.init_settings (every registered option
   is written with its default at the start of an evaluation).

     inst    the settings of the instance (settings file + command line)
     given   what the creator of the job passed: nothing (webhook handlers, nested jobs) or a map (the JSON body of an
             API request, for API jobs)
     opts    the registered options with their defaults, in registration order

   Values are natural numbers (the harness numbers the Python values it meets).  Executable; no proofs here
   (Proofs/JobSettingsProofs.v). *)
From Coq Require Import List String Bool.
Import ListNotations.
Open Scope string_scope.

Definition smap := list (string * nat).

Fixpoint sget (k : string) (m : smap) : option nat :=
  match m with
  | [] => None
  | (k', v) :: t => if String.eqb k k' then Some v else sget k t
  end.

(* dict assignment: the value of an existing key is replaced, a new key is added *)
Fixpoint sset (k : string) (v : nat) (m : smap) : smap :=
  match m with
  | [] => [(k, v)]
  | (k', v') :: t => if String.eqb k k' then (k, v) :: t else (k', v') :: sset k v t
  end.

Record jset := { j_top : smap; j_base : smap }.

Definition jget (k : string) (s : jset) : option nat :=
  match sget k (j_top s) with Some v => Some v | None => sget k (j_base s) end.

Definition jput (s : jset) (kv : string * nat) : jset :=
  {| j_top := sset (fst kv) (snd kv) (j_top s); j_base := j_base s |}.

Definition new_job (given : option smap) (inst : smap) : jset :=
  {| j_top := match given with Some m => m | None => [] end; j_base := inst |}.

Definition init_settings (opts : smap) (s : jset) : jset := fold_left jput opts s.

(* one job: built, initialised, some settings written by the evaluation (option handlers), some keys read *)
Definition job_reads (opts inst : smap) (given : option smap) (writes : smap) (reads : list string)
  : list (option nat) :=
  let s := fold_left jput writes (init_settings opts (new_job given inst)) in
  map (fun k => jget k s) reads.
