(* One (commit, build key) cell of BUILD_STATUS_CACHE while operations of several threads (webhook handlers in the
   Flask threads, polls in the worker) interleave at the points where they wait for the host.

     Event s        a webhook handler that needs no round-trip (status event, Bitbucket commit status): stores s
                    unless the cell is SUCCESSFUL
     SuiteEnd s     the check_suite handler stores the state of the runs it fetched (its fetch began earlier: the
                    answer s may be arbitrarily old)
     PollBegin      get_build_status looks at the cell: SUCCESSFUL is answered at once (no round-trip)
     PollEnd s      the host's answer s of an earlier PollBegin arrives and is stored / answered

   [guards]: whether SuiteEnd / PollEnd look at the cell again before they store (observed on the running code,
   Generated/Facts_C17.v).  Executable; no proofs here (Proofs/IoCacheProofs.v). *)
From Coq Require Import List String Bool.
Import ListNotations.
Open Scope string_scope.

Inductive iostep :=
| Event (s : string)
| SuiteEnd (s : string)
| PollBegin
| PollEnd (host : option string).        (* None = the poll of a GitHub key, Some = ... see [guard_of] *)

Record guards := { g_suite : bool; g_poll : bool }.

Definition is_green (cell : option string) : bool :=
  match cell with Some s => String.eqb s "SUCCESSFUL" | None => false end.

Definition store (guarded : bool) (cell : option string) (s : string) : option string :=
  if guarded && is_green cell then cell else Some s.

(* the cell after a step, and what a poll answers (None: the step is not a poll, or the poll is still waiting) *)
Definition io_step (g : guards) (cell : option string) (st : iostep) : option string * option string :=
  match st with
  | Event s => (store true cell s, None)
  | SuiteEnd s => (store (g_suite g) cell s, None)
  | PollBegin => (cell, if is_green cell then Some "SUCCESSFUL" else None)
  | PollEnd (Some s) => let c := store (g_poll g) cell s in (c, c)
  | PollEnd None => (cell, if is_green cell then Some "SUCCESSFUL" else Some "NOTSTARTED")   (* HTTP 404 *)
  end.

Fixpoint io_run (g : guards) (cell : option string) (l : list iostep) : option string * list (option string) :=
  match l with
  | [] => (cell, [])
  | st :: t => let (c, a) := io_step g cell st in
               let (c', al) := io_run g c t in (c', a :: al)
  end.
