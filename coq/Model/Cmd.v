(* Model/Cmd.v - what leaves Bert-E when it runs a shell command or talks to the GitHub API.

   Mirrors (repaired or not: see [links] - exception links and guarded clean-up of _do_cmd - and
   [token_flow_prints_headers])
     bert_e/lib/simplecmd.py   cmd, _do_cmd (masking closures, the three ways a command ends)
     bert_e/lib/git.py         Repository.cmd (default mask, retry), checkout / push / push_all wrappers
     bert_e/bert_e.py          BertE.process (LOG.exception), process_task (LOG.exception, job.status/details)
     bert_e/git_host/base.py   BertESession.request (what it logs, retry on 429/500/502)
     bert_e/git_host/github    Client.headers, _get_installation_token
   as functions from the inputs to the list of EMISSIONS: every text that reaches a log handler (for
   LOG.exception: the message and every "Type: message" header of the exception chain a traceback
   formatter prints), the return value, str() of the escaping exception, job.status, job.details,
   standard output.  Message templates, masking flags, exception links are data of Facts_C16.
   No proofs in this file. *)
From Coq Require Import List String Ascii Bool Arith NArith ZArith.
Require Import BertE.Base.Str BertE.Generated.Facts_C16 BertE.Model.Mask.
Import ListNotations.
Open Scope string_scope.

(* ------------------------------------------------------------------ emissions *)

Inductive level := DEBUG | INFO | ERROR.

Inductive channel :=
| Log (lv : level)      (* text of a log record (record.getMessage()) *)
| LogExc                (* message of a LOG.exception record; its chain follows as [Chain] emissions *)
| Chain (foreign : bool)(* one "Type: message" header of a rendered exception chain; [foreign] marks an
                           exception Bert-E did not build itself (TimeoutExpired, OSError, ...) *)
| ExcMsg                (* str(err) of the exception that escapes *)
| Returned              (* value returned to the caller *)
| Status                (* job.status *)
| Details               (* job.details *)
| Stdout.               (* printed on standard output *)

Definition emission : Type := channel * string.
Local Infix "+++" := (@app emission) (right associativity, at level 60).

(* "%s"-style template: pieces around the arguments, p0 a0 p1 a1 ... pn *)
Fixpoint fmt (ps args : list string) : string :=
  match ps with
  | [] => ""
  | p :: ps' => match args with
                | [] => p ++ fmt ps' []
                | a :: args' => p ++ a ++ fmt ps' args'
                end
  end.

(* Python's "%d" % n *)
Definition print_Z (z : Z) : string :=
  match z with
  | Z0 => "0"
  | Zpos p => print_N (Npos p)
  | Zneg p => "-" ++ print_N (Npos p)
  end.

(* ------------------------------------------------------------------ exceptions *)

(* An exception together with what a traceback formatter prints before it (its __cause__ chain, or its
   __context__ chain when not suppressed), oldest first. *)
Record exc := { e_ty : string; e_msg : string; e_foreign : bool; e_prev : list (bool * (string * string)) }.

Definition rendered (e : exc) : list (bool * (string * string)) :=
  (e_prev e ++ [(e_foreign e, (e_ty e, e_msg e))])%list.

(* raise ty(msg) while [handled] is being handled, linked as [k] *)
Definition raise_from (k : link_kind) (ty msg : string) (foreign : bool) (handled : exc) : exc :=
  {| e_ty := ty; e_msg := msg; e_foreign := foreign;
     e_prev := match k with LinkNone => [] | LinkCause | LinkContext => rendered handled end |}.

(* raise ty(msg) outside any handler of the current function; [pending] is the exception a caller
   up the stack is handling (Repository.cmd retrying), which becomes the implicit __context__ *)
Definition raise_in (pending : option exc) (ty msg : string) (foreign : bool) : exc :=
  {| e_ty := ty; e_msg := msg; e_foreign := foreign;
     e_prev := match pending with Some p => rendered p | None => [] end |}.

(* traceback.format_exception_only: "Type: message", or "Type" for an empty message *)
Definition header (ty msg : string) : string := if is_empty msg then ty else ty ++ ": " ++ msg.

Definition chain_emissions (e : exc) : list emission :=
  map (fun x => (Chain (fst x), header (fst (snd x)) (snd (snd x)))) (rendered e).

Fixpoint after_last_dot (acc s : string) : string :=
  match s with
  | EmptyString => acc
  | String c t => if (c =? ".")%char then after_last_dot t t else after_last_dot acc t
  end.
(* type(err).__name__ from the qualified name *)
Definition short_name (ty : string) : string := after_last_dot ty ty.

(* ------------------------------------------------------------------ simplecmd.cmd / _do_cmd *)

Inductive behaviour :=
| Exit (code : Z)               (* the process ends by itself; negative = killed by a signal *)
| Timeout                       (* communicate(timeout) expires; the process group is killed *)
| TimeoutErr (ty msg : string)  (* the same, and the clean-up in the except block (killpg, second communicate:
                                   e.g. partial output that cannot be decoded) raises in turn *)
| OsErr (ty msg : string).      (* any other exception inside the try block of _do_cmd *)

(* one run of the process: how it ends, what it wrote on stdout, then on stderr *)
Record attempt := { a_beh : behaviour; a_out : string; a_err : string }.

(* the switch of F10: how the raw error is linked to the CommandError at the two raise sites, and whether
   the clean-up after a timeout is guarded (an exception escaping from inside the except block would carry
   the TimeoutExpired as its context) *)
Record links := { l_timeout : link_kind; l_oserr : link_kind; l_guarded : bool }.
Definition code_links : links :=
  {| l_timeout := timeout_link; l_oserr := oserr_link; l_guarded := timeout_cleanup_guarded |}.
Definition repaired_links : links := {| l_timeout := LinkNone; l_oserr := LinkNone; l_guarded := true |}.
Definition link_leaky (k : link_kind) : bool := match k with LinkNone => false | _ => true end.
Definition links_leaky (lk : links) : bool :=
  link_leaky (l_timeout lk) || link_leaky (l_oserr lk) || negb (l_guarded lk).

Record cfg := {
  c_mask : string;     (* the mask_pwd keyword argument ("" = none) *)
  c_cwd : string;      (* working directory, shown in DEBUG records *)
  c_cmd : string;      (* the command line handed to the shell *)
  c_debug : bool;      (* LOG.isEnabledFor(logging.DEBUG) *)
  c_tout : string      (* the timeout as Python prints it in TimeoutExpired, e.g. "0.2" *)
}.

Definition timeout_expired_name : string := "subprocess.TimeoutExpired".
(* str(subprocess.TimeoutExpired(cmd, timeout)) *)
Definition timeout_expired_text (cmd tout : string) : string :=
  "Command '" ++ cmd ++ "' timed out after " ++ tout ++ " seconds".

(* at DEBUG stderr is redirected into stdout, otherwise it goes to /dev/null *)
Definition captured (debug : bool) (a : attempt) : string :=
  if debug then a_out a ++ a_err a else a_out a.

Definition maybe_mask (flag : bool) (pwd data : string) : string := if flag then mask_pwd pwd data else data.

Definition cmd_once (lk : links) (c : cfg) (a : attempt) (pending : option exc)
  : list emission * (string + exc) :=
  let dbg (l : list emission) := if c_debug c then l else [] in
  let start := dbg [(Log DEBUG, fmt cmd_debug_fmt [c_cwd c; maybe_mask cmd_debug_cmd_masked (c_mask c) (c_cmd c)])] in
  match a_beh a with
  | Exit code =>
      let out := maybe_mask output_masked (c_mask c) (captured (c_debug c) a) in
      if (code =? 0)%Z then (start, inl out)
      else (start +++ dbg [(Log DEBUG, fmt exit_debug_fmt [c_cwd c; print_Z code])],
            inr (raise_in pending command_error_name
                   (fmt exit_msg_fmt [maybe_mask exit_msg_cmd_masked (c_mask c) (c_cmd c); print_Z code; out])
                   false))
  | Timeout =>
      let te := raise_in pending timeout_expired_name (timeout_expired_text (c_cmd c) (c_tout c)) true in
      (start +++ dbg [(Log DEBUG, fmt timeout_debug_fmt [c_cwd c])],
       inr (raise_from (l_timeout lk) command_error_name
              (fmt timeout_msg_fmt [maybe_mask timeout_msg_cmd_masked (c_mask c) (c_cmd c)]) false te))
  | TimeoutErr ty msg =>
      let te := raise_in pending timeout_expired_name (timeout_expired_text (c_cmd c) (c_tout c)) true in
      if l_guarded lk then
        (start +++ dbg [(Log DEBUG, fmt timeout_debug_fmt [c_cwd c])],
         inr (raise_from (l_timeout lk) command_error_name
                (fmt timeout_msg_fmt [maybe_mask timeout_msg_cmd_masked (c_mask c) (c_cmd c)]) false te))
      else (start, inr (raise_from LinkContext ty msg true te))    (* escapes as it is, unmasked *)
  | OsErr ty msg =>
      let oe := raise_in pending ty msg true in
      (start, inr (raise_from (l_oserr lk) command_error_name
                     (maybe_mask oserr_msg_masked (c_mask c) msg) false oe))
  end.

(* ------------------------------------------------------------------ git.Repository.cmd *)

(* kwargs.setdefault('mask_pwd', self._mask_pwd) *)
Definition effective_mask (repo_mask : string) : string := if repo_sets_default_mask then repo_mask else "".

(* [atts]: what the process does at each successive run.  Running out of scripted attempts is an
   explicit error of the model's input, never a silent success. *)
Definition out_of_script : exc := {| e_ty := "OutOfScript"; e_msg := ""; e_foreign := false; e_prev := [] |}.

Fixpoint repo_cmd (lk : links) (c : cfg) (retry : nat) (atts : list attempt) (pending : option exc) {struct atts}
  : list emission * (string + exc) :=
  match atts with
  | [] => ([], inr out_of_script)
  | a :: rest =>
      let '(em, r) := cmd_once lk c a pending in
      match r with
      | inl o => (em, inl o)
      | inr e =>
          if e_foreign e then (em, inr e)       (* not a CommandError: "except CommandError" lets it pass *)
          else
          match retry with
          | O => (em, inr e)
          | S k =>
              let '(em2, r2) := repo_cmd lk c k rest (Some e) in
              (em +++ (if c_debug c then [(Log DEBUG, fmt retry_debug_fmt [print_N (N.of_nat retry)])] else [])
                  +++ em2, r2)
          end
      end
  end.

(* checkout / push / push_all: except CommandError as err: raise XFailedException(arg) from err *)
Inductive wrapper := WNone | WMethod (method name : string).

Definition wrap (w : wrapper) (e : exc) : option exc :=
  match w with
  | WNone => Some e
  | WMethod m name =>
      if e_foreign e then Some e else           (* the wrappers only catch CommandError *)
      match find (fun x => fst x =? m) wrappers with
      | None => None
      | Some (_, (ty, (what, k))) =>
          let msg := if what =? "name" then name else e_msg e in
          Some (raise_from k ty msg false e)
      end
  end.

(* ------------------------------------------------------------------ BertE.process / process_task *)

Record job_input := {
  j_links : links;
  j_repo_mask : string;   (* Repository._mask_pwd *)
  j_cwd : string; j_cmd : string; j_debug : bool; j_tout : string;
  j_retry : nat; j_atts : list attempt;
  j_wrap : wrapper;
  j_job : string          (* str(job) *)
}.

Definition job_cfg (j : job_input) : cfg :=
  {| c_mask := effective_mask (j_repo_mask j); c_cwd := j_cwd j; c_cmd := j_cmd j;
     c_debug := j_debug j; c_tout := j_tout j |}.

Definition unknown_wrapper : list emission := [(ExcMsg, "model error: unknown wrapper")].

Definition job_emissions (j : job_input) : list emission :=
  let '(em, r) := repo_cmd (j_links j) (job_cfg j) (j_retry j) (j_atts j) None in
  match r with
  | inl out =>
      (* Repository.cmd returns the (masked) output; checkout / push / push_all drop it *)
      em +++ match j_wrap j with WNone => [(Returned, out)] | WMethod _ _ => [] end
  | inr e0 =>
      match wrap (j_wrap j) e0 with
      | None => unknown_wrapper
      | Some e =>
          em
          (* BertE.process: except Exception as err: LOG.exception("Exception raised: %s", err); raise *)
          +++ [(LogExc, fmt process_exc_fmt [e_msg e])] +++ chain_emissions e
          (* process_task: LOG.exception("Job '%s' finished with an error.", job); job.details = str(err) *)
          +++ [(LogExc, fmt task_exc_fmt [j_job j])] +++ chain_emissions e
          +++ [(Status, short_name (e_ty e))]
          +++ (if details_is_str_err then [(Details, e_msg e)] else [])
          +++ [(ExcMsg, e_msg e)]
      end
  end.

(* what Bert-E masks with, and what the git hosts put in the clone URL *)
Definition apply_fn (f pwd : string) : option string :=
  if f =? "quote_plus" then Some (quote_plus pwd) else if f =? "raw" then Some pwd else None.
Definition robot_mask (pwd : string) : option string := apply_fn mask_fn pwd.
Definition url_secret (host pwd : string) : option string :=
  match find (fun x => fst x =? host) url_password_fn with
  | Some (_, f) => apply_fn f pwd
  | None => None
  end.

(* ------------------------------------------------------------------ BertESession.request *)

Inductive response :=
| Resp (status : N) (reason : string)     (* an HTTP response *)
| ConnErr (ty msg : string).              (* the transport raises *)

(* values a log call of BertESession.request may interpolate; "headers" is there so that a change
   of the code that starts logging them shows up in the emissions *)
Record req_env := { r_method : string; r_url : string; r_headers : string; r_elapsed : string }.

Definition field (env : req_env) (status nap : string) (name : string) : string :=
  if name =? "method" then r_method env else if name =? "url" then r_url env
  else if name =? "status" then status else if name =? "time" then r_elapsed env
  else if name =? "nap" then nap else if name =? "headers" then r_headers env
  else "<unknown field>".

Definition level_of (s : string) : level :=
  if s =? "DEBUG" then DEBUG else if s =? "INFO" then INFO else ERROR.

Definition session_log (spec : string * (list string * list string)) (env : req_env) (status nap : string)
  : emission :=
  (Log (level_of (fst spec)), fmt (fst (snd spec)) (map (field env status nap) (snd (snd spec)))).

Definition is_flaky (st : N) : bool := existsb (N.eqb st) session_flaky_statuses.

(* for attempt in range(1, max_attempts + 1): ... ; [n] = attempts left, [k] = number of this attempt *)
Fixpoint session_request (env : req_env) (n k : nat) (rs : list response)
  : list emission * (N * string + exc + unit) :=      (* response | exception | FlakyGitHost *)
  match n with
  | O => ([], inr tt)
  | S n' =>
      match rs with
      | [] => ([], inl (inr out_of_script))
      | ConnErr ty msg :: _ =>
          ([session_log session_log_exc env "" ""], inl (inr (raise_in None ty msg true)))
      | Resp st reason :: rest =>
          let ok := session_log session_log_ok env (print_N st) "" in
          if is_flaky st then
            let nap := print_N (N.of_nat (30 * k)) in
            let '(em, r) := session_request env n' (S k) rest in
            (ok :: session_log session_log_sleep env (print_N st) nap
                :: (match n' with
                    | O => session_log session_log_skip env (print_N st) nap
                    | S _ => session_log session_log_retry env (print_N st) nap
                    end) :: em, r)
          else ([ok], inl (inl (st, reason)))
      end
  end.

Definition http_error_name : string := "requests.exceptions.HTTPError".
(* requests.Response.raise_for_status (requests 2.x) *)
Definition raise_for_status (st : N) (reason url : string) : option exc :=
  if ((400 <=? st) && (st <? 500))%N then
    Some (raise_in None http_error_name (print_N st ++ " Client Error: " ++ reason ++ " for url: " ++ url) true)
  else if ((500 <=? st) && (st <? 600))%N then
    Some (raise_in None http_error_name (print_N st ++ " Server Error: " ++ reason ++ " for url: " ++ url) true)
  else None.

(* one API call of the GitHub client (get / post / put / delete): request, then raise_for_status *)
Definition api_call (env : req_env) (rs : list response) : list emission * option exc :=
  let '(em, r) := session_request env session_max_attempts 1 rs in
  match r with
  | inl (inl (st, reason)) =>
      match raise_for_status st reason (r_url env) with
      | Some e => (em +++ [(ExcMsg, e_msg e)], Some e)
      | None => (em, None)
      end
  | inl (inr e) => (em +++ [(ExcMsg, e_msg e)], Some e)
  | inr tt => (em, Some (raise_in None flaky_exception_name "" false))
  end.

(* ------------------------------------------------------------------ github.Client *)

(* repr() of the headers dict of _get_installation_token, for values without quotes or backslashes *)
Definition token_headers_repr (jwt accept : string) : string :=
  "{'Authorization': 'Bearer " ++ jwt ++ "', 'Accept': '" ++ accept ++ "'}".

Record gh_input := {
  g_prints : bool;           (* is there a print(headers) in _get_installation_token: the switch of F7 *)
  g_app : bool;              (* GitHub-App flow (app id, installation id and key set) or password flow *)
  g_pwd : string; g_jwt : string; g_token : string;     (* the three secrets *)
  g_base_url : string; g_installation : string; g_accept : string; g_elapsed : string;
  g_token_rs : list response;        (* answers to POST .../access_tokens *)
  g_method : string; g_url : string; g_call_rs : list response   (* one later API call *)
}.

(* Client.__init__ -> headers (-> _get_installation_token), then one API call with those headers.
   The Authorization header values are sent to the git host: they are not emissions. *)
Definition github_flow (g : gh_input) : list emission :=
  let call auth :=
    fst (api_call {| r_method := g_method g; r_url := g_url g; r_headers := auth; r_elapsed := g_elapsed g |}
                  (g_call_rs g)) in
  if g_app g then
    let url := fmt token_url_fmt [g_base_url g; g_installation g] in
    let hdr := token_headers_repr (g_jwt g) (g_accept g) in
    let '(em, err) := api_call {| r_method := "POST"; r_url := url; r_headers := hdr; r_elapsed := g_elapsed g |}
                               (g_token_rs g) in
    (if g_prints g then [(Stdout, hdr)] else []) +++ em +++
    match err with
    | Some _ => []                                   (* the constructor fails: no client, no later call *)
    | None => call ("Bearer " ++ g_token g)
    end
  else call ("token " ++ g_pwd g).
