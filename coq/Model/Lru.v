(* Model of bert_e/lib/lru_cache.py (LRUCache), bert_e/git_host/cache.py (BUILD_STATUS_CACHE) and of the
   status-cache protocol built on them:
     bert_e/server/webhook.py        handle_github_status_event, handle_github_check_suite_event,
                                     handle_bitbucket_repo_event (commit_status_created / _updated)
     bert_e/git_host/github          Repository.get_commit_status, Repository.get_build_status
     bert_e/git_host/bitbucket       Repository.get_build_status
   The guards found in the code (Generated/Facts_C17.v) parametrise the model through [cfg];
   [code_cfg] is the configuration of the code as it is.  No proofs in this file.

   Abstraction: a cached object (Status, AggregatedWorkflowRuns, BuildStatus) is represented by the
   value of its .state property, computed when the object enters the model ([eval_op]). *)
From Coq Require Import List String Bool Arith ZArith.
Require Import BertE.Generated.Facts_C17 BertE.Model.CI.
Import ListNotations.
Open Scope string_scope.
Open Scope list_scope.

(* ---------------------------------------------------------------------------------------------
   LRUCache: self._dict is an OrderedDict, modelled as an association list with unique keys,
   least recently used first; self._size is [size]. *)
Definition lru := list (string * string).          (* commit sha -> state *)

Definition lru_keys (l : lru) : list string := map fst l.
Definition lru_lookup (c : string) (l : lru) : option string :=
  match find (fun p => fst p =? c) l with Some p => Some (snd p) | None => None end.
Definition lru_remove (c : string) (l : lru) : lru := filter (fun p => negb (fst p =? c)) l.

(* get(key, default=None): move_to_end(key) then return the value; KeyError -> default *)
Definition lru_get (c : string) (l : lru) : option string * lru :=
  match lru_lookup c l with
  | Some v => (Some v, lru_remove c l ++ [(c, v)])
  | None => (None, l)
  end.

(* set(key, val):  try: move_to_end(key)
                   except KeyError: while len(self._dict) > self._size - 1: self._dict.popitem(last=False)
                   self._dict[key] = val
   With size <= 0 the loop pops until the dict is empty and the next popitem raises KeyError. *)
Definition lru_set (size : nat) (c v : string) (l : lru) : result lru :=
  match lru_lookup c l with
  | Some _ => Ok (lru_remove c l ++ [(c, v)])
  | None => match size with
            | O => KeyError
            | S m => Ok (skipn (List.length l - m) l ++ [(c, v)])
            end
  end.

(* ---------------------------------------------------------------------------------------------
   BUILD_STATUS_CACHE = defaultdict(LRUCache): build key -> LRU; a key never accessed has an empty LRU
   (indexing creates it). *)
Definition caches := list (string * lru).

Definition cache_of (k : string) (cs : caches) : lru :=
  match find (fun p => fst p =? k) cs with Some p => snd p | None => [] end.
Fixpoint set_cache (k : string) (l : lru) (cs : caches) : caches :=
  match cs with
  | [] => [(k, l)]
  | (k', l') :: t => if k' =? k then (k, l) :: t else (k', l') :: set_cache k l t
  end.

(* which guards the code has *)
Record cfg := mkCfg {
  guard_status : bool;        (* handle_github_status_event keeps a SUCCESSFUL entry *)
  guard_suite : bool;         (* handle_github_check_suite_event *)
  guard_bitbucket : bool;     (* handle_bitbucket_repo_event *)
  hit_green_gh : bool;        (* github get_build_status answers from the cache only when SUCCESSFUL *)
  hit_green_bb : bool;        (* bitbucket get_build_status *)
  keep_green : bool }.        (* github get_commit_status keeps a SUCCESSFUL entry when refreshing *)

Definition code_cfg : cfg :=
  mkCfg guard_github_status_event guard_github_check_suite_event guard_bitbucket_repo_event
        hit_green_only_github hit_green_only_bitbucket keep_green_get_commit_status.

Definition is_green (s : string) : bool := s =? "SUCCESSFUL".

(*  cached = BUILD_STATUS_CACHE[key].get(commit)
    if not cached or cached.state != 'SUCCESSFUL':        <- only when [guard]
        BUILD_STATUS_CACHE[key].set(commit, status)
   (objects are always truthy: `not cached` is `cached is None`).  Without the guard the code is a
   plain set; get-then-set and set leave the same LRU, so one definition serves both. *)
Definition store (guard : bool) (size : nat) (c s : string) (l : lru) : result lru :=
  let (cur, l1) := lru_get c l in
  if guard && match cur with Some v => is_green v | None => false end
  then Ok l1 else lru_set size c s l1.

Definition upd (cs : caches) (k : string) (f : lru -> result lru) : result caches :=
  match f (cache_of k cs) with
  | Ok l => Ok (set_cache k l cs)
  | KeyError => KeyError
  end.

(*  for key, status in combined.status.items(): BUILD_STATUS_CACHE[key].set(combined.commit, status) *)
Fixpoint refresh (keep : bool) (size : nat) (c : string) (statuses : list (string * string))
                 (cs : caches) : result caches :=
  match statuses with
  | [] => Ok cs
  | (k, s) :: t => match upd cs k (store keep size c s) with
                   | Ok cs' => refresh keep size c t cs'
                   | KeyError => KeyError
                   end
  end.

Fixpoint assoc (k : string) (l : list (string * string)) : option string :=
  match l with
  | [] => None
  | (k', v) :: t => if k' =? k then Some v else assoc k t
  end.

(* `if status and status.state == 'SUCCESSFUL': return status.state`  (green_only)
   `if status: return status.state`                                     (otherwise) *)
Definition hit (green_only : bool) (cur : option string) : option string :=
  match cur with
  | Some v => if green_only then (if is_green v then Some v else None) else Some v
  | None => None
  end.

(* Operations, after the objects they carry have been reduced to their state.
   A GitHub host answer is None (404 on either request) or the dict combined.status in iteration
   order (the statuses' contexts, then / overwritten by `github_actions`); its keys are unique.
   A Bitbucket host answer is None (404) or the state of the build status of the asked key. *)
Inductive sop :=
| SEvStatus (c k s : string)                                  (* github `status` webhook *)
| SEvSuite (c s : string)                                     (* github `check_suite` webhook *)
| SEvBitbucket (c k s : string)                               (* bitbucket commit_status webhook *)
| SPollGH (c k : string) (rep : option (list (string * string)))   (* github get_build_status *)
| SPollBB (c k : string) (rep : option string).               (* bitbucket get_build_status *)

Definition ev (cs : result caches) : result (caches * option string) :=
  match cs with Ok cs' => Ok (cs', None) | KeyError => KeyError end.

Definition step (g : cfg) (size : nat) (cs : caches) (o : sop) : result (caches * option string) :=
  match o with
  | SEvStatus c k s => ev (upd cs k (store (guard_status g) size c s))
  | SEvSuite c s => ev (upd cs actions_key (store (guard_suite g) size c s))
  | SEvBitbucket c k s => ev (upd cs k (store (guard_bitbucket g) size c s))
  | SPollGH c k rep =>
      let (cur, l1) := lru_get c (cache_of k cs) in
      let cs1 := set_cache k l1 cs in
      match hit (hit_green_gh g) cur with
      | Some v => Ok (cs1, Some v)
      | None =>
          match rep with
          | None => Ok (cs1, Some "NOTSTARTED")       (* get_commit_status -> None -> AttributeError *)
          | Some statuses =>
              match refresh (keep_green g) size c statuses cs1 with
              | Ok cs2 => Ok (cs2, Some (match assoc k statuses with Some s => s | None => "NOTSTARTED" end))
              | KeyError => KeyError
              end
          end
      end
  | SPollBB c k rep =>
      let (cur, l1) := lru_get c (cache_of k cs) in
      let cs1 := set_cache k l1 cs in
      match hit (hit_green_bb g) cur with
      | Some v => Ok (cs1, Some v)
      | None =>
          match rep with
          | None => Ok (cs1, Some "NOTSTARTED")       (* HTTP 404 *)
          | Some s => match upd cs1 k (lru_set size c s) with
                      | Ok cs2 => Ok (cs2, Some s)
                      | KeyError => KeyError
                      end
          end
      end
  end.

(* a whole sequence from a given content of BUILD_STATUS_CACHE: the cache after each operation and
   the answer of each poll; the first exception ends the run *)
Fixpoint run_seq (g : cfg) (size : nat) (cs : caches) (ops : list sop) : result (list (caches * option string)) :=
  match ops with
  | [] => Ok []
  | o :: t => match step g size cs o with
              | KeyError => KeyError
              | Ok (cs', a) => match run_seq g size cs' t with
                               | Ok tr => Ok ((cs', a) :: tr)
                               | KeyError => KeyError
                               end
              end
  end.

(* ---------------------------------------------------------------------------------------------
   Operations as they arrive: the objects are a GitHub Status (raw state, JSON null = None), the
   workflow runs of the commit, or a Bitbucket build status (its state string). *)
Inductive payload :=
| PRaw (raw : option string)        (* github Status: .state = trans[raw] *)
| PRuns (rs : list run)             (* AggregatedWorkflowRuns: .state = CI.state rs *)
| PState (s : string).              (* bitbucket BuildStatus: .state = s *)

Definition payload_state (p : payload) : result string :=
  match p with
  | PRaw raw => status_state raw
  | PRuns rs => CI.state rs
  | PState s => Ok s
  end.

Inductive op :=
| EvStatus (c k : string) (raw : option string)
| EvSuite (c : string) (rs : list run)
| EvBitbucket (c k s : string)
| PollGH (c k : string) (rep : option (list (string * option string) * list run))
    (* the statuses of /commits/<ref>/status as (context, raw state), and the runs of /actions/runs *)
| PollBB (c k : string) (rep : option string).

Fixpoint eval_statuses (l : list (string * option string)) : result (list (string * string)) :=
  match l with
  | [] => Ok []
  | (k, raw) :: t => match status_state raw, eval_statuses t with
                     | Ok s, Ok t' => Ok ((k, s) :: t')
                     | _, _ => KeyError
                     end
  end.

(* dict assignment d[k] = v on an association list in insertion order *)
Fixpoint dict_set (k v : string) (d : list (string * string)) : list (string * string) :=
  match d with
  | [] => [(k, v)]
  | (k', v') :: t => if k' =? k then (k, v) :: t else (k', v') :: dict_set k v t
  end.
Fixpoint dict_of (l : list (string * string)) (acc : list (string * string)) : list (string * string) :=
  match l with
  | [] => acc
  | (k, v) :: t => dict_of t (dict_set k v acc)
  end.

Definition eval_op (o : op) : result sop :=
  match o with
  | EvStatus c k raw => match status_state raw with Ok s => Ok (SEvStatus c k s) | KeyError => KeyError end
  | EvSuite c rs => match CI.state rs with Ok s => Ok (SEvSuite c s) | KeyError => KeyError end
  | EvBitbucket c k s => Ok (SEvBitbucket c k s)
  | PollGH c k None => Ok (SPollGH c k None)
  | PollGH c k (Some (sts, rs)) =>
      match eval_statuses sts, CI.state rs with
      | Ok l, Ok a => Ok (SPollGH c k (Some (dict_set actions_key a (dict_of l []))))
      | _, _ => KeyError
      end
  | PollBB c k rep => Ok (SPollBB c k rep)
  end.

Fixpoint eval_ops (l : list op) : result (list sop) :=
  match l with
  | [] => Ok []
  | o :: t => match eval_op o, eval_ops t with
              | Ok s, Ok t' => Ok (s :: t')
              | _, _ => KeyError
              end
  end.

(* ---------------------------------------------------------------------------------------------
   Reading the alphabet (used by the specification and by the harness): what an operation is about. *)
(* an event says: commit c has state s under build key k *)
Definition event_of (o : sop) : option (string * string * string) :=
  match o with
  | SEvStatus c k s => Some (c, k, s)
  | SEvSuite c s => Some (c, actions_key, s)
  | SEvBitbucket c k s => Some (c, k, s)
  | _ => None
  end.
(* a poll asks for commit c under build key k *)
Definition poll_of (o : sop) : option (string * string) :=
  match o with
  | SPollGH c k _ => Some (c, k)
  | SPollBB c k _ => Some (c, k)
  | _ => None
  end.
(* what the host says at the time of a poll: per build key, the state it reports for the polled commit
   (GitHub answers for every key at once, Bitbucket for the asked key; nothing on 404) *)
Definition host_report (o : sop) : list (string * string) :=
  match o with
  | SPollGH _ _ (Some l) => l
  | SPollBB _ k (Some s) => [(k, s)]
  | _ => []
  end.
