(* Model of bert_e/workflow/gitwaterflow/__init__.py:check_build_status (and utils.bypass_build_status).
   Data (status ranking, raise chain, exception kinds) comes from Generated/Facts_C06.v, re-emitted
   from /repo's AST on every run.  No proofs in this file. *)
From Coq Require Import List String Bool Arith.
Require Import BertE.Generated.Facts_C06.
Import ListNotations.
Open Scope string_scope.

Inductive bstatus := SUCCESSFUL | INPROGRESS | NOTSTARTED | STOPPED | FAILED | OTHER.

Definition parse_status (s : string) : bstatus :=
  if s =? "SUCCESSFUL" then SUCCESSFUL else if s =? "INPROGRESS" then INPROGRESS
  else if s =? "NOTSTARTED" then NOTSTARTED else if s =? "STOPPED" then STOPPED
  else if s =? "FAILED" then FAILED else OTHER.

Definition bstatus_eqb (a b : bstatus) : bool :=
  match a, b with
  | SUCCESSFUL, SUCCESSFUL | INPROGRESS, INPROGRESS | NOTSTARTED, NOTSTARTED
  | STOPPED, STOPPED | FAILED, FAILED | OTHER, OTHER => true
  | _, _ => false
  end.

(* what the call may end in; exception classes are named as in bert_e/exceptions.py *)
Inductive outcome := Pass | Raise (cls : string) | KeyErr | AssertErr | EmptyErr.

Fixpoint index_of (x : bstatus) (l : list bstatus) (i : nat) : option nat :=
  match l with
  | [] => None
  | y :: t => if bstatus_eqb x y then Some i else index_of x t (S i)
  end.

(* ordered_state = {status: idx for idx, status in enumerate((...))}; an unknown status is a KeyError *)
Definition ordered : list bstatus := map parse_status ordered_state.
Definition rank (s : bstatus) : option nat :=
  match s with OTHER => None | _ => index_of s ordered 0 end.

Fixpoint ranks (ss : list bstatus) : option (list (bstatus * nat)) :=
  match ss with
  | [] => Some []
  | s :: t => match rank s, ranks t with
              | Some r, Some rt => Some ((s, r) :: rt)
              | _, _ => None
              end
  end.

(* Python's max(iterable, key=...): the first maximal element wins *)
Fixpoint worst_from (cur : bstatus) (rc : nat) (l : list (bstatus * nat)) : bstatus :=
  match l with
  | [] => cur
  | (s, r) :: t => if Nat.ltb rc r then worst_from s r t else worst_from cur rc t
  end.

Fixpoint decide_chain (w : bstatus) (chain : list (list string * string)) : outcome :=
  match chain with
  | [] => if bstatus_eqb w (parse_status assert_status) then Pass else AssertErr
  | (set, cls) :: t => if existsb (fun s => bstatus_eqb w (parse_status s)) set
                       then Raise cls else decide_chain w t
  end.

(* bypass_build_status(job) = job.settings.bypass_build_status or job.author_bypass.get(..., False);
   the settings value is the comment option or the command-line default installed by gwf.setup *)
Definition bypass_of (b_comment b_cmdline b_author : bool) : bool := b_comment || b_cmdline || b_author.

Definition gate (bypass key_empty : bool) (ss : list bstatus) : outcome :=
  if bypass then Pass else if key_empty then Pass else
  match ranks ss with
  | None => KeyErr
  | Some [] => EmptyErr
  | Some ((s, r) :: t) => decide_chain (worst_from s r t) raise_chain
  end.

Definition check_build_status (b_comment b_cmdline b_author key_empty : bool) (ss : list string) : outcome :=
  gate (bypass_of b_comment b_cmdline b_author) key_empty (map parse_status ss).
