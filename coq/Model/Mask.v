(* Model/Mask.v - the two string functions the credential masking of Bert-E rests on.

   replace_all old new s   Python's  s.replace(old, new)  for a non-empty [old]: scan left to right; where
                           the rest of the text starts with [old], emit [new] and skip len(old) characters
                           (occurrences never overlap); otherwise copy one character.
   mask_pwd pwd data           the closure [mask_pwd] of bert_e/lib/simplecmd.py:
                             data.replace(pwd, '***') if pwd else data
   quote_plus p            urllib.parse.quote_plus(p) of Python 3.12 on the UTF-8 bytes of p (a Coq [string]
                           is a list of 8-bit characters, so the model works on the encoded bytes): bytes
                           of _ALWAYS_SAFE (A-Za-z0-9_.-~, read from the live module into Facts_C16) stay,
                           space becomes '+', every other byte becomes %XX in upper-case hexadecimal.
   No proofs in this file. *)
From Coq Require Import List String Ascii Bool Arith NArith.
Require Import BertE.Base.Str BertE.Generated.Facts_C16.
Import ListNotations.
Open Scope string_scope.

(* s.startswith(p) *)
Fixpoint starts (p s : string) : bool :=
  match p with
  | EmptyString => true
  | String a p' => match s with
                   | EmptyString => false
                   | String b s' => (a =? b)%char && starts p' s'
                   end
  end.

(* p in s *)
Fixpoint contains (p s : string) : bool :=
  starts p s || match s with EmptyString => false | String _ t => contains p t end.

(* s[n:] *)
Fixpoint drop (n : nat) (s : string) : string :=
  match n, s with
  | O, _ => s
  | S k, EmptyString => EmptyString
  | S k, String _ t => drop k t
  end.

(* [skip] characters of a matched occurrence are still to be jumped over *)
Fixpoint repl (old new : string) (skip : nat) (s : string) : string :=
  match s with
  | EmptyString => EmptyString
  | String c t =>
      match skip with
      | S k => repl old new k t
      | O => if starts old s then new ++ repl old new (String.length old - 1) t
             else String c (repl old new 0 t)
      end
  end.

(* Only meaningful for a non-empty [old] (Python inserts [new] between all characters for an empty one);
   the only caller, [mask_pwd], guards it exactly as the code does. *)
Definition replace_all (old new s : string) : string := repl old new 0 s.

(* the replacement text of both mask_pwd closures (Facts: "***") *)
Definition mask_text : string := mask_replacement.

Definition mask_pwd (pwd data : string) : string :=
  if is_empty pwd then data else replace_all pwd mask_text data.

(* ------------------------------------------------------------------ quote_plus *)

Definition hex_digit (n : N) : ascii :=
  if (n <? 10)%N then ascii_of_N (48 + n) else ascii_of_N (55 + n).

Definition SP : ascii := " "%char.

Definition is_always_safe (c : ascii) : bool := has_char c always_safe.

Definition quote_byte (c : ascii) : string :=
  if is_always_safe c then String c EmptyString
  else if (c =? SP)%char then "+"
  else String "%"%char (String (hex_digit (code c / 16)) (String (hex_digit (code c mod 16)) EmptyString)).

Fixpoint quote_plus (p : string) : string :=
  match p with
  | EmptyString => EmptyString
  | String c t => quote_byte c ++ quote_plus t
  end.
