(* Specification of C12, written from the property statement only:

   "A pull request that carries a `wait` comment, or an `after_pull_request` dependency that is not merged yet, or
    that is already merged or closed, or whose source or destination is not a branch Bert-E handles (destination
    not development/stabilization/hotfix, source user/*, hotfix/* or unrecognised) never gets integration
    branches, queue entries or merges, whatever its approvals and builds; pull requests Bert-E does not handle get
    no comment at all.  As soon as the hold is lifted (comment deleted, dependency merged) the next evaluation
    proceeds normally."

   Readings fixed here (DESIGN 5.0: a check never demands more than the text states):
   - "carries a `wait` comment / an `after_pull_request` dependency": the options its comments switch on, as the
     reactor of C07 computes them from the comment list ([carried]); what a comment must look like to switch an
     option on, and who may write it, is C07's statement.  `wait` is on when its value is truthy; a dependency is
     an id in the after_pull_request set; it is "not merged yet" when the host does not know the pull request or
     reports a status other than MERGED.
   - "already merged or closed" = a status other than OPEN ([finished]); closed = DECLINED.
   - "a branch Bert-E handles": the kind of the NAME (C18 grammar, through Names.classify).  [foreign_stated] is
     the list of the statement, [foreign] the wider notion (any source that is not a feature / development /
     stabilization name).  A well-formed destination name that does not exist on the remote is not foreign.
   - "pull requests Bert-E does not handle": the foreign ones.  Closed pull requests ARE handled (their
     integration data is cleaned up and they may be greeted); merged ones are not touched at all.
   - "never gets ... merges": by any job, queue evaluations included (C12_full).
   Only types and the name / option layers of other properties are imported from the models. *)
From Coq Require Import List String Ascii Bool NArith.
Require Import BertE.Base.Str BertE.Generated.Facts_C07 BertE.Model.Names BertE.Model.Reactor BertE.Model.Holds.
Import ListNotations.
Open Scope string_scope.

(* ------------------------------------------------------------------ Held *)

(* the options a pull request carries *)
Definition carried (cf : config) (p : pull_request) : settings :=
  settings_of (options_result registry (cf_cmdline cf) (cf_robot cf) (cf_admins cf) (pr_author p) (pr_comments p)).

Definition wait_on (s : settings) : bool :=
  match get_setting "wait" s with Some v => truthy v | None => false end.

Definition dependencies (s : settings) : list string :=
  match get_setting "after_pull_request" s with Some (VSet l) => l | _ => [] end.

(* [status_of]: what the git host says about a pull-request number *)
Definition dep_merged (status_of : N -> option string) (d : string) : bool :=
  match status_of (py_int_value d) with Some st => (st =? "MERGED")%string | None => false end.

Definition held_by (status_of : N -> option string) (s : settings) : bool :=
  wait_on s || existsb (fun d => negb (dep_merged status_of d)) (dependencies s).

Definition held (cf : config) (status_of : N -> option string) (p : pull_request) : bool :=
  held_by status_of (carried cf p).

(* ------------------------------------------------------------------ Finished *)

Definition finished (status : string) : bool := negb (status =? "OPEN")%string.
Definition closed (status : string) : bool := (status =? "DECLINED")%string.

(* ------------------------------------------------------------------ Foreign *)

Definition destination_name (k : bclass) : bool :=
  match k with DevelopmentBranch | StabilizationBranch | HotfixBranch => true | _ => false end.

Definition foreign_destination (dst : string) : bool :=
  match classify dst with Some a => negb (destination_name (bi_class a)) | None => true end.

(* user/*, hotfix/* or unrecognised *)
Definition foreign_source_stated (src : string) : bool :=
  match classify src with
  | Some a => match bi_class a with UserBranch | HotfixBranch | LegacyHotfixBranch => true | _ => false end
  | None => true
  end.

(* sources Bert-E merges from: feature branches, and development / stabilization branches (forward ports) *)
Definition source_name (k : bclass) : bool :=
  match k with FeatureBranch | DevelopmentBranch | StabilizationBranch => true | _ => false end.

Definition foreign_source (src : string) : bool :=
  match classify src with Some a => negb (source_name (bi_class a)) | None => true end.

Definition foreign_stated (src dst : string) : bool := foreign_destination dst || foreign_source_stated src.
Definition foreign (src dst : string) : bool := foreign_destination dst || foreign_source src.

(* ------------------------------------------------------------------ what must be observed *)

Inductive verdict :=
| VUntouched     (* nothing created, merged or queued, and no comment at all *)
| VLeftAlone     (* no integration branch, integration pull request, queue entry or merge *)
| VFree.         (* no hold: the evaluation proceeds normally *)

Definition spec_verdict (cf : config) (status_of : N -> option string) (p : pull_request) : verdict :=
  if foreign (pr_src p) (pr_dst p) || (finished (pr_status p) && negb (closed (pr_status p))) then VUntouched
  else if finished (pr_status p) || held cf status_of p then VLeftAlone
  else VFree.

(* ------------------------------------------------------------------ histories (C12_full) *)

Definition held_in (cf : config) (w : sys) (id : N) : bool :=
  match find_pr (s_prs w) id with
  | Some p => held cf (lookup_of w) p
  | None => false
  end.

(* a log of merges is clean when no merged pull request was held when the merging job started *)
Definition clean_log (cf : config) (log : list (N * sys)) : Prop :=
  forall id w, In (id, w) log -> held_in cf w id = false.
Definition clean_logb (cf : config) (log : list (N * sys)) : bool :=
  forallb (fun x => negb (held_in cf (snd x) (fst x))) log.
