(* Specification of C14, written from the property statement only.

   "Endpoints that change the repository (create or delete a branch, force-merge or delete the queues)
    create a job only for an authenticated session flagged admin; the other API endpoints only for an
    authenticated session; webhooks only with the configured basic-auth credentials and only for the
    configured repository.  A request that fails one of these conditions is refused with an error status
    and enqueues nothing, and a job that is created carries exactly the validated parameters of the request."

   Which jobs change the repository, what a well-formed branch name / source / pull request id is and what
   "carries exactly" means are fixed HERE, by job kind, independently of the admin flags, validators and
   route tables that Generated/Facts_C14.v reads from the code.  Only the data types (session, request,
   job, outcome) come from Model/Http.v.  The [*_monitor] functions are the executable form of the
   clauses: they are extracted and evaluated on what the real server answered.  No proofs here. *)
From Coq Require Import List String Ascii Bool ZArith NArith.
Require Import BertE.Base.Str BertE.Model.Http.
Import ListNotations.
Open Scope string_scope.

(* ------------------------------------------------------------------ who may do what *)

Definition repo_changing (kind : string) : bool :=
  mem_str kind ["CreateBranchJob"; "DeleteBranchJob"; "ForceMergeQueuesJob"; "DeleteQueuesJob"].

Definition logged_in (s : session) : bool :=
  match s_user s with Some u => negb (is_empty u) | None => false end.

Definition is_admin (s : session) : bool :=
  logged_in s && match s_admin s with Some true => true | _ => false end.

Definition session_user (s : session) : string :=
  match s_user s with Some u => u | None => EmptyString end.

(* ------------------------------------------------------------------ well-formed parameters *)

(* N.N or N.N.N : exactly [n] non-empty decimal numbers separated by dots *)
Definition dotted (n : nat) (s : string) : bool :=
  let parts := split_char "." s in (List.length parts =? n)%nat && forallb is_num parts.

Definition named (prefix : string) (n : nat) (s : string) : bool :=
  match strip_prefix prefix s with Some r => dotted n r | None => false end.

(* destination branches that can be created or deleted *)
Definition branch_wf (s : string) : bool :=
  named "development/" 2 s || named "stabilization/" 3 s || named "hotfix/" 3 s.

Definition hex_digit (c : ascii) : bool := has_char c "0123456789abcdefABCDEF".

(* where a new branch starts: a commit id (possibly left empty) or a development branch *)
Definition branch_from_wf (s : string) : bool := str_forall hex_digit s || named "development/" 2 s.

Definition valid_params (kind : string) (st : jsettings) : bool :=
  match st with
  | SNonDict _ =>
      negb (mem_str kind ["CreateBranchJob"; "DeleteBranchJob"; "EvalPullRequestJob"])
  | SDict p =>
      if (kind =? "CreateBranchJob")%string then
        match lookup "branch" p with Some (PStr b) => branch_wf b | _ => false end
        && match lookup "branch_from" p with
           | None => true
           | Some (PStr f) => branch_from_wf f
           | Some _ => false
           end
      else if (kind =? "DeleteBranchJob")%string then
        match lookup "branch" p with Some (PStr b) => branch_wf b | _ => false end
      else if (kind =? "EvalPullRequestJob")%string then
        match lookup "pr_id" p with Some (PInt n) => (1 <=? n)%Z | _ => false end
      else true
  end.

(* ------------------------------------------------------------------ "carries exactly the parameters of the request" *)

(* the parameter a request of that kind gives in its URL *)
Definition url_params (kind : string) (part : option string) : option params :=
  if mem_str kind ["CreateBranchJob"; "DeleteBranchJob"] then
    match part with Some s => Some [("branch", PStr s)] | None => None end
  else if (kind =? "EvalPullRequestJob")%string then
    match part with
    | Some s => if is_num s then Some [("pr_id", PInt (Z.of_N (dec_value s)))] else None
    | None => None
    end
  else match part with None => Some [] | Some _ => None end.

Definition opt_pval_eqb (a b : option pval) : bool :=
  match a, b with
  | Some x, Some y => pval_eqb x y
  | None, None => true
  | _, _ => false
  end.

(* the job's settings are the URL parameters plus the JSON body (the URL wins), nothing else *)
Definition settings_agree (kw d p : params) : bool :=
  forallb (fun k => opt_pval_eqb (lookup k p)
                      (match lookup k kw with Some v => Some v | None => lookup k d end))
          (map fst kw ++ map fst d ++ map fst p)%list.

Definition is_nil {A} (l : list A) : bool := match l with [] => true | _ => false end.

Definition carries_exactly (part : option string) (b : body) (user : string) (j : job) : bool :=
  (j_user j =? user)%string &&
  match url_params (j_kind j) part with
  | None => false
  | Some kw =>
      match b, j_settings j with
      | BodyDict d, SDict p => settings_agree kw d p
      | BodyNonDict raw, SNonDict raw' => (raw =? raw')%string && is_nil kw
      | _, _ => false
      end
  end.

(* ------------------------------------------------------------------ refusal *)

(* an error status and nothing enqueued (308 is the router's canonical-URL redirect: no view ran) *)
Definition refused (o : outcome) : bool :=
  match o_job o with
  | None => (400 <=? o_status o)%Z || (o_status o =? 308)%Z
  | Some _ => false
  end.

(* ------------------------------------------------------------------ monitors ("" = no clause violated) *)

(* [target]: the job kind the addressed endpoint creates ("" if none).  An OPTIONS request asks for nothing
   (the framework answers it with the list of allowed methods): the refusal clause is about the other methods. *)
Definition api_monitor (rq : request) (target : string) (o : outcome) : string :=
  let s := rq_session rq in
  match o_job o with
  | Some j =>
      if negb (logged_in s) then "job-without-authenticated-session"
      else if repo_changing (j_kind j) && negb (is_admin s) then "repo-changing-job-for-non-admin"
      else if negb (valid_params (j_kind j) (j_settings j)) then "job-with-invalid-parameters"
      else if negb (carries_exactly (rq_param rq) (rq_body rq) (session_user s) j)
      then "job-parameters-differ-from-request"
      else ""
  | None =>
      if (negb (logged_in s) || (repo_changing target && negb (is_admin s)))
         && negb (rq_method rq =? "OPTIONS")%string && negb (refused o)
      then "unauthorised-request-not-refused"
      else ""
  end.

(* a management form: the same obligations on the session; the job's parameters are the posted fields
   (checked by the harness against the fields it posted) *)
Definition form_monitor (fq : form_request) (target : string) (o : outcome) : string :=
  let s := fq_session fq in
  match o_job o with
  | Some j =>
      if negb (logged_in s) then "job-without-authenticated-session"
      else if repo_changing (j_kind j) && negb (is_admin s) then "repo-changing-job-for-non-admin"
      else if negb (valid_params (j_kind j) (j_settings j)) then "job-with-invalid-parameters"
      else if negb (j_user j =? session_user s)%string then "job-parameters-differ-from-request"
      else if negb (fq_csrf_ok fq) then "job-without-csrf-token"
      else ""
  | None =>
      if (negb (logged_in s) || (repo_changing target && negb (is_admin s)))
         && negb (fq_method fq =? "OPTIONS")%string && negb ((400 <=? o_status o)%Z)
      then "unauthorised-request-not-refused"
      else ""
  end.

Definition creds_ok (cfg : config) (creds : option (string * string)) : bool :=
  match creds with
  | Some (u, p) => (u =? c_login cfg)%string && (p =? c_pwd cfg)%string
  | None => false
  end.

Definition single_param (j : job) (kind key : string) (v : pval) : bool :=
  (j_kind j =? kind)%string && (j_user j =? "")%string &&
  match j_settings j with
  | SDict [(k, v')] => (k =? key)%string && pval_eqb v v'
  | _ => false
  end.

Definition bb_repo_ok (cfg : config) (rq : bb_request) : bool :=
  match bb_repo rq with
  | Some (o, s) => (o =? c_owner cfg)%string && (s =? c_slug cfg)%string
  | None => false
  end.

(* the job is about the pull request / the commit the event is about *)
Definition bb_carries (rq : bb_request) (j : job) : bool :=
  match bb_pr_id rq with Some n => single_param j "PullRequestJob" "pull_request" (PInt n) | None => false end
  || match bb_commit_status rq with
     | Some (_, href) => single_param j "CommitJob" "commit" (PStr (last (split_char "/" href) ""))
     | None => false
     end.

Definition hook_refused (o : outcome) : bool :=
  match o_job o with None => (400 <=? o_status o)%Z | Some _ => false end.

Definition bb_monitor (cfg : config) (rq : bb_request) (o : outcome) : string :=
  match o_job o with
  | Some j =>
      if negb (creds_ok cfg (bb_creds rq)) then "job-without-configured-credentials"
      else if negb (bb_repo_ok cfg rq) then "job-for-another-repository"
      else if negb (bb_carries rq j) then "job-parameters-differ-from-request"
      else ""
  | None =>
      if (negb (creds_ok cfg (bb_creds rq)) || negb (bb_repo_ok cfg rq))
         && negb (bb_method rq =? "OPTIONS")%string && negb (hook_refused o)
      then "unauthorised-request-not-refused"
      else ""
  end.

Definition gh_repo_ok (cfg : config) (rq : gh_request) : bool :=
  (c_host cfg =? "github")%string &&
  match gh_full_name rq with Some fn => (fn =? c_full_name cfg)%string | None => false end.

Definition gh_carries (rq : gh_request) (j : job) : bool :=
  match gh_pr rq with Some n => single_param j "PullRequestJob" "pull_request" (PInt n) | None => false end
  || match gh_issue_f rq with
     | IssuePR (Some n) => single_param j "PullRequestJob" "pull_request" (PInt n)
     | _ => false
     end
  || match gh_sha rq with Some sha => single_param j "CommitJob" "commit" (PStr sha) | None => false end
  || match gh_check rq with Some (sha, _) => single_param j "CommitJob" "commit" (PStr sha) | None => false end.

Definition gh_monitor (cfg : config) (rq : gh_request) (o : outcome) : string :=
  match o_job o with
  | Some j =>
      if negb (creds_ok cfg (gh_creds rq)) then "job-without-configured-credentials"
      else if negb (gh_repo_ok cfg rq) then "job-for-another-repository"
      else if negb (gh_carries rq j) then "job-parameters-differ-from-request"
      else ""
  | None =>
      if (negb (creds_ok cfg (gh_creds rq)) || negb (gh_repo_ok cfg rq))
         && negb (gh_method rq =? "OPTIONS")%string && negb (hook_refused o)
      then "unauthorised-request-not-refused"
      else ""
  end.

(* ------------------------------------------------------------------ OAuth login: post-condition
   A session is opened only for an identified user, whose e-mail belongs to the organization when one is
   configured; it records the (lower-cased) handle and is flagged admin exactly when that handle is one
   of the configured admins. *)
Fixpoint to_lower (s : string) : string :=
  match s with
  | EmptyString => EmptyString
  | String c t =>
      String (if (65 <=? code c)%N && (code c <=? 90)%N then ascii_of_N (code c + 32) else c) (to_lower t)
  end.

Fixpoint has_suffix (suf s : string) : bool :=
  (s =? suf)%string || match s with String _ t => has_suffix suf t | EmptyString => false end.

Definition oauth_spec (org : string) (admins : list string) (username email : option string)
                      (r : option session) : bool :=
  let identified := match username with Some u => negb (is_empty u) | None => false end in
  let member := is_empty org ||
                match email with Some e => negb (is_empty e) && has_suffix ("@" ++ org) e | None => false end in
  match r with
  | None => negb (identified && member)
  | Some s =>
      identified && member &&
      match username, s_user s, s_admin s with
      | Some u, Some u', Some a => (u' =? to_lower u)%string && Bool.eqb a (mem_str (to_lower u) admins)
      | _, _, _ => false
      end
  end.
