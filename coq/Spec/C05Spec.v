(* Specification of C05, written from the property statement only:

     "the pull requests selected for merge form a prefix of the queue in order of entry (each hotfix
      queue being independent), every destination branch is moved to the queue commit of the newest
      selected pull request that targets it, every one of those commits has a SUCCESSFUL build, and
      no longer prefix has that property.  If no prefix qualifies nothing moves; with an admin force
      merge the whole queue is selected."

   Readings (DESIGN 5.0): "newest selected pull request that targets it" is per version, a version no
   selected pull request targets does not move.  "Each hotfix queue being independent": a hotfix queue
   is a queue of its own, with its own order of entry and its own longest green prefix; the other
   pull requests form one queue whose order of entry [order] is given; the selection reported is the
   hotfix selections (in the order of the hotfix queues) followed by the selection of the main queue.

   Only the data alphabet (version, qint, queue, queues, mem_z) is taken from the model file. *)
From Coq Require Import String List Bool Arith ZArith.
Require Import BertE.Model.QueueSel.
Import ListNotations.
Open Scope list_scope.
Open Scope Z_scope.

(* a hotfix queue is q/x.y.z.n : four version components *)
Definition is_hotfix (v : version) : bool := (length v =? 4)%nat.

Definition green (st : Z -> string) (e : qint) : bool := String.eqb (st (q_commit e)) "SUCCESSFUL".

(* the queue commit of the newest selected pull request that targets a version
   ([ints] = the queue commits of that version, newest first) *)
Definition newest_selected (sel : list Z) (ints : list qint) : option qint :=
  find (fun e => mem_z (q_pr e) sel) ints.

(* every destination that would move, moves to a commit with a SUCCESSFUL build *)
Definition all_green (st : Z -> string) (vs : queues) (sel : list Z) : bool :=
  forallb (fun vq : version * queue =>
             match newest_selected sel (q_ints (snd vq)) with
             | None => true
             | Some e => green st e
             end) vs.

(* the longest prefix of [order] of length <= k that satisfies [okf] (the empty one if none does) *)
Fixpoint longest_prefix (okf : list Z -> bool) (order : list Z) (k : nat) : list Z :=
  match k with
  | O => []
  | S k' => if okf (firstn k order) then firstn k order else longest_prefix okf order k'
  end.

Definition select (st : Z -> string) (vs : queues) (order : list Z) : list Z :=
  longest_prefix (all_green st vs) order (length order).

Definition main_queues (qs : queues) : queues := filter (fun vq => negb (is_hotfix (fst vq))) qs.
Definition hotfix_queues (qs : queues) : queues := filter (fun vq => is_hotfix (fst vq)) qs.

(* order of entry of one queue taken alone: oldest first *)
Definition entry_order (qu : queue) : list Z := rev (map q_pr (q_ints qu)).

(* [order] = the non-hotfix pull requests in order of entry *)
Definition spec_prs (st : Z -> string) (force : bool) (order : list Z) (qs : queues) : list Z :=
  flat_map (fun vq : version * queue =>
              if force then entry_order (snd vq) else select st [vq] (entry_order (snd vq)))
           (hotfix_queues qs)
  ++ (if force then order else select st (main_queues qs) order).

(* where each destination moves: None = it does not move *)
Definition spec_moves (st : Z -> string) (force : bool) (order : list Z) (qs : queues)
  : list (version * option qint) :=
  map (fun vq : version * queue =>
         (fst vq, newest_selected (spec_prs st force order qs) (q_ints (snd vq)))) qs.

(* ------------------------------------------------------------------------------------------------
   Well-formed queue states: what QueueCollection.validate checks and the way add_to_queue builds the
   q/* branches guarantee.  [order] = the non-hotfix pull requests in order of entry, [paths] = the
   merge paths of the cascade (BranchCascade.get_merge_paths).                                      *)

Definition pr_ids (qu : queue) : list Z := map q_pr (q_ints qu).

(* the newest development queue: the last version with two components *)
Definition last_dev (qs : queues) : option (version * queue) :=
  find (fun vq : version * queue => (length (fst vq) =? 2)%nat) (rev qs).

Definition hotfix_prs (qs : queues) : list Z := flat_map (fun vq => pr_ids (snd vq)) (hotfix_queues qs).

Record WF (paths : list (list version)) (order : list Z) (qs : queues) : Prop := {
  (* pull request ids are positive and a pull request is queued once *)
  wf_order_nodup : NoDup order;
  wf_order_pos : forall p, In p order -> 0 < p;
  (* version_t has at most four components (four = hotfix queue) *)
  wf_len : forall v qu, In (v, qu) qs -> (length v <= 4)%nat;
  (* validate: every version has its q/<version> branch *)
  wf_master : forall v qu, In (v, qu) qs -> q_master qu = true;
  (* horizontal: on every version the queue commits are in order of entry (newest first), one per
     pull request present on that version *)
  wf_sorted : forall v qu, In (v, qu) (main_queues qs) ->
      pr_ids qu = filter (fun p => mem_z p (pr_ids qu)) (rev order);
  (* every non-hotfix pull request reaches the newest development queue; no such queue, no such pr *)
  wf_last_dev : match last_dev qs with
                | Some (_, qu) => pr_ids qu = rev order
                | None => order = []
                end;
  (* hotfix pull requests live in one hotfix queue only *)
  wf_hf_nodup : NoDup (hotfix_prs qs);
  wf_hf_pos : forall p, In p (hotfix_prs qs) -> 0 < p;
  wf_hf_disjoint : forall p, In p (hotfix_prs qs) -> ~ In p order;
  (* the cascade has at least one merge path ([[]] when it is empty), every queue version lies on
     one of them and all of them end at the newest development version *)
  wf_paths : paths <> [];
  wf_covered : forall v qu, In (v, qu) (main_queues qs) -> exists path, In path paths /\ In v path;
  wf_last_on_paths : match last_dev qs with
                     | Some (g, _) => forall path, In path paths -> In g path
                     | None => True
                     end;
  (* vertical: along a merge path a pull request present on a version is present on all later ones;
     used in the weaker symmetric form "of two versions of one path, one holds all the pull requests
     of the other" *)
  wf_vertical : forall path u qu v qv, In path paths ->
      In (u, qu) (main_queues qs) -> In (v, qv) (main_queues qs) -> In u path -> In v path ->
      incl (pr_ids qu) (pr_ids qv) \/ incl (pr_ids qv) (pr_ids qu)
}.

(* executable form (checked against every generated case by the harness, used for the Examples) *)
Fixpoint zlist_eqb (a b : list Z) : bool :=
  match a, b with
  | [], [] => true
  | x :: a', y :: b' => (x =? y) && zlist_eqb a' b'
  | _, _ => false
  end.

Fixpoint nodup_b (l : list Z) : bool :=
  match l with
  | [] => true
  | x :: t => negb (mem_z x t) && nodup_b t
  end.

Definition incl_b (a b : list Z) : bool := forallb (fun x => mem_z x b) a.

Definition wf_b (paths : list (list version)) (order : list Z) (qs : queues) : bool :=
  let mq := main_queues qs in
  let hp := hotfix_prs qs in
  nodup_b order
  && forallb (fun p => 0 <? p) order
  && forallb (fun vq : version * queue => (length (fst vq) <=? 4)%nat) qs
  && forallb (fun vq : version * queue => q_master (snd vq)) qs
  && forallb (fun vq : version * queue =>
                zlist_eqb (pr_ids (snd vq)) (filter (fun p => mem_z p (pr_ids (snd vq))) (rev order))) mq
  && match last_dev qs with
     | Some (_, qu) => zlist_eqb (pr_ids qu) (rev order)
     | None => match order with [] => true | _ => false end
     end
  && nodup_b hp
  && forallb (fun p => 0 <? p) hp
  && forallb (fun p => negb (mem_z p order)) hp
  && match paths with [] => false | _ => true end
  && forallb (fun vq : version * queue => existsb (fun path => existsb (version_eqb (fst vq)) path) paths) mq
  && match last_dev qs with
     | Some (g, _) => forallb (fun path => existsb (version_eqb g) path) paths
     | None => true
     end
  && forallb (fun path =>
       forallb (fun uq : version * queue =>
         forallb (fun vq : version * queue =>
           negb (existsb (version_eqb (fst uq)) path) || negb (existsb (version_eqb (fst vq)) path)
           || incl_b (pr_ids (snd uq)) (pr_ids (snd vq)) || incl_b (pr_ids (snd vq)) (pr_ids (snd uq)))
         mq) mq) paths.
