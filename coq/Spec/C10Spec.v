(* Specification of C10, written from the property statement (and the reading fixed in DESIGN 5.0) only.
   Model/Notify.v is imported for the alphabet (comments, events, worlds) - no decision of the code is used. *)
From Coq Require Import List String Bool Arith.
Require Import BertE.Model.Notify.
Import ListNotations.

(* ---- "Bert-E never posts the same message twice in a row on a pull request" --------------------------
   two adjacent comments of the pull request, both by the robot, with equal text *)
Definition same_robot_message (a b : comment) : bool :=
  is_robot a && is_robot b && body_eqb (c_body a) (c_body b).

Fixpoint twice_in_a_row (cs : list comment) : bool :=
  match cs with
  | a :: ((b :: _) as t) => same_robot_message a b || twice_in_a_row t
  | _ => false
  end.

(* posting c when the comment list is cs repeats the message just before it *)
Definition repeats (cs : list comment) (c : comment) : bool :=
  match rev cs with
  | p :: _ => same_robot_message p c
  | [] => false
  end.

(* the comments `app` are posted one after the other onto cs: some post repeats its predecessor *)
Fixpoint some_post_repeats (cs : list comment) (app : list comment) : bool :=
  match app with
  | [] => false
  | c :: t => repeats cs c || some_post_repeats (cs ++ [c]) t
  end.

(* ---- "executes a command comment (help, reset, ...) at most once" ---------------------------------------
   log: ids of the command comments whose handler was entered, over the whole life of the pull request *)
Definition executed_once (log : list nat) : Prop := NoDup log.

Fixpoint executed_once_b (log : list nat) : bool :=
  match log with
  | [] => true
  | x :: t => negb (existsb (Nat.eqb x) t) && executed_once_b t
  end.

(* ---- "reaches a state in which further evaluations ... post no comment" (and execute nothing) ---------- *)
Definition quiet (r : list nat * list comment) : Prop := r = ([], []).

Definition quiet_b (r : list nat * list comment) : bool :=
  match r with
  | ([], []) => true
  | _ => false
  end.

(* ---- "the outcome of an evaluation depends only on the current state of the repository and of the pull
   request, not on which jobs the same server instance processed before": for the settings a job sees, whatever
   jobs ran before on the instance, the job reads what a fresh instance would give it *)
Definition instance_independent
           (settings_after : list (list opt_call) -> list opt_call -> option (list (string * vval)))
  : Prop :=
  forall earlier cl v, settings_after earlier cl = Some v -> settings_after [] cl = Some v.
