(* Specification of C16, written from the property statement only.

   "The robot's secrets - its password as it appears in the clone URL, and the tokens it derives to talk
    to the git host API - never show up in log records, in exception messages, in the job status and
    details, in pull-request comments or on standard output; they are replaced by a mask or omitted."

   An emission is a text that leaves Bert-E on one of those channels; a secret shows up in it when it is
   a (contiguous) substring of the text.  [leaking] is the executable monitor run against the texts
   captured from the real code. *)
From Coq Require Import List String Ascii Bool.
Require Import BertE.Model.Cmd.      (* only for the channel alphabet [emission] *)
Import ListNotations.
Open Scope string_scope.

Definition substring (p s : string) : Prop := exists a b, s = a ++ p ++ b.

(* a secret that is the empty string cannot be leaked (and cannot authenticate anybody) *)
Definition shows (secret : string) (e : emission) : Prop := secret <> "" /\ substring secret (snd e).

Definition no_leak (secrets : list string) (ems : list emission) : Prop :=
  forall s e, In s secrets -> In e ems -> ~ shows s e.

(* the same, leaving aside the emissions selected by [except] (used to say what still holds when the
   full statement does not) *)
Definition no_leak_except (except : emission -> bool) (secrets : list string) (ems : list emission) : Prop :=
  forall s e, In s secrets -> In e ems -> except e = false -> ~ shows s e.

(* "omitted": what is emitted does not depend on the secrets at all *)
Definition independent_of {S : Type} (f : S -> list emission) : Prop := forall a b, f a = f b.

(* ------------------------------------------------------------------ executable monitor *)

Fixpoint has_prefix (p s : string) : bool :=
  match p, s with
  | EmptyString, _ => true
  | String _ _, EmptyString => false
  | String a p', String b s' => if Ascii.eqb a b then has_prefix p' s' else false
  end.

Fixpoint occurs (p s : string) : bool :=
  if has_prefix p s then true else match s with EmptyString => false | String _ t => occurs p t end.

Definition showsb (secret : string) (e : emission) : bool :=
  match secret with EmptyString => false | _ => occurs secret (snd e) end.

(* the emissions in which one of the secrets shows up *)
Definition leaking (secrets : list string) (ems : list emission) : list emission :=
  filter (fun e => existsb (fun s => showsb s e) secrets) ems.

(* the alphabet of a URL-quoted password: unreserved characters, '+' for a space, %XX escapes *)
Definition url_quoted_char (c : ascii) : bool :=
  let n := nat_of_ascii c in
  let between lo hi := Nat.leb lo n && Nat.leb n hi in
  between 48 57 || between 65 90 || between 97 122
  || existsb (Ascii.eqb c) ["_"; "."; "-"; "~"; "+"; "%"]%char.
