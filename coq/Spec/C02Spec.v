(* C02 - specification, written from the statement only:
   "At every moment the remote repository can be observed - including when Bert-E dies between any two of its
    git or git-host operations, or when the server refuses to update any single branch of a push - the changes
    of each pull request are on all of its target branches or on none of them, and the inclusion invariant of
    C01 still holds."
   The observable is the remote heads [r] over the commit DAG [s]; a pull request is the tip of its source
   branch at job time and the list of its target branches. *)
From Coq Require Import List Bool Arith.
Require Import BertE.Model.Git BertE.Model.Flow BertE.Model.Publish.
Import ListNotations.

Record prq := mkPr { pr_tip : cid; pr_targets : list nat }.

Definition Landed (s : store) (r : refmap) (c : cid) (t : nat) : Prop :=
  exists y, lookup r t = Some y /\ anc s c y = true.

Definition AllOrNone (s : store) (r : refmap) (p : prq) : Prop :=
  (forall t, In t (pr_targets p) -> Landed s r (pr_tip p) t) \/
  (forall t, In t (pr_targets p) -> ~ Landed s r (pr_tip p) t).

(* forward-port inclusion (C01) over the (earlier, later) pairs of destination names *)
Definition InclHolds (s : store) (r : refmap) (pairs : list (nat * nat)) : Prop :=
  forall a b x y, In (a, b) pairs -> lookup r a = Some x -> lookup r b = Some y -> anc s x y = true.

Definition StateOk (s : store) (r : refmap) (prs : list prq) (pairs : list (nat * nat)) : Prop :=
  (forall p, In p prs -> AllOrNone s r p) /\ InclHolds s r pairs.

(* the executable form, evaluated by the harness on every observed remote state *)
Definition state_ok_b (s : store) (r : refmap) (prs : list prq) (pairs : list (nat * nat)) : bool :=
  forallb (fun p => all_or_none s r (pr_tip p) (pr_targets p)) prs && incl_b (mkClone s r) pairs.

(* the destination names of the statement: targets of the pull requests and names of the inclusion pairs *)
Definition protected_names (prs : list prq) (pairs : list (nat * nat)) : list nat :=
  flat_map pr_targets prs ++ map fst pairs ++ map snd pairs.

(* shape of a job's publication list under which the statement is claimed: at most one atomic push of all
   heads, and no protected name is ever pushed or deleted by name *)
Definition shape_ok (protected : list nat) (ops : list pub) : bool :=
  Nat.leb (count_pall ops) 1 && forallb (fun n => negb (mem n (named ops))) protected.

(* "all of them together": the names [P] have in [r] the values of [r0], or the values of [r1] *)
Definition SwitchTogether (P : nat -> Prop) (r0 r1 r : refmap) : Prop :=
  (forall n, P n -> lookup r n = lookup r0 n) \/ (forall n, P n -> lookup r n = lookup r1 n).

(* the statement for one job: whatever the fault, the state it leaves is acceptable if the state before it
   and the state the uninterrupted job leaves are *)
Definition C02_statement : Prop :=
  forall s ops f r prs pairs,
  shape_ok (protected_names prs pairs) ops = true ->
  StateOk s r prs pairs ->
  StateOk s (publish s NoFault ops r) prs pairs ->
  StateOk s (publish s f ops r) prs pairs.
