(* Specification of C13, written from the property statement only: predicates over the observable history
   of a server run (one entry per scheduling turn: the mark emitted by the turn, if any, and the pending
   queue / current-job marker / finished jobs / worker state seen after it).
   Only the alphabet (job, mark, entry) is taken from Model/Dispatcher.v; nothing here looks at the model's
   steps or at the generated facts.

   Reading fixed in DESIGN 5.0: "starts after the request was accepted" = after the request ARRIVED, for
   requests answered 2xx.  A request is identified by the index of the turn at which it arrived. *)
From Coq Require Import List Bool Arith.
Require Import BertE.Model.Dispatcher.
Import ListNotations.

(* "the corresponding pull request, commit or admin job" / "an equal job": the same pull request of the same
   repository, the same commit of the same repository, or - for admin (API) jobs - the job itself *)
Definition same_target (a b : job) : bool :=
  Nat.eqb (juid a) (juid b)
  || match jk a, jk b with
     | KPull, KPull | KCommit, KCommit => Nat.eqb (jrepo a) (jrepo b) && Nat.eqb (jkey a) (jkey b)
     | _, _ => false
     end.

Definition mark_at (h : list entry) (k : nat) (m : mark) : Prop :=
  exists en, nth_error h k = Some en /\ e_mark en = Some m.

(* Every accepted request is followed, after its arrival, by the start of an evaluation of the corresponding
   job - or such a job is still waiting when the observation ends ([pend] = the pending queue at the end). *)
Definition no_loss (h : list entry) (pend : list job) : Prop :=
  forall i e k, mark_at h i (MArrive e) -> mark_at h k (MAccepted i) ->
    (exists k' j, i < k' /\ mark_at h k' (MStart j) /\ same_target j e = true)
    \/ (exists j, In j pend /\ same_target j e = true).

(* Duplicate suppression drops a job only while an equal job is waiting: a request is skipped only if, at some
   turn between its arrival and the skip, an equal job was in the pending queue (so never on the grounds of
   the running job or of finished jobs alone). *)
Definition dedup (h : list entry) : Prop :=
  forall a e k, mark_at h a (MArrive e) -> mark_at h k (MSkip a) ->
    exists k' en j, a <= k' /\ k' < k /\ nth_error h k' = Some en /\ In j (e_pending en)
                    /\ same_target j e = true.

(* the status a finished job is recorded with: its own when the handler returned, the exception's class
   name when it raised *)
Definition spec_status (o : outcome) : status_kind :=
  match o with ORet => SUnchanged | _ => STypeName end.

(* Whatever a job raises: the worker never dies; when process_task is over for j, the marker is cleared, j is
   the most recent finished job with its status, the worker is back at get(), and j had been started. *)
Definition worker_ok (h : list entry) : Prop :=
  forall k en, nth_error h k = Some en ->
    e_worker en <> WIsDead
    /\ (forall j, e_mark en <> Some (MDied j))
    /\ (forall j st, e_mark en = Some (MFinish j st) ->
          e_current en = None /\ hd_error (e_done en) = Some (j, st) /\ e_worker en = WAtGet
          /\ fst st = spec_status (jout j)
          /\ exists k', k' < k /\ mark_at h k' (MStart j)).

(* ... and keeps serving: every started job is finished, unless it is the one being evaluated when the
   observation ends ([wend] = worker state at the end) *)
Definition served (h : list entry) (wend : wflag) : Prop :=
  forall k j, mark_at h k (MStart j) ->
    (exists k' st, k < k' /\ mark_at h k' (MFinish j st)) \/ wend = WBusy.

(* ------------------------------------------------------------------ executable monitors (same clauses) *)

Definition is_accepted (i : nat) (en : entry) : bool :=
  match e_mark en with Some (MAccepted a) => Nat.eqb a i | _ => false end.
Definition starts_for (e : job) (en : entry) : bool :=
  match e_mark en with Some (MStart j) => same_target j e | _ => false end.
Definition has_equal (e : job) (l : list job) : bool := existsb (fun j => same_target j e) l.

Fixpoint no_loss_go (h : list entry) (pend : list job) (i : nat) (rest : list entry) : bool :=
  match rest with
  | [] => true
  | en :: tl =>
      match e_mark en with
      | Some (MArrive e) =>
          implb (existsb (is_accepted i) h) (existsb (starts_for e) tl || has_equal e pend)
      | _ => true
      end && no_loss_go h pend (S i) tl
  end.
Definition no_loss_b (h : list entry) (pend : list job) : bool := no_loss_go h pend 0 h.

Definition arrival (h : list entry) (a : nat) : option job :=
  match nth_error h a with
  | Some en => match e_mark en with Some (MArrive e) => Some e | _ => None end
  | None => None
  end.

Fixpoint dedup_go (h : list entry) (k : nat) (rest : list entry) : bool :=
  match rest with
  | [] => true
  | en :: tl =>
      match e_mark en with
      | Some (MSkip a) =>
          match arrival h a with
          | Some e => existsb (fun en' => has_equal e (e_pending en')) (firstn (k - a) (skipn a h))
          | None => true      (* no such arrival: the clause says nothing *)
          end
      | _ => true
      end && dedup_go h (S k) tl
  end.
Definition dedup_b (h : list entry) : bool := dedup_go h 0 h.

Definition status_kind_eqb (a b : status_kind) : bool :=
  match a, b with SUnchanged, SUnchanged | STypeName, STypeName => true | _, _ => false end.
Definition details_kind_eqb (a b : details_kind) : bool :=
  match a, b with DUnchanged, DUnchanged | DNone, DNone | DStr, DStr => true | _, _ => false end.
Definition outcome_eqb (a b : outcome) : bool :=
  match a, b with
  | ORet, ORet | OSilent, OSilent | OTemplate, OTemplate | OInternal, OInternal
  | OJobFailure, OJobFailure | OOther, OOther => true
  | _, _ => false
  end.
Definition job_same (a b : job) : bool :=
  kind_eqb (jk a) (jk b) && Nat.eqb (jrepo a) (jrepo b) && Nat.eqb (jkey a) (jkey b)
  && Nat.eqb (juid a) (juid b) && outcome_eqb (jout a) (jout b).
Definition jstatus_eqb (a b : jstatus) : bool :=
  status_kind_eqb (fst a) (fst b) && details_kind_eqb (snd a) (snd b).
Definition is_start_of (j : job) (en : entry) : bool :=
  match e_mark en with Some (MStart j') => job_same j' j | _ => false end.
Definition is_finish_of (j : job) (en : entry) : bool :=
  match e_mark en with Some (MFinish j' _) => job_same j' j | _ => false end.

(* [before] = the entries of earlier turns, most recent first *)
Fixpoint worker_go (before rest : list entry) : bool :=
  match rest with
  | [] => true
  | en :: tl =>
      match e_worker en with WIsDead => false | _ => true end
      && match e_mark en with
         | Some (MDied _) => false
         | Some (MFinish j st) =>
             match e_current en with None => true | Some _ => false end
             && match e_done en with
                | (j', st') :: _ => job_same j' j && jstatus_eqb st' st
                | [] => false
                end
             && match e_worker en with WAtGet => true | _ => false end
             && status_kind_eqb (fst st) (spec_status (jout j))
             && existsb (is_start_of j) before
         | _ => true
         end
      && worker_go (en :: before) tl
  end.
Definition worker_b (h : list entry) : bool := worker_go [] h.

Fixpoint served_go (wend : wflag) (rest : list entry) : bool :=
  match rest with
  | [] => true
  | en :: tl =>
      match e_mark en with
      | Some (MStart j) => existsb (is_finish_of j) tl || match wend with WBusy => true | _ => false end
      | _ => true
      end && served_go wend tl
  end.
Definition served_b (h : list entry) (wend : wflag) : bool := served_go wend h.
