(* Spec/C18Spec.v - the naming grammar of GitWaterFlow branches, written from the statement of C18
   and the documented grammar (USER_DOC: development/x.y, stabilization/x.y.z, hotfix/x.y.z,
   w/<version>/<name_of_source_branch>, q/x.y, q/w/$PR_ID/x.y/$BRANCH_NAME, "the ticket id must follow
   the prefix, for example feature/KEY-1234-xxx"), not from the regular expressions of the code.
   Uses only Base/Str.v and the attribute record of Model/Names.v (the alphabet of the answer);
   nothing of Generated/Facts_C18.v and none of the model's scanners.

     number      one or more decimal digits, no sign; leading zeros are allowed and kept in the text,
                 the numeric attributes carry the value
     version     x | x.y | x.y.z | x.y.z.n                     (numbers)
     label       any non-empty text without a line feed
     ticket      <project>-<number> at the very start of a label; project = one or more of [A-Za-z0-9_];
                 the number is as long as possible
     source      <prefix>/<label> with a known prefix          (the "feature-like" names)

     development/<x | x.y>     stabilization/<x.y.z>     hotfix/<x.y.z>     release/<x.y>
     <source>                  user/<label>              hotfix/<label that is not x.y.z>   (legacy hotfix)
     w/<version>/<source>      q/<version>               q/w/<number>/<version>/<source>

   [is_kind name info] is the grammar as a relation; [spec_classify] is its recogniser, used as the
   monitor on the implementation (Proofs/C18Proofs.v: spec_classify s = Some a <-> is_kind s a). *)
From Coq Require Import List String Ascii Bool Arith NArith.
Require Import BertE.Base.Str BertE.Model.Names.
Import ListNotations.
Open Scope string_scope.

Definition known_prefixes : list string :=
  ["improvement"; "bugfix"; "feature"; "project"; "documentation"; "design"; "dependabot"; "epic"; "bug"].

Definition number (x : string) : Prop := is_num x = true.

Inductive version : string -> list string -> Prop :=
| V1 x : number x -> version x [x]
| V2 x y : number x -> number y -> version (x ++ "." ++ y) [x; y]
| V3 x y z : number x -> number y -> number z -> version (x ++ "." ++ y ++ "." ++ z) [x; y; z]
| V4 x y z n : number x -> number y -> number z -> number n ->
    version (x ++ "." ++ y ++ "." ++ z ++ "." ++ n) [x; y; z; n].

Definition label (l : string) : Prop := l <> "" /\ has_char LF l = false.

Definition word (p : string) : Prop := p <> "" /\ str_forall is_word p = true.

Definition no_digit_next (r : string) : Prop :=
  match r with EmptyString => True | String c _ => is_digit c = false end.

(* ticket l t : t is the (key, project) at the start of l, None when l does not start with one *)
Inductive ticket : string -> option (string * string) -> Prop :=
| T_some proj num rest : word proj -> number num -> no_digit_next rest ->
    ticket (proj ++ "-" ++ num ++ rest) (Some (proj ++ "-" ++ num, proj))
| T_none l : (forall proj num rest, word proj -> number num -> l <> proj ++ "-" ++ num ++ rest) ->
    ticket l None.

Inductive source : string -> string -> string -> option (string * string) -> Prop :=
| Src p l t : In p known_prefixes -> label l -> ticket l t -> source (p ++ "/" ++ l) p l t.

(* ---------------------------------------------------------------- the answers *)

Definition nth_value (cs : list string) (i : nat) : option N :=
  match nth_error cs i with Some x => Some (dec_value x) | None => None end.

Definition info_versioned (k : bclass) (v : string) (cs : list string) : branch_info :=
  {| bi_class := k; bi_prefix := None; bi_label := None; bi_version := Some v;
     bi_major := nth_value cs 0; bi_minor := nth_value cs 1;
     bi_micro := nth_value cs 2; bi_hfrev := nth_value cs 3;
     bi_pr_id := None; bi_feature_branch := None; bi_jira_issue_key := None; bi_jira_project := None |}.

Definition info_labelled (k : bclass) (l : string) : branch_info :=
  {| bi_class := k; bi_prefix := None; bi_label := Some l; bi_version := None;
     bi_major := None; bi_minor := None; bi_micro := None; bi_hfrev := None;
     bi_pr_id := None; bi_feature_branch := None; bi_jira_issue_key := None; bi_jira_project := None |}.

(* a source branch of a pull request: the ticket is reported in upper case *)
Definition info_feature (src p l : string) (t : option (string * string)) : branch_info :=
  {| bi_class := FeatureBranch; bi_prefix := Some p; bi_label := Some l; bi_version := None;
     bi_major := None; bi_minor := None; bi_micro := None; bi_hfrev := None;
     bi_pr_id := None; bi_feature_branch := Some src;
     bi_jira_issue_key := match t with Some (key, _) => Some (upper key) | None => None end;
     bi_jira_project := match t with Some (_, proj) => Some (upper proj) | None => None end |}.

(* a name derived by the robot: pull request id (q/w/ only), version, the source branch and its parts
   as they are written in the name *)
Definition info_derived (k : bclass) (pr : option N) (v : string) (cs : list string)
           (src p l : string) (t : option (string * string)) : branch_info :=
  {| bi_class := k; bi_prefix := Some p; bi_label := Some l; bi_version := Some v;
     bi_major := nth_value cs 0; bi_minor := nth_value cs 1;
     bi_micro := nth_value cs 2; bi_hfrev := nth_value cs 3;
     bi_pr_id := pr; bi_feature_branch := Some src;
     bi_jira_issue_key := match t with Some (key, _) => Some key | None => None end;
     bi_jira_project := match t with Some (_, proj) => Some proj | None => None end |}.

(* ---------------------------------------------------------------- the grammar *)

Inductive is_kind : string -> branch_info -> Prop :=
| K_development v cs : version v cs -> (List.length cs <= 2)%nat ->
    is_kind ("development/" ++ v) (info_versioned DevelopmentBranch v cs)
| K_stabilization v cs : version v cs -> List.length cs = 3%nat ->
    is_kind ("stabilization/" ++ v) (info_versioned StabilizationBranch v cs)
| K_hotfix v cs : version v cs -> List.length cs = 3%nat ->
    is_kind ("hotfix/" ++ v) (info_versioned HotfixBranch v cs)
| K_release v cs : version v cs -> List.length cs = 2%nat ->
    is_kind ("release/" ++ v) (info_versioned ReleaseBranch v cs)
| K_feature src p l t : source src p l t ->
    is_kind src (info_feature src p l t)
| K_user l : label l ->
    is_kind ("user/" ++ l) (info_labelled UserBranch l)
| K_legacy_hotfix l : label l -> (forall cs, version l cs -> List.length cs <> 3%nat) ->
    is_kind ("hotfix/" ++ l) (info_labelled LegacyHotfixBranch l)
| K_integration v cs src p l t : version v cs -> source src p l t ->
    is_kind ("w/" ++ v ++ "/" ++ src) (info_derived IntegrationBranch None v cs src p l t)
| K_queue v cs : version v cs ->
    is_kind ("q/" ++ v) (info_versioned QueueBranch v cs)
| K_queue_integration pr v cs src p l t : number pr -> version v cs -> source src p l t ->
    is_kind ("q/w/" ++ pr ++ "/" ++ v ++ "/" ++ src)
            (info_derived QueueIntegrationBranch (Some (dec_value pr)) v cs src p l t).

(* "only development/stabilization/hotfix names can be destinations" *)
Definition destination_kind (k : bclass) : Prop :=
  k = DevelopmentBranch \/ k = StabilizationBranch \/ k = HotfixBranch.

(* ---------------------------------------------------------------- the recogniser (monitor) *)

Definition spec_version (v : string) : option (list string) :=
  let cs := split_char "." v in
  if forallb is_num cs && (List.length cs <=? 4)%nat then Some cs else None.

Definition spec_versioned (k : bclass) (ok : nat -> bool) (v : string) : option branch_info :=
  match spec_version v with
  | Some cs => if ok (List.length cs) then Some (info_versioned k v cs) else None
  | None => None
  end.

(* the project is what precedes the first dash *)
Definition spec_ticket (l : string) : option (string * string) :=
  match split_first "-" l with
  | Some (proj, r) =>
      let (num, _) := span is_digit r in
      if negb (is_empty proj) && str_forall is_word proj && negb (is_empty num)
      then Some (proj ++ "-" ++ num, proj) else None
  | None => None
  end.

Definition spec_source (s : string) : option (string * string * option (string * string)) :=
  match split_first "/" s with
  | Some (p, l) =>
      if mem_str p known_prefixes && negb (is_empty l) && negb (has_char LF l)
      then Some (p, l, spec_ticket l) else None
  | None => None
  end.

Definition spec_derived (k : bclass) (pr : option N) (r : string) : option branch_info :=
  match split_first "/" r with
  | Some (v, src) =>
      match spec_version v, spec_source src with
      | Some cs, Some (p, l, t) => Some (info_derived k pr v cs src p l t)
      | _, _ => None
      end
  | None => None
  end.

Definition spec_classify (s : string) : option branch_info :=
  if has_char LF s then None else
  match split_first "/" s with
  | None => None
  | Some (head, rest) =>
      if (head =? "development")%string then spec_versioned DevelopmentBranch (fun n => (n <=? 2)%nat) rest
      else if (head =? "stabilization")%string then spec_versioned StabilizationBranch (fun n => (n =? 3)%nat) rest
      else if (head =? "release")%string then spec_versioned ReleaseBranch (fun n => (n =? 2)%nat) rest
      else if (head =? "hotfix")%string then
        match spec_versioned HotfixBranch (fun n => (n =? 3)%nat) rest with
        | Some a => Some a
        | None => if is_empty rest then None else Some (info_labelled LegacyHotfixBranch rest)
        end
      else if (head =? "user")%string then
        if is_empty rest then None else Some (info_labelled UserBranch rest)
      else if (head =? "w")%string then spec_derived IntegrationBranch None rest
      else if (head =? "q")%string then
        match split_first "/" rest with
        | None => spec_versioned QueueBranch (fun _ => true) rest
        | Some (h2, r2) =>
            if (h2 =? "w")%string then
              match split_first "/" r2 with
              | Some (pr, r3) =>
                  if is_num pr then spec_derived QueueIntegrationBranch (Some (dec_value pr)) r3 else None
              | None => None
              end
            else None
        end
      else
        match spec_source s with
        | Some (p, l, t) => Some (info_feature s p l t)
        | None => None
        end
  end.

(* expected answers for the names the robot derives (statement: "parse back to the same id, version
   and source branch"): what must be read back from w/, q/ and q/w/ names *)
Definition roundtrip_w (a : branch_info) (v src : string) : Prop :=
  bi_class a = IntegrationBranch /\ bi_version a = Some v /\ bi_feature_branch a = Some src.
Definition roundtrip_q (a : branch_info) (v : string) : Prop :=
  bi_class a = QueueBranch /\ bi_version a = Some v.
Definition roundtrip_qw (a : branch_info) (pr : N) (v src : string) : Prop :=
  bi_class a = QueueIntegrationBranch /\ bi_pr_id a = Some pr /\ bi_version a = Some v /\
  bi_feature_branch a = Some src.
