(* Spec/C11Spec.v - the ticket gate, written from the statement of C11 only:

     "Unless the Jira checks are bypassed (admin option, per-author setting, bypassed branch prefix) or
      Jira is not configured, a pull request gets integration branches only if its source branch names a
      ticket (mandatory as soon as one target does not accept ticketless pull requests), the ticket
      exists, belongs to a configured project, has a configured issue type, and - unless version checks
      are disabled - its fix versions equal the expected versions of C09 (suffixed versions ignored; for
      a hotfix target the hotfix version must be listed).  Each failure produces its own message and
      leaves the repository untouched."

   Uses Base/Str.v, the attribute record of Model/Names.v (what the source branch name says: prefix,
   ticket key and project, in upper case for a feature branch - C18), the version grammar of
   Spec/C18Spec.v, and the input alphabets [issue] / [settings] of Model/Jira.v (records only; none of
   the model's functions, none of Generated/Facts_C11.v).

   Readings fixed where the text leaves a choice (they follow what the code does and are listed in the
   evidence of every run, harness/props/c11.py AMBIGUITIES):
   * admin option = the option switched on by a comment or on the command line;
   * a version name is "unsuffixed" when it is x.y.z or x.y.z.0 (decimal numbers, C18 grammar); every
     other name of the issue is ignored; x.y.z.0 is kept and compared literally;
   * "hotfix target" = the expected versions are one single version of the form x.y.z.n; "listed" = among
     all fix versions of the issue, suffixed or not; nothing else is compared then;
   * fix versions and expected versions are compared as sets;
   * when several requirements fail, the message is that of the first one in the order of the sentence;
   * no type configured = every type accepted; Jira not configured = no project, no e-mail or no URL. *)
From Coq Require Import List String Ascii Bool Arith.
Require Import BertE.Base.Str BertE.Model.Names BertE.Spec.C18Spec BertE.Model.Jira.
Import ListNotations.
Open Scope string_scope.

Inductive reason := NoTicket | TicketNotFound | WrongProject | WrongIssueType | WrongFixVersions.

Inductive verdict := Admit | Refuse (r : reason).

(* ------------------------------------------------------------------ version names *)

(* x.y.z or x.y.z.0 *)
Definition unsuffixed (v : string) : Prop :=
  exists cs, version v cs /\ (List.length cs = 3%nat \/ (List.length cs = 4%nat /\ nth_error cs 3 = Some "0")).

(* x.y.z.n *)
Definition hotfix_version (v : string) : Prop := exists cs, version v cs /\ List.length cs = 4%nat.

(* the expected versions are exactly one hotfix version *)
Definition hotfix_target (expected : list string) (hv : string) : Prop :=
  hotfix_version hv /\ forall x, In x expected <-> x = hv.

(* "its fix versions equal the expected versions (suffixed versions ignored; for a hotfix target the
   hotfix version must be listed)" *)
Definition versions_fit (fix_versions expected : list string) : Prop :=
  (exists hv, hotfix_target expected hv /\ In hv fix_versions) \/
  ((forall hv, ~ hotfix_target expected hv) /\
   forall x, In x expected <-> (In x fix_versions /\ unsuffixed x)).

(* recognisers (the monitor run against the real code); Proofs/C11Proofs.v shows them exact *)
Definition unsuffixedb (v : string) : bool :=
  match spec_version v with
  | Some [_; _; _] => true
  | Some [_; _; _; n] => (n =? "0")%string
  | _ => false
  end.

Definition hotfix_versionb (v : string) : bool :=
  match spec_version v with Some [_; _; _; _] => true | _ => false end.

Definition hotfix_targetb (expected : list string) : option string :=
  match expected with
  | v :: rest => if forallb (String.eqb v) rest && hotfix_versionb v then Some v else None
  | [] => None
  end.

Definition subset (a b : list string) : bool := forallb (fun x => mem_str x b) a.

Definition versions_fitb (fix_versions expected : list string) : bool :=
  match hotfix_targetb expected with
  | Some hv => mem_str hv fix_versions
  | None => let kept := filter unsuffixedb fix_versions in subset kept expected && subset expected kept
  end.

(* ------------------------------------------------------------------ the gate *)

(* admin option (comment or command line) or per-author setting *)
Definition bypassed (cfg : settings) : bool :=
  s_bypass_comment cfg || s_bypass_cmdline cfg || s_bypass_author cfg.

Definition prefix_bypassed (cfg : settings) (a : branch_info) : bool :=
  match bi_prefix a with Some p => mem_str p (s_bypass_prefixes cfg) | None => false end.

Definition configured (cfg : settings) : bool :=
  negb (Nat.eqb (List.length (s_jira_keys cfg)) 0) && negb (s_jira_email cfg =? "")%string
  && negb (s_jira_account_url cfg =? "")%string.

Definition gate_applies (cfg : settings) (a : branch_info) : bool :=
  negb (bypassed cfg) && negb (prefix_bypassed cfg a) && configured cfg.

(* the ticket named by the source branch: (key, project) *)
Definition named_ticket (a : branch_info) : option (string * string) :=
  match bi_jira_issue_key a, bi_jira_project a with
  | Some key, Some project => Some (key, project)
  | _, _ => None
  end.

Fixpoint find_ticket (key : string) (tickets : list (string * issue)) : option issue :=
  match tickets with
  | [] => None
  | (k, i) :: t => if (k =? key)%string then Some i else find_ticket key t
  end.

Definition project_configured (cfg : settings) (project : string) : bool := mem_str project (s_jira_keys cfg).

Definition type_configured (cfg : settings) (i : issue) : bool :=
  match s_prefixes cfg with
  | [] => true                                               (* no type configured *)
  | types => existsb (fun p => (fst p =? iss_type i)%string) types
  end.

(* [accepts]: for each target, whether it accepts ticketless pull requests;
   [expected]: the expected versions of C09; [tickets]: what the Jira server holds *)
Definition spec (cfg : settings) (a : branch_info) (accepts : list bool) (expected : list string)
           (tickets : list (string * issue)) : verdict :=
  if negb (gate_applies cfg a) then Admit else
  match named_ticket a with
  | None => if forallb (fun b => b) accepts then Admit else Refuse NoTicket
  | Some (key, project) =>
      match find_ticket key tickets with
      | None => Refuse TicketNotFound
      | Some i =>
          if negb (project_configured cfg project) then Refuse WrongProject
          else if negb (type_configured cfg i) then Refuse WrongIssueType
          else if negb (s_disable_version_checks cfg) && negb (versions_fitb (iss_fix_versions i) expected)
          then Refuse WrongFixVersions
          else Admit
      end
  end.

(* the same as a proposition: the pull request is admitted exactly when ... *)
Definition fits (cfg : settings) (a : branch_info) (accepts : list bool) (expected : list string)
           (tickets : list (string * issue)) : Prop :=
  match named_ticket a with
  | None => forall b, In b accepts -> b = true
  | Some (key, project) =>
      exists i, find_ticket key tickets = Some i /\
                In project (s_jira_keys cfg) /\
                (s_prefixes cfg = [] \/ In (iss_type i) (map fst (s_prefixes cfg))) /\
                (s_disable_version_checks cfg = true \/ versions_fit (iss_fix_versions i) expected)
  end.

Definition admitted (cfg : settings) (a : branch_info) (accepts : list bool) (expected : list string)
           (tickets : list (string * issue)) : Prop :=
  bypassed cfg = true \/ prefix_bypassed cfg a = true \/ configured cfg = false \/
  fits cfg a accepts expected tickets.

(* ------------------------------------------------------------------ "leaves the repository untouched" *)

(* the steps of the pull-request handler that create or move branches, push, or open pull requests *)
Definition repo_writing_steps : list string :=
  ["check_integration_branches"; "create_integration_branches"; "update_integration_branches"; "push";
   "create_integration_pull_requests"; "add_to_queue"; "merge_integration_branches"].
