(* Specification of C04, written from the property statement only.

   "A pull request passes the approval check if and only if all of these hold:
    (1) the author approved (on the host or by an `approve` comment) unless author approval is disabled
        or bypassed;
    (2) the approving reviewers other than the author reach the required peer count unless bypassed;
    (3) the approving project leaders (the author counting as one when a leader) reach the required
        leader count unless bypassed;
    (4) with `unanimity`, every participant but the robot approved;
    (5) and nobody has an outstanding change request, unless every review requirement above is waived."

   Readings fixed in DESIGN.md 5.0: "waived" = no conjunct depends on any reviewer (author part met by
   disable / bypass / `approve`, peers bypassed or none required, leaders bypassed or none required, no
   unanimity); every approver except the author counts as a peer, the robot included.
   "bypassed" = by admin comment, on the command line, or by the per-author setting.
   "reach the count n" = there are at least n distinct such users: a duplicate-free witness list.

   Only the record of inputs is taken from the model file (field names, no code). *)
From Coq Require Import List Bool NArith ZArith.
Require Import BertE.Model.Approvals.
Import ListNotations.

Section Spec.
Variable i : inputs.

(* x approved: on the host, or x is the author and the author said `approve` *)
Definition approved (x : user) : Prop :=
  In x (i_approvals i) \/ (i_approve i = true /\ x = i_author i).

Definition at_least (n : Z) (P : user -> Prop) : Prop :=
  exists l : list user, NoDup l /\ (forall x, In x l -> P x) /\ (n <= Z.of_nat (length l))%Z.

Definition bypassed (comment cmdline setting : bool) : Prop :=
  comment = true \/ cmdline = true \/ setting = true.
Definition author_bypassed := bypassed (i_bypass_author_comment i) (i_bypass_author_cmdline i) (i_bypass_author_setting i).
Definition peer_bypassed := bypassed (i_bypass_peer_comment i) (i_bypass_peer_cmdline i) (i_bypass_peer_setting i).
Definition leader_bypassed := bypassed (i_bypass_leader_comment i) (i_bypass_leader_cmdline i) (i_bypass_leader_setting i).

Definition author_ok : Prop :=
  i_need_author i = false \/ author_bypassed \/ approved (i_author i).
Definition peers_ok : Prop :=
  peer_bypassed \/ at_least (i_required_peer i) (fun x => approved x /\ x <> i_author i).
Definition leaders_ok : Prop :=
  leader_bypassed \/
  at_least (i_required_leader i) (fun x => In x (i_leaders i) /\ (approved x \/ x = i_author i)).
Definition unanimity_ok : Prop :=
  i_unanimity i = true -> forall x, In x (i_participants i) -> x <> i_robot i -> approved x.
Definition no_change_request : Prop := forall x, ~ In x (i_change_requests i).
Definition waived : Prop :=
  (i_need_author i = false \/ author_bypassed \/ i_approve i = true) /\
  (peer_bypassed \/ (i_required_peer i <= 0)%Z) /\
  (leader_bypassed \/ (i_required_leader i <= 0)%Z) /\
  i_unanimity i = false.

Definition spec_pass : Prop :=
  author_ok /\ peers_ok /\ leaders_ok /\ unanimity_ok /\ (no_change_request \/ waived).

(* ---- the same specification as a decision procedure (this is what is extracted and run as the
        monitor against the implementation; Proofs/C04Proofs.v shows spec_passb = true <-> spec_pass).
        Counting goes over the candidates named in each conjunct. *)
Definition inb (x : user) (l : list user) : bool := existsb (N.eqb x) l.
Definition approvedb (x : user) : bool := inb x (i_approvals i) || (i_approve i && N.eqb x (i_author i)).
Fixpoint distinct (l : list user) : list user :=
  match l with [] => [] | x :: t => if inb x t then distinct t else x :: distinct t end.
Definition count (P : user -> bool) (candidates : list user) : Z :=
  Z.of_nat (length (distinct (filter P candidates))).
Definition orb3 (a b c : bool) : bool := a || b || c.
Definition author_byp := orb3 (i_bypass_author_comment i) (i_bypass_author_cmdline i) (i_bypass_author_setting i).
Definition peer_byp := orb3 (i_bypass_peer_comment i) (i_bypass_peer_cmdline i) (i_bypass_peer_setting i).
Definition leader_byp := orb3 (i_bypass_leader_comment i) (i_bypass_leader_cmdline i) (i_bypass_leader_setting i).

Definition author_okb : bool := negb (i_need_author i) || author_byp || approvedb (i_author i).
Definition peers_okb : bool :=
  peer_byp ||
  (i_required_peer i <=?
   count (fun x => approvedb x && negb (N.eqb x (i_author i))) (i_author i :: i_approvals i))%Z.
Definition leaders_okb : bool :=
  leader_byp ||
  (i_required_leader i <=? count (fun x => approvedb x || N.eqb x (i_author i)) (i_leaders i))%Z.
Definition unanimity_okb : bool :=
  negb (i_unanimity i) ||
  forallb (fun x => N.eqb x (i_robot i) || approvedb x) (i_participants i).
Definition no_change_requestb : bool := match i_change_requests i with [] => true | _ => false end.
Definition waivedb : bool :=
  (negb (i_need_author i) || author_byp || i_approve i)
  && (peer_byp || (i_required_peer i <=? 0)%Z)
  && (leader_byp || (i_required_leader i <=? 0)%Z)
  && negb (i_unanimity i).
Definition spec_passb : bool :=
  author_okb && peers_okb && leaders_okb && unanimity_okb && (no_change_requestb || waivedb).
End Spec.
