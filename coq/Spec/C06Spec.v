(* Specification of C06, written from the property statement only (no reference to the code's data). *)
From Coq Require Import List Bool.
Require Import BertE.Model.BuildGate.   (* only for the status alphabet [bstatus] *)
Import ListNotations.

Inductive verdict :=
| VEnter        (* the pull request may enter the queue / be merged *)
| VToldFailed   (* the author is told the build failed *)
| VWaitSilent.  (* Bert-E waits without commenting *)

Definition is_green (s : bstatus) : bool := match s with SUCCESSFUL => true | _ => false end.
Definition is_red (s : bstatus) : bool := match s with FAILED | STOPPED => true | _ => false end.
Definition is_known (s : bstatus) : bool := match s with OTHER => false | _ => true end.

(* [bypassed]: bypass by admin comment, per-author setting or command line; [nokey]: no build key *)
Definition spec (bypassed nokey : bool) (tips : list bstatus) : verdict :=
  if bypassed || nokey || forallb is_green tips then VEnter
  else if existsb is_red tips then VToldFailed
  else VWaitSilent.
