(* Specification of C09, written from the property statement only.

   Statement:  For any set of development, stabilization and hotfix branches and release tags and any destination,
    the branches a pull request is merged into are the destination, then every development branch of
    greater or equal version in increasing order (development/x.y by (x, y), development/x after every
    development/x.N), never another stabilization or hotfix branch, and a hotfix destination alone.  The
    expected fix versions are one per targeted release line: a targeted stabilization branch contributes
    its own version (its development branch then adds nothing), every other development/x.y the next
    unreleased patch (skipping the one held by its untargeted stabilization branch), development/x the
    next minor, a hotfix x.y.z.(n+1); ill-formed cascades (two stabilizations for one version, a
    stabilization without its development branch or whose release tag exists) are rejected.

   From Model/Cascade.v only the alphabet is used: the types branch / key / ptag / version / outcome /
   cerror / result, the printer name_of and the string sort sort_names.  The order on versions, the
   selection of targets, the version arithmetic and the rejection predicate are defined here, over the
   *set* of branches (a duplicate-free list in any order) - no cascade, no slots, no flags.

   Where the statement is silent the specification follows the code; each such place is marked OPEN. *)
From Coq Require Import List String Bool ZArith.
Require Import BertE.Model.Cascade.
Import ListNotations.
Open Scope Z_scope.

(* ----------------------------------------------------------------------- the order on versions *)

(* (x, y) by x then y; development/x (y = None) after every development/x.N *)
Definition line_lt (a b : key) : bool :=
  let '(x1, y1) := a in
  let '(x2, y2) := b in
  (x1 <? x2) ||
  ((x1 =? x2) && match y1, y2 with
                 | Some m1, Some m2 => m1 <? m2
                 | Some _, None => true
                 | None, _ => false
                 end).
Definition line_le (a b : key) : bool := negb (line_lt b a).

Fixpoint insert_line (k : key) (l : list key) : list key :=
  match l with
  | [] => [k]
  | h :: t => if line_le k h then k :: l else h :: insert_line k t
  end.
Definition sort_lines (l : list key) : list key := fold_right insert_line [] l.

(* ----------------------------------------------------------------------- reading the inputs *)

Definition branch_eqb (a b : branch) : bool :=
  match a, b with
  | Dev x1 y1, Dev x2 y2 => (x1 =? x2) && optZ_eqb y1 y2
  | Stab x1 y1 z1, Stab x2 y2 z2 => (x1 =? x2) && (y1 =? y2) && (z1 =? z2)
  | Hotfix x1 y1 z1, Hotfix x2 y2 z2 => (x1 =? x2) && (y1 =? y2) && (z1 =? z2)
  | _, _ => false
  end.
Definition mem (b : branch) (l : list branch) : bool := existsb (branch_eqb b) l.

Definition is_hotfix (b : branch) : bool := match b with Hotfix _ _ _ => true | _ => false end.

(* the (x, y) of the development branches of the set *)
Definition dev_lines (bs : list branch) : list key :=
  flat_map (fun b => match b with Dev x y => [(x, y)] | _ => [] end) bs.
Definition dev_of_line (k : key) : branch := Dev (fst k) (snd k).

(* the patch numbers z of the stabilization/x.y.z branches of the set *)
Definition stab_micros (bs : list branch) (x y : Z) : list Z :=
  flat_map (fun b => match b with
                     | Stab x' y' z => if (x' =? x) && (y' =? y) then [z] else []
                     | _ => []
                     end) bs.

(* released patches z of line x.y: tags x.y.z and x.y.z.n   (OPEN: a hotfix tag x.y.z.n counts) *)
Definition released_patches (tags : list ptag) (x y : Z) : list Z :=
  flat_map (fun t => let '(x', y', z, _) := t in if (x' =? x) && (y' =? y) then [z] else []) tags.
(* minors y with some tag x.y.* *)
Definition released_minors (tags : list ptag) (x : Z) : list Z :=
  flat_map (fun t => let '(x', y', _, _) := t in if x' =? x then [y'] else []) tags.
(* hotfix revisions n released for x.y.z: x.y.z is revision 0 *)
Definition released_hfrevs (tags : list ptag) (x y z : Z) : list Z :=
  flat_map (fun t => let '(x', y', z', h) := t in
                     if (x' =? x) && (y' =? y) && (z' =? z)
                     then [match h with Some n => n | None => 0 end] else []) tags.

(* one more than the greatest element, [d] when there is none *)
Definition next_after (d : Z) (l : list Z) : Z := fold_right (fun n acc => Z.max (n + 1) acc) d l.

(* ----------------------------------------------------------------------- rejections *)

(* two stabilizations for one version *)
Definition two_stabs (bs : list branch) : bool :=
  existsb (fun a => existsb (fun b =>
    match a, b with
    | Stab x1 y1 z1, Stab x2 y2 z2 => (x1 =? x2) && (y1 =? y2) && negb (z1 =? z2)
    | _, _ => false
    end) bs) bs.

(* a stabilization without its development branch *)
Definition orphan_stab (bs : list branch) : bool :=
  existsb (fun b => match b with
                    | Stab x y _ => negb (mem (Dev x (Some y)) bs)
                    | _ => false
                    end) bs.

(* a stabilization whose release tag exists: x.y.z or a later patch of the line was tagged.
   OPEN: next to a hotfix destination of the same version x.y.z (whose existence says x.y.z was
   released) the code rejects the stabilization only when some tag of line x.y exists. *)
Definition released_stab (bs : list branch) (tags : list ptag) (dst : branch) : bool :=
  existsb (fun b => match b with
                    | Stab x y z =>
                        existsb (fun z' => z <=? z') (released_patches tags x y) ||
                        (branch_eqb dst (Hotfix x y z) &&
                         match released_patches tags x y with [] => false | _ => true end)
                    | _ => false
                    end) bs.

(* ----------------------------------------------------------------------- targets *)

(* the destination, then every development branch of greater or equal version in increasing order;
   a hotfix destination alone *)
Definition targets (bs : list branch) (dst : branch) : list branch :=
  if is_hotfix dst then [dst]
  else dst :: map dev_of_line
         (sort_lines (filter (fun k => line_le (key_of dst) k && negb (branch_eqb (dev_of_line k) dst))
                             (dev_lines bs))).

(* ----------------------------------------------------------------------- fix versions *)

(* the next unreleased patch of line x.y, skipping the one held by its (untargeted) stabilization *)
Definition next_patch (bs : list branch) (tags : list ptag) (x y : Z) : Z :=
  let p := next_after 0 (released_patches tags x y) in
  if existsb (Z.eqb p) (stab_micros bs x y) then p + 1 else p.

(* the next minor of major x: after every development/x.y branch and every released x.y.*  (OPEN) *)
Definition next_minor (bs : list branch) (tags : list ptag) (x : Z) : Z :=
  next_after 0 (flat_map (fun k => if fst k =? x then match snd k with Some y => [y] | None => [] end else [])
                         (dev_lines bs)
                ++ released_minors tags x).

Definition target_version (bs : list branch) (tags : list ptag) (dst t : branch) : list version :=
  match t with
  | Stab x y z => [[x; y; z]]                                   (* its own version *)
  | Dev x (Some y) =>
      match dst with
      | Stab x' y' _ => if (x' =? x) && (y' =? y) then []       (* its stabilization is targeted *)
                        else [[x; y; next_patch bs tags x y]]
      | _ => [[x; y; next_patch bs tags x y]]
      end
  | Dev x None => [[x; next_minor bs tags x; 0]]
  | Hotfix x y z =>                                             (* x.y.z.(n+1); OPEN: -1 when no tag *)
      [[x; y; z; next_after (-1) (released_hfrevs tags x y z)]]
  end.

(* ----------------------------------------------------------------------- ignored, merge paths *)

(* OPEN: the development and stabilization branches that are not targets, names sorted *)
Definition ignored (bs : list branch) (dst : branch) : list string :=
  sort_names (map name_of (filter (fun b => negb (is_hotfix b) && negb (mem b (targets bs dst))) bs)).

(* OPEN (the statement does not mention them; from the docstring of get_merge_paths): the path through
   all development branches, and one path from the hotfix destination / each stabilization branch of a
   line that has a development branch through the development branches from that line on *)
Definition merge_paths (bs : list branch) (dst : branch) : list (list branch) :=
  let lines := sort_lines (dev_lines bs) in
  let from (k : key) := map dev_of_line (filter (line_le k) lines) in
  map dev_of_line lines ::
  flat_map (fun k =>
    match snd k with
    | None => []
    | Some y =>
        (match dst with
         | Hotfix x' y' _ => if (x' =? fst k) && (y' =? y) then [dst :: from k] else []
         | _ => []
         end)
        ++ map (fun z => Stab (fst k) y z :: from k) (stab_micros bs (fst k) y)
    end) lines.

(* ----------------------------------------------------------------------- the specification *)

(* What is observed of a successful computation (the cascade left inside the object is not). *)
Record spec_outcome := mkSpec {
  sp_dst : list branch;
  sp_ignored : list string;
  sp_versions : list version;
  sp_paths : list (list branch) }.

(* OPEN: the statement does not order the three rejections; this is the order of the code. *)
Definition spec (bs : list branch) (tags : list ptag) (dst : branch) : result spec_outcome :=
  if two_stabs bs then Err UnsupportedMultipleStabBranches
  else if released_stab bs tags dst then Err DeprecatedStabilizationBranch
  else if orphan_stab bs then Err DevBranchDoesNotExist
  else Ok (mkSpec (targets bs dst) (ignored bs dst)
                  (flat_map (target_version bs tags dst) (targets bs dst))
                  (merge_paths bs dst)).

(* the tags of the repository that are release tags *)
Definition release_tags (tags : list string) : list ptag :=
  flat_map (fun s => match parse_tag s with Some t => [t] | None => [] end) tags.

(* the observable part of a model outcome *)
Definition observe (r : result outcome) : result spec_outcome :=
  match r with
  | Ok o => Ok (mkSpec (o_dst o) (o_ignored o) (o_versions o) (o_paths o))
  | Err e => Err e
  end.
