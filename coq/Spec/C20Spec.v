(* Spec/C20Spec.v - what the statement of C20 says, written from the statement:

   "The create-branch job publishes a new destination branch only if the repository including it still
    satisfies the cascade rules and C01, never while queued pull requests would need new intermediate
    integration branches, and never for a version that was archived; the delete-branch job refuses while the
    branch has queued pull requests or, for a development branch, a live stabilization branch, and otherwise
    leaves an archive tag on the deleted tip.  A job that refuses leaves the remote untouched; queue rebuild and
    delete jobs remove only q/* branches, and rebuild re-submits exactly the pull requests that were queued, in
    queue order."

   Vocabulary shared with the model: the repository view [repo], parsed destination names [dest], the queue view
   [qentry], outcomes and mutations (types only).  [Anc] is ancestry of Proofs/GitProofs.v, [Incl] the
   forward-port inclusion of Proofs/FlowProofs.v (C01).  No proofs in this file. *)
From Coq Require Import List String Bool Arith NArith.
Require Import BertE.Model.Names BertE.Model.Git BertE.Model.Flow BertE.Model.AdminJobs.
Require Import BertE.Proofs.GitProofs BertE.Proofs.FlowProofs.
Import ListNotations.
Open Scope string_scope.

(* ---------------------------------------------------------------- the forward-port order (C01 / DESIGN 5, C01) *)

(* lines are ordered by major, then minor; development/<major> comes after every development/<major>.<minor> *)
Definition line_before (a b : key) : Prop :=
  (fst a < fst b)%N \/
  (fst a = fst b /\ match snd a, snd b with
                    | Some m1, Some m2 => (m1 < m2)%N
                    | Some _, None => True
                    | None, _ => False
                    end).

(* stabilization x.y.z -> development x.y -> every later development branch; hotfix branches are unrelated *)
Definition later (a b : dest) : Prop :=
  d_kind b = KDev /\
  ((d_kind a = KDev /\ line_before (dkey a) (dkey b)) \/
   (d_kind a = KStab /\ (dkey a = dkey b \/ line_before (dkey a) (dkey b)))).

(* C01 on the remote heads, by name *)
Definition incl_names (r : repo) : Prop :=
  forall n1 c1 d1 n2 c2 d2,
    In (n1, c1) (r_heads r) -> In (n2, c2) (r_heads r) ->
    parse_dest n1 = Some d1 -> parse_dest n2 = Some d2 -> later d1 d2 -> Anc (r_st r) c1 c2.

(* the same statement in the vocabulary of C01 (Proofs/FlowProofs.v): branch ids are positions in the head list *)
Definition clone_of (r : repo) : clone :=
  mkClone (r_st r) (combine (seq 0 (List.length (r_heads r))) (map snd (r_heads r))).
Definition later_ids (r : repo) (i j : name) : Prop :=
  exists h1 h2 d1 d2, nth_error (r_heads r) i = Some h1 /\ nth_error (r_heads r) j = Some h2 /\
                      parse_dest (fst h1) = Some d1 /\ parse_dest (fst h2) = Some d2 /\ later d1 d2.

(* ---------------------------------------------------------------- the cascade rules *)

Definition released_on (r : repo) (k : key) (z : N) : Prop :=
  exists t x y, In t (tag_names r) /\ parse_tag t = Some (x, y, z) /\ k = (x, Some y).

Definition cascade_rules (r : repo) : Prop :=
  (* a stabilization branch has its development branch *)
  (forall n c d, In (n, c) (r_heads r) -> parse_dest n = Some d -> d_kind d = KStab ->
     exists n' c' d', In (n', c') (r_heads r) /\ parse_dest n' = Some d' /\ d_kind d' = KDev /\ dkey d' = dkey d) /\
  (* one development and one stabilization branch per line *)
  (forall h1 h2 d1 d2, In h1 (r_heads r) -> In h2 (r_heads r) ->
     parse_dest (fst h1) = Some d1 -> parse_dest (fst h2) = Some d2 ->
     d_kind d1 <> KHotfix -> d_kind d1 = d_kind d2 -> dkey d1 = dkey d2 -> h1 = h2) /\
  (* a stabilization branch holds the next unreleased patch of its line *)
  (forall n c d, In (n, c) (r_heads r) -> parse_dest n = Some d -> d_kind d = KStab ->
     (forall z, released_on r (dkey d) z -> (z < opt_default (d_micro d))%N) /\
     (opt_default (d_micro d) = 0%N \/ released_on r (dkey d) (opt_default (d_micro d) - 1))).

(* ---------------------------------------------------------------- archived versions *)

(* [atag]: the archive tag the delete-branch job leaves for a branch *)
Definition archived (atag : dest -> string) (r : repo) (d : dest) : Prop := In (atag d) (tag_names r).

(* ---------------------------------------------------------------- queued pull requests *)

Definition qkey (e : qentry) : key := (q_major e, q_minor e).
Definition hotfix_queue (e : qentry) : Prop := qlen e = 4%nat.

(* a pull request is queued below and above the new development line: it needs a new integration branch in
   the middle of its cascade *)
Definition needs_intermediate (qs : list qentry) (k : key) : Prop :=
  exists e1 e2 p, In e1 qs /\ In e2 qs /\ ~ hotfix_queue e1 /\ ~ hotfix_queue e2 /\
                  In p (q_prs e1) /\ In p (q_prs e2) /\ line_before (qkey e1) k /\ line_before k (qkey e2).

(* the queue entries of a destination branch *)
Definition queue_of (d : dest) (e : qentry) : Prop :=
  q_major e = d_major d /\ q_minor e = d_minor d /\
  match d_kind d with
  | KDev => qlen e = 2%nat
  | KStab => qlen e = 3%nat /\ q_micro e = d_micro d
  | KHotfix => qlen e = 4%nat /\ q_micro e = d_micro d
  end.

Definition has_queued_prs (qs : list qentry) (d : dest) : Prop :=
  exists e p, In e qs /\ queue_of d e /\ In p (q_prs e).

(* a stabilization branch of the development line *)
Definition live_stabilization (r : repo) (d : dest) : Prop :=
  exists n c d', In (n, c) (r_heads r) /\ parse_dest n = Some d' /\ d_kind d' = KStab /\ dkey d' = dkey d.

(* ---------------------------------------------------------------- refusals *)

Definition refused (o : outcome) : Prop :=
  o = NothingToDo \/ o = NotMyJob \/ exists why, o = JobFailure why.

(* ---------------------------------------------------------------- queue jobs *)

Definition before_in {A} (x y : A) (l : list A) : Prop := exists l1 l2 l3, l = (l1 ++ x :: l2 ++ y :: l3)%list.

(* [l] is "the pull requests that were queued, in queue order": each once, and inside every queue version the
   older entry first ([q_prs] lists the newest first) *)
Definition queue_order (qs : list qentry) (l : list N) : Prop :=
  NoDup l /\
  (forall p, In p l <-> exists e, In e qs /\ In p (q_prs e)) /\
  (forall e p1 p2, In e qs -> before_in p2 p1 (q_prs e) -> before_in p1 p2 l).

Definition is_queue_name (n : string) : Prop := String.prefix "q/" n = true.

(* only q/* heads disappear, nothing else changes *)
Definition only_queues_removed (r r' : repo) : Prop :=
  r_tags r' = r_tags r /\ r_st r' = r_st r /\
  (forall h, In h (r_heads r') -> In h (r_heads r)) /\
  (forall h, In h (r_heads r) -> ~ is_queue_name (fst h) -> In h (r_heads r')).
