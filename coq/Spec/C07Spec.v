(* Specification of C07, written from the property statement and the grammar of its quantifier only.

   "A privileged option (any bypass_* ) takes effect only if it is written in a comment addressed to the
    robot by a configured admin who is not the author of the pull request (or is granted by per-author
    settings or the command line); an author-only option (approve) only if written by the author.
    A comment addressed to the robot that names an unknown keyword, or a privileged or author-only
    keyword from the wrong person, blocks the pull request with an explanation instead of being partly
    applied; text not addressed to the robot never changes an option."

   Grammar of the quantifier: a comment addressed to the robot is, once surrounding white space is
   removed, either "@<robot>" (optionally ":"), followed by keyword[=arg] items separated by
   characters of " ,.-:;|+" (any white space counts as the blank), or a line of "/keyword[=arg]" items
   separated the same way.  Readings fixed here (the corner cases are listed in the report):
   - in the "@<robot>" form the "/" mark may precede a keyword too and counts as a separator;
   - at least one separator stands between "@<robot>" and the first keyword ("@robotapprove" names
     nothing), separators may follow the last keyword in the "@<robot>" form, only white space in the
     "/" form;
   - a request whose first keyword is a registered command is a command call: its other words are the
     arguments of the command, not option keywords;
   - [addressed] is the wide notion (text that starts like a message to the robot), [request] the
     narrow one (the whole comment is in the grammar).  Clause 3 uses the wide one (strongest claim),
     clauses 1 and 2 the narrow one.
   Only the types [comment] and [value] are taken from the model. *)
From Coq Require Import List String Ascii Bool.
Require Import BertE.Base.Str BertE.Base.C07Str BertE.Model.Reactor.
Import ListNotations.
Open Scope string_scope.

Definition mark (c : ascii) : bool := (c =? "/")%char.
Definition sep_char (c : ascii) : bool := is_space c || has_char c ",.-:;|+".

Definition address (robot : string) : string := "@" ++ robot.

(* ---- the "/" form:  "/" kw+ ( sep+ "/" kw+ )* ws*  *)
Fixpoint g_word (seen : bool) (s : string) {struct s} : bool :=
  match s with
  | EmptyString => seen
  | String c t => if is_kw c then g_word true t
                  else if seen && sep_char c then g_seps (is_space c) t else false
  end
with g_seps (only_ws : bool) (s : string) {struct s} : bool :=
  match s with
  | EmptyString => only_ws
  | String c t => if sep_char c then g_seps (only_ws && is_space c) t
                  else if mark c then g_word false t else false
  end.

Definition slash_line (t : string) : bool :=
  match t with String c r => mark c && g_word false r | EmptyString => false end.

(* ---- the "@robot" form, what follows the address:  ( (sep|"/")+ kw+ )+ (sep|"/")*  *)
Definition at_sep (c : ascii) : bool := sep_char c || mark c.
Definition at_body (rest : string) : bool :=
  head_is at_sep rest && str_forall (fun c => at_sep c || is_kw c) rest && negb (str_forall at_sep rest).

(* the keyword[=arg] items of a comment that is, as a whole, a request to the robot *)
Definition request (robot text : string) : option (list string) :=
  let t := strip text in
  match strip_prefix (address robot) t with
  | Some rest => if at_body rest then Some (runs is_kw rest) else None
  | None => if slash_line t then Some (runs is_kw t) else None
  end.

(* keyword of an item: what precedes the first "=" *)
Definition key_of (item : string) : string := fst (span (fun c => negb (c =? "=")%char) item).

Definition names (robot text keyword : string) : bool :=
  match request robot text with
  | Some items => existsb (fun w => (key_of w =? keyword)%string) items
  | None => false
  end.

(* text that starts like a message to the robot *)
Definition addressed (robot text : string) : bool :=
  let t := strip text in
  starts_with (address robot) t
  || match t with String c (String d _) => mark c && is_kw d | _ => false end.

(* ---- who *)
Definition privileged_keyword (k : string) : bool := starts_with "bypass_" k.
Definition author_only_keyword (k : string) : bool := (k =? "approve")%string.
Definition admin_not_author (admins : list string) (pr_author who : string) : bool :=
  mem_str who admins && negb (who =? pr_author)%string.

(* ---- clause 1: the comment that entitles an option to differ from its default *)
Definition priv_witness (robot : string) (admins : list string) (pr_author : string)
           (cs : list comment) (o : string) : bool :=
  existsb (fun c => addressed robot (c_text c) && names robot (c_text c) o
                    && admin_not_author admins pr_author (c_author c)) cs.

Definition auth_witness (robot : string) (pr_author : string) (cs : list comment) (o : string) : bool :=
  existsb (fun c => addressed robot (c_text c) && names robot (c_text c) o
                    && (c_author c =? pr_author)%string) cs.

(* ---- clause 2.  [opts], [cmds]: the registered option and command keywords *)
Inductive item_verdict :=
| IUnknown          (* not a registered keyword *)
| INotPrivileged    (* privileged keyword from somebody who is not an admin-not-author *)
| INotAuthor        (* author-only keyword from somebody else *)
| IFine             (* a registered option this person may set, written keyword or keyword=arg *)
| ISilent.          (* the statement does not say: a command name after the first item, more than
                       one "=", after_pull_request without exactly one argument *)

Definition eq_count (w : string) : nat := List.length (split_char "=" w) - 1.

Definition judge (opts cmds admins : list string) (pr_author who item : string) : item_verdict :=
  let k := key_of item in
  if mem_str k opts then
    if privileged_keyword k && negb (admin_not_author admins pr_author who) then INotPrivileged
    else if author_only_keyword k && negb (who =? pr_author)%string then INotAuthor
    else if (k =? "after_pull_request")%string then (if Nat.eqb (eq_count item) 1 then IFine else ISilent)
    else if Nat.leb (eq_count item) 1 then IFine else ISilent
  else if mem_str k cmds then ISilent
  else IUnknown.

Definition wrong (v : item_verdict) : bool :=
  match v with IUnknown | INotPrivileged | INotAuthor => true | _ => false end.

(* the items of a comment that is an option request (first keyword not a command) *)
Definition option_request (robot : string) (cmds : list string) (text : string) : option (list string) :=
  match request robot text with
  | Some (w0 :: ws) => if mem_str (key_of w0) cmds then None else Some (w0 :: ws)
  | _ => None
  end.

(* some comment is an option request with a wrong item: the pull request must be blocked *)
Definition must_block (robot : string) (opts cmds admins : list string) (pr_author : string)
           (cs : list comment) : bool :=
  existsb (fun c => match option_request robot cmds (c_text c) with
                    | Some items => existsb (fun w => wrong (judge opts cmds admins pr_author (c_author c) w)) items
                    | None => false
                    end) cs.

Definition blocking_class (cls : string) : bool :=
  mem_str cls ["UnknownCommand"; "NotEnoughCredentials"; "NotAuthor"; "IncorrectCommandSyntax"].

(* the explanation that corresponds to the first wrong item, when everything before it is fine;
   None when the statement does not determine the outcome *)
Inductive walk := WFine | WBlock (cls : string) | WSilent.

Fixpoint walk_items (opts cmds admins : list string) (pr_author who : string) (items : list string) : walk :=
  match items with
  | [] => WFine
  | w :: r => match judge opts cmds admins pr_author who w with
              | IUnknown => WBlock "UnknownCommand"
              | INotPrivileged => WBlock "NotEnoughCredentials"
              | INotAuthor => WBlock "NotAuthor"
              | IFine => walk_items opts cmds admins pr_author who r
              | ISilent => WSilent
              end
  end.

Fixpoint expected_block (robot : string) (opts cmds admins : list string) (pr_author : string)
         (cs : list comment) : option string :=
  match cs with
  | [] => None
  | c :: t => match option_request robot cmds (c_text c) with
              | None => expected_block robot opts cmds admins pr_author t
              | Some items => match walk_items opts cmds admins pr_author (c_author c) items with
                              | WFine => expected_block robot opts cmds admins pr_author t
                              | WBlock cls => Some cls
                              | WSilent => None
                              end
              end
  end.
