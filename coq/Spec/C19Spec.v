(* Specification of C19, written from the property statement only:

     "However often and in whatever order events arrive, each pull request has at most one integration branch
      and at most one open integration pull request per target beyond the first, named and titled after it; an
      event on an integration pull request or on an integration or source commit is handled as an event on the
      parent pull request.  Declining the parent declines exactly its open integration pull requests and
      deletes exactly its integration branches, and merging it removes them."

   Model/Integration.v is imported for the vocabulary only (names, pull requests, worlds). *)
From Coq Require Import List String Bool ZArith.
Require Import BertE.Model.Integration.
Import ListNotations.
Open Scope Z_scope.

(* An open pull request of a user, from the feature branch s. *)
Definition user_open_pr (w : world) (p : pr) (s : string) : Prop :=
  In p (prs w) /\ probot p = false /\ pst p = OPEN /\ psrc p = Src s.

(* c is an open integration pull request for the target of version v of a pull request whose source is s:
   opened by the robot, from w/<v>/<s> to the destination of version v. *)
Definition integration_pr (w : world) (v s : string) (c : pr) : Prop :=
  In c (prs w) /\ probot c = true /\ pst c = OPEN /\ psrc c = W v s /\ pdst c = Dst v.

(* c is named (description) and titled after p *)
Definition named_after (p c : pr) : Prop := pparent c = Some (pid p) /\ ptitle c = Some (pid p).

(* "each pull request has at most one integration branch and at most one open integration pull request per
   target [...], named and titled after it" - for every version v, hence for every target beyond the first *)
Definition OneToOne (w : world) : Prop :=
  forall p s, user_open_pr w p s -> forall v,
    (count_name (W v s) (branches w) <= 1)%nat
    /\ (forall c1 c2, integration_pr w v s c1 -> integration_pr w v s c2 -> pid c1 = pid c2)
    /\ (forall c, integration_pr w v s c -> named_after p c).

(* What makes the statement meaningful: w/<v>/<source> is keyed on the source name, so two open pull requests
   may not share a source branch (hypothesis of the partial theorem; the full statement is refuted). *)
Definition DistinctSrc (w : world) : Prop :=
  forall p1 p2 s, In p1 (prs w) -> In p2 (prs w) -> pst p1 = OPEN -> pst p2 = OPEN ->
    psrc p1 = Src s -> psrc p2 = Src s -> pid p1 = pid p2.

(* The host gives distinct ids; a repository has at most one branch of a given name. *)
Definition WellFormed (w : world) : Prop :=
  NoDup (map pid (prs w)) /\ forall n, (count_name n (branches w) <= 1)%nat.

(* Users do not open pull requests from integration branches (robot-owned names, DESIGN 5.0). *)
Definition NoUserW (w : world) : Prop :=
  forall c v s, In c (prs w) -> pst c = OPEN -> psrc c = W v s -> probot c = true.

(* ---- decline: "declines exactly its open integration pull requests and deletes exactly its integration
   branches" - the integration names of p are w/<v>/<s> for the targets v beyond the first *)
Definition beyond_first (ts : list string) : list string := tl ts.

Definition is_integration_pr_b (s : string) (vs : list string) (c : pr) : bool :=
  probot c && is_open c && existsb (fun v => name_eqb (psrc c) (W v s) && name_eqb (pdst c) (Dst v)) vs.

Definition is_integration_name_b (s : string) (vs : list string) (n : name) : bool :=
  existsb (fun v => name_eqb n (W v s)) vs.

Definition spec_after_decline (s : string) (ts : list string) (w : world) : world :=
  mkWorld (map (fun c => if is_integration_pr_b s (beyond_first ts) c then set_st DECLINED c else c) (prs w))
          (filter (fun n => negb (is_integration_name_b s (beyond_first ts) n)) (branches w)).

(* nothing of the first target is around (it never is unless another pull request shares the source) *)
Definition FirstClean (s : string) (ts : list string) (w : world) : Prop :=
  match ts with
  | [] => True
  | v1 :: _ => ~ In (W v1 s) (branches w) /\
               forall c, In c (prs w) -> pst c = OPEN -> psrc c = W v1 s -> pdst c = Dst v1 -> False
  end.

(* ---- merge: "merging it removes them" *)
Definition NoIntegrationBranchLeft (s : string) (vs : list string) (w : world) : Prop :=
  forall v, In v vs -> ~ In (W v s) (branches w).

(* ---- executable form of the invariant (used by the non-vacuity examples and by the monitor) *)
Definition string_of_src (n : name) : option string := match n with Src s => Some s | _ => None end.

Definition is_user_open_b (p : pr) : bool := negb (probot p) && is_open p.

Definition integration_shape_b (s : string) (c : pr) : bool :=
  probot c && is_open c &&
  match psrc c, pdst c with
  | W v s', Dst v' => String.eqb v v' && String.eqb s s'
  | _, _ => false
  end.

Definition named_after_b (p c : pr) : bool :=
  match pparent c, ptitle c with
  | Some a, Some b => Z.eqb a (pid p) && Z.eqb b (pid p)
  | _, _ => false
  end.

Definition one_to_one_b (w : world) : bool :=
  forallb (fun p =>
    match psrc p with
    | Src s =>
      if is_user_open_b p then
        forallb (fun n => match n with
                          | W _ s' => if String.eqb s s' then Nat.leb (count_name n (branches w)) 1 else true
                          | _ => true
                          end) (branches w)
        && forallb (fun c1 => if integration_shape_b s c1 then
             named_after_b p c1 &&
             forallb (fun c2 => if integration_shape_b s c2 && name_eqb (psrc c1) (psrc c2)
                                then Z.eqb (pid c1) (pid c2) else true) (prs w)
             else true) (prs w)
      else true
    | _ => true
    end) (prs w).

Definition distinct_src_b (w : world) : bool :=
  forallb (fun p1 => forallb (fun p2 =>
    if is_open p1 && is_open p2 then
      match psrc p1, psrc p2 with
      | Src s1, Src s2 => if String.eqb s1 s2 then Z.eqb (pid p1) (pid p2) else true
      | _, _ => true
      end
    else true) (prs w)) (prs w).

Fixpoint nodup_Zb (l : list Z) : bool :=
  match l with
  | [] => true
  | z :: t => negb (existsb (Z.eqb z) t) && nodup_Zb t
  end.

Definition well_formed_b (w : world) : bool :=
  nodup_Zb (map pid (prs w)) && forallb (fun n => Nat.leb (count_name n (branches w)) 1) (branches w).

Definition no_user_w_b (w : world) : bool :=
  forallb (fun c => match psrc c with W _ _ => negb (is_open c) || probot c | _ => true end) (prs w).
